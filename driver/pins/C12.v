(* statement pins and axiom audit for C12 (compiled on every check) *)
From ChiaV.Base Require Import Bytes Sha256.
From ChiaV.Gen Require Import Mset.
From ChiaV.Merkle Require Import MerkleSpec MerkleSet MerkleTree.
From ChiaV.Props Require Import C12.
Open Scope N_scope.

Check C12_empty_node_hash : EMPTY_NODE_HASH = sha256 BLANK.
Print Assumptions C12_empty_node_hash.
Check C12_root_is_spec : forall (H : bytes -> bytes) l, Forall leaf32 l ->
  compute_merkle_set_root H l = Ok (spec_root H l).
Print Assumptions C12_root_is_spec.
Check C12_spec_root_of_set : forall (H : bytes -> bytes) l l', Forall leaf32 l ->
  (forall x, In x l <-> In x l') -> spec_root H l = spec_root H l'.
Print Assumptions C12_spec_root_of_set.
Check C12_root_of_set : forall (H : bytes -> bytes) l l', Forall leaf32 l -> Forall leaf32 l' ->
  (forall x, In x l <-> In x l') -> compute_merkle_set_root H l = compute_merkle_set_root H l'.
Print Assumptions C12_root_of_set.
Check C12_tree_root_agrees : forall (H : bytes -> bytes) l, Forall leaf32 l ->
  exists t, from_leafs H l = Ok t /\ get_root H t = compute_merkle_set_root H l.
Print Assumptions C12_tree_root_agrees.
