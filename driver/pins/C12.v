(* statement pins and axiom audit for C12 (compiled on every check) *)
From ChiaV.Base Require Import Bytes Sha256.
From ChiaV.Gen Require Import Mset.
From ChiaV.Merkle Require Import MerkleSpec MerkleSet MerkleTree MerkleProofSpec MerkleExamples MerkleDepth.
From ChiaV.Props Require Import C12.
Open Scope N_scope.

Check C12_empty_node_hash : EMPTY_NODE_HASH = sha256 BLANK.
Print Assumptions C12_empty_node_hash.
Check C12_root_is_spec : forall (H : bytes -> bytes) l, Forall leaf32 l ->
  compute_merkle_set_root H l = Ok (spec_root H l).
Print Assumptions C12_root_is_spec.
Check C12_spec_root_of_set : forall (H : bytes -> bytes) l l', Forall leaf32 l ->
  (forall x, In x l <-> In x l') -> spec_root H l = spec_root H l'.
Print Assumptions C12_spec_root_of_set.
Check C12_root_of_set : forall (H : bytes -> bytes) l l', Forall leaf32 l -> Forall leaf32 l' ->
  (forall x, In x l <-> In x l') -> compute_merkle_set_root H l = compute_merkle_set_root H l'.
Print Assumptions C12_root_of_set.
Check C12_tree_root_agrees : forall (H : bytes -> bytes) l, Forall leaf32 l ->
  exists t, from_leafs H l = Ok t /\ get_root H t = compute_merkle_set_root H l.
Print Assumptions C12_tree_root_agrees.
Check C12_proof_sound : forall (H : bytes -> bytes), (forall m, length (H m) = 32%nat) ->
  forall S x proof root b, Forall leaf32 S -> leaf32 x ->
  compute_merkle_set_root H S = Ok root ->
  validate_merkle_proof H proof x root = Ok b ->
  b = mem x S \/ collision H \/ zero_preimage H.
Print Assumptions C12_proof_sound.
Check C12_sha256_digest_length : forall m, length (sha256 m) = 32%nat.
Print Assumptions C12_sha256_digest_length.
Check C12_proof_complete : forall (H : bytes -> bytes), (forall m, length (H m) = 32%nat) ->
  forall S x, Forall leaf32 S -> leaf32 x ->
  exists t p root, from_leafs H S = Ok t /\ generate_proof t x = Ok (mem x S, p) /\
    compute_merkle_set_root H S = Ok root /\ validate_merkle_proof H p x root = Ok (mem x S).
Print Assumptions C12_proof_complete.
Check C12_example_member : ex_run ex_a = Some (true, true).
Print Assumptions C12_example_member.
Check C12_example_non_member : ex_run ex_x = Some (false, false).
Print Assumptions C12_example_non_member.
Check C12_depth_never_overflows : forall (H : bytes -> bytes) S x, Forall leaf32 S ->
  exists t, from_leafs H S = Ok t /\ generate_proof_chk t x = generate_proof t x.
Print Assumptions C12_depth_never_overflows.
