(* statement pins and axiom audit for C12 (compiled on every check) *)
From ChiaV.Base Require Import Bytes Sha256.
From ChiaV.Gen Require Import Mset.
From ChiaV.Merkle Require Import MerkleSpec MerkleSet MerkleTree.
From ChiaV.Props Require Import C12.
Open Scope N_scope.

Check C12_empty_node_hash : EMPTY_NODE_HASH = sha256 BLANK.
Print Assumptions C12_empty_node_hash.
