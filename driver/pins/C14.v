(* statement pins and axiom audit for C14 (compiled on every check; regenerate BY HAND with driver/mkpins.py) *)
From Coq Require Import String.
From ChiaV.Base Require Import Bytes.
From ChiaV.Stream Require Import Universe Versioned Codec Total ValText TotalProofs.
From ChiaV.Gen Require Import StreamTypes.
Open Scope N_scope.
From ChiaV.Props Require Import C14.
Check C14_decode_never_panics :
  forall O tr t bs a, tdecode O tr t bs a <> TPanic.
Print Assumptions C14_decode_never_panics.
Check C14_from_bytes_never_panics :
  forall O tr t bs, t_from_bytes O tr t bs <> FPanic.
Print Assumptions C14_from_bytes_never_panics.
Check C14_instrumented_refines_decode :
  forall O tr t bs a,
  match tdecode O tr t bs a with
  | TOk v r a' => decode O tr t bs = Some (v, r) /\ a <= a'
  | TErr a' => decode O tr t bs = None /\ a <= a'
  | TPanic => False
  end.
Print Assumptions C14_instrumented_refines_decode.
Check C14_from_bytes_ok_iff :
  forall O tr t bs v,
  (exists a, t_from_bytes O tr t bs = FOk v a) <-> from_bytes_gen O tr t bs = Some v.
Print Assumptions C14_from_bytes_ok_iff.
Check C14_consumed_le_length :
  forall O, prog_len_stable_hyp O -> forall tr t bs a v r a',
  tdecode O tr t bs a = TOk v r a' -> nlen r <= nlen bs.
Print Assumptions C14_consumed_le_length.
Check C14_trailing_bytes_rejected :
  forall O, prog_len_stable_hyp O -> prog_len_pos_hyp O -> forall tr t bs v a extra,
  t_from_bytes O tr t bs = FOk v a -> extra <> [] -> exists a', t_from_bytes O tr t (bs ++ extra) = FErr a'.
Print Assumptions C14_trailing_bytes_rejected.
Check C14_missing_bytes_rejected :
  forall O, prog_len_stable_hyp O -> prog_len_pos_hyp O -> forall tr t bs v a extra,
  t_from_bytes O tr t (bs ++ extra) = FOk v a -> extra <> [] -> exists a', t_from_bytes O tr t bs = FErr a'.
Print Assumptions C14_missing_bytes_rejected.
Check C14_ops_on_decoded_values_total :
  forall O, prog_len_stable_hyp O -> forall tr t bs v r,
  decode O tr t bs = Some (v, r) ->
  (exists e, encode t v = Some e) /\
  (has_bad_pos O t v = false -> exists b, digest O t v = DOk b) /\
  value_eqb v v = true.
Print Assumptions C14_ops_on_decoded_values_total.
Check C14_pos_hash_refuted :
  from_bytes toy_oracles PoS f_c14_1_witness = Some f_c14_1_value /\
  from_bytes_unchecked toy_oracles PoS f_c14_1_witness = Some f_c14_1_value /\
  encode PoS f_c14_1_value = Some f_c14_1_witness /\
  digest toy_oracles PoS f_c14_1_value = DPanic /\ has_bad_pos toy_oracles PoS f_c14_1_value = true.
Print Assumptions C14_pos_hash_refuted.
Check C14_alloc_step_invariant :
  forall O, prog_len_pos_hyp O -> forall tr t bs a,
  match tdecode O tr t bs a with
  | TOk v r a' => nlen r + min_size t <= nlen bs /\ a' <= a + cfac t * (nlen bs - nlen r)
  | TErr a' => a' <= a + cfac t * nlen bs + vdepth t * MiB2
  | TPanic => True
  end.
Print Assumptions C14_alloc_step_invariant.
Check C14_alloc_bounded :
  forall O, prog_len_pos_hyp O -> forall tr t bs,
  meter_of (tdecode O tr t bs 0) + scratch_reserve tr t <= alloc_bound t (nlen bs).
Print Assumptions C14_alloc_bounded.
Check C14_vec_reservation_bounded :
  forall sz n, vec_cap0 sz n * sz <= MiB2 /\ vec_cap0 sz n <= n.
Print Assumptions C14_vec_reservation_bounded.
Check C14_empty_encoding_has_no_size :
  forall t, min_size t = 0 -> mem_size t = 0.
Print Assumptions C14_empty_encoding_has_no_size.
Check C14_proportional_element_count_refuted :
  forall O tr n, n < 2 ^ 32 ->
  decode O tr (Vec (Tup [])) (n2be 4 n) = Some (VList (repeat (VList []) (N.to_nat n)), []).
Print Assumptions C14_proportional_element_count_refuted.
Check C14_no_zero_width_vec_in_translated_types :
  forallb (fun p => vec_elems_consume (snd p)) stream_types = true.
Print Assumptions C14_no_zero_width_vec_in_translated_types.
Check C14_vec_limit_is_translated :
  MiB2 = vec_prealloc_limit_bytes.
Print Assumptions C14_vec_limit_is_translated.
