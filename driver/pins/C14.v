(* statement pins and axiom audit for C14 (compiled on every check) *)
From Coq Require Import String.
From ChiaV.Base Require Import Bytes.
From ChiaV.Stream Require Import Universe Versioned Codec Total.
From ChiaV.Gen Require Import StreamTypes.
From ChiaV.Props Require Import C14.
Open Scope N_scope.

Check C14_from_bytes_consumes_all : forall O tr t bs v a,
  t_from_bytes O tr t bs = FOk v a -> tdecode O tr t bs 0 = TOk v [] a.
Print Assumptions C14_from_bytes_consumes_all.
