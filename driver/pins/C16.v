(* statement pins and axiom audit for C16 (compiled on every check) *)
From ChiaV.Base Require Import Bytes.
From ChiaV.Bls Require Import Algebra Verify Keys Toy.
From ChiaV.Gen Require Import BlsConsts.
From ChiaV.Bls Require Import KeysProofs.
From ChiaV.Props Require Import C16.
Open Scope N_scope.

Check C16_group_order_constant :
  group_order_bytes_value = r_bls.
Print Assumptions C16_group_order_constant.
Check C16_secret_key_roundtrip :
  forall sk : N, sk < r_bls -> sk_from_bytes r_bls (sk_to_bytes sk) = Some sk.
Print Assumptions C16_secret_key_roundtrip.
Check C16_secret_key_parse_exact :
  forall (r : N) (b : bytes) (sk : N),
  sk_from_bytes r b = Some sk <-> length b = 32%nat /\ be2n b = sk /\ (sk = 0 \/ sk < r).
Print Assumptions C16_secret_key_parse_exact.
Check C16_secret_key_encoding_unique :
  forall (r : N) (b : bytes) (sk : N), sk_from_bytes r b = Some sk -> sk_to_bytes sk = b.
Print Assumptions C16_secret_key_encoding_unique.
Check C16_mod_by_group_order :
  forall b : bytes,
  mod_by_group_order b =
  n2be 32 (Z.to_N ((signed_be b mod Z.of_N r_bls + Z.of_N r_bls) mod Z.of_N r_bls)).
Print Assumptions C16_mod_by_group_order.
Check C16_pk_derive_byte_order :
  forall digest : bytes, length digest = 32%nat -> pk_derive_scalar digest = be2n digest.
Print Assumptions C16_pk_derive_byte_order.
Check C16_derive_unhardened_commutes :
  forall (G1 G2 GT : Type) (P : pairing_ops G1 G2 GT), pairing_laws P ->
  forall H : bytes -> bytes, (forall x : bytes, length (H x) = 32%nat) ->
  forall sk idx sk' : N,
  sk_derive_unhardened P H sk idx = Ok sk' -> pk_of P sk' = pk_derive_unhardened P H (pk_of P sk) idx.
Print Assumptions C16_derive_unhardened_commutes.
Check C16_derive_unhardened_outcomes :
  forall (G1 G2 GT : Type) (P : pairing_ops G1 G2 GT) (H : bytes -> bytes) (sk idx : N),
  let d := be2n (derive_digest P H (pk_of P sk) idx) in
  sk_derive_unhardened P H sk idx = Panic /\ (d mod order P = 0 \/ (d mod order P + sk) mod order P = 0) \/
  sk_derive_unhardened P H sk idx = Ok ((d mod order P + sk) mod order P) /\
  d mod order P <> 0 /\ (d mod order P + sk) mod order P <> 0.
Print Assumptions C16_derive_unhardened_outcomes.
Check C16_derive_path_commutes :
  forall (G1 G2 GT : Type) (P : pairing_ops G1 G2 GT), pairing_laws P ->
  forall H : bytes -> bytes, (forall x : bytes, length (H x) = 32%nat) ->
  forall (path : list N) (sk sk' : N),
  sk_derive_path P H sk path = Ok sk' -> pk_derive_path P H (pk_of P sk) path = Ok (pk_of P sk').
Print Assumptions C16_derive_path_commutes.
Check C16_master_to_wallet_unhardened_commutes :
  forall (G1 G2 GT : Type) (P : pairing_ops G1 G2 GT), pairing_laws P ->
  forall H : bytes -> bytes, (forall x : bytes, length (H x) = 32%nat) ->
  forall sk idx sk' : N,
  master_to_wallet_unhardened_sk P H sk idx = Ok sk' ->
  master_to_wallet_unhardened_pk P H (pk_of P sk) idx = Ok (pk_of P sk').
Print Assumptions C16_master_to_wallet_unhardened_commutes.
Check C16_add_commutes :
  forall (G1 G2 GT : Type) (P : pairing_ops G1 G2 GT), pairing_laws P ->
  forall a b : N, pk_of P (sk_add (order P) a b) = gadd (o1 P) (pk_of P a) (pk_of P b).
Print Assumptions C16_add_commutes.
Check C16_synthetic_offset :
  forall (G1 G2 GT : Type) (P : pairing_ops G1 G2 GT) (H : bytes -> bytes),
  order P = group_order_bytes_value ->
  forall (pk : G1) (hidden : bytes),
  synthetic_offset P H pk hidden = Ok (Z.to_N (signed_be (H (enc1 P pk ++ hidden)) mod Z.of_N r_bls)).
Print Assumptions C16_synthetic_offset.
Check C16_synthetic_commutes :
  forall (G1 G2 GT : Type) (P : pairing_ops G1 G2 GT), pairing_laws P ->
  forall H : bytes -> bytes, order P = group_order_bytes_value ->
  forall (sk : N) (hidden : bytes),
  exists s : N, sk_derive_synthetic P H sk hidden = Ok s /\
               pk_derive_synthetic P H (pk_of P sk) hidden = Ok (pk_of P s).
Print Assumptions C16_synthetic_commutes.
Check C16_sign_depends_on_key_mod_r :
  forall (G1 G2 GT : Type) (P : pairing_ops G1 G2 GT), pairing_laws P ->
  forall (sk : N) (m : bytes), sign P (sk mod order P) m = sign P sk m.
Print Assumptions C16_sign_depends_on_key_mod_r.
Check C16_sign_verifies :
  forall (G1 G2 GT : Type) (P : pairing_ops G1 G2 GT), pairing_laws P ->
  forall (sk : N) (m : bytes),
  pk_of P sk <> gzero (o1 P) -> verify P (SIn (sign P sk m)) (pk_of P sk) m = true.
Print Assumptions C16_sign_verifies.
Check C16_sign_additive_in_key :
  forall (G1 G2 GT : Type) (P : pairing_ops G1 G2 GT), pairing_laws P ->
  forall (a b : N) (msg : bytes),
  sign_raw P (sk_add (order P) a b) msg = gadd (o2 P) (sign_raw P a msg) (sign_raw P b msg).
Print Assumptions C16_sign_additive_in_key.
Check C16_pk_checked_subset_of_unchecked_partial :
  forall (C1 : Type) (uncompress1 : bytes -> option C1) (c1_is_inf c1_in_g1 : C1 -> bool) (c1_inf : C1) (b : bytes) (p : C1),
  pk_from_bytes uncompress1 c1_is_inf c1_in_g1 c1_inf b = Some p ->
  pk_from_bytes_unchecked uncompress1 c1_inf b = Some p.
Print Assumptions C16_pk_checked_subset_of_unchecked_partial.
Check C16_pk_checked_only_subgroup_partial :
  forall (C1 : Type) (uncompress1 : bytes -> option C1) (c1_is_inf c1_in_g1 : C1 -> bool) (c1_inf : C1) (b : bytes) (p : C1),
  pk_from_bytes uncompress1 c1_is_inf c1_in_g1 c1_inf b = Some p ->
  c1_is_valid c1_is_inf c1_in_g1 p = true.
Print Assumptions C16_pk_checked_only_subgroup_partial.
Check C16_pk_encoding_unique_partial :
  forall (C1 : Type) (uncompress1 : bytes -> option C1) (compress1 : C1 -> bytes) (c1_inf : C1),
  (forall (b : bytes) (p : C1), uncompress1 b = Some p -> compress1 p = b) ->
  compress1 c1_inf = inf48 ->
  forall (b : bytes) (p : C1), pk_from_bytes_unchecked uncompress1 c1_inf b = Some p -> compress1 p = b.
Print Assumptions C16_pk_encoding_unique_partial.
Check C16_pk_roundtrip_partial :
  forall (C1 : Type) (uncompress1 : bytes -> option C1) (compress1 : C1 -> bytes)
         (c1_is_inf c1_in_g1 : C1 -> bool) (c1_inf : C1),
  (forall p : C1, uncompress1 (compress1 p) = Some p) ->
  (forall p : C1, length (compress1 p) = 48%nat) ->
  (forall p : C1, c1_is_inf p = true -> p = c1_inf) ->
  compress1 c1_inf = inf48 ->
  (forall p : C1, c1_is_inf p = false ->
     match compress1 p with [] => False | b0 :: _ => N.land (b2n b0) 192 = 128 end) ->
  (forall p : C1, c1_is_inf p = false -> c1_in_g1 p = true -> is_all_zero (tl (compress1 p)) = false) ->
  forall p : C1, c1_is_valid c1_is_inf c1_in_g1 p = true ->
  pk_from_bytes uncompress1 c1_is_inf c1_in_g1 c1_inf (compress1 p) = Some p.
Print Assumptions C16_pk_roundtrip_partial.
Check C16_sig_roundtrip_partial :
  forall (C2 : Type) (uncompress2 : bytes -> option C2) (compress2 : C2 -> bytes) (c2_is_inf c2_in_g2 : C2 -> bool),
  (forall p : C2, uncompress2 (compress2 p) = Some p) ->
  (forall p : C2, length (compress2 p) = 96%nat) ->
  forall p : C2, c2_is_valid c2_is_inf c2_in_g2 p = true ->
  sig_from_bytes uncompress2 c2_is_inf c2_in_g2 (compress2 p) = Some p.
Print Assumptions C16_sig_roundtrip_partial.
Check C16_sig_encoding_unique_partial :
  forall (C2 : Type) (uncompress2 : bytes -> option C2) (compress2 : C2 -> bytes),
  (forall (b : bytes) (p : C2), uncompress2 b = Some p -> compress2 p = b) ->
  forall (b : bytes) (p : C2), sig_from_bytes_unchecked uncompress2 b = Some p -> compress2 p = b.
Print Assumptions C16_sig_encoding_unique_partial.
Check C16_sig_checked_only_subgroup_partial :
  forall (C2 : Type) (uncompress2 : bytes -> option C2) (c2_is_inf c2_in_g2 : C2 -> bool) (b : bytes) (p : C2),
  sig_from_bytes uncompress2 c2_is_inf c2_in_g2 b = Some p ->
  c2_is_valid c2_is_inf c2_in_g2 p = true /\ sig_from_bytes_unchecked uncompress2 b = Some p.
Print Assumptions C16_sig_checked_only_subgroup_partial.
Check C16_gt_roundtrip :
  forall g : bytes, length g = gt_size -> gt_from_bytes (gt_to_bytes g) = Some g /\
  (forall b, gt_from_bytes b = Some g -> gt_to_bytes g = b).
Print Assumptions C16_gt_roundtrip.
Check C16_premises_satisfiable :
  pairing_laws toy.
Print Assumptions C16_premises_satisfiable.
Check C16_premises_satisfiable_at_group_order :
  pairing_laws toy_bls /\ order toy_bls = group_order_bytes_value.
Print Assumptions C16_premises_satisfiable_at_group_order.
