(* statement pins and axiom audit for C07 (compiled on every check; regenerate BY HAND with driver/mkpins.py) *)
From ChiaV.Base Require Import Bytes.
From ChiaV.Clvm Require Import Sexp TreeHash.
From ChiaV.Gen Require Import ChainConsts.
From ChiaV.Cond Require Import Model.
From ChiaV.Chain Require Import Backref Rom Generator GeneratorSpec RomProofs GeneratorProofs.
Open Scope N_scope.
From ChiaV.Props Require Import C07.
Check C07_agree :
  forall run valid_key sig_ok H K, run_oracle_ok run H ->
  forall program refs max_cost gf,
    max_cost <= COST_MAX ->
    run_block_generator run valid_key sig_ok H K program refs max_cost gf <> Err CostExceeded ->
    run_block_generator2 run valid_key sig_ok H K program refs max_cost gf <> Err CostExceeded ->
    ((exists s1, run_block_generator run valid_key sig_ok H K program refs max_cost gf = Ok s1) <->
     (exists s2, run_block_generator2 run valid_key sig_ok H K program refs max_cost gf = Ok s2)) /\
    (forall s1 s2, run_block_generator run valid_key sig_ok H K program refs max_cost gf = Ok s1 ->
                   run_block_generator2 run valid_key sig_ok H K program refs max_cost gf = Ok s2 ->
                   same_summary gf s1 s2).
Print Assumptions C07_agree.
Check C07_cost_asymmetry :
  forall run valid_key sig_ok H K, run_oracle_ok run H ->
  forall program refs max_cost gf s2,
    max_cost <= COST_MAX ->
    run_block_generator2 run valid_key sig_ok H K program refs max_cost gf = Ok s2 ->
    run_block_generator run valid_key sig_ok H K program refs max_cost gf = Err CostExceeded \/
    exists s1, run_block_generator run valid_key sig_ok H K program refs max_cost gf = Ok s1 /\ same_summary gf s1 s2.
Print Assumptions C07_cost_asymmetry.
Check C07_spend_tuple_shape :
  forall spend,
  (exists x, extract_5 spend = Ok x) <-> (exists y, rom_destructure spend = Ok y).
Print Assumptions C07_spend_tuple_shape.
Check C07_non_nil_terminator_rom :
  forall run H t, terminator t <> [] -> exists e, recurse run H t = Err e.
Print Assumptions C07_non_nil_terminator_rom.
Check C07_non_nil_terminator_native :
  forall run vk H K fl t ret st m ex sl r s l e' term,
  native_loop run vk H K t ret st m ex sl fl = Ok (r, s, l, e', term) -> term = Atom (terminator t).
Print Assumptions C07_non_nil_terminator_native.
Check C07_spend_budget_independent :
  forall valid_key K fl H retN st parent ph amount conds mL mN c,
  process_single_spend valid_key H K fl VEmpty (erase_b retN) st parent ph amount conds mL 0 <> Err CostExceeded ->
  process_single_spend valid_key H K fl VEmpty retN st parent ph amount conds mN c <> Err CostExceeded ->
  match process_single_spend valid_key H K fl VEmpty (erase_b retN) st parent ph amount conds mL 0,
        process_single_spend valid_key H K fl VEmpty retN st parent ph amount conds mN c return Prop with
  | Ok (rL, sL, lL), Ok (rN, sN, lN) => rL = erase_b rN /\ sL = sN /\ lL <= mL /\ lN <= mN /\ mL - lL = mN - lN
  | Err _, Err _ => True
  | _, _ => False
  end.
Print Assumptions C07_spend_budget_independent.
Check C07_rom_deserializer_is_native_deserializer :
  rom_local_deserialize_mod = DESERIALIZER.
Print Assumptions C07_rom_deserializer_is_native_deserializer.
Check C07_rom_sha256tree_is_tree_hash :
  forall H t, sha256tree H t = th H t.
Print Assumptions C07_rom_sha256tree_is_tree_hash.
Check C07_interned_cost_refuted :
  exists run H, run_oracle_ok run H /\
  exists vk sig K program refs max_cost gf s1 s2,
    g_interned gf = true /\ max_cost <= COST_MAX /\
    run_block_generator run vk sig H K program refs max_cost gf = Ok s1 /\
    run_block_generator2 run vk sig H K program refs max_cost gf = Ok s2 /\
    b_cost (fst (fst s1)) < b_cost (fst (fst s2)).
Print Assumptions C07_interned_cost_refuted.
Check C07_hypotheses_satisfiable :
  exists run H, run_oracle_ok run H /\
  exists vk sig K program refs max_cost gf s1 s2,
    max_cost <= COST_MAX /\
    run_block_generator run vk sig H K program refs max_cost gf = Ok s1 /\
    run_block_generator2 run vk sig H K program refs max_cost gf = Ok s2 /\
    length (snd (fst s1)) = 1%nat /\ b_cost (fst (fst s2)) < b_cost (fst (fst s1)).
Print Assumptions C07_hypotheses_satisfiable.
