(* statement pins and axiom audit for C07 (compiled on every check; regenerate BY HAND with driver/mkpins.py) *)
From ChiaV.Base Require Import Bytes.
From ChiaV.Clvm Require Import Sexp TreeHash.
From ChiaV.Gen Require Import ChainConsts.
From ChiaV.Cond Require Import Model.
From ChiaV.Chain Require Import Backref Rom Generator RomProofs.
Open Scope N_scope.
From ChiaV.Props Require Import C07.
Check C07_rom_deserializer_is_native_deserializer :
  rom_local_deserialize_mod = DESERIALIZER.
Print Assumptions C07_rom_deserializer_is_native_deserializer.
Check C07_rom_sha256tree_is_tree_hash :
  forall H t, sha256tree H t = th H t.
Print Assumptions C07_rom_sha256tree_is_tree_hash.
