(* statement pins and axiom audit for C18 (compiled on every check; regenerate BY HAND with driver/mkpins.py) *)
From Coq Require Import Permutation.
From ChiaV.Base Require Import Bytes Sha256.
From ChiaV.Gen Require Import Dl.
From ChiaV.Dl Require Import Format Map Tree Blob Abs Inv History Spec PreFix FormatProofs Refuted TreeProofs BlobLemmas BlobOps BlobOps6 BlobOps7 BlobHash BlobProof BlobReload BlobIntegrity BlobOps8.
Open Scope N_scope.
From ChiaV.Props Require Import C18.
Check C18_tree_op_refines_map :
  forall H, (forall x, H x <> []) -> forall o ot m,
  tree_refines H ot m ->
  let '(ok1, ot1) := step1 H o ot in
  let '(ok0, m0) := step0 o m in
  ok1 = ok0 /\ tree_refines H ot1 m0 /\ (ok1 = false -> ot1 = ot).
Print Assumptions C18_tree_op_refines_map.
Check C18_tree_history_refines_map :
  forall H, (forall x, H x <> []) -> forall ops,
  tree_refines H (run1 H ops None) (run0 ops []).
Print Assumptions C18_tree_history_refines_map.
Check C18_root_is_recomputation :
  forall H t, twf H t ->
  t_hash (t_rehash H t) = merkle H t /\ twf H (t_rehash H t) /\ t_all_clean (t_rehash H t) = true.
Print Assumptions C18_root_is_recomputation.
Check C18_proofs_valid :
  forall H t k, twf H t -> t_all_clean t = true -> In k (tkeys t) ->
  exists p, t_proof k t = Some p /\ proof_valid H p = true /\ proof_root_hash p = t_hash t /\
            exists v, m_get k (t_kv t) = Some (v, p_node_hash p).
Print Assumptions C18_proofs_valid.
Check C18_history_root_and_proofs :
  forall H, (forall x, H x <> []) -> forall ops,
  let m := run0 ops [] in
  match run1 H (ops ++ [THash]) None with
  | None => m = []
  | Some t =>
      Permutation (t_kv t) m /\ t_hash t = merkle H t /\
      forall k, m_mem k m = true ->
        exists p, t_proof k t = Some p /\ proof_valid H p = true /\ proof_root_hash p = t_hash t /\
                  exists v, m_get k m = Some (v, p_node_hash p)
  end.
Print Assumptions C18_history_root_and_proofs.
Check C18_block_codec :
  forall b, wf_block b ->
  exists bs, encode_block b = Ok bs /\ length bs = N.to_nat BLOCK_SIZE /\ decode_block bs = Ok b.
Print Assumptions C18_block_codec.
Check C18_inv_abs :
  forall H s t, Inv_tree H s t -> abs s = Some (Some (erase t)).
Print Assumptions C18_inv_abs.
Check C18_blob_insert_refines_tree :
  forall H, (forall x, length (H x) = HASH_BYTES) ->
  forall s ot k v h loc,
  Abs H s ot -> in_range k v h -> room s ->
  step_ok H (OInsert k v h loc) s ot (op_to_top s (OInsert k v h loc)).
Print Assumptions C18_blob_insert_refines_tree.
Check C18_blob_delete_refines_tree :
  forall H s ot k,
  Abs H s ot -> step_ok H (ODelete k) s ot (TDelete k).
Print Assumptions C18_blob_delete_refines_tree.
Check C18_blob_upsert_refines_tree :
  forall H, (forall x, length (H x) = HASH_BYTES) ->
  forall s ot k v h,
  Abs H s ot -> in_range k v h -> room s -> step_ok H (OUpsert k v h) s ot (TUpsert k v h).
Print Assumptions C18_blob_upsert_refines_tree.
Check C18_blob_batch_rejects_duplicates :
  forall H s ot items,
  Abs H s ot -> m_batch items (ot_kv ot) = None ->
  exists e, step2 H (OBatch items) s = (Err e, s) /\ step1 H (TBatch items) ot = (false, ot).
Print Assumptions C18_blob_batch_rejects_duplicates.
Check C18_blob_content_is_map :
  forall H s ot m, Abs H s ot -> tree_refines H ot m -> content_is s m.
Print Assumptions C18_blob_content_is_map.
Check C18_blob_hash_refines_tree :
  forall H, (forall x, length (H x) = HASH_BYTES) ->
  forall s ot, Abs H s ot -> step_ok H OHash s ot THash.
Print Assumptions C18_blob_hash_refines_tree.
Check C18_blob_root_after_hashing :
  forall H, (forall x, length (H x) = HASH_BYTES) ->
  forall s t s', Inv_tree H s t -> calculate_lazy_hashes H s = (Ok tt, s') ->
  get_hash_at_index s' 0 = Ok (Some (merkle H (erase t))) /\
  abs s' = Some (Some (t_rehash H (erase t))) /\ t_all_clean (t_rehash H (erase t)) = true.
Print Assumptions C18_blob_root_after_hashing.
Check C18_blob_proof_is_tree_proof :
  forall H s t k,
  Inv_tree H s t -> t_all_clean (erase t) = true -> In k (it_keys t) ->
  exists p, get_proof_of_inclusion s k = Ok p /\ t_proof k (erase t) = Some p.
Print Assumptions C18_blob_proof_is_tree_proof.
Check C18_blob_check_integrity_ok :
  forall H, (forall x, length (H x) = HASH_BYTES) ->
  forall s t, Inv_tree H s t -> check_integrity H s = Ok tt.
Print Assumptions C18_blob_check_integrity_ok.
Check C18_blob_reload_equivalent :
  forall H s t, Inv_tree H s t ->
  exists s', reload (bytes_of_blocks (blocks s)) = Ok s' /\ blob_equiv s s' /\ Inv_tree H s' t.
Print Assumptions C18_blob_reload_equivalent.
Check C18_blob_batch_refines_tree :
  forall H, (forall x, length (H x) = HASH_BYTES) ->
  forall s ot m items m',
  Abs H s ot -> tree_refines H ot m -> op_in_range (OBatch items) -> room_for (OBatch items) s ->
  m_batch items m = Some m' -> step_ok H (OBatch items) s ot (TBatch items).
Print Assumptions C18_blob_batch_refines_tree.
Check C18_blob_history_refines_map :
  forall H, (forall x, length (H x) = HASH_BYTES) -> forall ops,
  Forall op_in_range ops -> rooms H ops empty_blob ->
  let '(s', m', fine) := run_joint H ops empty_blob [] in
  fine = true /\ Inv H s' /\ good_state H s' m' /\
  exists ot', Abs H s' ot' /\ abs s' = Some ot' /\ tree_refines H ot' m'.
Print Assumptions C18_blob_history_refines_map.
Check C18_blob_history_refines_map_partial :
  forall H, (forall x, length (H x) = HASH_BYTES) -> forall ops,
  Forall op_in_range ops -> rooms H ops empty_blob ->
  let '(s', m', fine) := run_joint H ops empty_blob [] in
  fine = true /\ Inv H s' /\ good_state H s' m' /\
  exists ot', Abs H s' ot' /\ abs s' = Some ot' /\ tree_refines H ot' m'.
Print Assumptions C18_blob_history_refines_map_partial.
Check C18_invariant_inhabited :
  exists s t, Inv_tree sha256 s t /\ abs s = Some (Some (erase t)).
Print Assumptions C18_invariant_inhabited.
Check C18_prefix_batch_duplicate_refuted :
  (let '(x, s) := batch_insert_pre sha256 w_batch_dup empty_blob in
   is_ok x = true /\ check_integrity sha256 s <> Ok tt) /\
  exists e, batch_insert sha256 w_batch_dup empty_blob = (Err e, empty_blob).
Print Assumptions C18_prefix_batch_duplicate_refuted.
Check C18_prefix_upsert_other_hash_refuted :
  let s3 := run2 sha256 w_three empty_blob in
  check_integrity sha256 s3 = Ok tt /\
  (let '(x, s) := upsert_pre sha256 1 5 (hh 2) s3 in
   is_ok x = true /\ check_integrity sha256 s <> Ok tt /\ is_ok (reload (bytes_of_blocks (blocks s))) = false) /\
  exists e, upsert sha256 1 5 (hh 2) s3 = (Err e, s3).
Print Assumptions C18_prefix_upsert_other_hash_refuted.
Check C18_prefix_batch_not_atomic_refuted :
  (let '(x, s) := batch_insert_pre sha256 w_batch_partial empty_blob in
   is_ok x = false /\ blocks s <> blocks empty_blob) /\
  exists e, batch_insert sha256 w_batch_partial empty_blob = (Err e, empty_blob).
Print Assumptions C18_prefix_batch_not_atomic_refuted.
Check C18_prefix_stale_index_refuted :
  let s3 := run2 sha256 w_two_minus_one empty_blob in
  get_keys_values s3 = Ok [(1, 1)] /\
  (let '(x, s) := insert_pre sha256 3 3 (hh 3) (LLeaf 2 SLeft) s3 in
   is_ok x = true /\ get_keys_values s = Ok [(2, 2); (3, 3)]) /\
  exists e, insert sha256 3 3 (hh 3) (LLeaf 2 SLeft) s3 = (Err e, s3).
Print Assumptions C18_prefix_stale_index_refuted.
