(* statement pins and axiom audit for C18 (compiled on every check) *)
From ChiaV.Base Require Import Bytes Sha256.
From ChiaV.Gen Require Import Dl.
From ChiaV.Dl Require Import Format Map Tree Blob Abs History Spec.
From ChiaV.Props Require Import C18.
Open Scope N_scope.

Check C18_batch_duplicate_refuted :
  exists items, known_top [] (TBatch items) = true /\
    let '(x, s) := step2 sha256 (OBatch items) empty_blob in
    is_ok x = true /\ check_integrity sha256 s <> Ok tt.
Print Assumptions C18_batch_duplicate_refuted.
Check C18_upsert_other_hash_refuted :
  exists ops, known_hist2 sha256 ops empty_blob [] = true /\
    let s3 := run2 sha256 (removelast ops) empty_blob in
    let '(x, s) := step2 sha256 (last ops OHash) s3 in
    check_integrity sha256 s3 = Ok tt /\ is_ok x = true /\
    check_integrity sha256 s <> Ok tt /\ is_ok (reload (bytes_of_blocks (blocks s))) = false.
Print Assumptions C18_upsert_other_hash_refuted.
Check C18_batch_not_atomic_refuted :
  exists o, known_top [] (match op_to_top empty_blob o with Some t => t | None => THash end) = true /\
    let '(x, s) := step2 sha256 o empty_blob in
    is_ok x = false /\ blocks s <> blocks empty_blob.
Print Assumptions C18_batch_not_atomic_refuted.
Check C18_stale_index_refuted :
  exists ops, known_hist2 sha256 ops empty_blob [] = true /\
    let s3 := run2 sha256 (removelast ops) empty_blob in
    let '(x, s) := step2 sha256 (last ops OHash) s3 in
    get_keys_values s3 = Ok [(1, 1)] /\ is_ok x = true /\
    get_keys_values s = Ok [(2, 2); (3, 3)].
Print Assumptions C18_stale_index_refuted.
