(* statement pins and axiom audit for C18 (compiled on every check) *)
From Coq Require Import Permutation.
From ChiaV.Base Require Import Bytes Sha256.
From ChiaV.Gen Require Import Dl.
From ChiaV.Dl Require Import Format Map Tree Blob Abs Inv History Spec FormatProofs BlobLemmas BlobOps.
From ChiaV.Props Require Import C18.
Open Scope N_scope.

Check C18_tree_op_refines_map : forall H, (forall x, H x <> []) -> forall o ot m,
  tree_refines H ot m -> known_top m o = false ->
  let '(ok1, ot1) := step1 H o ot in
  let '(ok0, m0) := step0 o m in
  ok1 = ok0 /\ tree_refines H ot1 m0 /\ (ok1 = false -> ot1 = ot).
Print Assumptions C18_tree_op_refines_map.
Check C18_tree_history_refines_map : forall H, (forall x, H x <> []) -> forall ops,
  known_hist ops [] = false -> tree_refines H (run1 H ops None) (run0 ops []).
Print Assumptions C18_tree_history_refines_map.
Check C18_root_is_recomputation : forall H t, twf H t ->
  t_hash (t_rehash H t) = merkle H t /\ twf H (t_rehash H t) /\ t_all_clean (t_rehash H t) = true.
Print Assumptions C18_root_is_recomputation.
Check C18_proofs_valid : forall H t k, twf H t -> t_all_clean t = true -> In k (tkeys t) ->
  exists p, t_proof k t = Some p /\ proof_valid H p = true /\ proof_root_hash p = t_hash t /\
            exists v, m_get k (t_kv t) = Some (v, p_node_hash p).
Print Assumptions C18_proofs_valid.
Check C18_history_root_and_proofs : forall H, (forall x, H x <> []) -> forall ops,
  known_hist ops [] = false ->
  let m := run0 ops [] in
  match run1 H (ops ++ [THash]) None with
  | None => m = []
  | Some t =>
      Permutation (t_kv t) m /\ t_hash t = merkle H t /\
      forall k, m_mem k m = true ->
        exists p, t_proof k t = Some p /\ proof_valid H p = true /\ proof_root_hash p = t_hash t /\
                  exists v, m_get k m = Some (v, p_node_hash p)
  end.
Print Assumptions C18_history_root_and_proofs.
Check C18_block_codec : forall b, wf_block b ->
  exists bs, encode_block b = Ok bs /\ length bs = N.to_nat BLOCK_SIZE /\ decode_block bs = Ok b.
Print Assumptions C18_block_codec.
Check C18_inv_abs : forall H s t, Inv_tree H s t -> abs s = Some (Some (erase t)).
Print Assumptions C18_inv_abs.
Check C18_blob_mark_lineage : forall c s hole fuel,
  ctx_rep s c hole -> closed c -> blen_ok s -> NoDup (ctx_indices c) -> hole < 2 ^ 32 -> Forall wf_frame c ->
  (forall f, In f c -> ~ In (fr_idx f) (free s)) ->
  (length c < fuel)%nat ->
  match c with
  | [] => True
  | f :: _ =>
      exists s', mark_lineage fuel (fr_idx f) s = (Ok tt, s') /\
        ctx_rep s' (map set_dirty c) hole /\
        (forall j, ~ In j (map fr_idx c) -> get_block s' j = get_block s j) /\
        nblocks s' = nblocks s /\ blen_ok s' /\ free s' = free s /\ k2i s' = k2i s /\ h2i s' = h2i s
  end.
Print Assumptions C18_blob_mark_lineage.
Check C18_blob_upsert_refines_tree : forall H s t k v h,
  Inv_tree H s t -> v < 2 ^ 64 -> length h = HASH_BYTES ->
  In k (it_keys t) ->
  (forall i' k' v', In (i', k', v', h) (it_leaves t) -> k' = k) ->
  exists s' t', upsert H k v h s = (Ok tt, s') /\ Inv_tree H s' t' /\
    t_upsert H k v h (Some (erase t)) = (true, Some (erase t')).
Print Assumptions C18_blob_upsert_refines_tree.
Check C18_blob_insert_first_refines_tree : forall H k v h loc,
  k < 2 ^ 64 -> v < 2 ^ 64 -> length h = HASH_BYTES -> loc = LAuto \/ loc = LRoot ->
  exists s', insert H k v h loc empty_blob = (Ok 0, s') /\ Inv_tree H s' (ILeaf 0 k v h) /\
    t_insert H k v h (match loc with LAuto => TAuto | _ => TRoot end) None = (true, Some (erase (ILeaf 0 k v h))).
Print Assumptions C18_blob_insert_first_refines_tree.
Check C18_blob_delete_last_refines_tree : forall H s i k v h,
  Inv_tree H s (ILeaf i k v h) ->
  delete k s = (Ok tt, empty_blob) /\ t_delete k (Some (erase (ILeaf i k v h))) = (true, None).
Print Assumptions C18_blob_delete_last_refines_tree.
Check C18_blob_history_refines_map_partial : forall H s t k v h,
  Inv_tree H s t -> v < 2 ^ 64 -> length h = HASH_BYTES -> In k (it_keys t) ->
  (forall i' k' v', In (i', k', v', h) (it_leaves t) -> k' = k) ->
  exists s' t', step2 H (OUpsert k v h) s = (Ok None, s') /\ Inv_tree H s' t' /\
    abs s = Some (Some (erase t)) /\ abs s' = Some (Some (erase t')) /\
    step1 H (TUpsert k v h) (Some (erase t)) = (true, Some (erase t')).
Print Assumptions C18_blob_history_refines_map_partial.
Check C18_invariant_inhabited : exists s t, Inv_tree sha256 s t /\ abs s = Some (Some (erase t)).
Print Assumptions C18_invariant_inhabited.
Check C18_batch_duplicate_refuted :
  exists items, known_top [] (TBatch items) = true /\
    let '(x, s) := step2 sha256 (OBatch items) empty_blob in
    is_ok x = true /\ check_integrity sha256 s <> Ok tt.
Print Assumptions C18_batch_duplicate_refuted.
Check C18_upsert_other_hash_refuted :
  exists ops, known_hist2 sha256 ops empty_blob [] = true /\
    let s3 := run2 sha256 (removelast ops) empty_blob in
    let '(x, s) := step2 sha256 (last ops OHash) s3 in
    check_integrity sha256 s3 = Ok tt /\ is_ok x = true /\
    check_integrity sha256 s <> Ok tt /\ is_ok (reload (bytes_of_blocks (blocks s))) = false.
Print Assumptions C18_upsert_other_hash_refuted.
Check C18_batch_not_atomic_refuted :
  exists o, known_top [] (match op_to_top empty_blob o with Some t => t | None => THash end) = true /\
    let '(x, s) := step2 sha256 o empty_blob in
    is_ok x = false /\ blocks s <> blocks empty_blob.
Print Assumptions C18_batch_not_atomic_refuted.
Check C18_stale_index_refuted :
  exists ops, known_hist2 sha256 ops empty_blob [] = true /\
    let s3 := run2 sha256 (removelast ops) empty_blob in
    let '(x, s) := step2 sha256 (last ops OHash) s3 in
    get_keys_values s3 = Ok [(1, 1)] /\ is_ok x = true /\
    get_keys_values s = Ok [(2, 2); (3, 3)].
Print Assumptions C18_stale_index_refuted.
