(* statement pins and axiom audit for C09 (compiled on every check; regenerate BY HAND with driver/mkpins.py) *)
From Coq Require Import Permutation.
From ChiaV.Base Require Import Bytes.
From ChiaV.Clvm Require Import Sexp TreeHash.
From ChiaV.Gen Require Import Opcodes ChainConsts.
From ChiaV.Cond Require Import Model.
From ChiaV.Chain Require Import Backref Rom Generator GeneratorSpec Trusted TrustedSpec TrustedProofs TrustedRebuildProofs.
From ChiaV.Chain Require Import TrustedOrderSpec TrustedOrderProofs.
Open Scope N_scope.
From ChiaV.Props Require Import C09.
Check C09_additions_and_removals :
  forall run valid_key sig_ok H K, run_exact_hyp run ->
  forall program refs max_cost gf b spends pairs,
    run_block_generator2 run valid_key sig_ok H K program refs max_cost gf = Ok (b, spends, pairs) ->
    max_cost <= MAX_BLOCK_COST_CLVM ->
    additions_and_removals run H program refs gf =
      Ok (concat (map expected_additions spends), map removal_of spends).
Print Assumptions C09_additions_and_removals.
Check C09_no_empty_hint :
  forall run H program refs gf adds rems,
  additions_and_removals run H program refs gf = Ok (adds, rems) -> Forall hint_nonempty adds.
Print Assumptions C09_no_empty_hint.
Check C09_additions_per_spend :
  forall run valid_key sig_ok H K, run_exact_hyp run ->
  forall program refs max_cost gf b spends pairs,
    run_block_generator2 run valid_key sig_ok H K program refs max_cost gf = Ok (b, spends, pairs) ->
    max_cost <= MAX_BLOCK_COST_CLVM ->
    exists groups,
      additions_and_removals run H program refs gf = Ok (concat groups, map removal_of spends) /\
      Forall2 group_ok spends groups.
Print Assumptions C09_additions_per_spend.
Check C09_empty_memo_example :
  exists run H, run_exact_hyp run /\
  exists vk sig K program refs max_cost gf b spends pairs adds rems,
    max_cost <= MAX_BLOCK_COST_CLVM /\
    run_block_generator2 run vk sig H K program refs max_cost gf = Ok (b, spends, pairs) /\
    additions_and_removals run H program refs gf = Ok (adds, rems) /\
    map snd adds = [None] /\ adds = concat (map expected_additions spends).
Print Assumptions C09_empty_memo_example.
Check C09_lookup :
  forall run valid_key sig_ok H K program refs max_cost gf b spends pairs,
  run_block_generator2 run valid_key sig_ok H K program refs max_cost gf = Ok (b, spends, pairs) ->
  exists out iter,
    native_generator_output run program refs max_cost gf = Ok out /\ first out = Ok iter /\
    Forall2 (fun sp t => let '(_, pz, _, sol) := t in
                         get_puzzle_and_solution_for_coin H out (snd (removal_of sp)) = Ok (pz, sol))
            spends (spend_tuples iter).
Print Assumptions C09_lookup.
Check C09_lookup_extras_example :
  exists run H, run_exact_hyp run /\
  exists vk sig K program refs max_cost gf b sp pairs out ps,
    run_block_generator2 run vk sig H K program refs max_cost gf = Ok (b, [sp], pairs) /\
    native_generator_output run program refs max_cost gf = Ok out /\
    get_puzzle_and_solution_for_coin H out (snd (removal_of sp)) = Ok ps.
Print Assumptions C09_lookup_extras_example.
Check C09_coin_spends :
  forall run valid_key sig_ok H K, run_exact_hyp run ->
  forall program refs max_cost gf b spends pairs,
    run_block_generator2 run valid_key sig_ok H K program refs max_cost gf = Ok (b, spends, pairs) ->
    max_cost <= MAX_BLOCK_COST_CLVM ->
    exists out iter,
      native_generator_output run program refs max_cost gf = Ok out /\ first out = Ok iter /\
      length spends = length (spend_tuples iter) /\
      get_coinspends_for_trusted_block run H program refs gf =
        Ok (map (fun st => coin_spend_of_tuple (fst st) (snd st)) (combine spends (spend_tuples iter))).
Print Assumptions C09_coin_spends.
Check C09_example :
  exists run H, run_exact_hyp run /\
  exists vk sig K program refs max_cost gf b spends pairs adds,
    max_cost <= MAX_BLOCK_COST_CLVM /\
    run_block_generator2 run vk sig H K program refs max_cost gf = Ok (b, spends, pairs) /\
    additions_and_removals run H program refs gf = Ok (adds, map removal_of spends) /\
    map snd adds = [Some (repeat x33 32)].
Print Assumptions C09_example.
Check C09_rebuild :
  forall run valid_key sig_ok H K, run_exact_hyp run -> run_quote_hyp run ->
  forall program refs max_cost gf b spends pairs,
    run_block_generator2 run valid_key sig_ok H K program refs max_cost gf = Ok (b, spends, pairs) ->
    max_cost <= MAX_BLOCK_COST_CLVM ->
    exists out iter cs,
      native_generator_output run program refs max_cost gf = Ok out /\ first out = Ok iter /\
      get_coinspends_for_trusted_block run H program refs gf = Ok cs /\
      (Forall fits_tuple (spend_tuples iter) ->
       build_generator (rev cs) = Some (rebuilt_generator iter) /\
       forall program' max_cost',
         solution_generator (rev cs) = Some program' ->
         match run_block_generator2 run valid_key sig_ok H K program' [] max_cost' gf return Prop with
         | Ok s' => neutral s' = neutral (b, spends, pairs)
         | Err e => e = CostExceeded
         end).
Print Assumptions C09_rebuild.
Check C09_build_generator_reverses :
  forall l items,
  Forall2 (fun c it => spend_item c = Some it) l items ->
  forall acc, prepend_spends l acc = Some (fold_right Pair acc (rev items)).
Print Assumptions C09_build_generator_reverses.
Check C09_rebuild_in_order :
  forall run valid_key sig_ok H K,
  run_intrinsic_hyp run -> run_quote_exact_hyp run ->
  (forall l l' : list (bytes * bytes), Permutation l l' -> sig_ok l = sig_ok l') ->
  forall program refs max_cost gf b spends pairs,
    run_block_generator2 run valid_key sig_ok H K program refs max_cost gf = Ok (b, spends, pairs) ->
    max_cost <= MAX_BLOCK_COST_CLVM ->
    g_interned gf = false -> N.of_nat (length spends) <= MAX_SPENDS_PER_BLOCK ->
    exists out iter cs,
      native_generator_output run program refs max_cost gf = Ok out /\ first out = Ok iter /\
      get_coinspends_for_trusted_block run H program refs gf = Ok cs /\
      (Forall fits_tuple (spend_tuples iter) ->
       forall pF pR m,
         solution_generator cs = Some pF -> solution_generator (rev cs) = Some pR ->
         match run_block_generator2 run valid_key sig_ok H K pF [] (m + REBUILD_OVERHEAD) gf,
               run_block_generator2 run valid_key sig_ok H K pR [] (m + REBUILD_OVERHEAD) gf return Prop with
         | Ok sF, Ok sR => reversed_summary sF sR /\ neutral sR = neutral (b, spends, pairs) /\
                           reversed_of_original sF (b, spends, pairs)
         | Err _, Err eR => eR = CostExceeded
         | _, _ => False
         end).
Print Assumptions C09_rebuild_in_order.
Check C09_intrinsic_implies_exact :
  forall run, run_intrinsic_hyp run -> run_exact_hyp run.
Print Assumptions C09_intrinsic_implies_exact.
Check C09_quote_exact_implies_quote :
  forall run, run_quote_exact_hyp run -> run_quote_hyp run.
Print Assumptions C09_quote_exact_implies_quote.
Check C09_rebuild_in_order_example :
  exists run H, run_oracle_ok run H /\ run_intrinsic_hyp run /\ run_quote_exact_hyp run /\
  exists vk sig K program max_cost gf b spends pairs cs pF sF m,
    (forall l l' : list (bytes * bytes), Permutation l l' -> sig l = sig l') /\
    run_block_generator2 run vk sig H K program [] max_cost gf = Ok (b, spends, pairs) /\
    length spends = 2%nat /\
    get_coinspends_for_trusted_block run H program [] gf = Ok cs /\
    solution_generator cs = Some pF /\ pF <> program /\
    run_block_generator2 run vk sig H K pF [] (m + REBUILD_OVERHEAD) gf = Ok sF /\
    reversed_of_original sF (b, spends, pairs) /\
    map erase_flags (map erase_s (snd (fst sF))) <> map erase_flags (map erase_s spends).
Print Assumptions C09_rebuild_in_order_example.
Check C09_spend_bundle_additions :
  forall run valid_key sig_ok H K, run_exact_hyp run ->
  forall program refs max_cost gf b spends pairs,
    run_block_generator2 run valid_key sig_ok H K program refs max_cost gf = Ok (b, spends, pairs) ->
    max_cost <= MAX_BLOCK_COST_CLVM ->
    f_no_unknown (g_cond gf) = true ->
    exists out iter cs,
      native_generator_output run program refs max_cost gf = Ok out /\ first out = Ok iter /\
      get_coinspends_for_trusted_block run H program refs gf = Ok cs /\
      (Forall fits_tuple (spend_tuples iter) ->
       match spend_bundle_additions run H cs return Prop with
       | Ok coins => coins = map fst (concat (map expected_additions spends))
       | Err e => e = CostExceeded
       end).
Print Assumptions C09_spend_bundle_additions.
Check C09_coin_spends_with_conditions :
  forall run valid_key sig_ok H K, run_exact_hyp run ->
  forall program refs max_cost gf b spends pairs,
    run_block_generator2 run valid_key sig_ok H K program refs max_cost gf = Ok (b, spends, pairs) ->
    max_cost <= MAX_BLOCK_COST_CLVM ->
    exists out iter,
      native_generator_output run program refs max_cost gf = Ok out /\ first out = Ok iter /\
      get_coinspends_with_conditions_for_trusted_block run H program refs gf =
        Ok (map (csc_of run) (combine spends (spend_tuples iter))).
Print Assumptions C09_coin_spends_with_conditions.
Check C09_rebuild_example :
  exists run H, run_exact_hyp run /\ run_quote_hyp run /\
  exists vk sig K program refs max_cost gf b spends pairs cs program' s',
    run_block_generator2 run vk sig H K program refs max_cost gf = Ok (b, spends, pairs) /\
    get_coinspends_for_trusted_block run H program refs gf = Ok cs /\
    solution_generator (rev cs) = Some program' /\ program' <> program /\
    run_block_generator2 run vk sig H K program' [] max_cost gf = Ok s' /\
    neutral s' = neutral (b, spends, pairs) /\
    spend_bundle_additions run H cs = Ok (map fst (concat (map expected_additions spends))) /\
    length (concat (map expected_additions spends)) = 1%nat.
Print Assumptions C09_rebuild_example.
