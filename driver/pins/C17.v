(* statement pins and axiom audit for C17 (compiled on every check) *)
From ChiaV.Base Require Import Bytes Sha256.
From ChiaV.Clvm Require Import Sexp Ints TreeHash.
From ChiaV.Gen Require Import Precomputed CurryFF.
From ChiaV.Thash Require Import Heap Mirror Curry DeBr PrecomputedProofs.
From ChiaV.Props Require Import C17.
Open Scope N_scope.

Check C17_precomputed_table_24 :
  length precomputed_hashes = 24%nat /\
  forall i : N, i < 24 -> nth (N.to_nat i) precomputed_hashes [] = sha256 (x01 :: canon_n i).
Print Assumptions C17_precomputed_table_24.
Check C17_small_atom_table_use : forall v : N,
  small_atom_hash sha256 v = th sha256 (Atom (canon_n v)).
Print Assumptions C17_small_atom_table_use.
Check C17_tree_hash_stack : forall (H : bytes -> bytes), table_ok H ->
  forall h n fuel, wf h -> valid h n -> (2 * node_count (den h n) <= fuel)%nat ->
  tree_hash_stack H fuel h n = Ok (th H (den h n)).
Print Assumptions C17_tree_hash_stack.
Check C17_tree_hash_stack_sha256 : forall h n fuel,
  wf h -> valid h n -> (2 * node_count (den h n) <= fuel)%nat ->
  tree_hash_stack sha256 fuel h n = Ok (th sha256 (den h n)).
Print Assumptions C17_tree_hash_stack_sha256.
Check C17_tree_hash_stack_any_fuel : forall (H : bytes -> bytes), table_ok H ->
  forall h n fuel, wf h -> valid h n ->
  tree_hash_stack H fuel h n = OutOfFuel \/ tree_hash_stack H fuel h n = Ok (th H (den h n)).
Print Assumptions C17_tree_hash_stack_any_fuel.
Check C17_curry_tree_hash : forall (H : bytes -> bytes) p args,
  curry_tree_hash H (th H p) (map (th H) args) = th H (curried_program p args).
Print Assumptions C17_curry_tree_hash.
Check C17_ff_curry_and_treehash : forall (H : bytes -> bytes) mod_tree inner mod_hash launcher_id launcher_puzzle_hash,
  th H mod_tree = mod_hash ->
  ff_curry_and_treehash H (th H inner) mod_hash launcher_id launcher_puzzle_hash
  = th H (singleton_puzzle mod_tree inner mod_hash launcher_id launcher_puzzle_hash).
Print Assumptions C17_ff_curry_and_treehash.
