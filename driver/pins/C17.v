(* statement pins and axiom audit for C17 (compiled on every check) *)
From ChiaV.Base Require Import Bytes Sha256.
From ChiaV.Clvm Require Import Sexp Ints TreeHash.
From ChiaV.Gen Require Import Precomputed CurryFF.
From ChiaV.Thash Require Import Heap Mirror Curry DeBr PrecomputedProofs CacheProofs Examples.
From ChiaV.Props Require Import C17.
Open Scope N_scope.

Check C17_precomputed_table_24 :
  length precomputed_hashes = 24%nat /\
  forall i : N, i < 24 -> nth (N.to_nat i) precomputed_hashes [] = sha256 (x01 :: canon_n i).
Print Assumptions C17_precomputed_table_24.
Check C17_small_atom_table_use :
  forall v : N,
  small_atom_hash sha256 v = th sha256 (Atom (canon_n v)).
Print Assumptions C17_small_atom_table_use.
Check C17_tree_hash_stack :
  forall (H : bytes -> bytes), table_ok H ->
  forall h n fuel, wf h -> valid h n -> (2 * node_count (den h n) <= fuel)%nat ->
  tree_hash_stack H fuel h n = Ok (th H (den h n)).
Print Assumptions C17_tree_hash_stack.
Check C17_tree_hash_stack_sha256 :
  forall h n fuel,
  wf h -> valid h n -> (2 * node_count (den h n) <= fuel)%nat ->
  tree_hash_stack sha256 fuel h n = Ok (th sha256 (den h n)).
Print Assumptions C17_tree_hash_stack_sha256.
Check C17_tree_hash_stack_any_fuel :
  forall (H : bytes -> bytes), table_ok H ->
  forall h n fuel, wf h -> valid h n ->
  tree_hash_stack H fuel h n = OutOfFuel \/ tree_hash_stack H fuel h n = Ok (th H (den h n)).
Print Assumptions C17_tree_hash_stack_any_fuel.
Check C17_curry_tree_hash :
  forall (H : bytes -> bytes) p args,
  curry_tree_hash H (th H p) (map (th H) args) = th H (curried_program p args).
Print Assumptions C17_curry_tree_hash.
Check C17_ff_curry_and_treehash :
  forall (H : bytes -> bytes) mod_tree inner mod_hash launcher_id launcher_puzzle_hash,
  th H mod_tree = mod_hash ->
  ff_curry_and_treehash H (th H inner) mod_hash launcher_id launcher_puzzle_hash
  = th H (singleton_puzzle mod_tree inner mod_hash launcher_id launcher_puzzle_hash).
Print Assumptions C17_ff_curry_and_treehash.
Check C17_tree_hash_cached_any_history :
  forall (H : bytes -> bytes), table_ok H ->
  forall h c n fuel, reachable H h c -> valid h n ->
  (length (h_pairs h) + 2 * node_count (den h n) <= fuel)%nat ->
  exists c', tree_hash_cached H fuel h n c = Ok (th H (den h n), c') /\ reachable H h c'.
Print Assumptions C17_tree_hash_cached_any_history.
Check C17_tree_hash_cached_any_history_sha256 :
  forall h c n fuel,
  reachable sha256 h c -> valid h n ->
  (length (h_pairs h) + 2 * node_count (den h n) <= fuel)%nat ->
  exists c', tree_hash_cached sha256 fuel h n c = Ok (th sha256 (den h n), c') /\ reachable sha256 h c'.
Print Assumptions C17_tree_hash_cached_any_history_sha256.
Check C17_tree_hash_cached_any_fuel :
  forall (H : bytes -> bytes), table_ok H ->
  forall h c n fuel, reachable H h c -> valid h n ->
  match tree_hash_cached H fuel h n c with
  | Ok (x, _) => x = th H (den h n)
  | Panic => False
  | OutOfFuel => True
  end.
Print Assumptions C17_tree_hash_cached_any_fuel.
Check C17_tree_hash_cached_invariant :
  forall (H : bytes -> bytes), table_ok H ->
  forall h n c fuel, wf h -> valid h n -> cache_ok H h c ->
  (length (h_pairs h) + 2 * node_count (den h n) <= fuel)%nat ->
  exists c', tree_hash_cached H fuel h n c = Ok (th H (den h n), c') /\ cache_ok H h c'.
Print Assumptions C17_tree_hash_cached_invariant.
Check C17_visit_tree :
  forall (H : bytes -> bytes) h n c fuel,
  wf h -> valid h n -> cache_ok H h c -> (length (h_pairs h) <= fuel)%nat ->
  exists c', visit_tree fuel h n c = Ok c' /\ cache_ok H h c'.
Print Assumptions C17_visit_tree.
Check C17_tree_hash_from_bytes :
  forall (H : bytes -> bytes), table_ok H ->
  forall bs t fuel, deser_br bs = DOk t ->
  (4 * length bs + 4 + 2 * node_count t <= fuel)%nat ->
  tree_hash_from_bytes H fuel bs = FOk (th H t).
Print Assumptions C17_tree_hash_from_bytes.
Check C17_tree_hash_from_bytes_plain :
  forall (H : bytes -> bytes), table_ok H ->
  forall bs t rest fuel, deser bs = Some (t, rest) ->
  (4 * length bs + 4 + 2 * node_count t <= fuel)%nat ->
  tree_hash_from_bytes H fuel bs = FOk (th H t).
Print Assumptions C17_tree_hash_from_bytes_plain.
Check C17_tree_hash_from_bytes_sha256 :
  forall bs t fuel, deser_br bs = DOk t ->
  (4 * length bs + 4 + 2 * node_count t <= fuel)%nat ->
  tree_hash_from_bytes sha256 fuel bs = FOk (th sha256 t).
Print Assumptions C17_tree_hash_from_bytes_sha256.
Check C17_tree_hash_from_bytes_rejects :
  forall (H : bytes -> bytes), table_ok H ->
  forall bs fuel, deser_br bs = DErr -> tree_hash_from_bytes H fuel bs = FErr.
Print Assumptions C17_tree_hash_from_bytes_rejects.
Check C17_tree_hash_from_bytes_no_panic :
  forall (H : bytes -> bytes), table_ok H ->
  forall bs fuel, tree_hash_from_bytes H fuel bs <> FPanic.
Print Assumptions C17_tree_hash_from_bytes_no_panic.
Check C17_deser_br_total :
  forall bs, deser_br bs <> DPanic /\ deser_br bs <> DFuel.
Print Assumptions C17_deser_br_total.
Check C17_deser_br_extends_plain :
  forall bs t rest, deser bs = Some (t, rest) -> deser_br bs = DOk t.
Print Assumptions C17_deser_br_extends_plain.
Check C17_backrefs_vec_refines_tree :
  forall bs,
  match deser_br bs, node_from_bytes_backrefs bs with
  | DOk t, DOk (h, n) =>
      wf h /\ valid h n /\ den h n = t /\ (length (h_pairs h) <= 2 * debr_fuel bs)%nat
  | DErr, DErr => True
  | _, _ => False
  end.
Print Assumptions C17_backrefs_vec_refines_tree.
Check C17_backrefs_conslist_refines_tree :
  forall bs,
  match deser_br bs, node_from_bytes_backrefs_old bs with
  | DOk t, DOk (h, n) =>
      wf h /\ valid h n /\ den h n = t /\ (length (h_pairs h) <= 2 * debr_fuel bs)%nat
  | DErr, DErr => True
  | _, _ => False
  end.
Print Assumptions C17_backrefs_conslist_refines_tree.
Check C17_tree_hash_from_bytes_via_conslist :
  forall (H : bytes -> bytes), table_ok H ->
  forall bs t fuel, deser_br bs = DOk t ->
  (4 * length bs + 4 + 2 * node_count t <= fuel)%nat ->
  tree_hash_from_bytes_old H fuel bs = FOk (th H t).
Print Assumptions C17_tree_hash_from_bytes_via_conslist.
Check C17_plain_roundtrip :
  forall t bs extra, ser t = Some bs -> deser (bs ++ extra) = Some (t, extra).
Print Assumptions C17_plain_roundtrip.
Check C17_tree_hash_from_bytes_of_plain_serialization :
  forall (H : bytes -> bytes), table_ok H ->
  forall t bs extra fuel, ser t = Some bs -> (6 * length (bs ++ extra) + 4 <= fuel)%nat ->
  tree_hash_from_bytes H fuel (bs ++ extra) = FOk (th H t).
Print Assumptions C17_tree_hash_from_bytes_of_plain_serialization.
Check C17_all_routines_agree :
  forall (H : bytes -> bytes), table_ok H ->
  forall h1 n1 h2 n2 c bs t fuel,
  wf h1 -> valid h1 n1 -> den h1 n1 = t ->
  reachable H h2 c -> valid h2 n2 -> den h2 n2 = t ->
  deser_br bs = DOk t ->
  (length (h_pairs h2) + 4 * length bs + 4 + 2 * node_count t <= fuel)%nat ->
  tree_hash_stack H fuel h1 n1 = Ok (th H t) /\
  (exists c', tree_hash_cached H fuel h2 n2 c = Ok (th H t, c')) /\
  tree_hash_from_bytes H fuel bs = FOk (th H t).
Print Assumptions C17_all_routines_agree.
Check C17_example_shared_heap_reachable_cache :
  wf ex_heap /\ valid ex_heap (NPair 2) /\
  (den ex_heap (NPair 2) = let p0 := Pair (Atom [x01; x02; x03]) (Atom [x05]) in Pair (Pair p0 p0) p0) /\
  exists c, reachable sha256 ex_heap c /\ c_hashes c <> [].
Print Assumptions C17_example_shared_heap_reachable_cache.
Check C17_example_backref_bytes :
  deser_br ex_br_bytes = DOk (Pair (Atom ex_foobar) (Pair (Atom ex_foobar) nil)) /\ deser ex_br_bytes = None.
Print Assumptions C17_example_backref_bytes.
