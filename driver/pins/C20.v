(* statement pins and axiom audit for C20 (compiled on every check) *)
From Coq Require Import String.
From ChiaV.Base Require Import Bytes.
From ChiaV.Stream Require Import Universe Versioned Codec Json.
From ChiaV.Gen Require Import StreamTypes.
From ChiaV.Props Require Import C20.
Open Scope N_scope.

Check C20_json_roundtrip : forall O t v,
  json_ok t = true -> wf O false t v = true ->
  exists j, to_json t v = Some j /\ from_json O t j = Some v.
Print Assumptions C20_json_roundtrip.
Check C20_json_roundtrip_same_bytes_and_hash : forall O t v,
  json_ok t = true -> wf O false t v = true ->
  exists j, to_json t v = Some j /\
    forall v', from_json O t j = Some v' -> v' = v /\ encode t v' = encode t v /\ digest O t v' = digest O t v.
Print Assumptions C20_json_roundtrip_same_bytes_and_hash.
Check C20_json_ok_every_translated_type : forallb (fun p => json_ok (snd p)) stream_types = true.
Print Assumptions C20_json_ok_every_translated_type.
Check C20_reject_wrong_byte_length : forall O n h b,
  of_hex h = Some b -> length b <> n -> from_json O (BytesN n) (JStr (x30 :: x78 :: h)) = None.
Print Assumptions C20_reject_wrong_byte_length.
Check C20_reject_invalid_hex_fixed : forall O n h,
  of_hex h = None -> from_json O (BytesN n) (JStr (x30 :: x78 :: h)) = None.
Print Assumptions C20_reject_invalid_hex_fixed.
Check C20_reject_invalid_hex_bytes : forall O h,
  of_hex h = None -> from_json O Bytes (JStr (x30 :: x78 :: h)) = None.
Print Assumptions C20_reject_invalid_hex_bytes.
Check C20_reject_uint_out_of_range : forall O n z,
  in_range_u n z = false -> from_json O (U n) (JInt z) = None.
Print Assumptions C20_reject_uint_out_of_range.
Check C20_reject_sint_out_of_range : forall O n z,
  in_range_i n z = false -> from_json O (I n) (JInt z) = None.
Print Assumptions C20_reject_sint_out_of_range.
Check C20_reject_tuple_wrong_count : forall O ts l,
  length l <> length ts -> from_json O (Tup ts) (JList l) = None.
Print Assumptions C20_reject_tuple_wrong_count.
Check C20_reject_array_wrong_count : forall O n a l,
  length l <> n -> from_json O (Arr n a) (JList l) = None.
Print Assumptions C20_reject_array_wrong_count.
Check C20_reject_missing_key : forall O name fs kvs k,
  In k (keys_of fs) -> dict_get k kvs = None -> from_json O (Struct name SNamed fs) (JDict kvs) = None.
Print Assumptions C20_reject_missing_key.
Check C20_reject_struct_not_dict : forall O name f fs j,
  (forall kvs, j <> JDict kvs) -> from_json O (Struct name SNamed (f :: fs)) j = None.
Print Assumptions C20_reject_struct_not_dict.
