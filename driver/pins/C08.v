(* statement pins and axiom audit for C08 (compiled on every check; regenerate BY HAND with driver/mkpins.py) *)
From ChiaV.Base Require Import Bytes.
From ChiaV.Clvm Require Import Sexp Ints.
From ChiaV.Bundle Require Import SolutionGen SexpProofs SolutionGenProofs.
Open Scope N_scope.
From ChiaV.Props Require Import C08.
Check C08_roundtrip :
  forall (t : sexp) (b rest : bytes),
  ser t = Some b -> deser (b ++ rest) = Some (t, rest).
Print Assumptions C08_roundtrip.
Check C08_node_from_bytes_ser :
  forall (t : sexp) (b : bytes), ser t = Some b -> node_from_bytes b = Some t.
Print Assumptions C08_node_from_bytes_ser.
Check C08_length :
  forall spends : list cspend,
  Forall plain_spend spends ->
  option_map nlen (solution_generator spends) = Some (calculate_generator_length spends).
Print Assumptions C08_length.
Check C08_length_nonvacuous :
  let s := {| cs_parent := repeat_byte 32 x07; cs_ph := []; cs_amount := 2 ^ 63;
              cs_puzzle := [xff; x01; x80]; cs_solution := [x80] |} in
  Forall plain_spend [s] /\ option_map nlen (solution_generator [s]) = Some 58.
Print Assumptions C08_length_nonvacuous.
