(* statement pins and axiom audit for C08 (compiled on every check; regenerate BY HAND with driver/mkpins.py) *)
From ChiaV.Base Require Import Bytes.
From ChiaV.Clvm Require Import Sexp Ints.
From ChiaV.Clvm Require Import TreeHash.
From ChiaV.Gen Require Import Opcodes Builder.
From ChiaV.Cond Require Import Model.
From ChiaV.Bundle Require Import SolutionGen Interned SpendBundle BlockPath SexpProofs SolutionGenProofs AgreeProofs OrderProofs OrderFullProofs.
From Coq Require Import Permutation.
Open Scope N_scope.
From ChiaV.Props Require Import C08.
Check C08_roundtrip :
  forall (t : sexp) (b rest : bytes),
  ser t = Some b -> deser (b ++ rest) = Some (t, rest).
Print Assumptions C08_roundtrip.
Check C08_node_from_bytes_ser :
  forall (t : sexp) (b : bytes), ser t = Some b -> node_from_bytes b = Some t.
Print Assumptions C08_node_from_bytes_ser.
Check C08_length :
  forall spends : list cspend,
  Forall plain_spend spends ->
  option_map nlen (solution_generator spends) = Some (calculate_generator_length spends).
Print Assumptions C08_length.
Check C08_length_nonvacuous :
  let s := {| cs_parent := repeat_byte 32 x07; cs_ph := []; cs_amount := 2 ^ 63;
              cs_puzzle := [xff; x01; x80]; cs_solution := [x80] |} in
  Forall plain_spend [s] /\ option_map nlen (solution_generator [s]) = Some 58.
Print Assumptions C08_length_nonvacuous.
Check C08_agree_rev_partial :
  forall valid_key (H : bytes -> bytes) K run sig_ok cpb fl gen_args,
  (forall x args budget,
     run (Pair (Atom [x01]) x) args budget = if budget <? 20 then Err CostExceeded else Ok (20, x)) ->
  forall spends g program max_cost,
  Forall (good_spend H) spends ->
  bf_interned fl = false ->
  N.of_nat (length spends) <= MAX_SPENDS_PER_BLOCK ->
  build_generator spends = Some g -> ser g = Some program ->
  match mempool_path valid_key H K run sig_ok cpb fl (rev spends) max_cost,
        run_block_generator2 valid_key H K run sig_ok cpb fl gen_args program (nlen program) (max_cost + overhead cpb) with
  | Ok m, Ok b => same_summary (overhead cpb) b m
  | Err _, Err _ => True
  | _, _ => False
  end.
Print Assumptions C08_agree_rev_partial.
Check C08_overhead_value :
  forall cpb, overhead cpb = 20 + 2 * cpb.
Print Assumptions C08_overhead_value.
Check C08_interned_base_cost :
  forall cpb fl spends g program,
  bf_interned fl = true -> build_generator spends = Some g -> ser g = Some program ->
  calculate_base_cost cpb fl spends = Ok (interned_vbytes g * cpb) /\ parse_node program = Ok g.
Print Assumptions C08_interned_base_cost.
Check C08_agree_partial :
  forall valid_key (H : bytes -> bytes) K run sig_ok cpb fl gen_args,
  (forall x args budget,
     run (Pair (Atom [x01]) x) args budget = if budget <? 20 then Err CostExceeded else Ok (20, x)) ->
  (forall p s, (exists c r, forall b, run p s b = (if b <? c then Err CostExceeded else Ok (c, r))) \/
               (forall b, exists e, run p s b = Err e)) ->
  (forall l l', Permutation l l' -> sig_ok l = sig_ok l') ->
  forall spends g program max_cost,
  Forall (good_spend H) spends ->
  bf_interned fl = false ->
  N.of_nat (length spends) <= MAX_SPENDS_PER_BLOCK ->
  build_generator spends = Some g -> ser g = Some program ->
  match mempool_path valid_key H K run sig_ok cpb fl spends max_cost,
        run_block_generator2 valid_key H K run sig_ok cpb fl gen_args program (nlen program) (max_cost + overhead cpb) with
  | Ok m, Ok b => agree_summary (overhead cpb) b m
  | Err _, Err _ => True
  | _, _ => False
  end.
Print Assumptions C08_agree_partial.
Check C08_mempool_order :
  forall vk (H : bytes -> bytes) K run cpb fl,
  (forall p s, (exists c r, forall b, run p s b = (if b <? c then Err CostExceeded else Ok (c, r))) \/
               (forall b, exists e, run p s b = Err e)) ->
  bf_interned fl = false ->
  forall L max_cost,
  match run_spendbundle vk H K run cpb fl (rev L) max_cost, run_spendbundle vk H K run cpb fl L max_cost with
  | Ok r', Ok r => agg_eq r' r
  | Err _, Err _ => True
  | _, _ => False
  end.
Print Assumptions C08_mempool_order.
Check C08_oracle_hyps_nonvacuous :
  (forall x args budget, quote_run (Pair (Atom [x01]) x) args budget = if budget <? 20 then Err CostExceeded else Ok (20, x)) /\
  (forall p s, (exists c r, forall b, quote_run p s b = (if b <? c then Err CostExceeded else Ok (c, r))) \/
               (forall b, exists e, quote_run p s b = Err e)) /\
  (forall l l' : list (bytes * bytes), Permutation l l' -> (fun _ => true) l = (fun _ => true) l').
Print Assumptions C08_oracle_hyps_nonvacuous.
Check C08_agree :
  forall valid_key (H : bytes -> bytes) K run sig_ok cpb fl gen_args,
  (forall x args budget,
     run (Pair (Atom [x01]) x) args budget = if budget <? 20 then Err CostExceeded else Ok (20, x)) ->
  (forall p s, (exists c r, forall b, run p s b = (if b <? c then Err CostExceeded else Ok (c, r))) \/
               (forall b, exists e, run p s b = Err e)) ->
  (forall l l', Permutation l l' -> sig_ok l = sig_ok l') ->
  forall spends g program max_cost,
  Forall (good_spend H) spends ->
  bf_interned fl = false ->
  N.of_nat (length spends) <= MAX_SPENDS_PER_BLOCK ->
  build_generator spends = Some g -> ser g = Some program ->
  match mempool_path valid_key H K run sig_ok cpb fl spends max_cost,
        run_block_generator2 valid_key H K run sig_ok cpb fl gen_args program (nlen program) (max_cost + overhead cpb) with
  | Ok m, Ok b => agree_full (overhead cpb) b m
  | Err _, Err _ => True
  | _, _ => False
  end.
Print Assumptions C08_agree.
Check C08_mempool_order_full :
  forall vk (H : bytes -> bytes) K run cpb fl,
  (forall p s, (exists c r, forall b, run p s b = (if b <? c then Err CostExceeded else Ok (c, r))) \/
               (forall b, exists e, run p s b = Err e)) ->
  bf_interned fl = false ->
  forall L max_cost,
  match run_spendbundle vk H K run cpb fl (rev L) max_cost, run_spendbundle vk H K run cpb fl L max_cost with
  | Ok r', Ok r => full_eq r' r
  | Err _, Err _ => True
  | _, _ => False
  end.
Print Assumptions C08_mempool_order_full.
Check C08_agree_interned :
  forall valid_key (H : bytes -> bytes) K run sig_ok cpb fl gen_args,
  (forall x args budget,
     run (Pair (Atom [x01]) x) args budget = if budget <? 20 then Err CostExceeded else Ok (20, x)) ->
  (forall p s, (exists c r, forall b, run p s b = (if b <? c then Err CostExceeded else Ok (c, r))) \/
               (forall b, exists e, run p s b = Err e)) ->
  (forall l l', Permutation l l' -> sig_ok l = sig_ok l') ->
  forall spends g program max_cost,
  Forall (good_spend H) spends ->
  bf_interned fl = true ->
  N.of_nat (length spends) <= MAX_SPENDS_PER_BLOCK ->
  build_generator spends = Some g -> ser g = Some program ->
  match mempool_path valid_key H K run sig_ok cpb fl spends max_cost,
        run_block_generator2 valid_key H K run sig_ok cpb fl gen_args program (nlen program) (max_cost + 20) with
  | Ok m, Ok b => agree_full 20 b m
  | Err _, Err _ => True
  | _, _ => False
  end.
Print Assumptions C08_agree_interned.
