(* statement pins and axiom audit for C11 (compiled on every check) *)
From ChiaV.Base Require Import Bytes.
From ChiaV.Clvm Require Import Ints Sexp.
From ChiaV.Gen Require Import Ladders.
From ChiaV.Props Require Import C11.
Open Scope N_scope.

Check C11_coin_id_amount_canonical : forall v, v < 2 ^ 64 -> coin_amount_bytes v = canon_n v.
Print Assumptions C11_coin_id_amount_canonical.
Check C11_u64_to_bytes_canonical : forall v, v < 2 ^ 64 -> u64_to_bytes v = canon_n v.
Print Assumptions C11_u64_to_bytes_canonical.
Check C11_generator_length_ladder : forall v, v < 2 ^ 64 ->
  Some (clvm_bytes_len v) = option_map nlen (ser (Atom (canon_n v))).
Print Assumptions C11_generator_length_ladder.
Check C11_canonical_form_unique : forall bs,
  is_minimal bs = true -> match bs with [] => True | b :: _ => b2n b < 128 end ->
  canon_n (be2n bs) = bs.
Print Assumptions C11_canonical_form_unique.
Check C11_canonical_decodes : forall n, be2n (canon_n n) = n.
Print Assumptions C11_canonical_decodes.
