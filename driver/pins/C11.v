(* statement pins and axiom audit for C11 (compiled on every check; regenerate BY HAND with driver/mkpins.py) *)
From ChiaV.Base Require Import Bytes.
From ChiaV.Clvm Require Import Ints Sexp IntsProofs LadderProofs WidthProofs SignedProofs.
From ChiaV.Gen Require Import Ladders.
Open Scope N_scope.
From ChiaV.Props Require Import C11.
Check C11_coin_id_amount_canonical :
  forall v, v < 2 ^ 64 -> coin_amount_bytes v = canon_n v.
Print Assumptions C11_coin_id_amount_canonical.
Check C11_u64_to_bytes_canonical :
  forall v, v < 2 ^ 64 -> u64_to_bytes v = canon_n v.
Print Assumptions C11_u64_to_bytes_canonical.
Check C11_generator_length_ladder :
  forall v, v < 2 ^ 64 ->
  Some (clvm_bytes_len v) = option_map nlen (ser (Atom (canon_n v))).
Print Assumptions C11_generator_length_ladder.
Check C11_canonical_form_unique :
  forall bs,
  is_minimal bs = true -> match bs with [] => True | b :: _ => b2n b < 128 end ->
  canon_n (be2n bs) = bs.
Print Assumptions C11_canonical_form_unique.
Check C11_canonical_is_minimal :
  forall n, is_minimal (canon_n n) = true.
Print Assumptions C11_canonical_is_minimal.
Check C11_canonical_decodes :
  forall n, be2n (canon_n n) = n.
Print Assumptions C11_canonical_decodes.
Check C11_sanitize_accepts_exactly_canonical :
  forall bs k n,
  sanitize_uint bs k = SOk n <-> bs = canon_n n /\ n < 256 ^ N.of_nat k.
Print Assumptions C11_sanitize_accepts_exactly_canonical.
Check C11_sanitize_rejects_redundant_zero :
  forall bs k,
  sanitize_uint bs k = SErr <->
  match bs with
  | [b] => b2n b = 0
  | b0 :: b1 :: _ => b2n b0 = 0 /\ b2n b1 < 128
  | [] => False
  end.
Print Assumptions C11_sanitize_rejects_redundant_zero.
Check C11_sanitize_negative :
  forall bs k,
  sanitize_uint bs k = SNegOverflow <-> match bs with b :: _ => 128 <= b2n b | [] => False end.
Print Assumptions C11_sanitize_negative.
Check C11_sanitize_positive_overflow :
  forall bs k,
  sanitize_uint bs k = SPosOverflow <-> exists n, bs = canon_n n /\ 256 ^ N.of_nat k <= n.
Print Assumptions C11_sanitize_positive_overflow.
Check C11_encode_number_unsigned_canonical :
  forall s, encode_number s false = canon_n (be2n s).
Print Assumptions C11_encode_number_unsigned_canonical.
Check C11_encode_number_width :
  forall LEN v, v < 256 ^ N.of_nat LEN -> encode_number (n2be LEN v) false = canon_n v.
Print Assumptions C11_encode_number_width.
Check C11_decode_number_unsigned :
  forall LEN v,
  v < 256 ^ N.of_nat LEN -> decode_number LEN false (canon_n v) = Some (n2be LEN v).
Print Assumptions C11_decode_number_unsigned.
Check C11_encode_number_signed :
  forall LEN v,
  (0 < LEN)%nat -> (- Z.of_N (256 ^ N.of_nat LEN / 2) <= v < Z.of_N (256 ^ N.of_nat LEN / 2))%Z ->
  encode_number (be_fixed LEN v) (v <? 0)%Z = canon v.
Print Assumptions C11_encode_number_signed.
Check C11_decode_number_signed :
  forall LEN v,
  (0 < LEN)%nat -> (- Z.of_N (256 ^ N.of_nat LEN / 2) <= v < Z.of_N (256 ^ N.of_nat LEN / 2))%Z ->
  decode_number LEN true (canon v) = Some (be_fixed LEN v).
Print Assumptions C11_decode_number_signed.
