(* statement pins and axiom audit for C10 (compiled on every check; regenerate BY HAND with driver/mkpins.py) *)
From ChiaV.Base Require Import Bytes.
From ChiaV.Clvm Require Import Sexp Ints.
From ChiaV.Gen Require Import Builder.
From ChiaV.Clvm Require Import TreeHash.
From ChiaV.Gen Require Import Opcodes.
From ChiaV.Cond Require Import Model Declarative.
From ChiaV.Bundle Require Import SolutionGen Interned SpendBundle BlockPath Builder BuilderExec InternedProofs BuilderProofs BuilderTotal BuilderRefuted AgreeProofs OrderProofs OrderFullProofs BuilderConsensus.
From Coq Require Import Permutation.
Open Scope N_scope.
From ChiaV.Props Require Import C10.
Check C10_wrapper_vbytes :
  interned_vbytes (wrap_generator nil) = WRAPPER_VBYTES.
Print Assumptions C10_wrapper_vbytes.
Check C10_triangle :
  forall items : list sexp,
  interned_vbytes (wrap_generator (list_to_sexp items)) <= WRAPPER_VBYTES + items_vbytes items.
Print Assumptions C10_triangle.
Check C10_interned_step :
  forall (Sig : Type) (sig_one : Sig) (sig_mul : Sig -> Sig -> Sig) (cpb maxc : N),
  maxc + I_MIN_COST_THRESHOLD < U64 ->
  forall st a st' r,
  i_step Sig sig_one sig_mul (checked_cfg cpb maxc) st a = (st', r) ->
  match r with
  | RAdded _ =>
      exists items, items_of (batch_spends Sig (ia_bundles Sig a)) = Some items /\
        ib_items Sig st' = rev items ++ ib_items Sig st /\
        ib_sig Sig st' = sig_mul (ib_sig Sig st) (batch_sig Sig sig_one sig_mul (ia_bundles Sig a)) /\
        ib_block_cost Sig st' = ib_block_cost Sig st + ia_cost Sig a /\
        ib_byte_cost Sig st' = ib_byte_cost Sig st + cpb * items_vbytes items
  | RPanic => True
  | _ => ib_items Sig st' = ib_items Sig st /\ ib_sig Sig st' = ib_sig Sig st /\
         ib_block_cost Sig st' = ib_block_cost Sig st /\ ib_byte_cost Sig st' = ib_byte_cost Sig st
  end.
Print Assumptions C10_interned_step.
Check C10_interned_history :
  forall (Sig : Type) (sig_one : Sig) (sig_mul : Sig -> Sig -> Sig) (cpb maxc : N),
  maxc + I_MIN_COST_THRESHOLD < U64 ->
  I_INITIAL_BLOCK_COST + WRAPPER_VBYTES * cpb <= maxc ->
  forall h st rs,
  run_hist (i_step Sig sig_one sig_mul (checked_cfg cpb maxc)) (i_init Sig sig_one) h = (st, rs) ->
  ~ In RPanic rs ->
  let acc := accepted h rs in
  let gen := wrap_generator (list_to_sexp (i_content Sig acc [])) in
  let total := interned_vbytes gen * cpb + (I_INITIAL_BLOCK_COST + i_declared Sig acc) in
  i_finalize Sig (checked_cfg cpb maxc) st = IFOk Sig gen (i_sigs Sig sig_one sig_mul acc sig_one) total /\
  total <= maxc /\
  (exists est, i_cost Sig (checked_cfg cpb maxc) st = Some est /\ total <= est /\ est <= maxc) /\
  run_hist (i_step Sig sig_one sig_mul (release_cfg cpb maxc)) (i_init Sig sig_one) h = (st, rs) /\
  i_finalize Sig (release_cfg cpb maxc) st = IFOk Sig gen (i_sigs Sig sig_one sig_mul acc sig_one) total /\
  i_cost Sig (release_cfg cpb maxc) st = i_cost Sig (checked_cfg cpb maxc) st.
Print Assumptions C10_interned_history.
Check C10_compressed_step :
  forall (Sig : Type) (sig_one : Sig) (sig_mul : Sig -> Sig -> Sig) (cpb maxc : N)
    (sstate hint : Type) s_add s_restore s_size s_finish s_output s_items decode (s0 : sstate),
  maxc + C_MIN_COST_THRESHOLD < U64 ->
  @serializer_ok sstate hint s_add s_restore s_size s_finish s_output s_items decode s0 ->
  forall st a st' r,
  c_step Sig sig_one sig_mul sstate hint s_add s_restore s_size (checked_cfg cpb maxc) st a = (st', r) ->
  match r with
  | RAdded _ =>
      exists items, items_of (batch_spends Sig (ca_bundles Sig hint a)) = Some items /\
        s_items (cb_ser Sig sstate st') = s_items (cb_ser Sig sstate st) ++ rev items /\
        cb_sig Sig sstate st' = sig_mul (cb_sig Sig sstate st) (batch_sig Sig sig_one sig_mul (ca_bundles Sig hint a)) /\
        cb_block_cost Sig sstate st' = cb_block_cost Sig sstate st + ca_cost Sig hint a /\
        cb_byte_cost Sig sstate st' = (s_size (cb_ser Sig sstate st') + C_CLOSING_BYTES) * cpb
  | RPanic => True
  | _ => s_items (cb_ser Sig sstate st') = s_items (cb_ser Sig sstate st) /\
         s_size (cb_ser Sig sstate st') = s_size (cb_ser Sig sstate st) /\
         cb_sig Sig sstate st' = cb_sig Sig sstate st /\
         cb_block_cost Sig sstate st' = cb_block_cost Sig sstate st /\
         (cb_byte_cost Sig sstate st' = cb_byte_cost Sig sstate st \/
          cb_byte_cost Sig sstate st' = (s_size (cb_ser Sig sstate st') + C_CLOSING_BYTES) * cpb)
  end.
Print Assumptions C10_compressed_step.
Check C10_compressed_history :
  forall (Sig : Type) (sig_one : Sig) (sig_mul : Sig -> Sig -> Sig) (cpb maxc : N)
    (sstate hint : Type) s_add s_restore s_size s_finish s_output s_items decode (s0 : sstate),
  maxc + C_MIN_COST_THRESHOLD < U64 ->
  @serializer_ok sstate hint s_add s_restore s_size s_finish s_output s_items decode s0 ->
  C_INITIAL_BLOCK_COST + (s_size s0 + 2) * cpb <= maxc ->
  forall h st rs,
  run_hist (c_step Sig sig_one sig_mul sstate hint s_add s_restore s_size (checked_cfg cpb maxc)) (c_init Sig sig_one sstate s0) h = (st, rs) ->
  ~ In RPanic rs ->
  let acc := accepted h rs in
  let out := s_output (s_finish (cb_ser Sig sstate st)) in
  let total := C_INITIAL_BLOCK_COST + c_declared Sig hint acc + nlen out * cpb in
  c_finalize Sig sstate s_size s_finish s_output (checked_cfg cpb maxc) st = CFOk Sig out (c_sigs Sig sig_one sig_mul hint acc sig_one) total /\
  ((exists b, ser (wrap_generator (list_to_sexp (c_content Sig hint acc []))) = Some b) ->
   decode out = Some (wrap_generator (list_to_sexp (c_content Sig hint acc [])))) /\
  total <= maxc /\
  (acc <> [] -> c_cost Sig sstate (checked_cfg cpb maxc) st = Some total) /\
  run_hist (c_step Sig sig_one sig_mul sstate hint s_add s_restore s_size (release_cfg cpb maxc)) (c_init Sig sig_one sstate s0) h = (st, rs) /\
  c_finalize Sig sstate s_size s_finish s_output (release_cfg cpb maxc) st = CFOk Sig out (c_sigs Sig sig_one sig_mul hint acc sig_one) total.
Print Assumptions C10_compressed_history.
Check C10_serializer_ok_nonvacuous :
  @serializer_ok pser unit p_add p_restore p_size p_finish p_output (@fst _ _) node_from_bytes ([], O).
Print Assumptions C10_serializer_ok_nonvacuous.
Check C10_interned_never_overflows :
  forall (Sig : Type) (sig_one : Sig) (sig_mul : Sig -> Sig -> Sig) (cpb maxc : N),
  2 * maxc + I_MIN_COST_THRESHOLD < U64 ->
  I_INITIAL_BLOCK_COST + WRAPPER_VBYTES * cpb <= maxc ->
  forall h st rs,
  Forall (i_fits Sig cpb maxc) h -> N.of_nat (length h) < U32 ->
  run_hist (i_step Sig sig_one sig_mul (checked_cfg cpb maxc)) (i_init Sig sig_one) h = (st, rs) ->
  ~ In RPanic rs.
Print Assumptions C10_interned_never_overflows.
Check C10_compressed_never_overflows :
  forall (Sig : Type) (sig_one : Sig) (sig_mul : Sig -> Sig -> Sig) (cpb maxc : N),
  2 * maxc + C_MIN_COST_THRESHOLD < U64 ->
  forall (sstate hint : Type) (s_add : sstate -> hint -> list sexp -> sstate) (s_restore : sstate -> sstate -> sstate)
         (s_size : sstate -> N),
  (forall s h l, s_size (s_restore (s_add s h l) s) = s_size s) ->
  (forall s h l, s_size (s_add s h l) + C_CLOSING_BYTES < U64 /\
                 (s_size (s_add s h l) + C_CLOSING_BYTES) * cpb + 2 * maxc < U64) ->
  forall s0 : sstate,
  C_INITIAL_BLOCK_COST + (s_size s0 + 2) * cpb <= maxc -> s_size s0 + 2 < U64 ->
  forall h st rs,
  N.of_nat (length h) < U32 ->
  run_hist (c_step Sig sig_one sig_mul sstate hint s_add s_restore s_size (checked_cfg cpb maxc)) (c_init Sig sig_one sstate s0) h = (st, rs) ->
  ~ In RPanic rs.
Print Assumptions C10_compressed_never_overflows.
Check C10_prefix_interned_overflow_refuted :
  snd (i_run Wrap i_witness) = [RAdded false] /\
  (exists g s, i_finalize xsig (real_cfg Wrap) (fst (i_run Wrap i_witness)) = IFOk xsig g s 0) /\
  c_max (real_cfg Wrap) < ia_cost xsig (hd {| ia_bundles := []; ia_cost := 0 |} i_witness) /\
  snd (i_run Checked i_witness) = [RPanic].
Print Assumptions C10_prefix_interned_overflow_refuted.
Check C10_prefix_compressed_overflow_refuted :
  snd (c_run Wrap c_witness) = [RAdded false] /\
  (exists g s, c_finalize xsig xser x_size x_finish x_output (real_cfg Wrap) (fst (c_run Wrap c_witness)) = CFOk xsig g s 60000) /\
  c_max (real_cfg Wrap) < ca_cost xsig N (hd {| ca_bundles := []; ca_cost := 0; ca_hint := 0 |} c_witness) /\
  snd (c_run Checked c_witness) = [RPanic].
Print Assumptions C10_prefix_compressed_overflow_refuted.
Check C10_overflow_witnesses_now_rejected :
  forall m,
  snd (run_hist (i_step xsig xsig_one xsig_mul (real_cfg m)) (i_init xsig xsig_one) i_witness) = [RRejected false] /\
  ib_items xsig (fst (run_hist (i_step xsig xsig_one xsig_mul (real_cfg m)) (i_init xsig xsig_one) i_witness)) = [] /\
  snd (run_hist (c_step xsig xsig_one xsig_mul xser N x_add x_restore x_size (real_cfg m)) (c_init xsig xsig_one xser x_init) c_witness)
    = [RRejected false].
Print Assumptions C10_overflow_witnesses_now_rejected.
Check C10_compressed_initial_estimate_refuted :
  forall m, c_cost xsig xser (real_cfg m) (c_init xsig xsig_one xser x_init) = Some 20 /\
            exists g s, c_finalize xsig xser x_size x_finish x_output (real_cfg m) (c_init xsig xsig_one xser x_init) = CFOk xsig g s 60020.
Print Assumptions C10_compressed_initial_estimate_refuted.
Check C10_interned_consensus_cost :
  forall (Sig : Type) (sig_one : Sig) (sig_mul : Sig -> Sig -> Sig)
    valid_key (H : bytes -> bytes) K run sig_ok cpb maxc fl gen_args,
  (forall x args budget,
     run (Pair (Atom [x01]) x) args budget = if budget <? 20 then Err CostExceeded else Ok (20, x)) ->
  (forall p s, (exists c r, forall b, run p s b = (if b <? c then Err CostExceeded else Ok (c, r))) \/
               (forall b, exists e, run p s b = Err e)) ->
  (forall l l', Permutation l l' -> sig_ok l = sig_ok l') ->
  bf_interned fl = true ->
  forall h st rs,
  maxc + I_MIN_COST_THRESHOLD < U64 ->
  I_INITIAL_BLOCK_COST + WRAPPER_VBYTES * cpb <= maxc ->
  run_hist (i_step Sig sig_one sig_mul (checked_cfg cpb maxc)) (i_init Sig sig_one) h = (st, rs) ->
  ~ In RPanic rs ->
  let acc := accepted h rs in
  let S := all_spends Sig acc in
  Forall (good_spend H) S -> N.of_nat (length S) <= MAX_SPENDS_PER_BLOCK -> Forall (truthful Sig H run fl) acc ->
  exists gen total,
    i_finalize Sig (checked_cfg cpb maxc) st = IFOk Sig gen (i_sigs Sig sig_one sig_mul acc sig_one) total /\
    build_generator S = Some gen /\
    forall program max_cost, ser gen = Some program ->
      match mempool_path valid_key H K run sig_ok cpb fl S max_cost,
            run_block_generator2 valid_key H K run sig_ok cpb fl gen_args program (nlen program) (max_cost + 20) with
      | Ok m, Ok b => agree_full 20 b m /\ b_cost (fst (fst b)) = total
      | Err _, Err _ => True
      | _, _ => False
      end.
Print Assumptions C10_interned_consensus_cost.
Check C10_interned_consensus_accept :
  forall valid_key (H : bytes -> bytes) K run sig_ok cpb fl gen_args,
  (forall x args budget,
     run (Pair (Atom [x01]) x) args budget = if budget <? 20 then Err CostExceeded else Ok (20, x)) ->
  (forall p s, (exists c r, forall b, run p s b = (if b <? c then Err CostExceeded else Ok (c, r))) \/
               (forall b, exists e, run p s b = Err e)) ->
  (forall l l', Permutation l l' -> sig_ok l = sig_ok l') ->
  bf_interned fl = true ->
  forall S gen program max_cost,
  f_dont_validate (bf_cond fl) = true ->
  Forall (good_spend H) S -> N.of_nat (length S) <= MAX_SPENDS_PER_BLOCK ->
  build_generator S = Some gen -> ser gen = Some program ->
  ((exists b, run_block_generator2 valid_key H K run sig_ok cpb fl gen_args program (nlen program) (max_cost + 20) = Ok b) <->
   interned_vbytes gen * cpb <= max_cost /\
   (f_limit_spends (bf_cond fl) = true -> N.of_nat (length S) <= MAX_SPENDS_PER_BLOCK) /\
   exists LL, Forall2 (spend_data H run fl) S LL /\
              IRules valid_key H K (bf_cond fl) LL (max_cost - interned_vbytes gen * cpb)).
Print Assumptions C10_interned_consensus_accept.
Check C10_truthful_is_mempool_cost :
  forall valid_key (H : bytes -> bytes) K run fl,
  (forall p s, (exists c r, forall b, run p s b = (if b <? c then Err CostExceeded else Ok (c, r))) \/
               (forall b, exists e, run p s b = Err e)) ->
  forall L base max_cost r,
  rsb_core valid_key H K run fl base L max_cost = Ok r ->
  exists LL, Forall2 (spend_data H run fl) L LL /\
             b_cost (fst (fst r)) = base + (costs LL + total_cost (bf_cond fl) (parsed LL)).
Print Assumptions C10_truthful_is_mempool_cost.
Check C10_truthful_nonvacuous :
  truthful xsig nv_H quote_run nv_fl nv_attempt.
Print Assumptions C10_truthful_nonvacuous.
