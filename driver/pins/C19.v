From ChiaV.Base Require Import Bytes.
From ChiaV.Clvm Require Import Sexp Ints TreeHash.
From ChiaV.Mempool Require Import FastForward.
From ChiaV.Props Require Import C19.
Open Scope N_scope.

Check C19_runner_definition_is_the_mirror : forall H MOD_HASH puzzle solution c nc np,
  fast_forward_singleton_shared H MOD_HASH puzzle solution c nc np
  = fast_forward_singleton H MOD_HASH puzzle solution c nc np.
Print Assumptions C19_runner_definition_is_the_mirror.
