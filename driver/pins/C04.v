(* statement pins and axiom audit for C04 (compiled on every check; regenerate BY HAND with driver/mkpins.py) *)
From ChiaV.Base Require Import Bytes.
From ChiaV.Clvm Require Import Sexp Ints.
From ChiaV.Gen Require Import Opcodes.
From ChiaV.Cond Require Import Model Spec Facts Invariants CostFacts LimitExact.
Open Scope N_scope.
From ChiaV.Props Require Import C04.
Check C04_cost_constants_are_consensus :
  AGG_SIG_COST = Spec.AGG_SIG_COST /\ CREATE_COIN_COST = Spec.CREATE_COIN_COST /\
  NEW_CREATE_COIN_COST = Spec.NEW_CREATE_COIN_COST /\ SPEND_COST = Spec.SPEND_COST /\
  MESSAGE_CONDITION_COST = Spec.MESSAGE_CONDITION_COST /\ GENERIC_CONDITION_COST = Spec.GENERIC_CONDITION_COST.
Print Assumptions C04_cost_constants_are_consensus.
Check C04_two_byte_cost_table :
  COSTS = Spec.two_byte_costs.
Print Assumptions C04_two_byte_cost_table.
Check C04_unknown_condition_cost :
  forall op,
  compute_unknown_condition_cost op = if op <? 256 then 0 else nth (N.to_nat (op mod 256)) Spec.two_byte_costs 0.
Print Assumptions C04_unknown_condition_cost.
Check C04_cost_accounting :
  forall vk H K fl V t max_cost clvm_cost b spends pairs,
  parse_spends vk H K fl V t max_cost clvm_cost = Ok (b, spends, pairs) ->
  b_cost b = b_cond_cost b /\ b_cond_cost b = sumN (map sp_cond_cost spends) /\ b_cost b <= max_cost.
Print Assumptions C04_cost_accounting.
Check C04_limit_exact :
  forall vk H K fl V t max_cost clvm_cost b spends pairs,
  parse_spends vk H K fl V t max_cost clvm_cost = Ok (b, spends, pairs) ->
  b_cost b <= max_cost /\
  parse_spends vk H K fl V t (b_cost b) clvm_cost = Ok (b, spends, pairs) /\
  (forall m, m < b_cost b -> parse_spends vk H K fl V t m clvm_cost = Err CostExceeded).
Print Assumptions C04_limit_exact.
