From ChiaV.Props Require Import C04.
