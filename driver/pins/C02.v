(* statement pins and axiom audit for C02 (compiled on every check; regenerate BY HAND with driver/mkpins.py) *)
From ChiaV.Base Require Import Bytes.
From ChiaV.Clvm Require Import Sexp Ints.
From ChiaV.Clvm Require Import IntsProofs LadderProofs.
From ChiaV.Gen Require Import Ladders.
From ChiaV.Cond Require Import Model Invariants.
Open Scope N_scope.
From ChiaV.Props Require Import C02.
Check C02_accepted_conserves :
  forall vk H K fl V t max_cost clvm_cost b spends pairs,
  parse_spends vk H K fl V t max_cost clvm_cost = Ok (b, spends, pairs) ->
  b_addition b + b_reserve_fee b <= b_removal b /\
  b_removal b = sumN (map sp_amount spends) /\
  b_addition b = sumN (map created spends) /\
  NoDup (map sp_coin_id spends) /\
  Forall (fun s =>
            NoDup (map (fun c => (nc_ph c, nc_amount c)) (sp_create_coin s)) /\
            sp_coin_id s = H (sp_parent s ++ sp_ph s ++ canon_n (sp_amount s)) /\
            length (sp_parent s) = 32%nat /\ length (sp_ph s) = 32%nat /\ sp_amount s < 2 ^ 64) spends.
Print Assumptions C02_accepted_conserves.
Check C02_coin_id_function_hashes_canonical_amount :
  forall v, v < 2 ^ 64 -> coin_amount_bytes v = canon_n v.
Print Assumptions C02_coin_id_function_hashes_canonical_amount.
