(* statement pins and axiom audit for C15 (compiled on every check) *)
From ChiaV.Base Require Import Bytes Sha256.
From ChiaV.Bls Require Import Algebra Cache Verify Sched Spec Toy.
From ChiaV.Props Require Import C15.
Open Scope N_scope.

Check C15_signature_equation :
  forall (G1 G2 GT : Type) (P : pairing_ops G1 G2 GT), pairing_laws P ->
  forall (sks : list (N * bytes)) (sig : sigpt G2),
  aggregate_verify P sig (pairs_of P sks) = true <->
  no_inf P (pairs_of P sks) /\ sig = SIn (honest_sig P sks).
Print Assumptions C15_signature_equation.
Check C15_every_pair_list_has_keys :
  forall (G1 G2 GT : Type) (P : pairing_ops G1 G2 GT), pairing_laws P ->
  forall pairs : list (pkm (G1:=G1)), exists sks : list (N * bytes), pairs = pairs_of P sks.
Print Assumptions C15_every_pair_list_has_keys.
Check C15_infinity_key_never_valid :
  forall (G1 G2 GT : Type) (P : pairing_ops G1 G2 GT), pairing_laws P ->
  forall (pairs : list (pkm (G1:=G1))) (sig : sigpt G2),
  ~ no_inf P pairs -> aggregate_verify P sig pairs = false.
Print Assumptions C15_infinity_key_never_valid.
Check C15_valid_signature_unique :
  forall (G1 G2 GT : Type) (P : pairing_ops G1 G2 GT), pairing_laws P ->
  forall (pairs : list (pkm (G1:=G1))) (s1 s2 : G2),
  aggregate_verify P (SIn s1) pairs = true -> aggregate_verify P (SIn s2) pairs = true -> s1 = s2.
Print Assumptions C15_valid_signature_unique.
Check C15_single_verify_agrees :
  forall (G1 G2 GT : Type) (P : pairing_ops G1 G2 GT), pairing_laws P ->
  forall (sig : sigpt G2) (pk : G1) (m : bytes), verify P sig pk m = aggregate_verify P sig [(pk, m)].
Print Assumptions C15_single_verify_agrees.
Check C15_gt_path_agrees :
  forall (G1 G2 GT : Type) (P : pairing_ops G1 G2 GT), pairing_laws P ->
  forall (sig : sigpt G2) (pairs : list (pkm (G1:=G1))),
  no_inf P pairs -> aggregate_verify_gt P sig (gts_of P pairs) = aggregate_verify P sig pairs.
Print Assumptions C15_gt_path_agrees.
Check C15_pairing_path_agrees :
  forall (G1 G2 GT : Type) (P : pairing_ops G1 G2 GT), pairing_laws P ->
  forall (sig : sigpt G2) (pairs : list (pkm (G1:=G1))),
  no_inf P pairs -> pairing_verify P sig pairs = aggregate_verify P sig pairs.
Print Assumptions C15_pairing_path_agrees.
Check C15_cache_transparent :
  forall (G1 G2 GT : Type) (P : pairing_ops G1 G2 GT), pairing_laws P ->
  forall (H : bytes -> bytes) (cap : N) (c : cache GT) (progs : list (list call)) (sched : list nat),
  cache_ok P H c -> capacity c = cap -> Forall (Forall (call_ok P)) progs ->
  let g := run_schedule P H true (c, map (start P) progs) sched in
  cache_ok P H (fst g) /\ clen (fst g) <= cap /\ verdicts_transparent P H cap (snd g).
Print Assumptions C15_cache_transparent.
Check C15_cache_transparent_complete :
  forall (G1 G2 GT : Type) (P : pairing_ops G1 G2 GT), pairing_laws P ->
  forall (H : bytes -> bytes) (cap : N) (c : cache GT) (progs : list (list call)) (sched : list nat),
  cache_ok P H c -> capacity c = cap -> Forall (Forall (call_ok P)) progs ->
  let g := run_par P H true c progs sched in
  cache_ok P H (fst g) /\ clen (fst g) <= cap /\ all_finished (snd g) = true /\
  verdicts_transparent P H cap (snd g).
Print Assumptions C15_cache_transparent_complete.
Check C15_every_call_answered :
  forall (G1 G2 GT : Type) (P : pairing_ops G1 G2 GT) (H : bytes -> bytes) (c : cache GT)
         (progs : list (list call)) (sched : list nat),
  Forall2 (fun t prog => thread_obs t = prog_obs prog) (snd (run_par P H true c progs sched)) progs.
Print Assumptions C15_every_call_answered.
Check C15_verdict_independent_of_cache :
  forall (G1 G2 GT : Type) (P : pairing_ops G1 G2 GT), pairing_laws P ->
  forall (H : bytes -> bytes) (c1 c2 : cache GT) (sig : sigpt G2) (pairs : list (pkm (G1:=G1))),
  cache_ok P H c1 -> cache_ok P H c2 ->
  fst (cached_verify P H c1 sig pairs) = fst (cached_verify P H c2 sig pairs) \/ collision H.
Print Assumptions C15_verdict_independent_of_cache.
Check C15_history_transparent :
  forall (G1 G2 GT : Type) (P : pairing_ops G1 G2 GT), pairing_laws P ->
  forall (H : bytes -> bytes) (cap : N) (phases : list phase),
  1 <= cap -> Forall (phase_ok P) phases ->
  let r := run_history P H true (empty_cache cap) phases in
  cache_ok P H (fst r) /\ clen (fst r) <= cap /\ Forall (phase_result_ok P H cap) (snd r).
Print Assumptions C15_history_transparent.
Check C15_sequential_cached_verify :
  forall (G1 G2 GT : Type) (P : pairing_ops G1 G2 GT), pairing_laws P ->
  forall (H : bytes -> bytes) (c : cache GT) (sig : sigpt G2) (pairs : list (pkm (G1:=G1))),
  cache_ok P H c ->
  (fst (cached_verify P H c sig pairs) = aggregate_verify P sig pairs \/ collision H) /\
  cache_ok P H (snd (cached_verify P H c sig pairs)) /\
  clen (snd (cached_verify P H c sig pairs)) <= capacity c.
Print Assumptions C15_sequential_cached_verify.
Check C15_pinned_cache_accepts_infinity_refuted :
  forall (G1 G2 GT : Type) (P : pairing_ops G1 G2 GT), pairing_laws P ->
  forall (H : bytes -> bytes) (cap : N) (m : bytes),
  fst (cached_verify_pinned P H (empty_cache cap) (SIn (gzero (o2 P))) [(gzero (o1 P), m)]) = true /\
  aggregate_verify P (SIn (gzero (o2 P))) [(gzero (o1 P), m)] = false.
Print Assumptions C15_pinned_cache_accepts_infinity_refuted.
Check C15_strong_nondegeneracy :
  forall (G1 G2 GT : Type) (P : pairing_ops G1 G2 GT), pairing_laws P ->
  prime_order P ->
  forall (pk : G1) (q : G2), pk <> gzero (o1 P) -> pair P pk q = gzero (oT P) -> q = gzero (o2 P).
Print Assumptions C15_strong_nondegeneracy.
Check C15_toy_prime_order :
  prime_order toy.
Print Assumptions C15_toy_prime_order.
Check C15_update_premise_needed :
  let pk1 := pk_of toy 11 in let pk2 := pk_of toy 22 in let m := [x01] in
  let c := cache_update Sha256.sha256 (empty_cache 2) (aug toy pk1 m) (pairing_of toy pk2 m) in
  fst (cached_verify toy Sha256.sha256 c (SIn (sign toy 22 m)) [(pk1, m)]) = true /\
  aggregate_verify toy (SIn (sign toy 22 m)) [(pk1, m)] = false.
Print Assumptions C15_update_premise_needed.
Check C15_premises_satisfiable :
  pairing_laws toy.
Print Assumptions C15_premises_satisfiable.
