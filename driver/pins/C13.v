(* statement pins and axiom audit for C13 (compiled on every check) *)
From Coq Require Import String.
From ChiaV.Base Require Import Bytes.
From ChiaV.Stream Require Import Universe Versioned Codec.
From ChiaV.Gen Require Import StreamTypes.
From ChiaV.Props Require Import C13.
Open Scope N_scope.

Check C13_decode_canonical : forall O, prog_len_stable_hyp O -> forall tr t bs v r,
  decode O tr t bs = Some (v, r) ->
  wf O tr t v = true /\ exists e, encode t v = Some e /\ bs = e ++ r.
Print Assumptions C13_decode_canonical.
Check C13_encode_decode_roundtrip : forall O, prog_len_stable_hyp O -> prog_len_pos_hyp O -> forall tr t v,
  wf O tr t v = true ->
  exists e, encode t v = Some e /\ forall r, decode O tr t (e ++ r) = Some (v, r).
Print Assumptions C13_encode_decode_roundtrip.
Check C13_from_bytes_reencodes : forall O, prog_len_stable_hyp O -> forall tr t bs v,
  from_bytes_gen O tr t bs = Some v -> wf O tr t v = true /\ encode t v = Some bs.
Print Assumptions C13_from_bytes_reencodes.
Check C13_one_encoding_per_value : forall O, prog_len_stable_hyp O -> forall tr tr' t bs bs' v,
  from_bytes_gen O tr t bs = Some v -> from_bytes_gen O tr' t bs' = Some v -> bs = bs'.
Print Assumptions C13_one_encoding_per_value.
Check C13_to_bytes_from_bytes : forall O, prog_len_stable_hyp O -> prog_len_pos_hyp O -> forall tr t v,
  wf O tr t v = true -> exists e, encode t v = Some e /\ from_bytes_gen O tr t e = Some v.
Print Assumptions C13_to_bytes_from_bytes.
Check C13_hash_is_H_of_encoding : forall O tr (H : bytes -> bytes) t v e,
  wf O tr t v = true -> has_v2_pos t v = false -> encode t v = Some e -> hash_of H O t v = Some (H e).
Print Assumptions C13_hash_is_H_of_encoding.
Check C13_pos_v2_hash_commits_to_quality : forall O tr v,
  wf_pos O tr v = true -> pos_is_v2 v = true ->
  exists head pf, enc_pos v = Some (head ++ n2be 4 (nlen pf) ++ pf) /\
    dig_pos O v = match quality O (head ++ n2be 4 (nlen pf) ++ pf) with
                  | Some q => DOk (head ++ q)
                  | None => DPanic
                  end.
Print Assumptions C13_pos_v2_hash_commits_to_quality.
Check C13_untrusted_implies_trusted : forall O, prog_len_trust_hyp O -> forall t bs v r,
  decode O false t bs = Some (v, r) -> decode O true t bs = Some (v, r).
Print Assumptions C13_untrusted_implies_trusted.
Check C13_from_bytes_unchecked_superset : forall O, prog_len_trust_hyp O -> forall t bs v,
  from_bytes O t bs = Some v -> from_bytes_unchecked O t bs = Some v.
Print Assumptions C13_from_bytes_unchecked_superset.
Check C13_vec_too_long_fails : forall a l, 2 ^ 32 <= N.of_nat (length l) -> encode (Vec a) (VList l) = None.
Print Assumptions C13_vec_too_long_fails.
Check C13_bytes_too_long_fails : forall b, 2 ^ 32 <= nlen b -> encode Bytes (VBytes b) = None.
Print Assumptions C13_bytes_too_long_fails.
Check C13_from_bytes_consumes_all : forall O tr t bs v,
  from_bytes_gen O tr t bs = Some v -> decode O tr t bs = Some (v, []).
Print Assumptions C13_from_bytes_consumes_all.
Check C13_hypotheses_satisfiable :
  prog_len_stable_hyp toy_oracles /\ prog_len_pos_hyp toy_oracles /\ prog_len_trust_hyp toy_oracles.
Print Assumptions C13_hypotheses_satisfiable.
