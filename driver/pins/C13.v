(* statement pins and axiom audit for C13 (compiled on every check) *)
From Coq Require Import String.
From ChiaV.Base Require Import Bytes.
From ChiaV.Stream Require Import Universe Versioned Codec.
From ChiaV.Gen Require Import StreamTypes.
From ChiaV.Props Require Import C13.
Open Scope N_scope.

Check C13_from_bytes_consumes_all : forall O tr t bs v,
  from_bytes_gen O tr t bs = Some v -> decode O tr t bs = Some (v, []).
Print Assumptions C13_from_bytes_consumes_all.
