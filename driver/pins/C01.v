(* statement pins and axiom audit for C01 (compiled on every check; regenerate BY HAND with driver/mkpins.py) *)
From ChiaV.Base Require Import Bytes.
From ChiaV.Clvm Require Import Sexp Ints.
From ChiaV.Gen Require Import Opcodes.
From ChiaV.Cond Require Import Model Spec Facts.
Open Scope N_scope.
From ChiaV.Cond Require Import Invariants Syntax Collect Rules Refine.
From ChiaV.Cond Require Import Guards Accept Totals Final.
From ChiaV.Cond Require Import Local LocalRules Declarative.
From ChiaV.Cond Require Import Summary.
From ChiaV.Cond Require Import Flags.
From ChiaV.Props Require Import C01.
Check C01_opcodes_are_consensus :
  [REMARK; AGG_SIG_PARENT; AGG_SIG_PUZZLE; AGG_SIG_AMOUNT; AGG_SIG_PUZZLE_AMOUNT; AGG_SIG_PARENT_AMOUNT;
   AGG_SIG_PARENT_PUZZLE; AGG_SIG_UNSAFE; AGG_SIG_ME; CREATE_COIN; RESERVE_FEE; CREATE_COIN_ANNOUNCEMENT;
   ASSERT_COIN_ANNOUNCEMENT; CREATE_PUZZLE_ANNOUNCEMENT; ASSERT_PUZZLE_ANNOUNCEMENT; ASSERT_CONCURRENT_SPEND;
   ASSERT_CONCURRENT_PUZZLE; SEND_MESSAGE; RECEIVE_MESSAGE; ASSERT_MY_COIN_ID; ASSERT_MY_PARENT_ID;
   ASSERT_MY_PUZZLEHASH; ASSERT_MY_AMOUNT; ASSERT_MY_BIRTH_SECONDS; ASSERT_MY_BIRTH_HEIGHT; ASSERT_EPHEMERAL;
   ASSERT_SECONDS_RELATIVE; ASSERT_SECONDS_ABSOLUTE; ASSERT_HEIGHT_RELATIVE; ASSERT_HEIGHT_ABSOLUTE;
   ASSERT_BEFORE_SECONDS_RELATIVE; ASSERT_BEFORE_SECONDS_ABSOLUTE; ASSERT_BEFORE_HEIGHT_RELATIVE;
   ASSERT_BEFORE_HEIGHT_ABSOLUTE; SOFTFORK]
  = Spec.known_one_byte.
Print Assumptions C01_opcodes_are_consensus.
Check C01_parse_opcode_spec :
  forall t op,
  parse_opcode t = Some op <->
  (exists b, t = Atom [b] /\ op = b2n b /\ In op Spec.known_one_byte) \/
  (exists b0 b1, t = Atom [b0; b1] /\ b2n b0 <> 0 /\ op = b2n b0 * 256 + b2n b1).
Print Assumptions C01_parse_opcode_spec.
Check C01_flags_are_consensus :
  FLAG_DONT_VALIDATE_SIGNATURE = Spec.DONT_VALIDATE_SIGNATURE /\ FLAG_NO_UNKNOWN_CONDS = Spec.NO_UNKNOWN_CONDS /\
  FLAG_STRICT_ARGS_COUNT = Spec.STRICT_ARGS_COUNT /\ FLAG_COST_CONDITIONS = Spec.COST_CONDITIONS /\
  FLAG_LIMIT_SPENDS = Spec.LIMIT_SPENDS /\ MAX_SPENDS_PER_BLOCK = Spec.MAX_SPENDS_PER_BLOCK /\
  ANNOUNCE_LIMIT = Spec.ANNOUNCE_LIMIT /\ ELIGIBLE_FOR_DEDUP = Spec.ELIGIBLE_FOR_DEDUP /\
  HAS_RELATIVE_CONDITION = Spec.HAS_RELATIVE_CONDITION /\ ELIGIBLE_FOR_FF = Spec.ELIGIBLE_FOR_FF.
Print Assumptions C01_flags_are_consensus.
Check C01_syntax_then_semantics :
  forall vk H K fl V t max_cost clvm_cost r,
  parse_spends vk H K fl V t max_cost clvm_cost = Ok r <->
  exists ps, tree_syntax fl t = Ok ps /\ bundle_sem vk H K fl V ps max_cost clvm_cost = Ok r.
Print Assumptions C01_syntax_then_semantics.
Check C01_deferred_validation_iff :
  forall vk H K fl V ps max_cost clvm_cost ret state cl,
  spends_sem vk H K fl V ps empty_bundle empty_state max_cost
             (if f_limit_spends fl then Some MAX_SPENDS_PER_BLOCK else None) clvm_cost = Ok (ret, state, cl) ->
  (validate_conditions H ret (post_process H V (fast_rev (b_spends_rev ret)) state) state = Ok tt <->
   b_addition ret + b_reserve_fee ret <= b_removal ret /\
   match b_before_height_absolute ret with Some bh => b_height_absolute ret < bh | None => True end /\
   match b_before_seconds_absolute ret with Some bs => b_seconds_absolute ret < bs | None => True end /\
   CrossRules H ps).
Print Assumptions C01_deferred_validation_iff.
Check C01_accepted_satisfies_cross_rules :
  forall vk H K fl V t max_cost clvm_cost r,
  parse_spends vk H K fl V t max_cost clvm_cost = Ok r ->
  exists ps, tree_syntax fl t = Ok ps /\ CrossRules H ps.
Print Assumptions C01_accepted_satisfies_cross_rules.
Check C01_accept_characterisation :
  forall vk H K fl V t max_cost clvm_cost,
  (exists r, parse_spends vk H K fl V t max_cost clvm_cost = Ok r) <->
  exists ps,
    tree_syntax fl t = Ok ps /\
    spends_guards vk H K fl ps max_cost 0 [] (if f_limit_spends fl then Some MAX_SPENDS_PER_BLOCK else None) = true /\
    BundleRules H ps.
Print Assumptions C01_accept_characterisation.
Check C01_step_guard_sound :
  forall vk K fl st cva st',
  apply_condition vk K fl st cva = Ok st' ->
  aguard vk K fl (acore_of st) cva = true /\ acore_of st' = aeffect fl (acore_of st) cva.
Print Assumptions C01_step_guard_sound.
Check C01_step_guard_complete :
  forall vk K fl st cva,
  aguard vk K fl (acore_of st) cva = true -> exists st', apply_condition vk K fl st cva = Ok st'.
Print Assumptions C01_step_guard_complete.
Check C01_accept_iff_rules :
  forall vk H K fl V t max_cost clvm_cost,
  (exists r, parse_spends vk H K fl V t max_cost clvm_cost = Ok r) <->
  exists ps,
    tree_syntax fl t = Ok ps /\
    NoDup (map (pid H) ps) /\
    (f_limit_spends fl = true -> N.of_nat (length ps) <= MAX_SPENDS_PER_BLOCK) /\
    total_cost fl ps <= max_cost /\
    tot_fee ps < 2 ^ 64 /\
    Forall (LocalRules vk K fl H) ps /\
    BundleRules H ps.
Print Assumptions C01_accept_iff_rules.
Check C01_accepted_summary :
  forall vk H K fl V t max_cost clvm_cost b spends pairs,
  parse_spends vk H K fl V t max_cost clvm_cost = Ok (b, spends, pairs) ->
  exists ps,
    tree_syntax fl t = Ok ps /\
    Forall2 (fun s p => sident s = pident H p /\
                        sp_seconds_relative s = fold_left omax (flat_map c_sr (kn p)) None /\
                        sp_before_seconds_relative s = fold_left omin (flat_map c_bsr (kn p)) None /\
                        sp_height_relative s = fold_left omax (flat_map c_hr (kn p)) None /\
                        sp_before_height_relative s = fold_left omin (flat_map c_bhr (kn p)) None /\
                        sp_birth_seconds s = fold_left (fun _ v => Some v) (flat_map c_bsec (kn p)) None /\
                        sp_birth_height s = fold_left (fun _ v => Some v) (flat_map c_bhei (kn p)) None /\
                        sp_agg_sig s = flat_map c_sig (kn p) /\
                        sp_has_relative s = existsb relative_class (kn p)) spends ps /\
    b_removal b = tot_removal ps /\ b_addition b = tot_addition ps /\ b_reserve_fee b = tot_fee ps /\
    b_height_absolute b = fold_left N.max (flat_map c_ha (all_known ps)) 0 /\
    b_seconds_absolute b = fold_left N.max (flat_map c_sa (all_known ps)) 0 /\
    b_before_height_absolute b = fold_left omin (flat_map c_bha (all_known ps)) None /\
    b_before_seconds_absolute b = fold_left omin (flat_map c_bsa (all_known ps)) None /\
    b_agg_sig_unsafe b = all_unsafe ps /\
    pairs = (if f_dont_validate fl then [] else all_pairs H K ps).
Print Assumptions C01_accepted_summary.
Check C01_accepted_flags :
  forall vk H K fl V t max_cost clvm_cost b spends pairs,
  parse_spends vk H K fl V t max_cost clvm_cost = Ok (b, spends, pairs) ->
  exists ps, tree_syntax fl t = Ok ps /\
    Forall2 (fun s p => sp_ff s = ff_rule H V ps p /\ sp_dedup s = dedup_rule V p) spends ps.
Print Assumptions C01_accepted_flags.
