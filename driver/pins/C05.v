(* statement pins and axiom audit for C05 (compiled on every check; regenerate BY HAND with driver/mkpins.py) *)
From ChiaV.Base Require Import Bytes.
From ChiaV.Clvm Require Import Sexp Ints.
From ChiaV.Gen Require Import Opcodes Ladders.
From ChiaV.Cond Require Import Model Spec Facts SigFacts.
Open Scope N_scope.
From ChiaV.Cond Require Import Invariants Syntax Collect Summary.
From ChiaV.Props Require Import C05.
Check C05_suffix_table :
  forall K s,
  agg_sig_suffix K Spec.AGG_SIG_ME s = sp_coin_id s ++ c_me K /\
  agg_sig_suffix K Spec.AGG_SIG_PARENT s = sp_parent s ++ c_parent K /\
  agg_sig_suffix K Spec.AGG_SIG_PUZZLE s = sp_ph s ++ c_puzzle K /\
  agg_sig_suffix K Spec.AGG_SIG_AMOUNT s = u64_to_bytes (sp_amount s) ++ c_amount K /\
  agg_sig_suffix K Spec.AGG_SIG_PUZZLE_AMOUNT s = sp_ph s ++ u64_to_bytes (sp_amount s) ++ c_puzzle_amount K /\
  agg_sig_suffix K Spec.AGG_SIG_PARENT_AMOUNT s = sp_parent s ++ u64_to_bytes (sp_amount s) ++ c_parent_amount K /\
  agg_sig_suffix K Spec.AGG_SIG_PARENT_PUZZLE s = sp_parent s ++ sp_ph s ++ c_parent_puzzle K.
Print Assumptions C05_suffix_table.
Check C05_amount_suffix_canonical :
  forall K s, sp_amount s < 2 ^ 64 ->
  agg_sig_suffix K Spec.AGG_SIG_AMOUNT s = canon_n (sp_amount s) ++ c_amount K /\
  agg_sig_suffix K Spec.AGG_SIG_PUZZLE_AMOUNT s = sp_ph s ++ canon_n (sp_amount s) ++ c_puzzle_amount K /\
  agg_sig_suffix K Spec.AGG_SIG_PARENT_AMOUNT s = sp_parent s ++ canon_n (sp_amount s) ++ c_parent_amount K.
Print Assumptions C05_amount_suffix_canonical.
Check C05_condition_adds_exactly_its_pair :
  forall vk K fl st op pk msg st',
  apply_condition vk K fl st (CAggSig op pk msg) = Ok st' ->
  vk pk = true /\
  (op = AGG_SIG_UNSAFE -> check_agg_sig_unsafe_message K msg = Ok tt) /\
  s_pkm_pairs_rev (l_state st') =
    if f_dont_validate fl then s_pkm_pairs_rev (l_state st)
    else (pk, if op =? AGG_SIG_UNSAFE then msg else msg ++ agg_sig_suffix K op (l_spend st)) :: s_pkm_pairs_rev (l_state st).
Print Assumptions C05_condition_adds_exactly_its_pair.
Check C05_invalid_or_infinity_key_rejected :
  forall vk K fl st op pk msg,
  vk pk = false -> exists e, apply_condition vk K fl st (CAggSig op pk msg) = Err e.
Print Assumptions C05_invalid_or_infinity_key_rejected.
Check C05_unsafe_suffix_banned :
  forall K msg,
  check_agg_sig_unsafe_message K msg = Ok tt <->
  (length msg < 32)%nat \/
  Forall (fun c => ends_with msg c = false)
         [c_me K; c_parent K; c_puzzle K; c_amount K; c_puzzle_amount K; c_parent_amount K; c_parent_puzzle K].
Print Assumptions C05_unsafe_suffix_banned.
Check C05_ends_with_is_suffix :
  forall buf suffix,
  ends_with buf suffix = true <-> exists pre, buf = pre ++ suffix.
Print Assumptions C05_ends_with_is_suffix.
Check C05_signed_text_injective :
  forall msg msg' attr attr' k k' : bytes,
  (msg ++ attr ++ k = msg' ++ attr ++ k -> msg = msg') /\
  (length attr = length attr' -> msg ++ attr ++ k = msg ++ attr' ++ k -> attr = attr') /\
  (msg ++ attr ++ k = msg ++ attr ++ k' -> k = k').
Print Assumptions C05_signed_text_injective.
Check C05_pairs_exactly_the_prescribed_ones :
  forall vk H K fl V t max_cost clvm_cost b spends pairs,
  parse_spends vk H K fl V t max_cost clvm_cost = Ok (b, spends, pairs) ->
  exists ps, tree_syntax fl t = Ok ps /\
    pairs = (if f_dont_validate fl then []
             else flat_map (fun p => flat_map (c_pair K (spend0 H p)) (kn p)) ps).
Print Assumptions C05_pairs_exactly_the_prescribed_ones.
