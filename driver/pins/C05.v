From ChiaV.Props Require Import C05.
