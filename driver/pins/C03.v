(* statement pins and axiom audit for C03 (compiled on every check) *)
From ChiaV.Base Require Import Bytes.
From ChiaV.Clvm Require Import Sexp Ints.
From ChiaV.Gen Require Import Opcodes.
From ChiaV.Cond Require Import Model.
From ChiaV.Locks Require Import TimeLocks.
From ChiaV.Props Require Import C03.
Open Scope N_scope.

Check C03_fold_sound_complete :
  forall (vk : bytes -> bool) (H : bytes -> bytes) (K : consts) (fl : cflags) (V : visitor)
         (spends : sexp) (max_cost clvm_cost : N) ret sps pairs (recs : coin_records) (h t : N),
    parse_spends vk H K fl V spends max_cost clvm_cost = Ok (ret, sps, pairs) ->
    (check_time_locks recs ret sps h t true = Ok tt <->
       Forall (fun c => recs c <> None) (bundle_coins H spends) /\
       Forall (holds recs h t) (bundle_assertions H fl spends)).
Print Assumptions C03_fold_sound_complete.
Check C03_fold_list_sound_complete :
  forall (vk : bytes -> bool) (K : consts) (fl : cflags) (st : lstate) (cs : list condition) (st' : lstate)
         (recs : coin_records) (h t : N),
    apply_all vk K fl st cs = Ok st' -> no_lock_fields (l_spend st) ->
    (check_time_locks recs (l_ret st') [l_spend st'] h t true = Ok tt <->
       check_time_locks recs (l_ret st) [] h t true = Ok tt /\
       recs (sp_coin_id (l_spend st)) <> None /\
       Forall (holds recs h t) (locks_of (sp_coin_id (l_spend st)) cs)).
Print Assumptions C03_fold_list_sound_complete.
Check C03_impossible_only_if :
  forall (vk : bytes -> bool) (H : bytes -> bytes) (K : consts) (fl : cflags) (V : visitor)
         (spends : sexp) (max_cost clvm_cost : N) (e : ecode),
    parse_spends vk H K fl V spends max_cost clvm_cost = Err e -> is_impossible e = true ->
    forall (recs : coin_records) (h t : N), ~ Forall (holds recs h t) (bundle_assertions H fl spends).
Print Assumptions C03_impossible_only_if.
Check C03_fold_list_reject_only_if :
  forall (vk : bytes -> bool) (K : consts) (fl : cflags) (st : lstate) (cs : list condition) (e : ecode),
    apply_all vk K fl st cs = Err e -> no_lock_fields (l_spend st) ->
    is_impossible e = true \/ e = AssertMyBirthHeightFailed \/ e = AssertMyBirthSecondsFailed ->
    forall (recs : coin_records) (h t : N), ~ Forall (holds recs h t) (locks_of (sp_coin_id (l_spend st)) cs).
Print Assumptions C03_fold_list_reject_only_if.
Check C03_legacy_differs_refuted :
  exists cs st' h t,
    apply_all (fun _ => false) ex_consts ex_flags ex_state cs = Ok st' /\ h < U32 /\ t < U64 /\
    check_time_locks ex_recs (l_ret st') [l_spend st'] h t false = Ok tt /\
    check_time_locks ex_recs (l_ret st') [l_spend st'] h t true <> Ok tt /\
    ~ Forall (holds ex_recs h t) (locks_of ex_id cs).
Print Assumptions C03_legacy_differs_refuted.
Check C03_legacy_rejects_true_refuted :
  exists cs st' h t,
    apply_all (fun _ => false) ex_consts ex_flags ex_state cs = Ok st' /\ h < U32 /\ t < U64 /\
    check_time_locks ex_recs (l_ret st') [l_spend st'] h t false <> Ok tt /\
    check_time_locks ex_recs (l_ret st') [l_spend st'] h t true = Ok tt /\
    Forall (holds ex_recs h t) (locks_of ex_id cs).
Print Assumptions C03_legacy_rejects_true_refuted.
Check C03_nonvacuous_accept :
  exists st', apply_all (fun _ => false) ex_consts ex_flags ex_state ex_conds = Ok st' /\
              no_lock_fields (l_spend ex_state) /\
              check_time_locks ex_recs (l_ret st') [l_spend st'] 20 1000 true = Ok tt /\
              Forall (holds ex_recs 20 1000) (locks_of ex_id ex_conds) /\
              length (locks_of ex_id ex_conds) = 12%nat.
Print Assumptions C03_nonvacuous_accept.
Check C03_nonvacuous_reject :
  apply_all (fun _ => false) ex_consts ex_flags ex_state [CAssertBeforeHeightRelative 5; CAssertHeightRelative 5]
    = Err ImpossibleHeightRelativeConstraints /\ is_impossible ImpossibleHeightRelativeConstraints = true.
Print Assumptions C03_nonvacuous_reject.
