(* statement pins and axiom audit for C06 (compiled on every check; regenerate BY HAND with driver/mkpins.py) *)
From ChiaV.Base Require Import Bytes.
From ChiaV.Clvm Require Import Sexp Ints.
From ChiaV.Cond Require Import Model Strict.
Open Scope N_scope.
From ChiaV.Cond Require Import Syntax Collect Totals Final Declarative Perm.
From Coq Require Import Permutation.
From ChiaV.Props Require Import C06.
Check C06_strict_implies_lenient :
  forall vk H K V fl fl',
  (f_cost_conds fl' = f_cost_conds fl /\ f_dont_validate fl' = f_dont_validate fl /\
   (f_no_unknown fl' = true -> f_no_unknown fl = true) /\
   (f_strict fl' = true -> f_strict fl = true) /\
   (f_limit_spends fl' = true -> f_limit_spends fl = true)) ->
  forall t max_cost clvm_cost r,
  parse_spends vk H K fl V t max_cost clvm_cost = Ok r ->
  parse_spends vk H K fl' V t max_cost clvm_cost = Ok r.
Print Assumptions C06_strict_implies_lenient.
Check C06_parse_args_strict_implies_lenient :
  forall fl fl',
  (f_cost_conds fl' = f_cost_conds fl /\ f_dont_validate fl' = f_dont_validate fl /\
   (f_no_unknown fl' = true -> f_no_unknown fl = true) /\
   (f_strict fl' = true -> f_strict fl = true) /\
   (f_limit_spends fl' = true -> f_limit_spends fl = true)) ->
  forall c op cva, parse_args fl c op = Ok cva -> parse_args fl' c op = Ok cva.
Print Assumptions C06_parse_args_strict_implies_lenient.
Check C06_permutation_invariance :
  forall vk H K fl V t t' ps ps' max_cost clvm_cost,
  tree_syntax fl t = Ok ps -> tree_syntax fl t' = Ok ps' -> bundle_perm ps ps' ->
  ((exists r, parse_spends vk H K fl V t max_cost clvm_cost = Ok r) <->
   (exists r, parse_spends vk H K fl V t' max_cost clvm_cost = Ok r)) /\
  total_cost fl ps = total_cost fl ps' /\ tot_fee ps = tot_fee ps' /\ tot_removal ps = tot_removal ps' /\
  tot_addition ps = tot_addition ps' /\ Permutation (all_known ps) (all_known ps').
Print Assumptions C06_permutation_invariance.
