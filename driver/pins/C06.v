From ChiaV.Props Require Import C06.
