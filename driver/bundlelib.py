"""shared helpers of the C08 / C10 checks (unit `bundle`): bundle generators and case-line construction.

A bundle is a dict {spends: [(parent, ph, amount, puzzle_bytes, solution_bytes)], sig: token, flags, max_cost,
scenario, form, tags}.  Synthetic bundles reuse driver/condgen.py for the condition lists their puzzles output:
  form "one":   puzzle = 1 (returns its solution), solution = the condition list; every coin has the same puzzle
                hash, so condgen's self-references (coin ids, puzzle hashes, ephemeral chains) are truthful
  form "quote": puzzle = (q . conditions), solution = nil or junk; the declared puzzle hash is the real tree hash
Every random choice comes from the SplitMix64 passed in."""
import os, sys, glob
sys.path.insert(0, os.path.dirname(os.path.abspath(__file__)))
import common as C
import condgen
from clvm import ser, to_list, canon, coin_id, sha256


def tree_hash(t):
    """iterative (condition lists can be a thousand elements deep)"""
    out = []
    stack = [(t, False)]
    while stack:
        x, done = stack.pop()
        if isinstance(x, tuple):
            if done:
                r = out.pop()
                l = out.pop()
                out.append(sha256(b"\x02" + l + r))
            else:
                stack.append((x, True))
                stack.append((x[1], False))
                stack.append((x[0], False))
        else:
            out.append(sha256(b"\x01" + x))
    return out[0]


UNIT = "bundle"
VH_OVF = C.CACHE + "/target/ovf/vh_bundle"

F_DONT_VALIDATE = 0x10000
F_COMPUTE_FINGERPRINT = 0x40000
F_SIMPLE = 0x1000000
F_INTERNED = 0x8000000
PH_ONE = tree_hash(b"\x01")

# every threshold of the clvm_bytes_len / canonical-length ladder, +-1
LADDER = sorted({v for k in (7, 15, 23, 31, 39, 47, 55, 63) for v in ((1 << k) - 1, 1 << k, (1 << k) + 1)} |
                {0, 1, (1 << 64) - 1, (1 << 64) - 2})


def hexo(b):
    return b.hex() if b else "-"


def setup(rng):
    outs = C.run_lines(C.VH(UNIT), ["bundle.keys 6", "bundle.consts"], shards=1)
    keys = [bytes.fromhex(k) for k in outs[0].split(",")]
    consts_hex, cpb, maxblock, mempool_mode = outs[1].split(" ")
    cb = bytes.fromhex(consts_hex)
    consts = [cb[i * 32:(i + 1) * 32] for i in range(7)]
    env = {"keys": keys, "consts_hex": consts_hex, "cpb": int(cpb), "maxblock": int(maxblock),
           "mempool_mode": int(mempool_mode) & ~F_COMPUTE_FINGERPRINT, "consts": consts}
    return env


def make_gen(rng, env, form):
    g = condgen.Gen(rng, env["keys"], env["consts"])
    if form == "one":
        g.phs = [PH_ONE] * 4
    base_amount = g.amount

    def amount():
        if rng.chance(1, 3):
            return rng.choice(LADDER)
        return base_amount()
    g.amount = amount
    return g


def plain_spends(g, rng):
    """1-3 spends with distinct parents and a few conditions that are valid whatever the puzzle hash is"""
    out = []
    for _ in range(1 + rng.below(3)):
        s = g.new_spend(parent=rng.bytes(32))
        for _ in range(rng.below(4)):
            k = rng.below(5)
            if k == 0:
                g.add_raw(s, "REMARK", [])
            elif k == 1:
                g.add_raw(s, "CREATE_COIN", [rng.bytes(32), canon(min(s["amount"], rng.below(3)))])
                s["amount_left"] = 0
            elif k == 2:
                g.add_raw(s, "ASSERT_HEIGHT_ABSOLUTE", [canon(rng.below(100))])
            elif k == 3:
                g.add_raw(s, "ASSERT_SECONDS_ABSOLUTE", [canon(rng.below(1000))])
            else:
                g.add_raw(s, "RESERVE_FEE", [canon(0)])
        # at most one CREATE_COIN per distinct (ph, amount) is guaranteed by the random puzzle hashes
        out.append(s)
    return out


def spends_of_scenario(g, rng, scen, form):
    """run one condgen scenario and turn its spends into coin spends"""
    sp = plain_spends(g, rng) if scen == "plain" else getattr(g, "sc_" + scen)()
    if isinstance(sp, tuple):
        sp = sp[1]
    out, tags = [], []
    for s in sp:
        conds = to_list(s["conds"], s["cond_term"])
        parent = (s["parent"] + b"\x00" * 32)[:32]
        if form == "one":
            puzzle, solution = b"\x01", conds
        elif form == "dialect":
            name, expr = rng.choice(DIALECT_EXPRS)
            # (r (c EXPR (q . conditions))): evaluates EXPR under the dialect, discards it, returns the conditions
            puzzle = to_list([b"\x06", to_list([b"\x04", expr, (b"\x01", conds)])])
            solution = b""
            tags.append(("DIALECT", name))
        else:
            puzzle = (b"\x01", conds)
            solution = rng.choice([b"", b"", b"", b"\x01", to_list([b"a", b"bc"]), (b"x", b"y")])
        ph = tree_hash(puzzle)
        out.append((parent, ph, s["amount"] & ((1 << 64) - 1), ser(puzzle), ser(solution)))
        tags += s["tags"]
    return out, tags


# expressions whose EVALUATION depends on the CLVM dialect flags (clvmr chia_dialect.rs / op_utils.rs): each is evaluated
# and discarded by a puzzle of the form (r (c EXPR (q . conditions)))
def _q(a):
    return (b"\x01", a)


DIALECT_EXPRS = [
    ("unknown-op-0x50", (b"\x50", b"")),                                         # NO_UNKNOWN_OPS: Unimplemented, else no-op
    ("unknown-op-args", (b"\x50", to_list([_q(b"\x05"), _q(b"abc")]))),
    ("unknown-op-2byte", (b"\x02\x50", to_list([_q(b"\x01")]))),
    ("modpow", (b"\x3c", to_list([_q(b"\x02"), _q(b"\x03"), _q(b"\x05")]))),      # DISABLE_OP
    ("keccak256", (b"\x3e", to_list([_q(b"abc")]))),                             # ENABLE_KECCAK_OPS_OUTSIDE_GUARD, else unknown op
    ("sha256tree", (b"\x3f", to_list([_q((b"a", b"b"))]))),                      # ENABLE_SHA256_TREE, else unknown op
    ("secp-noargs", (b"\x40", b"")),                                             # ENABLE_SECP_OPS: error; else unknown op
    ("noncanonical-int", (b"\x10", to_list([_q(b"\x00\x01"), _q(b"\x01")]))),     # CANONICAL_INTS
    ("noncanonical-neg", (b"\x12", to_list([_q(b"\xff\xff"), _q(b"\x02")]))),
    ("g1-negate-invalid", (b"\x33", to_list([_q(b"\x00" * 48)]))),                # RELAXED_BLS
    ("plain-add", (b"\x10", to_list([_q(b"\x02"), _q(b"\x03")]))),               # control: same in every dialect
]
CLVM_BITS = 0x1 | 0x2 | 0x8 | 0x10 | 0x100 | 0x200 | 0x400 | 0x800
CLVM_STRICT = 0x1 | 0x2 | 0x10 | 0x200          # the dialect part of MEMPOOL_MODE (LIMIT_HEAP aside)

SCENARIOS = ["single", "single", "multi", "announce", "concurrent", "message", "ephemeral", "locks", "dup", "fees",
             "aggsig", "unknown", "malformed", "ff", "limits"]


def random_flags(rng, env):
    fl = 0
    for f, bit in condgen.FLAG.items():
        p = (2, 3) if f == "DONT_VALIDATE_SIGNATURE" else (1, 2) if f == "COST_CONDITIONS" else (1, 3)
        if rng.chance(*p):
            fl |= bit
    if rng.chance(1, 4):
        fl |= env["mempool_mode"]
    if rng.chance(1, 3):
        fl |= F_INTERNED
    if rng.chance(1, 3):
        fl |= F_SIMPLE
    return fl


def synthetic(rng, env, scen=None, form=None):
    form = form or rng.choice(["one", "one", "quote", "dialect"])
    if form == "dialect" and scen is None and rng.chance(2, 3):
        scen = "plain"            # mostly-accepted bundles, so that a dialect mix-up changes the verdict
    scen = scen or rng.choice(SCENARIOS)
    if scen == "limits":
        if rng.chance(1, 4):
            form = "one"
        else:
            scen = "multi"        # the 1024-condition cases are expensive for the model: keep them rare
    g = make_gen(rng, env, form)
    spends, tags = spends_of_scenario(g, rng, scen, form)
    b = {"spends": spends, "sig": "-", "flags": random_flags(rng, env), "max_cost": 11000000000, "scenario": scen,
         "form": form, "tags": tags, "mut": "none", "dialect": "-"}
    if form == "dialect":
        # flag sets for dialect-gated puzzles: consensus mode (no strict CLVM bit), the full MEMPOOL_MODE, or a random subset
        k = rng.below(4)
        fl = b["flags"] & ~CLVM_BITS
        if k < 2:
            b["dialect"] = "consensus"
            fl &= ~env["mempool_mode"] | F_DONT_VALIDATE | 0x800000 | F_INTERNED | F_SIMPLE
        elif k == 2:
            b["dialect"] = "mempool"
            fl |= env["mempool_mode"]
        else:
            b["dialect"] = "mixed"
            for bit in (0x1, 0x2, 0x8, 0x10, 0x100, 0x200, 0x400, 0x800):
                if rng.chance(1, 3):
                    fl |= bit
        b["flags"] = fl
    # single-point mutations that leave the hypothesis of C08 (recorded; the oracle skips them, the models do not)
    k = rng.below(40)
    if k == 0 and spends:
        i = rng.below(len(spends))
        s = spends[i]
        spends[i] = (s[0], bytes([s[1][0] ^ 1]) + s[1][1:], s[2], s[3], s[4])
        b["mut"] = "wrong-hash"
    elif k == 1 and spends:
        i = rng.below(len(spends))
        s = spends[i]
        spends[i] = (s[0], s[1], s[2], rng.choice([b"", b"\xff", b"\xff\x01", s[3][:-1], b"\xfe\x02"]), s[4])
        b["mut"] = "bad-reveal"
    elif k == 2 and spends:
        i = rng.below(len(spends))
        s = spends[i]
        spends[i] = (s[0], s[1], s[2], s[3], rng.choice([b"", b"\xff", s[4][:-1] if len(s[4]) > 1 else b"\xff"]))
        b["mut"] = "bad-solution"
    elif k == 3 and spends:
        # a non-canonical (but accepted) atom length prefix in the solution: outside the hypothesis
        i = rng.below(len(spends))
        s = spends[i]
        spends[i] = (s[0], s[1], s[2], s[3], b"\xff\xc0\x01\x05" + s[4] if form == "quote" else s[4])
        b["mut"] = "noncanonical-solution" if form == "quote" else "none"
    return b


def spends_token(spends):
    if not spends:
        return "-"
    return ",".join("%s:%s:%d:%s:%s" % (p.hex(), ph.hex(), amt, hexo(puz), hexo(sol)) for p, ph, amt, puz, sol in spends)


def load_test_bundles(limit_bytes=None):
    """[(name, sig_hex, spends_token, size)] for the serialized bundles under /repo/test-bundles"""
    files = sorted(glob.glob(C.REPO + "/test-bundles/*.bundle"))
    sizes = [os.path.getsize(f) for f in files]
    pick = [(f, s) for f, s in zip(files, sizes) if limit_bytes is None or s <= limit_bytes]
    outs = C.run_lines(C.VH(UNIT), ["bundle.file %s" % f for f, _ in pick])
    res = []
    for (f, s), o in zip(pick, outs):
        if " " not in o:
            continue
        sig, sp = o.split(" ")
        res.append((os.path.basename(f), sig, sp, s))
    return res


def pre_pass(env, bundles):
    """ask the implementation for the oracle values of every bundle; fills b['pre']"""
    lines = ["bundle.pre %d %d %s %s %s" % (b["flags"], env["cpb"], env["consts_hex"], b.get("token") or spends_token(b["spends"]), b["sig"])
             for b in bundles]
    outs = C.run_lines(C.VH(UNIT), lines)
    for b, o in zip(bundles, outs):
        t = o.split(" ")
        if len(t) != 9:
            b["pre"] = None
            b["pre_raw"] = o
            continue
        b["pre"] = {"oracle": t[0], "keys": t[1], "sigv": t[2], "sigvb": t[3], "cost": None if t[4] == "E" else int(t[4]),
                    "len": {"p": t[5], "b": t[6], "c": t[7], "i": t[8]}}


def sign_pass(env, bundles):
    """give bundles that will have their signature validated a real aggregate signature (pool keys)"""
    idx = [i for i, b in enumerate(bundles) if not (b["flags"] & F_DONT_VALIDATE) and b.get("want_sig")]
    lines = ["bundle.sign %d %d %s %s 6" % (bundles[i]["flags"], env["cpb"], env["consts_hex"], spends_token(bundles[i]["spends"])) for i in idx]
    outs = C.run_lines(C.VH(UNIT), lines)
    for i, o in zip(idx, outs):
        bundles[i]["sig"] = o if o and o != "PANIC" else "-"


def common_args(env, b, block=False):
    p = b["pre"]
    return "%d %d %d %s %s %s %s %s %s" % (b["flags"], b["max_cost"], env["cpb"], env["consts_hex"], p["keys"],
                                         p["sigvb"] if block else p["sigv"], p["oracle"],
                                         b.get("token") or spends_token(b["spends"]), b["sig"])


def line_sb(env, b):
    return "bundle.sb " + common_args(env, b)


def line_blk(env, b, mode):
    ln = b["pre"]["len"][mode]
    return "bundle.blk %s %s %s" % (common_args(env, b, True), mode, ln if ln != "E" else "0")


def line_gen(b):
    return "bundle.gen " + (b.get("token") or spends_token(b["spends"]))


def line_o8(env, b):
    return "bundle.o8 %d %d %d %s %s %s" % (b["flags"], b["max_cost"], env["cpb"], env["consts_hex"],
                                          b.get("token") or spends_token(b["spends"]), b["sig"])


def verdict(line):
    if line.startswith("OK "):
        return line
    if line.startswith("ERR "):
        return "ERR"
    return line


def verdict_sb(line):
    """`<result> # V=..`: accept + summary, or reject; error codes are information only"""
    r, _, v = line.partition(" # ")
    return verdict(r) + " # " + v


# ------------------------------------------------------------------ builder histories (C10)
U64 = 1 << 64
MIN_COST_THRESHOLD = 6000000


def make_pool(rng, env, n):
    """small bundles that are valid on their own, with their truthful declared cost (execution + conditions)"""
    pool = []
    tries = 0
    while len(pool) < n and tries < 6 * n:
        tries += 1
        r = rng.fork("pool%d" % tries)
        b = synthetic(r, env, scen=r.choice(["single", "multi", "locks", "fees", "unknown", "announce", "ff"]))
        if b["mut"] != "none" or not b["spends"]:
            continue
        b["flags"] = 0
        b["token"] = spends_token(b["spends"])
        pool.append(b)
    outs = C.run_lines(C.VH(UNIT), ["bundle.truth c k0!%s" % b["token"] for b in pool])
    good = []
    for b, o in zip(pool, outs):
        if o.isdigit():
            b["truth"] = int(o)
            good.append(b)
    return good


def bad_bundle(rng):
    """a bundle whose reveal or solution does not parse"""
    p = rng.bytes(32)
    return {"token": "%s:%s:%d:%s:%s" % (p.hex(), (b"\x11" * 32).hex(), rng.below(1000), rng.choice(["ff", "ff01", "c0"]), "80"), "truth": 0,
            "bad": True}


def attempt_token(a, size="-"):
    bt = ";".join("%s!%s" % (sig, tok) for sig, tok in a["bundles"]) if a["bundles"] else "-"
    return "%d@%s@%s" % (a["cost"], size, bt)


def history_line(op, build, h, sizes=None):
    toks = []
    for i, a in enumerate(h["attempts"]):
        sz = "-"
        if sizes is not None and i + 1 < len(sizes) and sizes[i + 1].isdigit():
            sz = sizes[i + 1]
        toks.append(attempt_token(a, sz))
    init = sizes[0] if sizes else "3"
    att = "/".join(toks) if toks else "-"
    if op == "bundle.hist":
        return "bundle.hist %s %s %d %d %s %s" % (build, h["kind"], h["cpb"], h["max"], init, att)
    if op == "bundle.sizes":
        return "bundle.sizes %s %d %d %s" % (build, h["cpb"], h["max"], att)
    if op == "bundle.o10":
        return "bundle.o10 %s %d %d %d %d %s" % (h["kind"], h["cpb"], h["max"], 1 if h["truthful"] else 0, 1 if h.get("check_sig") else 0, att)
    raise KeyError(op)


def parse_hist_costs(out):
    """cost() after each step of a bundle.hist output line (None where absent)"""
    res = []
    for t in out.split(" "):
        if t.startswith("F") or t == "P":
            break
        f = t.split(":")
        c = f[-1]
        res.append(int(c) if c.isdigit() else None)
    return res


def make_histories(rng, env, pool, n):
    hs = []
    for i in range(n):
        r = rng.fork("hist%d" % i)
        kind = r.choice(["c", "i"])
        cpb = r.choice([12000, 12000, 12000, 1, 7, 1000000])
        natt = 1 + r.below(8)
        avail = list(pool)
        r.shuffle(avail)
        attempts = []
        key = 0
        for _ in range(natt):
            nb = r.choice([1, 1, 1, 2, 3, 0])
            bs = []
            truth = 0
            for _ in range(nb):
                if r.chance(1, 25):
                    b = bad_bundle(r)
                elif avail:
                    b = avail.pop()
                else:
                    break
                key += 1
                bs.append((r.choice(["k%d" % (key % 9), "k%d" % (key % 9), "-"]), b["token"]))
                truth += b["truth"]
            attempts.append({"bundles": bs, "truth": truth, "cost": truth, "decl": "T"})
        hs.append({"kind": kind, "cpb": cpb, "max": 1 << 62, "attempts": attempts, "id": i})
    # dry run with no effective limit: the cost() trajectory when everything is accepted
    outs = C.run_lines(C.VH(UNIT), [history_line("bundle.hist", "r", h) for h in hs])
    for h, o in zip(hs, outs):
        r = rng.fork("lim%d" % h["id"])
        traj = [c for c in parse_hist_costs(o) if c is not None]
        h["dry"] = traj
        k = r.below(8)
        if not traj or k == 0:
            h["max"] = r.choice([11000000000, 1 << 40])
            h["maxkind"] = "roomy"
        else:
            j = r.below(len(traj))
            base = traj[j]
            h["max"], h["maxkind"] = r.choice([(base, "exact"), (base - 1, "exact-1"), (base + MIN_COST_THRESHOLD, "thr"),
                                               (base + MIN_COST_THRESHOLD - 1, "thr-1"), (base + MIN_COST_THRESHOLD + 1, "thr+1"),
                                               (traj[-1] + r.below(3 * MIN_COST_THRESHOLD), "tail"),
                                               (MIN_COST_THRESHOLD + 19 + r.below(3), "tiny")])
            h["max"] = max(0, h["max"])
        # declared costs
        h["overflow"] = False
        h["truthful"] = True
        for ai, a in enumerate(h["attempts"]):
            d = r.below(24)
            if d == 0:
                a["cost"], a["decl"] = a["truth"] // 2, "S"
            elif d == 1:
                a["cost"], a["decl"] = 0, "S0"
            elif d == 2:
                a["cost"], a["decl"] = r.choice([1 << 63, (1 << 63) - 1, U64 - (1 << 41), 1 << 50]), "H"
            elif d == 3 and ai < len(traj):
                # land exactly on the limit (or one above) with this attempt, all earlier ones truthful
                slack = h["max"] - traj[ai]
                if slack >= 0 or a["truth"] + slack >= 0:
                    a["cost"], a["decl"] = max(0, a["truth"] + slack + r.choice([0, 0, 1])), "L"
            elif d == 4 and r.chance(1, 2):
                cur = traj[ai - 1] if 0 < ai <= len(traj) else 20
                a["cost"], a["decl"] = r.choice([U64 - 1, U64 - 20, U64 - 21, U64 - cur, U64 - cur - 1, U64 - cur + r.below(h["max"] + 2),
                                                 U64 - cur + h["max"], U64 - cur + h["max"] + 1, U64 - 1 - r.below(1 << 20)]) % U64, "O"
                h["overflow"] = True
                if r.chance(1, 2):
                    h["max"], h["maxkind"] = 11000000000, "roomy"      # earlier attempts accepted as in the dry run: the wrap lands
            if a["cost"] != a["truth"]:
                h["truthful"] = False
    return hs
