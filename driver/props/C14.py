"""C14 — decoding arbitrary bytes is total and bounded.

Model = Stream/Total.v (instrumented decoder: Ok | Err | Panic + cumulative allocation meter) rendered by
`wire.tot` of Run/WireRun.v; implementation = harness `wire.tot`: parse::<TRUSTED> and from_bytes(_unchecked)
under catch_unwind with a counting global allocator, then to_bytes / hash / == / render on the decoded value.

Streams (each x {untrusted, trusted})
  wire.tot.valid    generated well-formed values (reference encoder), plus the same with 1 trailing byte and with
                    the last byte missing (must be rejected by from_bytes)
  wire.tot.mut      single-point mutations at every structural byte (incl. length fields set to 2^31, 2^32-1),
                    truncations, random byte strings of many lengths
  wire.tot.deep     deep CLVM nesting / long atoms / back references inside Program fields, long and nested vectors,
                    length prefixes far beyond the input
  wire.tot.known    the class F-C14-1 (decodable v2 ProofOfSpace whose proof has no quality string: hash() panics)
Compared with the model: decode outcome and bytes consumed, from_bytes outcome, which operation panics/errs.
Implementation-only oracle: no panic in decoding; no panic in any operation unless the model classifies the value
into F-C14-1; from_bytes ok => whole input consumed; peak allocation <= alloc_bound = (depth+1)*2 MiB + c_ty*len (also checked for the model's own meter)
and <= the model's meter + slack; wall time per case below the cap; size_of::<T>() <= mem_size(T) for every type."""
import os, sys, json
sys.path.insert(0, os.path.dirname(os.path.dirname(os.path.abspath(__file__))))
import common as C
from run import diff_stream
from props import wire_common as W

UNIT = "wire"
GEN = ["streamtypes"]
RULE = ("per type x {trusted, untrusted}: valid encodings, +1 trailing byte, -1 missing byte, mutations at every structural "
        "byte, truncations, random strings of length 0..300, length fields up to 2^32-1, CLVM nesting depth up to 20000 "
        "(quick) / 400000 (thorough); distinct non-trivial = distinct (type, trusted, input kind, decode outcome, ops outcome)")
ASSUMPTIONS = ["'never loops' is measured (wall-time cap per case), not proved of Rust; the model is structurally recursive",
               "the allocation meter of the model is cumulative and uses an upper bound of size_of (checked per type per run)",
               "clvmr's scratch Allocator is charged 1 MiB + 6 KiB + 64 bytes per examined byte (measured, not proved)"]
TRUSTED = ["counting global allocator and catch_unwind wrapper in harness/src/bin/vh_wire.rs"]

SLACK_ABS = 128 * 1024
MS_CAP = 4000
KNOWN_ID = "F-C14-1"


def deep_programs(tier):
    out = []
    depths = [10, 1000, 20000] if tier == "quick" else [10, 1000, 20000, 400000]
    for d in depths:
        out.append(("clvm-right-nest-%d" % d, b"\xff\x01" * d + b"\x80"))
        out.append(("clvm-left-nest-%d" % d, b"\xff" * d + b"\x80" + b"\x01" * d))
        out.append(("clvm-unterminated-%d" % d, b"\xff" * d))
        out.append(("clvm-backrefs-%d" % d, b"\xff\x01" + b"\xff\xfe\x02" * min(d, 5000) + b"\x80"))
    out.append(("clvm-long-atom", b"\xc1\x00" + b"\x07" * 256))
    out.append(("clvm-huge-atom-claim", b"\xfb\xff\xff\xff\xff\xff"))
    out.append(("clvm-atom-claim-4g", b"\xf8\xff\xff\xff\xff" + b"\x00" * 8))
    out.append(("clvm-path-huge", b"\xff\x01\xfe\xc4\x00" + b"\x01" * 1024))
    return out


def classify_known(failure, known):
    """F-C14-1: hash() of a decodable v2 ProofOfSpace with an invalid proof panics.  Matches only failures of the
    dedicated stream whose model classification (K:1) says the value contains such a proof and where the ONLY
    deviation is the hash panic."""
    for k in known:
        if k.get("id") != KNOWN_ID:
            continue
        if failure.get("stream") == "wire.tot.known" and " K:1" in (failure.get("model") or "") and "OPS:oPoo" in (failure.get("impl") or "") \
                and "D:ok" in failure["impl"] and "PANIC" not in failure["impl"].replace("OPS:oPoo", ""):
            return KNOWN_ID
    return None


def run(ctx):
    rep, tier = ctx["rep"], ctx["tier"]
    rng = C.SplitMix64(ctx["seed"])
    have_model = ctx["have_model"]
    D = W.Descs()
    rep.extra["types_from_snapshot"] = D.broken is not None
    cache = W.OracleCache()
    if ctx.get("replay"):
        f = json.load(open(ctx["replay"]))
        line = f["failing_input"]["case"]
        toks = line.split(" ")
        cases = [(toks[1], int(toks[2]), bytes.fromhex(toks[3]) if toks[3] != "-" else b"", "replay")]
        return run_tot(rep, cache, have_model, "wire.tot.known" if f["failing_input"]["stream"] == "wire.tot.known" else "replay", cases, D, known_stream=(f["failing_input"]["stream"] == "wire.tot.known"))

    # size_of <= mem_size for every type
    if have_model:
        ms = dict(x.split(":") for x in C.run_lines(C.VRUN(UNIT), ["wire.sizes"], shards=1)[0].split(","))
        names = list(ms.keys())
        rs = C.run_lines(C.VH(UNIT), ["wire.sizeof %s" % n for n in names])
        bad = [(n, r, ms[n]) for n, r in zip(names, rs) if not r.isdigit() or int(r) > int(ms[n])]
        for n, r, m in bad:
            rep.add_failure("wire.sizeof", "wire.sizeof %s" % n, r, m, "size_of::<T>() exceeds the model's mem_size upper bound (allocation bound unsound)")
        rep.streams["wire.sizeof"] = {"cases": len(names), "max_ratio": round(max(int(ms[n]) / max(int(r), 1) for n, r in zip(names, rs) if r.isdigit()), 2)}
        rep.evaluations += len(names)

    P = W.Pools()
    G = W.Gen(D, P, rng.fork("gen"))
    per_type = 3 if tier == "quick" else 30
    valid, known = [], []
    for n in D.names():
        d = D.top[n]
        for i in range(per_type):
            v = G.value(d)
            bs, marks = W.encode(D, d, v)
            valid.append((n, bs, marks))
    cases = []
    for n, bs, marks in valid:
        for tr in (0, 1):
            cases.append((n, tr, bs, "valid"))
        cases.append((n, 0, bs + b"\x00", "trailing"))
        cases.append((n, 1, bs + bs[-1:] if bs else b"\x01", "trailing"))
        if bs:
            cases.append((n, 0, bs[:-1], "missing"))
            cases.append((n, 1, bs[:-1], "missing"))
    run_tot(rep, cache, have_model, "wire.tot.valid", cases, D)

    mrng = rng.fork("mut")
    cases = []
    done = {}
    for n, bs, marks in valid:
        if done.get(n, 0) >= (1 if tier == "quick" else 6) or not bs:
            continue
        done[n] = done.get(n, 0) + 1
        for kind, m in W.mutations(bs, marks, mrng, 14 if tier == "quick" else 60):
            cases.append((n, mrng.below(2), m, kind.split(":")[0]))
    for n in D.names():
        for ln in ((0, 1, 2, 5, 33, 100, 300) if tier == "quick" else (0, 1, 2, 3, 4, 5, 8, 16, 33, 64, 100, 300, 1000, 5000)):
            cases.append((n, mrng.below(2), mrng.bytes(ln), "random"))
        cases.append((n, 0, b"\xff" * 64, "all-ff"))
        cases.append((n, 1, b"\x00" * 64, "all-00"))
        cases.append((n, 0, b"\x01" * 200, "all-01"))
    run_tot(rep, cache, have_model, "wire.tot.mut", cases, D)

    # deep / large inputs
    cases = []
    progs = deep_programs(tier)
    for kind, p in progs:
        for tr in (0, 1):
            cases.append(("Program", tr, p, kind))
    # Program inside a message (CoinSpend: coin, puzzle_reveal, solution) and inside an Option (generator tail)
    coin = b"\x11" * 32 + b"\x22" * 32 + (5).to_bytes(8, "big")
    for kind, p in progs[:8]:
        cases.append(("CoinSpend", 0, coin + p + b"\x80", kind))
        cases.append(("CoinSpend", 1, coin + b"\x80" + p, kind))
    for n, d in D.top.items():
        if d[0] == "Ref" and D.types[d[1]]["kind"] == "struct" and D.types[d[1]]["wire"]:
            first = D.types[d[1]]["wire"][0][1]
            if first[0] == "Vec":
                for claim in (1, 1000, 0x00ffffff, 0x7fffffff, 0xffffffff):
                    cases.append((n, 0, claim.to_bytes(4, "big"), "veclen-claim"))
                    cases.append((n, 1, claim.to_bytes(4, "big") + b"\x00" * 40, "veclen-claim"))
    big = 20000 if tier == "quick" else 2000000
    cases.append(("Bytes", 0, big.to_bytes(4, "big") + b"\xab" * big, "bytes-big"))
    cases.append(("RequestRemovals" if "RequestRemovals" in D.top else "Bytes", 0, b"\x00" * 36 + b"\x01" + (3000).to_bytes(4, "big") + b"\x33" * 32 * 3000, "vec-long"))
    run_tot(rep, cache, have_model, "wire.tot.deep", cases, D)

    # ProofOfSpace shapes the parser must reject in BOTH modes (a trusted parse that lets them through hands the
    # receiver a value whose hash() panics in compute_plot_id / update_digest): v2 with both or neither of pool key /
    # contract hash, versions >= 2, high prefix bits; with valid (test-vector) and junk proofs, bare and nested
    cases = []
    srng = rng.fork("pos-shapes")
    Gs = W.Gen(D, P, srng)
    bases = [list(v) for v in P.v2[:4]] + [Gs.pos("v1pk"), Gs.pos("v1c")]
    g1 = P.g1[1] if len(P.g1) > 1 else W.INF1
    for b in bases:
        variants = [("v2-both", b[:1] + [("some", g1), ("some", b"\x22" * 32)] + b[3:]),
                    ("v2-neither", b[:1] + [None, None] + b[3:]),
                    ("version2", b[:4] + [2] + b[5:]), ("version3", b[:4] + [3] + b[5:]), ("version127", b[:4] + [127] + b[5:])]
        for tag, v in variants:
            bs, _ = W.encode(D, ("PoS",), v)
            for tr in (0, 1):
                cases.append(("ProofOfSpace", tr, bs, tag))
            for n, idx in (("RewardChainBlockUnfinished", 3), ("RewardChainBlock", 5)):
                if n in D.top and tag.startswith("v2-"):
                    w = Gs.value(D.top[n])
                    w[idx] = v
                    wb, _ = W.encode(D, D.top[n], w)
                    cases.append((n, 1, wb, tag + "-nested"))
                    cases.append((n, 0, wb, tag + "-nested"))
    run_tot(rep, cache, have_model, "wire.tot.pos", cases, D)

    # the known class, kept apart
    cases = []
    krng = rng.fork("known")
    Gk = W.Gen(D, P, krng)
    for kind in ("v1pk", "v1c"):
        for i in range(3 if tier == "quick" else 30):
            v = Gk.pos(kind)
            bs, _ = W.encode(D, ("PoS",), v)
            for tr in (0, 1):
                cases.append(("ProofOfSpace", tr, bs, "v2-junk-proof"))
    # inside a containing message
    if "RewardChainBlockUnfinished" in D.top:
        d = D.top["RewardChainBlockUnfinished"]
        for i in range(2):
            v = Gk.value(d)
            v[3] = Gk.pos("v1pk")
            bs, _ = W.encode(D, d, v)
            cases.append(("RewardChainBlockUnfinished", 0, bs, "v2-junk-proof-nested"))
    run_tot(rep, cache, have_model, "wire.tot.known", cases, D, known_stream=True)


def run_tot(rep, cache, have_model, stream, cases, D, known_stream=False):
    """cases: [(type, trusted, bytes, kind)]"""
    need = ["wire.need %s b %s" % (t, bs.hex() or "-") for t, _, bs, _ in cases]
    tabs = W.with_oracles(cache, need, have_model)
    lines = ["wire.tot %s %d %s %s" % (t, tr, bs.hex() or "-", tab) for (t, tr, bs, _), tab in zip(cases, tabs)]
    impl = C.run_lines(C.VH(UNIT), lines)
    model = C.run_lines(C.VRUN(UNIT), lines) if have_model else ["MODEL-UNAVAILABLE"] * len(lines)
    kinds = {l: c[3] for l, c in zip(lines, cases)}

    def proj(o):
        t = W.tokens(o)
        return "D:%s F:%s OPS:%s" % (t.get("D"), t.get("F"), t.get("OPS")) if "D" in t else o

    def key(c, i):
        toks = c.split(" ")
        t = W.tokens(i)
        return (toks[1], toks[2], kinds.get(c), (t.get("D") or i).split(":")[0], t.get("OPS"))
    if have_model:
        diff_stream(rep, stream, lines, impl, model, key, project=proj)
    else:
        rep.evaluations += len(lines)
    st = rep.streams.setdefault(stream, {})
    hist, maxratio, maxms, known_seen = {}, 0.0, 0, 0
    known_listed = any(k.get("id") == KNOWN_ID for k in C.load_known())
    for (t, tr, bs, kind), l, i, m in zip(cases, lines, impl, model):
        ti, tm = W.tokens(i), W.tokens(m)
        d = ti.get("D", i)
        hist[d.split(":")[0]] = hist.get(d.split(":")[0], 0) + 1
        why = None
        if "D" not in ti:
            why = "the implementation did not answer (panic / crash / timeout outside catch_unwind): %s" % i[:60]
        elif d == "PANIC" or ti.get("F") == "PANIC":
            why = "decoding panics"
        elif ti.get("F") == "ok" and d != "ok:%d" % len(bs):
            why = "from_bytes accepts although the parser did not consume exactly the input"
        elif kind in ("trailing", "missing") and ti.get("F") == "ok":
            why = "input with %s bytes accepted" % kind
        elif "n" in ti.get("OPS", ""):
            why = "a decoded value is not equal to itself"
        elif "P" in ti.get("OPS", ""):
            is_known = (tm.get("K") == "1" and ti.get("OPS") == "oPoo")
            if is_known:
                known_seen += 1
                if known_listed or not known_stream:
                    # reported as a failure and matched by witness class (classify_known) once the entry is listed;
                    # outside the dedicated stream the same class is only counted
                    if known_listed and known_stream:
                        rep.add_failure(stream, l, i, m, "hash() of a decoded value panics (class F-C14-1)")
            else:
                why = "an operation on a successfully decoded value panics (not the known class F-C14-1)"
        if why is None and "A" in ti and have_model and "BOUND" in tm:
            a_real, bound, a_model = int(ti["A"]), int(tm["BOUND"]), int(tm["A"])
            if a_model > bound:
                why = "the MODEL's allocation meter %d exceeds alloc_bound %d for %d input bytes (the bound formula is wrong)" % (a_model, bound, len(bs))
            elif a_real > bound:
                why = "peak allocation %d exceeds the bound %d for %d input bytes" % (a_real, bound, len(bs))
            elif a_real > a_model + SLACK_ABS + a_model // 8:
                why = "peak allocation %d exceeds the model's meter %d (+slack)" % (a_real, a_model)
            if len(bs):
                maxratio = max(maxratio, a_real / (len(bs) + 1))
        if why is None and "MS" in ti:
            maxms = max(maxms, int(ti["MS"]))
            if int(ti["MS"]) > MS_CAP:
                why = "decoding took %s ms (cap %d)" % (ti["MS"], MS_CAP)
        if why:
            rep.add_failure(stream + "/oracle", l, i, m, why)
    st["decode_outcomes"] = hist
    st["max_alloc_per_input_byte"] = round(maxratio, 1)
    st["max_ms"] = maxms
    st["known_class_F-C14-1_seen"] = known_seen
    st["oracle_checked"] = len(cases)
    if known_stream:
        if known_seen == 0 and cases:
            rep.add_broken("known-finding", KNOWN_ID, "the known class F-C14-1 no longer reproduces (hash() of a v2 proof with an invalid "
                           "proof did not panic): the finding may have been fixed; update KNOWN_FINDINGS / the model (dig_pos)")
        rep.extra["finding_F-C14-1"] = {"reproduced": known_seen, "listed_in_KNOWN_FINDINGS": known_listed,
                                        "example": lines[0][:400] if lines else None}
