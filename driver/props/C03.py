"""C03 — time-lock aggregation and checking equal per-condition semantics.

Streams (model = coq/Run/LocksRun.v: Cond.Model.parse_spends, then the check_time_locks mirror of
Locks/TimeLocks.v; impl = harness vh_locks.rs: parse_spends -> OwnedSpendBundleConditions -> check_time_locks):
  locks.check   bundles of lock/birth conditions x chain states, both nowrap modes; verdicts diffed
                (parse rejection class / locks pass / locks fail), folded summaries compared as a tie check
  locks.code    same inputs, error codes of both stages (information only)
  locks.oracle  implementation-level oracle: every ORIGINAL assertion of the case is evaluated
                arithmetically in Rust (saturating sums, independent of the fold) and the conjunction is
                compared with the verdict of parse_spends + check_time_locks(nowrap = true); when parsing
                rejects, a grid of boundary chain states is searched for one satisfying all assertions.
Generators: state-first consistent bundles with tight bounds and +-1 perturbed states; conflicting
assertions with boundary arguments (0, 1, 2^32-1, 2^32, 2^64-1, 2^64, negative, redundant zero);
ephemeral parent/child pairs carrying relative/birth assertions; sums crossing 2^32 / 2^64."""
import os, sys, json
sys.path.insert(0, os.path.dirname(os.path.dirname(os.path.abspath(__file__))))
import common as C
from run import diff_stream
from clvm import canon, to_list, ser, coin_id
from condgen import OPC, FLAG, op_atom

UNIT = "locks"
GEN = ["opcodes", "ladders"]
RULE = ("bundles of 1-3 spends with 0-6 lock/birth conditions each over the 10 kinds, from 8 generators: consistent (state "
        "first, tight bounds), conflict (boundary pool 0,1,W-1,W,W+1,2^32+-1,2^64+-1,negative,2^72,redundant zero,pair,missing), "
        "pairs (before/after and birth pairs, equal or adjacent values, both orders), small, overflow (sums crossing 2^32/2^64), "
        "ephemeral (parent/child, near misses, relative kind x argument class cycled), classes (kind x argument class cycled, "
        "verdict depending on that one assertion); 4-9 chain states per bundle placed on every threshold of the bundle's own "
        "assertions and +-1, type maxima, wrap boundaries, missing coin records; both nowrap modes; corpus/C03 first. "
        "non-trivial/distinct = distinct (generator, set of (kind, argument class), nowrap, verdict class) tuples")
ASSUMPTIONS = [
    "Cond/Model.v mirrors conditions.rs (validated by the cond stream and again here: parse verdict class and folded lock summary of every case)",
    "chain states of the oracle's unsatisfiability search are a finite grid of boundary values (complete for conjunctions of the 10 kinds: "
    "thresholds, their sums/differences, +-1 and the type extremes)",
    "arguments outside the type's range are read with exact integer sums (reading 1); cases where capping such sums at the type "
    "maximum would change the verdict are reported as EDGE (information), see notes/locks.md",
]
TRUSTED = ["Rust oracle in harness/src/bin/vh_locks.rs (holds/satisfiable on i128)",
           "case generator driver/props/C03.py (assertion list handed to the oracle is built from the same description as the tree)"]

M32 = (1 << 32) - 1
M64 = (1 << 64) - 1
KINDS = {
    "HR": ("ASSERT_HEIGHT_RELATIVE", 4), "SR": ("ASSERT_SECONDS_RELATIVE", 8),
    "BHR": ("ASSERT_BEFORE_HEIGHT_RELATIVE", 4), "BSR": ("ASSERT_BEFORE_SECONDS_RELATIVE", 8),
    "HA": ("ASSERT_HEIGHT_ABSOLUTE", 4), "SA": ("ASSERT_SECONDS_ABSOLUTE", 8),
    "BHA": ("ASSERT_BEFORE_HEIGHT_ABSOLUTE", 4), "BSA": ("ASSERT_BEFORE_SECONDS_ABSOLUTE", 8),
    "BH": ("ASSERT_MY_BIRTH_HEIGHT", 4), "BS": ("ASSERT_MY_BIRTH_SECONDS", 8),
}
KNAMES = list(KINDS.keys())
HEIGHT = {"HR", "BHR", "HA", "BHA", "BH"}
RELATIVE = {"HR", "SR", "BHR", "BSR", "BH", "BS"}
MALFORMED = [b"\x00", b"\x00\x01", b"\x00\x7f", b"\x00\x00\x80", b"\x00\x64", (b"", b""), None]


def kmax(k):
    return M32 if k in HEIGHT else M64


def argclass(k, v):
    if not isinstance(v, int):
        return "malformed"
    m = kmax(k)
    if v < 0:
        return "neg"
    if v == 0:
        return "zero"
    if v == m:
        return "max"
    if v > m:
        return "over"
    return "in"


def argpool(rng, k):
    w = kmax(k) + 1
    p = [0, 1, 2, 10, 100, w - 1, w - 2, w // 2, w // 2 - 1, M32, M32 + 1, M32 + 2, M64, M64 + 1, M64 + 2, w, w + 1,
         -1, -2, -128, -129, -(1 << 31), -(1 << 63), -w, 1 << 72]
    r = rng.below(10)
    if r < 6:
        return rng.choice(p)
    if r < 8:
        return rng.below(1000)
    return rng.next() % w


class Spend:
    def __init__(self, rng, parent=None, ph=None, amount=None):
        self.parent = parent or rng.bytes(32)
        self.ph = ph or rng.bytes(32)
        self.amount = rng.choice([1, 100, 1000, 10 ** 12]) if amount is None else amount
        self.id = coin_id(self.parent, self.ph, self.amount)
        self.asserts = []     # (kind, value | malformed atom/tree | None for a missing argument)
        self.creates = []     # (ph, amount)
        self.noise = []       # extra conditions that do not touch locks


def cond_tree(kind, v):
    op = op_atom(OPC[KINDS[kind][0]])
    if v is None:
        return (op, b"")
    arg = canon(v) if isinstance(v, int) else v
    return (op, to_list([arg]))


def bundle_tree(rng, spends):
    out = []
    for s in spends:
        conds = [cond_tree(k, v) for (k, v) in s.asserts]
        for (ph, amt) in s.creates:
            conds.append((op_atom(OPC["CREATE_COIN"]), to_list([ph, canon(amt)])))
        conds += s.noise
        out.append(to_list([s.parent, s.ph, canon(s.amount), to_list(conds)]))
    return (to_list(out), b"")


def add_noise(rng, s):
    k = rng.below(8)
    if k == 0:
        s.noise.append((op_atom(OPC["REMARK"]), b""))
    elif k == 1:
        s.noise.append((op_atom(OPC["ASSERT_MY_AMOUNT"]), to_list([canon(s.amount)])))
    elif k == 2:
        s.noise.append((op_atom(OPC["ASSERT_MY_COIN_ID"]), to_list([s.id])))


def is_ephemeral(s, spends):
    for p in spends:
        if p.id == s.parent and (s.ph, s.amount) in p.creates:
            return True
    return False


# ---------------------------------------------------------------- chain states
def clip(v, m):
    return max(0, min(m, v))


def thresholds(spends, height):
    m = M32 if height else M64
    vals = []
    for s in spends:
        for (k, v) in s.asserts:
            if (k in HEIGHT) == height and isinstance(v, int):
                vals.append((k, v))
    return m, vals


def boundary_states(rng, spends, n):
    """states placed on the thresholds of the bundle's own assertions"""
    out = []
    for _ in range(n):
        st = {"recs": {}}
        for height in (True, False):
            m, vals = thresholds(spends, height)
            iv = [v for (_, v) in vals if 0 <= v <= m]
            births = {}
            for s in spends:
                pool = [0, 1, 100, m, m - 1, m // 2]
                for (k, v) in s.asserts:
                    if (k in HEIGHT) == height and isinstance(v, int) and 0 <= v <= m:
                        if k in ("BH", "BS"):
                            pool += [v, v, v, clip(v + 1, m), clip(v - 1, m)]
                        else:
                            pool += [clip(m - v, m), clip(m - v + 1, m), clip(m - v - 1, m)]
                births[s.id] = rng.choice(pool)
            pool = [0, 1, m, m - 1]
            for s in spends:
                b = births[s.id]
                pool += [b, clip(b + 1, m)]
                for (k, v) in s.asserts:
                    if (k in HEIGHT) == height and isinstance(v, int) and 0 <= v <= m:
                        if k in ("HA", "SA", "BHA", "BSA"):
                            pool += [clip(v - 1, m), clip(v, m), clip(v + 1, m)] * 2
                        elif k not in ("BH", "BS"):
                            sat = min(b + v, m)
                            wrap = (b + v) % (m + 1)
                            pool += [clip(sat - 1, m), sat, clip(sat + 1, m)] * 2 + [clip(wrap - 1, m), wrap, clip(wrap + 1, m)]
            x = rng.choice(pool)
            if rng.chance(2, 3):
                # keep coins out of the future most of the time
                for s in spends:
                    if births[s.id] > x and rng.chance(3, 4):
                        x = max(x, births[s.id])
            for s in spends:
                st["recs"].setdefault(s.id, [0, 0])[0 if height else 1] = births[s.id]
            st["h" if height else "t"] = x
        if rng.chance(1, 12) and spends:
            del st["recs"][rng.choice(spends).id]
        out.append(st)
    return out


def perturbed_states(rng, base, spends):
    out = [base]

    def cp():
        return {"h": base["h"], "t": base["t"], "recs": {k: list(v) for k, v in base["recs"].items()}}
    for key, m in (("h", M32), ("t", M64)):
        for d in (-1, 1):
            s = cp()
            s[key] = clip(s[key] + d, m)
            out.append(s)
    if spends:
        v = rng.choice(spends).id
        for idx, m in ((0, M32), (1, M64)):
            s = cp()
            s["recs"][v][idx] = clip(s["recs"][v][idx] + rng.choice([-1, 1]), m)
            out.append(s)
        if rng.chance(1, 3):
            s = cp()
            del s["recs"][v]
            out.append(s)
    return out


# ---------------------------------------------------------------- bundle generators
def gen_consistent(rng):
    """state first, then assertions that hold at it with tight bounds (some off by one)"""
    h = rng.choice([0, 1, 1000, 1 << 31, M32 - 1, M32, rng.next() % (M32 + 1)])
    t = rng.choice([0, 1, 10 ** 9, 1 << 63, M64 - 1, M64, rng.next() % (M64 + 1), rng.below(1 << 33)])
    spends = []
    base = {"h": h, "t": t, "recs": {}}
    for _ in range(1 + rng.below(3)):
        s = Spend(rng)
        cbi = rng.choice([0, h, max(h - 1, 0), rng.below(h + 1)])
        ts = rng.choice([0, t, max(t - 1, 0), rng.below(t + 1)])
        base["recs"][s.id] = [cbi, ts]
        off = rng.chance(1, 4)
        for _ in range(rng.below(6)):
            k = rng.choice(KNAMES)
            m = kmax(k)
            x, b = (h, cbi) if k in HEIGHT else (t, ts)
            d = x - b
            if k in ("HR", "SR"):
                v = rng.choice([d, d, max(d - 1, 0), 0, rng.below(d + 1)] + ([min(d + 1, m)] if off else []))
            elif k in ("BHR", "BSR"):
                v = rng.choice([d + 1, d + 1, min(d + 2, m), m, min(d + 1 + rng.below(1000), m)] + ([d] if off else []))
            elif k in ("HA", "SA"):
                v = rng.choice([x, x, max(x - 1, 0), 0, rng.below(x + 1)] + ([min(x + 1, m)] if off else []))
            elif k in ("BHA", "BSA"):
                v = rng.choice([x + 1, x + 1, x + 2, m, m + 1] + ([x] if off else []))
            else:
                v = rng.choice([b, b, b] + ([min(b + 1, m), max(b - 1, 0)] if off else []))
            s.asserts.append((k, v))
        if rng.chance(1, 10):
            s.asserts.append((rng.choice(KNAMES), rng.choice([-1, -5, -(1 << 40)])))
        rng.shuffle(s.asserts)
        add_noise(rng, s)
        spends.append(s)
    return "consistent", spends, perturbed_states(rng, base, spends)


def gen_conflict(rng):
    spends = []
    for _ in range(1 + rng.below(3)):
        s = Spend(rng)
        r = rng.below(6)
        if r == 0:
            # a before/after pair around one value
            fam = rng.choice([("HR", "BHR"), ("SR", "BSR"), ("HA", "BHA"), ("SA", "BSA")])
            a = rng.choice([0, 1, 5, 10, 100, kmax(fam[0]) - 1, kmax(fam[0])])
            s.asserts += [(fam[0], a), (fam[1], rng.choice([a, a + 1, a + 2, max(a - 1, 0), 0]))]
        elif r == 1:
            k = rng.choice(["BH", "BS"])
            a = rng.choice([0, 1, 100, kmax(k)])
            s.asserts += [(k, a), (k, rng.choice([a, a, a + 1, max(a - 1, 0)]))]
        for _ in range(rng.below(5)):
            k = rng.choice(KNAMES)
            if rng.chance(1, 10):
                s.asserts.append((k, rng.choice(MALFORMED)))
            else:
                s.asserts.append((k, argpool(rng, k)))
        rng.shuffle(s.asserts)
        add_noise(rng, s)
        spends.append(s)
    return "conflict", spends, boundary_states(rng, spends, 5)


def gen_pairs(rng):
    """a 'not before' / 'before' pair of one family on one spend, equal or adjacent values, both orders
    (the incremental Impossible* checks of the fold), optionally a third assertion in between"""
    s = Spend(rng)
    fam = rng.choice([("HR", "BHR"), ("SR", "BSR"), ("HA", "BHA"), ("SA", "BSA"), ("BH", "BH"), ("BS", "BS")])
    m = kmax(fam[0])
    a = rng.choice([0, 1, 5, 10, 100, m - 1, m, m // 2])
    b = rng.choice([a, a, a + 1, a + 1, max(a - 1, 0), a + 2])
    pair = [(fam[0], a), (fam[1], b)]
    if rng.chance(1, 2):
        pair.reverse()
    if rng.chance(1, 3):
        k = rng.choice(fam)
        pair.insert(rng.below(3), (k, rng.choice([a, b, max(a - 1, 0), b + 1, 0, m])))
    s.asserts = pair
    spends = [s]
    if rng.chance(1, 3):
        o = Spend(rng)
        o.asserts.append((rng.choice(fam), rng.choice([a, b, 0, m])))
        spends.insert(rng.below(2), o)
    return "pairs", spends, boundary_states(rng, spends, 4)


def gen_small(rng):
    """few assertions with small or boundary in-range arguments: high accept ratio, every threshold probed"""
    spends = []
    for _ in range(1 + rng.below(2)):
        s = Spend(rng)
        for _ in range(1 + rng.below(4)):
            k = rng.choice(KNAMES)
            m = kmax(k)
            if k in ("BHR", "BSR", "BHA", "BSA"):
                v = rng.choice([m, m - 1, m // 2, 1000, 100, 11, 10, 1, 0])
            else:
                v = rng.choice([0, 1, 10, 11, 100, 1000, m // 2, m - 1, m])
            s.asserts.append((k, v))
        spends.append(s)
    return "small", spends, boundary_states(rng, spends, 6)


def gen_overflow(rng):
    """births near the type maximum with relative arguments whose sum crosses it"""
    s = Spend(rng)
    height = rng.chance(1, 2)
    m = M32 if height else M64
    ks = ("HR", "BHR") if height else ("SR", "BSR")
    b = rng.choice([m, m - 1, m - 10, m // 2 + 1, m // 2])
    vals = [1, 2, 10, 11, m, m - 1, m // 2, m // 2 + 1, m - b, m - b + 1, max(m - b - 1, 0)]
    for _ in range(1 + rng.below(2)):
        s.asserts.append((rng.choice(ks), rng.choice(vals)))
    states = []
    for _ in range(6):
        v = rng.choice([a[1] for a in s.asserts])
        wrap = (b + v) % (m + 1)
        x = rng.choice([m, m - 1, clip(wrap - 1, m), wrap, clip(wrap + 1, m), b, 0, clip(b + v, m)])
        st = {"h": x if height else rng.below(1000), "t": rng.below(1000) if height else x, "recs": {s.id: [b if height else 0, 0 if height else b]}}
        states.append(st)
    return "overflow", [s], states


def gen_ephemeral(rng):
    p = Spend(rng, amount=rng.choice([10, 1000, 1 << 40]))
    cph = rng.bytes(32)
    camt = rng.below(p.amount + 1)
    p.creates.append((cph, camt))
    r = rng.below(6)
    if r == 0:
        c = Spend(rng, parent=p.id, ph=cph, amount=camt + 1)       # not the created coin: different amount
    elif r == 1:
        c = Spend(rng, parent=rng.bytes(32), ph=cph, amount=camt)  # not the created coin: different parent
    else:
        c = Spend(rng, parent=p.id, ph=cph, amount=camt)
    n = rng.choice([0, 1, 1, 1, 2])
    if rng.chance(1, 2):
        i = CYCLE["eph"]
        CYCLE["eph"] += 1
        rk = sorted(RELATIVE)
        k = rk[i % len(rk)]
        c.asserts.append((k, class_value(k, ["zero", "neg1", "W", "max", "negbig", "big"][(i // len(rk)) % 6])))
        n = 0
    for _ in range(n):
        k = rng.choice(KNAMES if rng.chance(1, 3) else sorted(RELATIVE))
        cls = rng.below(4)
        if cls < 2:
            v = rng.choice([0, 0, 1, 10, kmax(k)])
        elif cls == 2:
            v = rng.choice([-1, -2, -(1 << 40), -(kmax(k) + 1)])
        else:
            v = rng.choice([kmax(k) + 1, kmax(k) + 2, 1 << 70])
        c.asserts.append((k, v))
    if rng.chance(1, 3):
        k = rng.choice(KNAMES)
        p.asserts.append((k, rng.choice([0, 1, 10])))
    if r >= 2 and rng.chance(1, 4):
        c.noise.append((op_atom(OPC["ASSERT_EPHEMERAL"]), b""))      # true: c is the coin p creates
    spends = [p, c] if rng.chance(2, 3) else [c, p]
    return "ephemeral", spends, boundary_states(rng, spends, 4)


CYCLE = {"classes": 0, "eph": 0}
CLASS_VALUES = ["neg1", "W", "max", "negbig", "zero", "W+1", "big"]


def class_value(k, cls):
    m = kmax(k)
    return {"neg1": -1, "negbig": -(m + 1), "zero": 0, "max": m, "W": m + 1, "W+1": m + 2, "big": 1 << 72}[cls]


def gen_classes(rng):
    """one spend whose verdict depends on ONE assertion with an argument of a given class (cycling through
    kind x class), next to at most one in-range assertion that holds in the base state"""
    i = CYCLE["classes"]
    CYCLE["classes"] += 1
    k = KNAMES[i % len(KNAMES)]
    cls = CLASS_VALUES[(i // len(KNAMES)) % len(CLASS_VALUES)]
    s = Spend(rng)
    s.asserts.append((k, class_value(k, cls)))
    h = rng.choice([0, 1, 1000, M32 - 1, M32])
    t = rng.choice([0, 1, 10 ** 9, M64 - 1, M64])
    cbi = rng.choice([0, h, rng.below(h + 1)])
    ts = rng.choice([0, t, rng.below(t + 1)])
    if rng.chance(1, 2):
        k2 = rng.choice(["HR", "SR", "HA", "SA", "BH", "BS"])
        v2 = {"HR": 0, "SR": 0, "HA": h, "SA": t, "BH": cbi, "BS": ts}[k2]
        s.asserts.insert(rng.below(2), (k2, v2))
    base = {"h": h, "t": t, "recs": {s.id: [cbi, ts]}}
    return "classes", [s], perturbed_states(rng, base, [s])[:5]


GENS = [gen_consistent, gen_consistent, gen_conflict, gen_conflict, gen_small, gen_small, gen_overflow, gen_ephemeral,
        gen_ephemeral, gen_pairs, gen_pairs, gen_classes, gen_classes]


# ---------------------------------------------------------------- case lines
def recs_tokens(st, spends):
    toks = []
    n = 0
    for s in spends:
        if s.id in st["recs"]:
            cbi, ts = st["recs"][s.id]
            toks += [s.id.hex(), str(cbi), str(ts)]
            n += 1
    return [str(n)] + toks


def make_lines(rng, gen_name, spends, states, flags, visitor):
    tree = ser(bundle_tree(rng, spends)).hex()
    coins = []
    asserts = []
    for i, s in enumerate(spends):
        coins += [s.id.hex(), "1" if is_ephemeral(s, spends) else "0"]
        for (k, v) in s.asserts:
            asserts += [str(i), k, str(v) if isinstance(v, int) else "X"]
    na = len(asserts) // 3
    checks, oracles = [], []
    for st in states:
        rt = recs_tokens(st, spends)
        for nowrap in (1, 0):
            checks.append("locks.check %d %d %d %d %d %s %s" % (flags, visitor, nowrap, st["h"], st["t"], tree, " ".join(rt)))
        oracles.append("locks.oracle %d %d %d %d %s %s %d %s %d %s" % (
            flags, visitor, st["h"], st["t"], tree, " ".join(rt), len(spends), " ".join(coins), na, " ".join(asserts)))
    key = (gen_name, tuple(sorted({(k, argclass(k, v)) for s in spends for (k, v) in s.asserts})))
    return checks, oracles, key


def passes(line):
    return line.split(" ")[0] == "L-OK"


def classify_disagreements(rep, checks, impl, model, nkey=None):
    """model vs implementation.  The model's pass/fail verdict in non-legacy mode is proved equal to the arithmetic
    definition (C03_fold_sound_complete), so a differing pass bit there is a concrete input on which the
    implementation deviates from the per-assertion semantics: a failure.  Any other difference (stage or class of a
    rejection, the folded summary, the legacy mode) means the mirror no longer describes the code: a broken tie,
    reported without claiming a failing input (the oracle stream decides whether the property itself fails)."""
    st = rep.streams.setdefault("locks.check", {"cases": 0, "disagreements": 0, "impl_panics": 0})
    st["cases"] += len(checks)
    rep.evaluations += len(checks)
    rep.traces += len(checks)
    ties = []
    for c, i, m in zip(checks, impl, model):
        if i == "PANIC":
            st["impl_panics"] += 1
        if nkey:
            rep.nontrivial.add(("locks.check", nkey(c, i)))
        if i == m:
            continue
        st["disagreements"] += 1
        nowrap = c.split(" ")[3] == "1"
        if m == "TIMEOUT" or m.startswith("CRASH") or m == "SKIPPED-AFTER-CRASH" or m == "MODEL-UNAVAILABLE":
            ties.append((c, i, m))          # the model runner did not answer: nothing is claimed about the code
        elif i == "PANIC" or i.startswith("CRASH") or i == "TIMEOUT":
            rep.add_failure("locks.check", c, i, m, "implementation panicked / crashed")
        elif nowrap and passes(i) != passes(m):
            rep.add_failure("locks.check", c, i, m,
                            "non-legacy check_time_locks verdict differs from the model, which is proved equal to the "
                            "conjunction of the individual assertions")
        else:
            ties.append((c, i, m))
    if ties:
        kinds = {}
        for c, i, m in ties:
            k = "%s vs %s" % (i.split(" ")[0], m.split(" ")[0])
            kinds[k] = kinds.get(k, 0) + 1
        rep.add_broken("correspondence", "locks.check",
                       "model and implementation differ on %d cases without a differing non-legacy pass verdict "
                       "(impl vs model: %s); first: %s"
                       % (len(ties), json.dumps(kinds), json.dumps({"case": ties[0][0], "impl": ties[0][1], "model": ties[0][2]})))
    if checks and len(rep.samples) < 12:
        rep.samples.append({"stream": "locks.check", "case": checks[0], "impl": impl[0], "model": model[0]})
        rep.samples.append({"stream": "locks.check", "case": checks[-1], "impl": impl[-1], "model": model[-1]})


def run(ctx):
    rep, tier = ctx["rep"], ctx["tier"]
    rng = C.SplitMix64(ctx["seed"])
    if ctx.get("replay"):
        f = json.load(open(ctx["replay"]))
        line = f["failing_input"]["case"]
        impl = C.run_lines(C.VH(UNIT), [line])
        if line.startswith("locks.oracle"):
            rep.evaluations += 1
            if not impl[0].startswith("OK") and not impl[0].startswith("EDGE"):
                rep.add_failure("locks.oracle", line, impl[0], "OK", "arithmetic oracle disagrees with parse_spends + check_time_locks")
        else:
            model = C.run_lines(C.VRUN(UNIT), [line]) if ctx["have_model"] else ["MODEL-UNAVAILABLE"]
            classify_disagreements(rep, [line], impl, model)
        return
    nb = 480 if tier == "quick" else 5000
    tmo = 900 if tier == "quick" else 7200
    CYCLE["classes"] = CYCLE["eph"] = 0
    checks, oracles, keys_c, keys_o = [], [], [], []
    # corpus first: hand-made boundary cases and minimised past disagreements
    cdir = C.VERIF + "/corpus/C03"
    if os.path.isdir(cdir):
        for fn in sorted(os.listdir(cdir)):
            for l in open(os.path.join(cdir, fn)):
                l = l.strip()
                if l.startswith("locks.check"):
                    checks.append(l)
                    keys_c.append(("corpus", fn))
                elif l.startswith("locks.oracle"):
                    oracles.append(l)
                    keys_o.append(("corpus", fn))
    ncorpus = len(checks)
    gens = {}
    g = rng.fork("bundles")
    for _ in range(nb):
        name, spends, states = g.choice(GENS)(g)
        gens[name] = gens.get(name, 0) + 1
        flags = FLAG["DONT_VALIDATE_SIGNATURE"]
        for fname in ("NO_UNKNOWN_CONDS", "STRICT_ARGS_COUNT", "COST_CONDITIONS", "LIMIT_SPENDS"):
            if g.chance(1, 3):
                flags |= FLAG[fname]
        cl, ol, key = make_lines(g, name, spends, states, flags, g.below(2))
        checks += cl
        oracles += ol
        keys_c += [key] * len(cl)
        keys_o += [key] * len(ol)

    # --- correspondence: verdicts
    impl = C.run_lines(C.VH(UNIT), checks, timeout=tmo)
    model = C.run_lines(C.VRUN(UNIT), checks, timeout=tmo) if ctx["have_model"] else ["MODEL-UNAVAILABLE"] * len(checks)
    kmap = dict(zip(checks, keys_c))

    def nkey(c, i):
        return (kmap[c], c.split(" ")[3], i.split(" ")[0])
    proj = lambda l: l.split(" ")[0]
    if ctx["have_model"]:
        classify_disagreements(rep, checks, impl, model, nkey)
    else:
        rep.evaluations += len(checks)
    from collections import Counter
    st = rep.streams.setdefault("locks.check", {})
    st["verdicts"] = dict(Counter(proj(i) for i in impl))
    st["generators"] = gens
    st["bundles"] = nb
    st["corpus_cases"] = ncorpus
    st["nowrap_differs_from_wrap"] = sum(1 for a, b in zip(impl[ncorpus::2], impl[ncorpus + 1::2]) if proj(a) != proj(b))

    # --- error codes (information only)
    sub = [c.replace("locks.check", "locks.code", 1) for c in checks[::3]]
    ci = C.run_lines(C.VH(UNIT), sub, timeout=tmo)
    cm = C.run_lines(C.VRUN(UNIT), sub, timeout=tmo) if ctx["have_model"] else ci
    diffc = [(c, a, b) for c, a, b in zip(sub, ci, cm) if a != b]
    rep.streams["locks.code"] = {"cases": len(sub), "code_disagreements": len(diffc),
                                 "codes": dict(Counter(ci).most_common(40)),
                                 "first_disagreement": {"case": diffc[0][0][:400], "impl": diffc[0][1], "model": diffc[0][2]} if diffc else None}

    # --- the property itself, evaluated on the implementation
    outs = C.run_lines(C.VH(UNIT), oracles, timeout=tmo)
    rep.evaluations += len(oracles)
    so = rep.streams.setdefault("locks.oracle", {})
    so["cases"] = len(oracles)
    so["classes"] = dict(Counter(" ".join(o.split(" ")[:2]) for o in outs))
    edges = [(c, o) for c, o in zip(oracles, outs) if o.startswith("EDGE")]
    so["edge_examples"] = [{"case": c, "out": o} for c, o in edges[:4]]
    for c, o, k in zip(oracles, outs, keys_o):
        if o.startswith("OK") or o.startswith("EDGE"):
            rep.nontrivial.add(("locks.oracle", k, " ".join(o.split(" ")[:2])))
            continue
        rep.add_failure("locks.oracle", c, o, "OK", "arithmetic oracle disagrees with parse_spends + check_time_locks")
