"""C15 — all signature verification paths agree, with or without the pairing cache.

Streams (model = coq/Run/BlsRun.v: Bls/{Verify,Cache,Sched}.v instantiated with Bls/Toy.v;
impl = harness/src/bin/vh_bls.rs with the real chia-bls, threads parked at the verif-hooks yield point):
  bls.hist     symbolic histories on one BlsCache: phases of concurrent threads, each a sequence of
               aggregate_verify / update / evict / len calls, under a forced schedule of critical sections.
               Compared: the five verdicts of every verification (verify, aggregate_verify,
               aggregate_verify_gt, aggregate_pairing, BlsCache), every len(), and after every phase the
               cache length and key order.
Oracles (implementation only, independent of the Coq model):
  bls.o_hist   the same histories: every BlsCache verdict == aggregate_verify on the same input,
               len <= capacity at every observation, and every real cache entry is H(pk||m) -> e(pk,H2(pk||m))
  bls.o_agree  pair list x signature: all real verifiers against "no infinity key and sig == aggregate of
               real signatures", cold/warm/evicted caches of capacity 1, 2, 50
"""
import json, os, sys, itertools
sys.path.insert(0, os.path.dirname(os.path.dirname(os.path.abspath(__file__))))
import common as C
from run import diff_stream

UNIT = "bls"
GEN = ["blsconsts"]
RULE = ("histories: capacity 1..8 x 2..5 keys (+ infinity) x 1..4 messages (message 0 empty) x 3..8 phases; a phase is "
        "sequential or 2..3 concurrent threads of 1..3 calls with a random forced schedule (incl. out-of-range and "
        "exhausted entries); every 2-thread interleaving of two overlapping verifications is enumerated exhaustively "
        "(quick: all 2^6 prefixes x caps 1,2; thorough: 2^9 x caps 1..3). signatures: valid aggregate, permuted, "
        "sign_raw-equivalent, and tampered (dropped/extra/doubled term, negated, foreign point added, infinity, "
        "off-subgroup, wrong message, wrong key). distinct non-trivial = distinct (capacity, thread count, output) "
        "of histories with at least one accepted and one rejected verification or a concurrent phase")
ASSUMPTIONS = ["blst arithmetic (pairing, hash-to-curve, subgroup checks) is an oracle: the model runs on the Toy instance "
               "of the abstract pairing interface (Z_r, e(a,b)=ab), the implementation on BLS12-381; only verdicts, "
               "lengths and symbolic key order are compared",
               "interleavings are modelled at lock granularity (one critical section per Mutex acquisition); data races "
               "below the mutex are excluded by Rust's type system, not by this check",
               "pairing_laws P (abstract group/pairing laws) is a premise of every C15 theorem; ToyProofs.toy_laws shows it satisfiable",
               "the two pairings-based paths are compared only for lists without the infinity key (the property's "
               "quantifier; blst's Miller loop is undefined on infinity)"]
TRUSTED = ["harness scheduler (Condvar parking at the yield hook) forces exactly the listed critical-section order",
           "cache key order is read from the Debug rendering of BlsCache (no public accessor)"]


def valid_sig_terms(pairs):
    return ["s%d.%d" % (int(k[1:]), m) for (k, m) in pairs if k != "i"]


def rpn(terms):
    if not terms:
        return "0"
    return ",".join(terms + ["+"] * (len(terms) - 1))


def gen_pairs(rng, nk, nm, maxn=4, inf_num=1, inf_den=6):
    n = rng.choice([0, 1, 1, 2, 2, 3, maxn])
    out = []
    for _ in range(n):
        if out and rng.chance(1, 5):
            out.append(rng.choice(out))           # repeated pair
            continue
        k = "i" if rng.chance(inf_num, inf_den) else "k%d" % rng.below(nk)
        out.append((k, rng.below(nm)))
    return out


def pairs_tok(pairs):
    return ",".join("%s.%d" % p for p in pairs) if pairs else "-"


def gen_sig(rng, pairs, nk, nm):
    """returns (rpn, want) where want is '1'/'0'/'-' (verdict by construction, '-' if not certain)"""
    terms = valid_sig_terms(pairs)
    has_inf = any(k == "i" for k, _ in pairs)
    kind = rng.choice(["valid"] * 6 + ["perm", "raw", "drop", "extra", "neg", "t", "zero", "off", "offonly", "wrongmsg", "wrongkey", "double"])
    want = "0"
    if kind == "valid":
        want = "1"
    elif kind == "perm":
        terms = list(terms)
        rng.shuffle(terms)
        want = "1"
    elif kind == "raw" and terms:
        i = rng.below(len(terms))
        k, m = terms[i][1:].split(".")
        terms = terms[:i] + ["r%s.%s.%s" % (k, k, m)] + terms[i + 1:]
        want = "1"
    elif kind == "drop" and terms:
        i = rng.below(len(terms))
        terms = terms[:i] + terms[i + 1:]
    elif kind == "extra":
        terms = terms + ["s%d.%d" % (rng.below(nk), rng.below(nm))]
    elif kind == "double" and terms:
        i = rng.below(len(terms))
        terms = terms + [terms[i]]
    elif kind == "wrongmsg" and terms and nm > 1:
        i = rng.below(len(terms))
        k, m = terms[i][1:].split(".")
        terms = terms[:i] + ["s%s.%d" % (k, (int(m) + 1 + rng.below(nm - 1)) % nm)] + terms[i + 1:]
    elif kind == "wrongkey" and terms and nk > 1:
        i = rng.below(len(terms))
        k, m = terms[i][1:].split(".")
        terms = terms[:i] + ["r%d.%s.%s" % ((int(k) + 1 + rng.below(nk - 1)) % nk, k, m)] + terms[i + 1:]
    elif kind == "neg":
        s = rpn(terms) + ",~"
        return s, ("0" if terms else ("1" if not has_inf else "0"))
    elif kind == "t":
        return rpn(terms) + ",t,+", "0"
    elif kind == "zero":
        return "0", ("1" if not terms and not has_inf else "0")
    elif kind == "off":
        return rpn(terms) + ",x,+", "0"
    elif kind == "offonly":
        return "x", "0"
    else:
        want = "1"      # the tamper did not apply: still the valid signature
    if has_inf:
        want = "0"
    return rpn(terms), want


def gen_call(rng, nk, nm, stats):
    r = rng.below(20)
    if r < 13:
        pairs = gen_pairs(rng, nk, nm)
        sig, want = gen_sig(rng, pairs, nk, nm)
        stats["V"] += 1
        stats["want" + want] += 1
        return "V%s/%s" % (pairs_tok(pairs), sig)
    if r < 15:
        stats["U"] += 1
        k = "i" if rng.chance(1, 10) else "k%d" % rng.below(nk)
        return "U%s.%d" % (k, rng.below(nm))
    if r < 18:
        stats["E"] += 1
        pairs = gen_pairs(rng, nk, nm)
        return "E%s" % pairs_tok(pairs)
    stats["L"] += 1
    return "L"


def gen_history(rng, stats):
    cap = rng.choice([1, 1, 2, 2, 3, 3, 4, 8])
    nk = 2 + rng.below(4)
    nm = 1 + rng.below(4)
    phases = []
    for _ in range(3 + rng.below(6)):
        if rng.chance(2, 5):
            nt = 2 + rng.below(2)
            threads = [";".join(gen_call(rng, nk, nm, stats) for _ in range(1 + rng.below(3))) for _ in range(nt)]
            sched = [str(rng.below(nt + (1 if rng.chance(1, 8) else 0))) for _ in range(rng.below(14))]
            phases.append("%s|%s" % (",".join(sched) if sched else "-", "|".join(threads)))
            stats["par_phases"] += 1
        else:
            phases.append("-|" + ";".join(gen_call(rng, nk, nm, stats) for _ in range(1 + rng.below(3))))
            stats["seq_phases"] += 1
    stats["cap%d" % cap] += 1
    return "bls.hist %d %d %d %s" % (cap, nk, nm, " ".join(phases))


def exhaustive_interleavings(tier):
    """two threads verifying overlapping lists (shared pair first / last, one pair already cached or not),
    every schedule prefix over {0,1}; the drain completes the rest in thread order"""
    out = []
    depth = 6 if tier == "quick" else 9
    caps = (1, 2) if tier == "quick" else (1, 2, 3)
    t0 = "Vk0.1,k1.1/s0.1,s1.1,+"
    t1 = "Vk1.1,k0.1/s1.1,s0.1,+;L"
    for cap in caps:
        for pre in ("-|L", "-|Uk0.1"):
            for bits in itertools.product("01", repeat=depth):
                out.append("bls.hist %d 2 2 %s %s|%s|%s -|Vk0.1,k1.1/s0.1,s1.1,+" % (cap, pre, ",".join(bits), t0, t1))
    return out


def dishonest_lines(rng, n):
    """histories with a DISHONEST update (the pairing of another pair): outside the premise of the transparency
    theorem; only model-vs-implementation correspondence is checked (both must be fooled in the same way)"""
    out = ["bls.hist 2 3 2 -|Bk0.1/k1.1 -|Vk0.1/s1.1 -|Vk0.1/s0.1 -|Ek0.1 -|Vk0.1/s0.1",
           "bls.hist 1 3 2 -|Bk0.1/k1.1 -|Uk2.1 -|Vk0.1/s1.1 -|Vk0.1/s0.1"]
    for _ in range(n):
        nk, nm = 2 + rng.below(3), 1 + rng.below(2)
        a, b = rng.below(nk), rng.below(nk)
        m = rng.below(nm)
        ph = ["-|Bk%d.%d/k%d.%d" % (a, m, b, m)]
        for _ in range(2 + rng.below(3)):
            k = rng.choice([a, b])
            ph.append("-|Vk%d.%d/s%d.%d" % (rng.choice([a, b]), m, k, m))
        out.append("bls.hist %d %d %d %s" % (1 + rng.below(3), nk, nm, " ".join(ph)))
    return out


class Stats(dict):
    def __missing__(self, k):
        return 0


def corpus_lines():
    """hand-made boundary histories, run first"""
    return [
        # F-C15-1 witnesses: the infinity key in the cached path (fixed in /repo; would show as v00**1 / v-0**1)
        "bls.hist 2 3 3 -|Vi.1/0 -|Vk0.1,i.1/s0.1 -|Vi.0/0 -|Vk0.1,i.1/s0.1",
        # empty list, empty message, off-subgroup signature, infinity signature
        "bls.hist 2 3 3 -|V-/0 -|V-/t -|Vk0.0/s0.0 -|Vk0.1/x -|Vk0.1/0 -|Vk0.1/s0.1,x,+",
        # capacity 1: every insertion evicts; re-insert of the resident key at capacity (evict-before-lookup)
        "bls.hist 1 3 3 -|Uk0.1 -|Uk0.1 -|Uk1.1;L -|Vk0.1,k1.1,k0.1/s0.1,s1.1,+,s0.1,+ -|L",
        # insert on an existing key moves it to the back
        "bls.hist 3 3 3 -|Uk0.1 -|Uk1.1 -|Uk2.1 -|Uk0.1 -|Uk1.2 -|Ek1.1,k0.2 -|Uk2.2",
        # two threads racing on the same miss: both compute, both put
        "bls.hist 2 3 3 0,1,0,1|Vk0.1/s0.1|Vk0.1/s0.1 0,1,1,0|Vk1.1/s1.1;L|Vk1.1/s1.1;L",
        # eviction by another thread between lookup and put; evict call interleaved
        "bls.hist 1 3 3 0,1,1,0,0|Vk0.1,k1.1/s0.1,s1.1,+|Vk2.1/s2.1 0,1,0|Vk0.1/s0.1|Ek0.1;L",
    ]


def run(ctx):
    rep, tier = ctx["rep"], ctx["tier"]
    rng = C.SplitMix64(ctx["seed"])
    stats = Stats()
    if ctx.get("replay"):
        f = json.load(open(ctx["replay"]))
        if "failing_input" in f:
            line = f["failing_input"]["case"]
        else:
            line = json.loads(f["no_longer_checks"][0]["detail"])["first"]["case"]
        name = line.split(" ")[0]
        hist, agree = ([line], []) if name in ("bls.hist", "bls.o_hist") else ([], [line])
        if name == "bls.o_hist":
            hist = ["bls.hist" + line[len("bls.o_hist"):]]
    else:
        n_hist = 150 if tier == "quick" else 3000
        g = rng.fork("hist")
        hist = corpus_lines() + exhaustive_interleavings(tier) + [gen_history(g, stats) for _ in range(n_hist)]
        g = rng.fork("agree")
        agree = []
        for _ in range(150 if tier == "quick" else 4000):
            nk, nm = 2 + g.below(4), 1 + g.below(4)
            pairs = gen_pairs(g, nk, nm, maxn=5, inf_num=1, inf_den=8)
            sig, want = gen_sig(g, pairs, nk, nm)
            agree.append("bls.o_agree %s/%s %s" % (pairs_tok(pairs), sig, want))
        agree += ["bls.o_agree i.1/0 0", "bls.o_agree k0.1,i.1/s0.1 0", "bls.o_agree i.0,i.0/0 0", "bls.o_agree -/0 1",
                  "bls.o_agree -/x 0", "bls.o_agree k0.0/s0.0 1", "bls.o_agree k0.1,k0.1/s0.1,s0.1,+ 1"]

    # --- correspondence: model (Toy instance) vs implementation (real BLS)
    if hist:
        impl = C.run_lines(C.VH(UNIT), hist, timeout=1500)
        model = C.run_lines(C.VRUN(UNIT), hist, timeout=1500) if ctx["have_model"] else ["MODEL-UNAVAILABLE"] * len(hist)

        def key(c, i):
            toks = c.split(" ")
            par = any(p.count("|") > 1 for p in toks[4:])
            acc = any(v[5] == "1" for v in _verdicts(i))
            rej = any(v[5] == "0" for v in _verdicts(i))
            return (toks[1], max(p.count("|") for p in toks[4:]), i) if (par or (acc and rej)) else None
        if ctx["have_model"]:
            # A model/implementation disagreement is a broken correspondence, not yet a violation of the
            # property as stated: the property-level oracles below (agreement of the five real verdicts,
            # bls.o_hist) decide whether the same input is a concrete failing input.
            fails_before = len(rep.failures)
            sub = C.Report(rep.pid, rep.tier, rep.seed)
            diff_stream(sub, "bls.hist", hist, impl, model, key)
            rep.streams["bls.hist"] = sub.streams["bls.hist"]
            rep.evaluations += sub.evaluations
            rep.traces += sub.traces
            rep.nontrivial |= sub.nontrivial
            rep.samples += sub.samples
            corr_fail = sub.failures
        else:
            rep.evaluations += len(hist)
            corr_fail = []
        # internal consistency of the implementation's own five verdicts (no model needed):
        # the property: single == aggregate; gt/pairing (when shown) == aggregate; cached == aggregate
        for line, o in zip(hist, impl):
            for v in _verdicts(o):
                ok = (v[1] in ("-", v[2])) and (v[3] in ("*", v[2])) and (v[4] in ("*", v[2])) and v[5] == v[2]
                if not ok:
                    rep.add_failure("bls.hist/agreement", line, o, "all five verdicts equal",
                                    "the real verification paths disagree on one input (verdict group %s: verify, aggregate_verify, "
                                    "aggregate_verify_gt, aggregate_pairing, BlsCache)" % v)
                    break
        vs = [v for o in impl for v in _verdicts(o)]
        st = rep.streams.setdefault("bls.hist", {})
        st.update({"verifications": len(vs), "accepted": sum(1 for v in vs if v[2] == "1"),
                   "with_infinity_key": sum(1 for v in vs if v[3] == "*"), "generator": dict(stats),
                   "exhaustive_interleavings": len(exhaustive_interleavings(tier)) if not ctx.get("replay") else 0})
        # --- oracle: cache transparency, capacity bound, entry invariant on the real cache
        olines = ["bls.o_hist" + l[len("bls.hist"):] for l in hist]
        outs = C.run_lines(C.VH(UNIT), olines, timeout=1500)
        for l, o in zip(olines, outs):
            if o != "OK":
                rep.add_failure("bls.o_hist", l, o, "OK", "cache transparency / capacity / entry invariant violated on the real BlsCache")
        rep.streams["bls.o_hist"] = {"cases": len(olines), "ok": sum(1 for o in outs if o == "OK")}
        rep.evaluations += len(olines)
        if not ctx.get("replay") and ctx["have_model"]:
            dl = dishonest_lines(rng.fork("dishonest"), 10 if tier == "quick" else 200)
            di = C.run_lines(C.VH(UNIT), dl, timeout=1500)
            dm = C.run_lines(C.VRUN(UNIT), dl, timeout=1500)
            sub = C.Report(rep.pid, rep.tier, rep.seed)
            diff_stream(sub, "bls.hist/dishonest-update", dl, di, dm)
            rep.streams["bls.hist/dishonest-update"] = dict(sub.streams["bls.hist/dishonest-update"],
                fooled=sum(1 for o in di for v in _verdicts(o) if v[5] != v[2]),
                note="outside the theorem's premise (update() handed a foreign pairing); correspondence only")
            rep.evaluations += len(dl)
            rep.traces += len(dl)
            corr_fail += sub.failures
        if corr_fail:
            bad_oracle = {f["case"] for f in rep.failures}
            concrete = [f for f in corr_fail if f["case"] in bad_oracle or ("bls.o_hist" + f["case"][len("bls.hist"):]) in bad_oracle]
            if not concrete:
                corr_fail.sort(key=lambda f: len(f["case"]))
                rep.add_broken("correspondence", "bls.hist",
                               json.dumps({"disagreements": len(corr_fail), "first": corr_fail[0],
                                           "note": "model (Bls/Sched.v on the Toy instance) and the real BlsCache differ in len / key order / "
                                                   "scheduling; on the same inputs the real verdicts agree with each other"}))
    if agree:
        outs = C.run_lines(C.VH(UNIT), agree, timeout=1500)
        for l, o in zip(agree, outs):
            if o != "OK":
                rep.add_failure("bls.o_agree", l, o, "OK", "the real verifiers disagree with the signature equation or with each other")
            rep.nontrivial.add(("bls.o_agree", l.split(" ")[1]))
        rep.streams["bls.o_agree"] = {"cases": len(agree), "ok": sum(1 for o in outs if o == "OK"),
                                      "expected_valid": sum(1 for l in agree if l.endswith(" 1"))}
        rep.evaluations += len(agree)


def _verdicts(out):
    """all 'vXXXXX' groups of an output line"""
    res = []
    for ph in out.split(" "):
        body = ph.split("#")[0]
        for t in body.split("|"):
            for o in t.split(";"):
                if o.startswith("v") and len(o) == 6:
                    res.append(o)
    return res
