"""Shared machinery of the `wire` unit checks (C13, C14, C20): type descriptors (from the translator's
parse of /repo, the same one that writes coq/Gen/StreamTypes.v and the Rust dispatch table), a
descriptor-driven value generator, an independent Python reference encoder that records the position
of every structural byte (Option/bool/enum/version prefixes, length fields), the value text syntax,
and the oracle-table protocol (blst / chia-pos2 answers are fetched from the implementation and handed
to the model as a table)."""
import os, sys, re, json, hashlib
sys.path.insert(0, os.path.dirname(os.path.dirname(os.path.abspath(__file__))))
import common as C

UNIT = "wire"
sys.path.insert(0, C.VERIF + "/translator")


# ------------------------------------------------------------------ descriptors
class Descs:
    def __init__(self):
        import gen_streamtypes as G
        self.G = G
        # the current source if it translates; otherwise (broken tie, already reported by the driver) the committed
        # snapshot of the last good description, so that the streams and oracles still search for a failing input
        self.types, self.order, self.vec_limit, self.broken = G.build_or_snapshot(C.REPO)
        self.snapshot_stale = False
        if self.broken is None:
            try:
                self.snapshot_stale = open(G.SNAPSHOT).read() != G.snapshot_dump(self.types, self.order, self.vec_limit)
            except OSError:
                self.snapshot_stale = True
        self.top = {}          # name -> descriptor
        for n, d, _, j in G.LEAF_TOP:
            self.top[n] = d
        for n in self.order:
            self.top[n] = ("Ref", n)
        self.json_types = [n for n, _, _, j in G.LEAF_TOP if j] + [n for n in self.order if self.types[n]["json"]]

    def names(self):
        return list(self.top.keys())

    def wire_entries(self, n):
        """[(names, desc)] of a struct in wire order; PoS/enum handled by callers"""
        return self.types[n]["wire"]


POS_FIELDS = [("challenge", ("BytesN", 32)), ("pool_public_key", ("Opt", ("G1",))), ("pool_contract_puzzle_hash", ("Opt", ("BytesN", 32))),
              ("plot_public_key", ("G1",)), ("version", ("U", 1)), ("plot_index", ("U", 2)), ("meta_group", ("U", 1)),
              ("strength", ("U", 1)), ("size", ("U", 1)), ("proof", ("Bytes",))]
GENTAIL_TYS = [("Opt", ("Prog",)), ("Vec", ("U", 4)), ("Opt", ("Vec", ("U", 1))), ("U", 1)]


# ------------------------------------------------------------------ values: python objects
#   int | bool | bytes | None | ("some", v) | list          (same shape as the Coq `value`)
def vtext(v):
    if v is None:
        return "n"
    if isinstance(v, bool):
        return "t" if v else "f"
    if isinstance(v, int):
        return str(v)
    if isinstance(v, (bytes, bytearray)):
        return "x" + bytes(v).hex()
    if isinstance(v, tuple):
        return "j" + vtext(v[1])
    return "[" + ",".join(vtext(x) for x in v) + "]"


def split_top(s):
    """top-level elements of a value text `[a,b,...]`"""
    assert s[0] == "[" and s[-1] == "]", s[:40]
    out, depth, cur = [], 0, []
    for ch in s[1:-1]:
        if ch == "[":
            depth += 1
        elif ch == "]":
            depth -= 1
        if ch == "," and depth == 0:
            out.append("".join(cur))
            cur = []
        else:
            cur.append(ch)
    if cur or out:
        out.append("".join(cur))
    return out


# ------------------------------------------------------------------ pools
PROGS = [bytes.fromhex(h) for h in (
    "80", "01", "7f", "8180", "81ff", "820100", "ff0180", "ff01ff0280", "ffff0102ff0304", "ff80ff8080",
    "c00101",                       # non-minimal 2-byte size prefix for a 1-byte atom (kept verbatim by Program)
    "b8" + "11" * 56, "c040" + "22" * 64,
    "ff01fe02",                     # back reference to the first element
    "ffff0102fe02",                 # back reference into a pair
    "ff8568656c6c6fff85776f726c6480")]
BAD_PROGS = [bytes.fromhex(h) for h in ("", "ff", "ff01", "81", "b8" + "11" * 10, "fe02", "ff01fe03", "ff01fe", "fc", "ffffffff")]
UTF8 = [b"", b"a", b"chia", "åäö".encode(), "\U0001F600".encode(), b"\x7f", "߿ࠀ￿".encode(), b"x" * 40]
BAD_UTF8 = [b"\x80", b"\xc0\xaf", b"\xed\xa0\x80", b"\xf4\x90\x80\x80", b"\xe2\x82", b"\xff", b"\xc3\x28", b"\xf0\x80\x80\x80"]
INF1 = bytes([0xc0]) + bytes(47)
INF2 = bytes([0xc0]) + bytes(95)
BLS_R = 0x73eda753299d7d483339d80809a1d80553bda402fffe5bfeffffffff00000001


class Pools:
    def __init__(self, have_impl=True):
        self.g1, self.g2, self.bad1, self.bad2 = [INF1], [INF2], [], []
        if have_impl:
            out = C.run_lines(C.VH(UNIT), ["wire.keys 6"], shards=1)[0]
            parts = out.split(";")
            if len(parts) == 4:
                self.g1 += [bytes.fromhex(x) for x in parts[0].split(",") if x]
                self.g2 += [bytes.fromhex(x) for x in parts[1].split(",") if x]
                self.bad1 = [bytes.fromhex(x) for x in parts[2].split(",") if x]
                self.bad2 = [bytes.fromhex(x) for x in parts[3].split(",") if x]
        # valid v2 proofs of space from the repository's own test vectors
        self.v2 = []
        self.v2_quality = {}     # proof bytes -> expected quality string (last line of the vector file)
        d = C.REPO + "/crates/chia-protocol/quality-string-tests"
        plot_pk = bytes.fromhex("a9c96f979d895b9ded08907ecd775abf889d51219bb7776dd73fdbac6b0dcc063c72c9e10d96776f486bbd1416b54533")
        if os.path.isdir(d):
            for f in sorted(os.listdir(d)):
                l = [x.split("#")[0].strip() for x in open(os.path.join(d, f)).read().split("\n")]
                l = [x for x in l if x]
                if len(l) != 7:
                    continue
                pool = bytes.fromhex(l[4])
                self.v2_quality[bytes.fromhex(l[5])] = bytes.fromhex(l[6])
                self.v2.append([bytes.fromhex(l[0]), ("some", pool) if len(pool) == 48 else None,
                                ("some", pool) if len(pool) == 32 else None, plot_pk, 1, int(l[2]), int(l[3]), int(l[1]), 0,
                                bytes.fromhex(l[5])])


# ------------------------------------------------------------------ generator
class Gen:
    def __init__(self, descs, pools, rng, budget=6):
        self.D, self.P, self.r = descs, pools, rng
        self.budget = budget

    def uint(self, n):
        r = self.r
        top = (1 << (8 * n)) - 1
        k = r.below(10)
        if k < 5:
            return r.choice([0, 1, 0x7f, 0x80, 0xff, top, top - 1, 1 << (8 * n - 1), (1 << (8 * n - 1)) - 1]) & top
        return (r.next() | (r.next() << 64)) >> (128 - 1 - r.below(8 * n)) & top

    def sint(self, n):
        r = self.r
        lo, hi = -(1 << (8 * n - 1)), (1 << (8 * n - 1)) - 1
        if r.chance(1, 2):
            return r.choice([0, -1, 1, lo, hi, lo + 1, hi - 1, -128, 127])if n > 1 else r.choice([0, -1, 1, lo, hi])
        v = (r.next() | (r.next() << 64)) >> (128 - 1 - r.below(8 * n))
        v = v if r.chance(1, 2) else -v
        return max(lo, min(hi, v))

    def vec_len(self, depth):
        r = self.r
        if depth >= self.budget:
            return 0
        k = r.below(10)
        return 0 if k < 3 else 1 if k < 6 else 2 if k < 8 else 3 if k < 9 else 4 + r.below(3)

    def pos(self, kind=None):
        r = self.r
        kind = kind or r.choice(["v0pk", "v0c", "v0both", "v0none", "v1pk", "v1c", "v2real"])
        g1 = r.choice(self.P.g1)
        if kind == "v2real" and self.P.v2:
            v = list(r.choice(self.P.v2))
            return v
        ver = 1 if kind.startswith("v1") else 0
        pk = ("some", r.choice(self.P.g1)) if kind in ("v0pk", "v0both", "v1pk") else None
        c = ("some", r.bytes(32)) if kind in ("v0c", "v0both", "v1c") else None
        proof = r.bytes(r.choice([0, 1, 16, 40]))
        if ver == 0:
            return [r.bytes(32), pk, c, g1, 0, 0, 0, 0, self.uint(1), proof]
        return [r.bytes(32), pk, c, g1, 1, self.uint(2), self.uint(1), self.uint(1) % 64, 0, proof]

    def gentail(self, depth):
        r = self.r
        if r.chance(1, 2):
            gen = ("some", r.choice(PROGS)) if r.chance(1, 2) else None
            return [gen, [self.uint(4) for _ in range(self.vec_len(depth))], None, 0]
        buf = ("some", list(r.bytes(r.choice([0, 1, 5, 33])))) if r.chance(2, 3) else None
        return [None, [], buf, 1]

    def value(self, d, depth=0):
        """a well-formed value of descriptor d"""
        r, k = self.r, d[0]
        if k == "U":
            return self.uint(d[1])
        if k == "I":
            return self.sint(d[1])
        if k == "Bool":
            return r.chance(1, 2)
        if k == "BytesN":
            return r.choice([bytes(d[1]), b"\xff" * d[1], r.bytes(d[1]), r.bytes(d[1])])
        if k == "Bytes":
            return r.bytes(r.choice([0, 1, 2, 7, 32, 33, 100]) if depth < 4 else r.choice([0, 1, 3]))
        if k == "Str":
            return r.choice(UTF8)
        if k == "Opt":
            return ("some", self.value(d[1], depth + 1)) if r.chance(3, 5) else None
        if k == "Vec":
            return [self.value(d[1], depth + 2) for _ in range(self.vec_len(depth))]
        if k == "Tup":
            return [self.value(x, depth + 1) for x in d[1]]
        if k == "Arr":
            return [self.value(d[2], depth + 1) for _ in range(d[1])]
        if k == "G1":
            return r.choice(self.P.g1)
        if k == "G2":
            return r.choice(self.P.g2)
        if k == "Sk":
            return (int.from_bytes(r.bytes(32), "big") % BLS_R).to_bytes(32, "big") if r.chance(4, 5) else bytes(32)
        if k == "Prog":
            return r.choice(PROGS)
        if k == "Opt2":
            return [("some", self.value(d[1], depth + 1)) if r.chance(1, 2) else None,
                    ("some", self.value(d[2], depth + 1)) if r.chance(1, 2) else None]
        if k == "PoS":
            return self.pos()
        if k == "GenTail":
            return self.gentail(depth)
        if k == "Ref":
            t = self.D.types[d[1]]
            if t["kind"] == "enum":
                return r.choice([x for _, x in t["variants"]])
            if t["name"] == "ProofOfSpace":
                return self.pos()
            out = []
            for names, fd in t["wire"]:
                v = self.value(fd, depth + 1)
                if fd[0] in ("Opt2", "GenTail"):
                    out += v
                else:
                    out.append(v)
            return out
        raise ValueError(d)


# ------------------------------------------------------------------ reference encoder (independent of Coq and Rust)
class Enc:
    """encodes a python value; `marks` collects (offset, kind, extra) of structural bytes"""

    def __init__(self, descs):
        self.D = descs
        self.out = bytearray()
        self.marks = []

    def mark(self, kind, width=1, extra=None):
        self.marks.append((len(self.out), kind, width, extra))

    def lenpref(self, b, kind):
        self.mark(kind, 4)
        self.out += len(b).to_bytes(4, "big") + bytes(b)

    def enc(self, d, v):
        k = d[0]
        o = self.out
        if k == "U":
            o += v.to_bytes(d[1], "big")
        elif k == "I":
            o += v.to_bytes(d[1], "big", signed=True)
        elif k == "Bool":
            self.mark("bool")
            o.append(1 if v else 0)
        elif k in ("BytesN", "Sk"):
            o += v
        elif k == "G1":
            self.mark("g1", 48)
            o += v
        elif k == "G2":
            self.mark("g2", 96)
            o += v
        elif k == "Prog":
            self.mark("prog", len(v))
            o += v
        elif k == "Bytes":
            self.lenpref(v, "byteslen")
        elif k == "Str":
            self.lenpref(v, "strlen")
        elif k == "Opt":
            self.mark("opt")
            if v is None:
                o.append(0)
            else:
                o.append(1)
                self.enc(d[1], v[1])
        elif k == "Vec":
            self.mark("veclen", 4)
            o += len(v).to_bytes(4, "big")
            for x in v:
                self.enc(d[1], x)
        elif k == "Tup":
            for x, y in zip(d[1], v):
                self.enc(x, y)
        elif k == "Arr":
            for y in v:
                self.enc(d[2], y)
        elif k == "Opt2":
            self.mark("opt2")
            o.append((1 if v[0] is not None else 0) + (2 if v[1] is not None else 0))
            if v[0] is not None:
                self.enc(d[1], v[0][1])
            if v[1] is not None:
                self.enc(d[2], v[1][1])
        elif k == "PoS":
            self.pos(v)
        elif k == "GenTail":
            gen, refs, buf, ver = v
            self.mark("version")
            if ver == 0:
                o.append(0 if gen is None else 1)
                if gen is not None:
                    self.mark("prog", len(gen[1]))
                    o += gen[1]
                self.mark("veclen", 4)
                o += len(refs).to_bytes(4, "big")
                for x in refs:
                    o += x.to_bytes(4, "big")
            else:
                o.append(2 if buf is None else 3)
                if buf is not None:
                    self.lenpref(bytes(buf[1]), "byteslen")
        elif k == "Ref":
            t = self.D.types[d[1]]
            if t["kind"] == "enum":
                self.mark("enum", 1, [x for _, x in t["variants"]])
                o.append(v)
            elif t["name"] == "ProofOfSpace":
                self.pos(v)
            else:
                i = 0
                for names, fd in t["wire"]:
                    if fd[0] == "Opt2":
                        self.enc(fd, v[i:i + 2])
                        i += 2
                    elif fd[0] == "GenTail":
                        self.enc(fd, v[i:i + 4])
                        i += 4
                    else:
                        self.enc(fd, v[i])
                        i += 1
        else:
            raise ValueError(d)

    def pos(self, v):
        ch, pk, c, ppk, ver, pi, mg, st, sz, proof = v
        o = self.out
        o += ch
        self.mark("opt")
        if pk is None:
            o.append(0)
        else:
            o.append(1)
            self.mark("g1", 48)
            o += pk[1]
        self.mark("version")
        o.append((ver << 1) | (0 if c is None else 1))
        if c is not None:
            o += c[1]
        self.mark("g1", 48)
        o += ppk
        if ver == 0:
            o.append(sz)
        else:
            o += pi.to_bytes(2, "big") + bytes([mg, st])
        self.proof(ver, proof)

    def proof(self, ver, proof):
        self.lenpref(proof, "byteslen")


class Dig(Enc):
    """reference DIGEST INPUT: the encoding, except that a v2 proof of space contributes its quality string
    (taken from the repository's test vector files) instead of the length-prefixed proof.  `unknown` counts v2
    proofs without a known quality string (then no reference hash exists)"""

    def __init__(self, descs, quality):
        Enc.__init__(self, descs)
        self.quality = quality
        self.unknown = 0

    def proof(self, ver, proof):
        if ver == 1:
            q = self.quality.get(bytes(proof))
            if q is None:
                self.unknown += 1
            else:
                self.out += q
        else:
            self.lenpref(proof, "byteslen")


def reference_hash(descs, d, v, quality):
    """sha256 of the reference digest input, or None when the value holds a v2 proof whose quality is unknown"""
    e = Dig(descs, quality)
    e.enc(d, v)
    return None if e.unknown else hashlib.sha256(bytes(e.out)).hexdigest()


def struct_entries(descs, n):
    """[(flat index, width, names, desc)] of the wire entries of struct n"""
    out, i = [], 0
    for names, fd in descs.types[n]["wire"]:
        w = 2 if fd[0] == "Opt2" else 4 if fd[0] == "GenTail" else 1
        out.append((i, w, names, fd))
        i += w
    return out


def prefix_combo_values(descs, gen, n):
    """values of type n covering every combination of its hand-written prefix bytes: the four two-option
    combinations, the four generator-tail forms, the proof-of-space kinds -> [(tag, value)]"""
    d = descs.top[n]
    if descs.types[n]["name"] == "ProofOfSpace":
        return [(k, gen.pos(k)) for k in ("v0pk", "v0c", "v0both", "v0none", "v1pk", "v1c", "v2real")]
    out = []
    for i, w, names, fd in struct_entries(descs, n):
        if fd[0] == "Opt2":
            for a in (0, 1):
                for b in (0, 1):
                    v = gen.value(d)
                    v[i] = ("some", gen.value(fd[1], 3)) if a else None
                    v[i + 1] = ("some", gen.value(fd[2], 3)) if b else None
                    out.append(("opt2=%d" % (a + 2 * b), v))
        elif fd[0] == "GenTail":
            for tag, tail in (("tail=0", [None, [7, 0xffffffff], None, 0]), ("tail=1", [("some", PROGS[6]), [], None, 0]),
                              ("tail=2", [None, [], None, 1]), ("tail=3", [None, [], ("some", [1, 2, 255]), 1])):
                v = gen.value(d)
                v[i:i + 4] = tail
                out.append((tag, v))
    return out


def prefix_types(descs):
    """types with a hand-written prefix byte (two-option helper, version-packed Option prefix)"""
    out = []
    for n in descs.order:
        t = descs.types[n]
        if t["kind"] != "struct":
            continue
        if t["name"] == "ProofOfSpace" or any(fd[0] in ("Opt2", "GenTail") for _, fd in (t["wire"] or [])):
            out.append(n)
    return out


def encode(descs, d, v):
    e = Enc(descs)
    e.enc(d, v)
    return bytes(e.out), e.marks


def contains_v2(descs, d, v):
    """does the value contain a v2 (version field 1) proof of space"""
    k = d[0]
    if k == "Opt":
        return v is not None and contains_v2(descs, d[1], v[1])
    if k == "Vec":
        return any(contains_v2(descs, d[1], x) for x in v)
    if k == "Arr":
        return any(contains_v2(descs, d[2], x) for x in v)
    if k == "Tup":
        return any(contains_v2(descs, x, y) for x, y in zip(d[1], v))
    if k == "Opt2":
        return (v[0] is not None and contains_v2(descs, d[1], v[0][1])) or (v[1] is not None and contains_v2(descs, d[2], v[1][1]))
    if k == "PoS":
        return v[4] == 1
    if k == "Ref":
        t = descs.types[d[1]]
        if t["kind"] == "enum":
            return False
        if t["name"] == "ProofOfSpace":
            return v[4] == 1
        i = 0
        for names, fd in t["wire"]:
            w = 2 if fd[0] == "Opt2" else 4 if fd[0] == "GenTail" else 1
            x = v[i:i + w] if w > 1 else v[i]
            i += w
            if contains_v2(descs, fd, x):
                return True
    return False


# ------------------------------------------------------------------ mutations of an encoding
def mutations(bs, marks, rng, limit=24):
    """single-point perturbations at structural bytes -> [(kind, bytes)]"""
    out = []
    for off, kind, width, extra in marks:
        b = bytearray(bs)
        if kind in ("opt", "bool"):
            for nv in (b[off] ^ 1, 2, 0xff, 0x80 | b[off]):
                m = bytearray(bs)
                m[off] = nv
                out.append((kind + ":=%d" % nv, bytes(m)))
        elif kind == "opt2":
            for nv in ((b[off] + 1) & 3, b[off] ^ 3, 4, 0xff):
                m = bytearray(bs)
                m[off] = nv
                out.append((kind + ":=%d" % nv, bytes(m)))
        elif kind == "version":
            for nv in (b[off] ^ 1, b[off] ^ 2, b[off] | 4, b[off] | 0x80, 0xff):
                m = bytearray(bs)
                m[off] = nv
                out.append((kind + ":=%d" % nv, bytes(m)))
        elif kind == "enum":
            cand = [x for x in (0, 1, 2, 0xff, b[off] + 1, 200) if x not in extra and x < 256][:2] + [x for x in extra if x != b[off]][:1]
            for nv in cand:
                m = bytearray(bs)
                m[off] = nv
                out.append((kind + (":listed" if nv in extra else ":unlisted"), bytes(m)))
        elif kind in ("veclen", "byteslen", "strlen"):
            n = int.from_bytes(b[off:off + 4], "big")
            for nv, tag in ((n + 1, "+1"), (max(n - 1, 0), "-1"), (0, "=0"), (0xffffffff, "=max"), (0x80000000, "=2^31"), (n + 0x01000000, "+2^24")):
                if nv == n:
                    continue
                m = bytearray(bs)
                m[off:off + 4] = nv.to_bytes(4, "big")
                out.append((kind + tag, bytes(m)))
        elif kind in ("g1", "g2"):
            for bit in (0x80, 0x40, 0x20, 0x01):
                m = bytearray(bs)
                m[off] ^= bit
                out.append((kind + ":flag^%02x" % bit, bytes(m)))
            m = bytearray(bs)
            m[off + width - 1] ^= 1
            out.append((kind + ":lastbit", bytes(m)))
        elif kind == "prog" and width > 0:
            m = bytearray(bs)
            m[off] = 0xff
            out.append(("prog:=ff", bytes(m)))
            m = bytearray(bs)
            m[off] = 0xfe
            out.append(("prog:=fe", bytes(m)))
    # truncations and trailing bytes
    cuts = sorted(set([m[0] for m in marks] + [len(bs) - 1, len(bs) // 2, 0]))
    for c in cuts:
        if 0 <= c < len(bs):
            out.append(("truncate", bs[:c]))
    out.append(("trailing+1", bs + b"\x00"))
    out.append(("trailing+dup", bs + bs[-4:]))
    if len(out) > limit:
        rng.shuffle(out)
        keep = out[:limit]
        # always keep one truncation and one trailing case
        keep += [x for x in out[limit:] if x[0] in ("truncate", "trailing+1")][:2]
        out = keep
    return out


# ------------------------------------------------------------------ oracle-table protocol
class OracleCache:
    """answers of the implementation to blst / chia-pos2 questions, fetched lazily"""

    def __init__(self):
        self.ans = {}

    def fetch(self, queries):
        qs = sorted(set(q for q in queries if q not in self.ans))
        if not qs:
            return
        lines, cur, n = [], [], 0
        for q in qs:
            cur.append(q)
            n += len(q)
            if n > 20000 or len(cur) >= 40:
                lines.append("wire.ora " + ",".join(cur))
                cur, n = [], 0
        if cur:
            lines.append("wire.ora " + ",".join(cur))
        outs = C.run_lines(C.VH(UNIT), lines)
        for l, o in zip(lines, outs):
            for q, a in zip(l.split(" ")[1].split(","), o.split(",")):
                if a.startswith(q + ":"):
                    self.ans[q] = a
                else:
                    self.ans[q] = q + (":00" if q[0] in "ab" else ":-")

    def table(self, queries):
        qs = [q for q in queries if q]
        return ",".join(self.ans[q] for q in qs) if qs else "-"


def with_oracles(cache, need_lines, have_model=True):
    """run `wire.need ...` lines on the model, fetch the answers from the implementation,
    return the per-case oracle table strings"""
    if not have_model:
        return ["-"] * len(need_lines)
    outs = C.run_lines(C.VRUN(UNIT), need_lines)
    per = []
    allq = []
    for o in outs:
        qs = [] if (o == "-" or o.startswith("ERR") or o in ("TIMEOUT",) or o.startswith("CRASH")) else sorted(set(o.split(",")))
        per.append(qs)
        allq += qs
    cache.fetch(allq)
    return [cache.table(qs) for qs in per]


def tokens(line):
    """'U:.. T:.. P:..' -> dict"""
    d = {}
    for t in line.split(" "):
        if ":" in t:
            k, v = t.split(":", 1)
            d[k] = v
    return d
