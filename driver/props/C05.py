"""C05 — signature acceptance binds each AGG_SIG condition to its domain-separated text.

Flow per case (signature checking ON): the MODEL computes the (key, message) pairs the rules
prescribe; the harness signs exactly those with its own secret keys (real BLS) and the implementation
must accept — with no cache, a cold cache and a warm cache — and must reject every single-point
tampering.  An independent Python table recomputes the messages as well, and the helper
make_aggsig_final_message is compared on every opcode / amount encoding length."""
import os, sys, json, hashlib
sys.path.insert(0, os.path.dirname(os.path.dirname(os.path.abspath(__file__))))
import common as C
import condlib, condgen
from condlib import UNIT
from clvm import canon
from run import diff_stream

GEN = ["opcodes", "ladders"]
RULE = ("bundles mixing the 8 AGG_SIG opcodes (amounts of every encoding length, valid/invalid/infinity keys, AGG_SIG_UNSAFE "
        "messages with forbidden suffixes) x {no cache, cold cache, warm cache}; tamperings: message byte, dropped pair, extra "
        "pair, other key, other domain constant; helper messages for 8 opcodes x 19 amounts. "
        "non-trivial = distinct (opcode, shape, flags, visitor, verdict) tuples")
ASSUMPTIONS = ["unforgeability of BLS is assumed, not modelled: rejection of tampered inputs is observed on the implementation",
               "key validity is an oracle table from the implementation"]
TRUSTED = ["Python message table in driver/props/C05.py"]

SUFFIX = {50: (lambda s: s["id"], 0), 43: (lambda s: s["parent"], 1), 44: (lambda s: s["ph"], 2),
          45: (lambda s: canon(s["amount"]), 3), 46: (lambda s: s["ph"] + canon(s["amount"]), 4),
          47: (lambda s: s["parent"] + canon(s["amount"]), 5), 48: (lambda s: s["parent"] + s["ph"], 6)}


def py_pairs(case, consts):
    """(key, message) pairs per the rule table, in condition order, for a standard accepted bundle"""
    out = []
    for s in case["spends"]:
        for cond in s["conds"]:
            op = cond[0]
            if isinstance(op, tuple) or len(op) != 1 or not (43 <= op[0] <= 50):
                continue
            args = cond[1]
            pk, msg = args[0], args[1][0]
            if op[0] == 49:
                out.append((pk, msg))
            else:
                f, ci = SUFFIX[op[0]]
                out.append((pk, msg + f(s) + consts[ci]))
    return out


def fmt_pairs(p):
    return ",".join("%s:%s" % (k.hex(), m.hex() if m else "-") for k, m in p) if p else "-"


def run(ctx):
    rep, tier = ctx["rep"], ctx["tier"]
    rng = C.SplitMix64(ctx["seed"])
    if ctx.get("replay"):
        line = json.load(open(ctx["replay"]))["failing_input"]["case"]
        impl = C.run_lines(C.VH(UNIT), [line])
        rep.add_failure("cond.sig", line, impl[0], json.load(open(ctx["replay"]))["failing_input"].get("model"), "replayed") \
            if impl[0] != json.load(open(ctx["replay"]))["failing_input"].get("model") else None
        rep.evaluations += 1
        return
    n = 160 if tier == "quick" else 3000

    def tweak(c, r):
        c["flags"] &= ~0x10000
        c["max_cost"] = 11000000000
    g, cases, consts_hex, valid = condlib.make_cases(rng.fork("cases"), n, ["aggsig", "aggsig", "ff", "single", "multi"], tweak)
    # the domain-separation constants the repository ships (TEST_CONSTANTS) follow the network rule
    # additional_data(opcode) = sha256(AGG_SIG_ME additional data ++ opcode byte) for opcodes 43..48
    cbx = bytes.fromhex(consts_hex)
    csx = [cbx[i * 32:(i + 1) * 32] for i in range(7)]
    for idx, op in ((1, 43), (2, 44), (3, 45), (4, 46), (5, 47), (6, 48)):
        want = hashlib.sha256(csx[0] + bytes([op])).digest()
        rep.evaluations += 1
        if csx[idx] != want:
            rep.add_failure("cond.consts/oracle", "cond.consts", csx[idx].hex(), want.hex(),
                            "the additional-data constant wired to AGG_SIG opcode %d is not sha256(AGG_SIG_ME data ++ %d): signatures made "
                            "for that opcode's domain are rejected and another opcode's domain is accepted" % (op, op))
    # every AGG_SIG opcode with every kind of unusable key (outside the subgroup, infinity, not on the curve)
    import condgen
    extra = [c for c in condgen.matrix2_cases(g) if any(str(t[1]).startswith("badkey") for t in c["tags"])]
    for c in extra:
        c["flags"] &= ~0x10000
    v2 = condlib.key_oracle(extra, g.keys)
    for c in extra:
        c["line"] = condgen.case_line(c, consts_hex, v2)
    cases += extra
    cb = bytes.fromhex(consts_hex)
    consts = [cb[i * 32:(i + 1) * 32] for i in range(7)]
    keyidx = {k: i for i, k in enumerate(g.keys)}
    lines = [c["line"] for c in cases]
    if not ctx["have_model"]:
        rep.add_broken("model-unavailable", "Run/CondExtract", "cannot compute the prescribed pairs without the model")
        return
    model = C.run_lines(C.VRUN(UNIT), lines)
    # sign exactly what the model prescribes
    want = []
    for c, l, m in zip(cases, lines, model):
        d = condlib.parse_ok(m)
        if d is None:
            want.append(None)
            continue
        pairs = []
        if d["pairs"] != "-":
            for p in d["pairs"].split(","):
                k, mm = p.split(":")
                pairs.append((bytes.fromhex(k), b"" if mm == "-" else bytes.fromhex(mm)))
        want.append(pairs)
        if c["std"]:
            pp = py_pairs(c, consts)
            if pp != pairs:
                rep.add_failure("cond.sig/oracle", l, fmt_pairs(pairs), fmt_pairs(pp),
                                "model pairs differ from the rule table (Python)")
    signreq = ["cond.aggsign %s" % (",".join("%d:%s" % (keyidx[k], m.hex() if m else "-") for k, m in p) if p else "-")
               for p in want if p is not None]
    sigs = iter(C.run_lines(C.VH(UNIT), signreq))
    runs = []      # (line, expected-kind, base-case-index, label)
    for idx, (c, l, m, p) in enumerate(zip(cases, lines, model, want)):
        if p is None:
            runs.append((l, "reject", idx, "rules-reject"))
            # also with the signature check switched off: a bundle the rules reject for its KEYS (invalid, infinity,
            # outside the subgroup) or message must not get as far as the verifier, whatever the verifier would say
            t = l.split(" ")
            t[1] = str(int(t[1]) | 0x10000)
            runs.append((" ".join(t), "reject", idx, "rules-reject-nosig"))
            continue
        sig = next(sigs)
        for cache in (0, 1, 2):
            runs.append(("%s %s %d" % (l, sig, cache), "accept", idx, "cache%d" % cache))
        if p:
            r = rng.fork("t%d" % idx)
            j = r.below(len(p))
            k, mm = p[j]
            t = list(p)
            t[j] = (k, (mm[:-1] + bytes([mm[-1] ^ 1])) if mm else b"\x00")
            tam = [("msgbit", t), ("drop", p[:j] + p[j + 1:]), ("extra", p + [(g.keys[0], b"extra")]),
                   ("otherkey", p[:j] + [(g.keys[(keyidx[k] + 1) % len(g.keys)], mm)] + p[j + 1:])]
            for label, tp in tam:
                runs.append((l, "tamper", idx, label, tp))
            # other domain constant: validate under constants with one byte flipped, signature for the original ones
            cb2 = bytearray(cb)
            cb2[r.below(len(cb2))] ^= 0x40
            runs.append((condlib.replace_arg(l, 5, bytes(cb2).hex()) + " %s 0" % sig, "const", idx, "otherconst"))
    treq = ["cond.aggsign %s" % (",".join("%d:%s" % (keyidx[k], m.hex() if m else "-") for k, m in r[4]) if r[4] else "-")
            for r in runs if r[1] == "tamper"]
    tsigs = iter(C.run_lines(C.VH(UNIT), treq))
    final = []
    for r in runs:
        if r[1] == "tamper":
            final.append(("%s %s %d" % (r[0], next(tsigs), 0), "reject-sig", r[2], r[3]))
        elif r[1] == "const":
            final.append((r[0], "const", r[2], r[3]))
        else:
            final.append(r[:4])
    outs = C.run_lines(C.VH(UNIT), [f[0] for f in final])
    st = rep.streams.setdefault("cond.sig", {"cases": 0, "accept_runs": 0, "tamper_runs": 0, "rules_reject": 0, "const_runs": 0})
    for (l, kind, idx, label), o in zip(final, outs):
        st["cases"] += 1
        rep.evaluations += 1
        rep.traces += 1
        m = model[idx]
        for t in cases[idx]["tags"]:
            rep.nontrivial.add(("cond.sig", t[0], t[1], label, o.split(" ")[0] if o.startswith("OK") else o))
        if kind == "accept":
            st["accept_runs"] += 1
            if condlib.verdict(o) != condlib.verdict(m):
                rep.add_failure("cond.sig", l, o, m, "valid aggregate over exactly the prescribed pairs was not accepted with the model's summary (%s)" % label)
        elif kind == "reject":
            st["rules_reject"] += 1
            if o.startswith("OK"):
                rep.add_failure("cond.sig", l, o, m, "bundle the rules reject was accepted")
        elif kind == "reject-sig":
            st["tamper_runs"] += 1
            if o != "ERR BadAggregateSignature":
                rep.add_failure("cond.sig", l, o, "ERR BadAggregateSignature", "tampered signature set (%s) was not rejected" % label)
        elif kind == "const":
            st["const_runs"] += 1
            # changing a constant changes the signed text unless that constant is unused by this bundle
            d = condlib.parse_ok(m)
            mm = C.run_lines(C.VRUN(UNIT), [" ".join(l.split(" ")[:8])])[0]
            d2 = condlib.parse_ok(mm)
            same = d2 is not None and d2["pairs"] == d["pairs"]
            if d2 is None:
                if o.startswith("OK"):
                    rep.add_failure("cond.sig", l, o, mm, "accepted under constants for which the rules reject")
            elif same and condlib.verdict(o) != condlib.verdict(mm):
                rep.add_failure("cond.sig", l, o, mm, "unused constant changed the verdict")
            elif not same and o != "ERR BadAggregateSignature":
                rep.add_failure("cond.sig", l, o, "ERR BadAggregateSignature", "signature for other domain constants was accepted")
    condlib.stream_stats(rep, "cond.sig", cases, [o for (f, o) in zip(final, outs) if f[3] in ("cache0", "rules-reject")])
    # ---- the mempool pre-validation path (validate_clvm_and_signature) on spend-bundle shaped cases ----
    nv = 60 if tier == "quick" else 1500
    vrng = rng.fork("vcs")
    vcases = []
    for _ in range(nv):
        spends = g.sc_vcs()
        fl = vrng.choice([0, 0x20000 | 0x80000, 0x800000, 0x800000 | 0x20000 | 0x80000 | 0x2000000])
        c = {"tree": g.bundle_tree(spends), "flags": fl, "visitor": 1, "max_cost": 11000000000, "clvm_cost": 0,
             "tags": [t for s_ in spends for t in s_["tags"]], "scenario": "vcs", "keys": [k for s_ in spends for k in s_["keys"]],
             "spends": spends, "std": True}
        c["line"] = condgen.case_line(c, consts_hex, set(g.keys))
        vcases.append(c)
    # bundles WITHOUT any AGG_SIG condition (the verifier gets an empty pair list)
    for k_ in range(6 if tier == "quick" else 60):
        a_ = g.new_spend(parent=vrng.bytes(32), amount=1000 + k_)
        a_["budget"] = []
        if k_ % 3 == 0:
            g.add_raw(a_, "CREATE_COIN", [vrng.choice(g.phs), canon(k_)])
        elif k_ % 3 == 1:
            g.add_raw(a_, "REMARK", [])
        from clvm import tree_hash, to_list
        a_["ph"] = tree_hash((b"\x01", to_list(a_["conds"])))
        a_["id"] = condgen.coin_id(a_["parent"], a_["ph"], a_["amount"])
        sp_ = [a_]
        fl = [0, 0x20000 | 0x80000, 0x800000][k_ % 3]
        c = {"tree": g.bundle_tree(sp_), "flags": fl, "visitor": 1, "max_cost": 11000000000, "clvm_cost": 0,
             "tags": [("NO_AGG_SIG", "vcs-empty")], "scenario": "vcs", "keys": [], "spends": sp_, "std": True}
        c["line"] = condgen.case_line(c, consts_hex, set(g.keys))
        vcases.append(c)
    vmodel = C.run_lines(C.VRUN(UNIT), [c["line"] for c in vcases])
    vruns = []
    for c, m in zip(vcases, vmodel):
        d = condlib.parse_ok(m)
        if d is None:
            continue
        pairs = []
        if d["pairs"] != "-":
            for pz in d["pairs"].split(","):
                kk, mm = pz.split(":")
                pairs.append((bytes.fromhex(kk), b"" if mm == "-" else bytes.fromhex(mm)))
        pp = py_pairs(c, consts)
        if pp != pairs:
            rep.add_failure("cond.vcs/oracle", c["line"], fmt_pairs(pairs), fmt_pairs(pp), "model pairs differ from the rule table (Python)")
        tree_hex = c["line"].split(" ")[-1]
        def req(p):
            return "cond.aggsign %s" % (",".join("%d:%s" % (keyidx[k], m_.hex() if m_ else "-") for k, m_ in p) if p else "-")
        vruns.append((c, tree_hex, req(pairs), "accept"))
        if not pairs:
            # nothing to sign: only the identity signature is valid; any other signature must be rejected
            vruns.append((c, tree_hex, req([(g.keys[0], b"stray")]), "stray-signature"))
        if pairs:
            j = vrng.below(len(pairs))
            vruns.append((c, tree_hex, req(pairs[:j] + pairs[j + 1:]), "drop"))       # one pair (possibly one of two equal ones) missing
            vruns.append((c, tree_hex, req(pairs + [pairs[j]]), "extra-same"))          # one pair signed twice too often
            k_, m_ = pairs[j]
            vruns.append((c, tree_hex, req(pairs[:j] + [(k_, m_ + b"\x00")] + pairs[j + 1:]), "msg"))
    vs = C.run_lines(C.VH(UNIT), [r_[2] for r_ in vruns])
    vl = ["cond.vcs %d %d %s %s %s" % (r_[0]["flags"], r_[0]["max_cost"], consts_hex, sg, r_[1]) for r_, sg in zip(vruns, vs)]
    vo = C.run_lines(C.VH(UNIT), vl)
    stv = rep.streams.setdefault("cond.vcs", {"cases": 0, "accept_runs": 0, "tamper_runs": 0})
    for (c, th_, rq, kind), l, o in zip(vruns, vl, vo):
        stv["cases"] += 1
        rep.evaluations += 1
        rep.traces += 1
        for t in c["tags"]:
            rep.nontrivial.add(("cond.vcs", t[0], t[1], kind, o.split(" ")[0] if o.startswith("OK") else o))
        if kind == "accept":
            stv["accept_runs"] += 1
            if not o.startswith("OK "):
                rep.add_failure("cond.vcs", l, o, "OK", "mempool pre-validation rejected a bundle signed over exactly the prescribed pairs")
        else:
            stv["tamper_runs"] += 1
            if o != "ERR BadAggregateSignature":
                rep.add_failure("cond.vcs", l, o, "ERR BadAggregateSignature", "mempool pre-validation accepted a tampered signature set (%s)" % kind)
    # helper: make_aggsig_final_message for every bound opcode x amounts of every encoding length
    amounts = [0, 1, 127, 128, 255, 256, 32767, 32768, 2**23 - 1, 2**23, 2**31 - 1, 2**31, 2**39, 2**47, 2**55 - 1, 2**55, 2**63 - 1, 2**63, 2**64 - 1]
    hl = []
    meta = []
    for op in (43, 44, 45, 46, 47, 48, 50, 49):
        for a in amounts:
            parent, ph, msg = rng.bytes(32), rng.bytes(32), rng.choice([b"", b"m", rng.bytes(40)])
            hl.append("cond.finalmsg %d %s %s %s %d %s" % (op, msg.hex() if msg else "-", parent.hex(), ph.hex(), a, consts_hex))
            meta.append((op, msg, parent, ph, a))
    hi, hm = condlib.run_both(hl, True)
    diff_stream(rep, "cond.finalmsg", hl, hi, hm, lambda c, i: c.split(" ")[1] + ":" + str(len(i)))
    for (op, msg, parent, ph, a), o, l in zip(meta, hi, hl):
        s = {"id": hashlib.sha256(parent + ph + canon(a)).digest(), "parent": parent, "ph": ph, "amount": a}
        wantm = msg if op == 49 else msg + SUFFIX[op][0](s) + consts[SUFFIX[op][1]]
        if o != (wantm.hex() if wantm else "-"):
            rep.add_failure("cond.finalmsg/oracle", l, o, wantm.hex(), "make_aggsig_final_message differs from the rule table")
