"""C11 — all integer encoders agree on the canonical CLVM integer form.

Streams (model = coq/Run/IntsRun.v over Clvm/Ints.v + Gen/Ladders.v; impl = harness ints.rs):
  ints.u64   Coin::coin_id, u64_to_bytes, Allocator::new_number, calculate_generator_length, node_to_bytes
  ints.san   sanitize_uint (max_size 8 and 4)
  ints.enc   clvm-traits encode_number       ints.decn  decode_number::<LEN>
Oracle: an independent Python statement of the property (minimal two's complement via int.to_bytes,
hashlib SHA-256) evaluated on the implementation's outputs."""
import hashlib, os, sys
sys.path.insert(0, os.path.dirname(os.path.dirname(os.path.abspath(__file__))))
import common as C
from run import diff_stream

UNIT = "ints"
GEN = ["ladders"]
RULE = ("u64: every 2^k-1,2^k,2^k+1 (k=0..64), every ladder threshold +-1, seeded random values of every bit length; "
        "sanitize: all atoms of length <=1, all 2-byte atoms with first byte in {00,01,7f,80,ff}, atoms up to 10 bytes with "
        "boundary leading bytes; encode/decode: every width 1,2,4,8,16 x signed/unsigned x boundary values and paddings. "
        "non-trivial/distinct = distinct (op, byte-length class of the value, result class) tuples")
ASSUMPTIONS = ["Allocator::new_number (clvmr) is modelled as canon and tied by execution only",
               "Gallina SHA-256 equals the real one (FIPS vectors by vm_compute + every coin id in the stream)"]
TRUSTED = ["Python reference oracle in driver/props/C11.py (int.to_bytes, hashlib)"]


def canon(v):
    if v == 0:
        return b""
    n = (v.bit_length() + 8) // 8 if v > 0 else ((-v - 1).bit_length() + 8) // 8
    return v.to_bytes(n, "big", signed=True)


def ser_len(atom):
    if len(atom) == 0:
        return 1
    if len(atom) == 1 and atom[0] < 0x80:
        return 1
    assert len(atom) < 0x40
    return 1 + len(atom)


def hexo(b):
    return b.hex() if b else "-"


def u64_cases(rng, tier):
    vals = set()
    for k in range(65):
        for d in (-1, 0, 1):
            v = (1 << k) + d
            if 0 <= v < (1 << 64):
                vals.add(v)
    # thresholds that appear in the translated ladders (so a moved threshold is probed at its new place too)
    try:
        import re
        src = open(C.COQ + "/Gen/Ladders.v").read()
        for m in re.finditer(r"\b(\d{2,})\b", src):
            t = int(m.group(1))
            for d in (-1, 0, 1):
                if 0 <= t + d < (1 << 64):
                    vals.add(t + d)
    except FileNotFoundError:
        pass
    n_rand = 300 if tier == "quick" else 20000
    for _ in range(n_rand):
        bits = 1 + rng.below(64)
        vals.add(rng.next() >> (64 - bits))
    out = []
    for v in sorted(vals):
        parent = rng.bytes(32) if rng.chance(1, 4) else b"\xab" * 32
        ph = rng.bytes(32) if rng.chance(1, 4) else b"\xcd" * 32
        out.append(("ints.u64 %s %s %s" % (parent.hex(), ph.hex(), v.to_bytes(8, "big").hex()), (parent, ph, v)))
    return out


def san_cases(rng, tier):
    atoms = [b""] + [bytes([i]) for i in range(256)]
    lead = [0x00, 0x01, 0x7f, 0x80, 0xff]
    for a in lead:
        for b in range(256):
            atoms.append(bytes([a, b]))
    for ln in range(3, 11):
        for a in lead:
            for b in lead:
                atoms.append(bytes([a, b]) + b"\x00" * (ln - 2))
                atoms.append(bytes([a, b]) + b"\xff" * (ln - 2))
                for _ in range(2 if tier == "quick" else 20):
                    atoms.append(bytes([a, b]) + rng.bytes(ln - 2))
    for _ in range(100 if tier == "quick" else 5000):
        atoms.append(rng.bytes(rng.below(12)))
    return [("ints.san %s" % hexo(a), a) for a in atoms]


def san_spec(a, k):
    if len(a) == 0:
        return "ok:0"
    if a[0] & 0x80:
        return "neg"
    if a == b"\x00" or (len(a) > 1 and a[0] == 0 and a[1] < 0x80):
        return "err"
    v = int.from_bytes(a, "big")
    return "pos" if v >= 1 << (8 * k) else "ok:%d" % v


def width_values(L, signed, rng, tier):
    lo, hi = (-(1 << (8 * L - 1)), (1 << (8 * L - 1)) - 1) if signed else (0, (1 << (8 * L)) - 1)
    vals = {lo, hi, 0, 1, lo + 1, hi - 1}
    for k in range(8 * L + 1):
        for d in (-1, 0, 1):
            for s in ((1, -1) if signed else (1,)):
                v = s * (1 << k) + d
                if lo <= v <= hi:
                    vals.add(v)
    for _ in range(20 if tier == "quick" else 1000):
        bits = 1 + rng.below(8 * L)
        v = rng.next() | (rng.next() << 64)
        v >>= max(0, 128 - bits)
        if signed and rng.chance(1, 2):
            v = -v
        if lo <= v <= hi:
            vals.add(v)
    return sorted(vals)


def enc_cases(rng, tier):
    out = []
    for L in (1, 2, 4, 8, 16):
        for signed in (0, 1):
            for v in width_values(L, signed, rng, tier):
                be = v.to_bytes(L, "big", signed=bool(signed))
                out.append(("ints.enc %d %d %s" % (L, signed, be.hex()), (L, signed, v)))
    return out


def decn_cases(rng, tier):
    out = []
    for L in (1, 2, 4, 8, 16):
        for signed in (0, 1):
            atoms = set()
            for v in width_values(L, 1, rng, tier) + width_values(L, 0, rng, tier) + [1 << (8 * L), -(1 << (8 * L - 1)) - 1, (1 << (8 * L)) + 5]:
                c = canon(v)
                atoms.add(c)
                pad = b"\xff" if v < 0 else b"\x00"
                for extra in (1, 2, 63, 64, 65, 66):
                    if rng.chance(1, 6) or extra in (1, 64, 65):
                        atoms.add(pad * extra + c)
            atoms.add(b"\x00")
            atoms.add(b"\xff" * (L + 70))
            atoms.add(b"\x00" * (L + 70))
            al = sorted(atoms)
            if tier == "quick" and len(al) > 160:
                rng.shuffle(al)
                al = al[:160]
            for a in al:
                out.append(("ints.decn %d %d %s" % (L, signed, hexo(a)), (L, signed, a)))
    return out


def decn_spec(L, signed, a):
    """what the property demands of a decoder: the value if it is in range, else rejection.
    Redundant padding beyond 64 bytes may be rejected (resource limit), never mis-decoded."""
    if len(a) == 0:
        return ("S:" + hexo(b"\x00" * L), False)
    v = int.from_bytes(a, "big", signed=True)
    lo, hi = (-(1 << (8 * L - 1)), (1 << (8 * L - 1)) - 1) if signed else (0, (1 << (8 * L)) - 1)
    if not signed and a[0] & 0x80:
        return ("N", False)
    if lo <= v <= hi:
        return ("S:" + hexo(v.to_bytes(L, "big", signed=bool(signed))), len(a) > L + 64)
    return ("N", False)


def run(ctx):
    rep, tier = ctx["rep"], ctx["tier"]
    rng = C.SplitMix64(ctx["seed"])
    groups = [("ints.u64", u64_cases(rng.fork("u64"), tier)), ("ints.san", san_cases(rng.fork("san"), tier)),
              ("ints.enc", enc_cases(rng.fork("enc"), tier)), ("ints.decn", decn_cases(rng.fork("decn"), tier))]
    if ctx.get("replay"):
        import json
        f = json.load(open(ctx["replay"]))
        line = f["failing_input"]["case"]
        groups = [(line.split(" ")[0], [(line, None)])]
    for name, cases in groups:
        lines = [c[0] for c in cases]
        impl = C.run_lines(C.VH(UNIT), lines)
        model = C.run_lines(C.VRUN(UNIT), lines) if ctx["have_model"] else ["MODEL-UNAVAILABLE"] * len(lines)

        def key(c, i, name=name):
            toks = c.split(" ")
            return (toks[0], len(toks[-1]) // 2 if toks[-1] != "-" else 0, toks[1] if name in ("ints.enc", "ints.decn") else "", toks[2] if name in ("ints.enc", "ints.decn") else "", i.split(":")[0][:3] if name != "ints.u64" else "")
        if ctx["have_model"]:
            diff_stream(rep, name, lines, impl, model, key)
        else:
            rep.evaluations += len(lines)
        # implementation-level oracle: the property itself, stated independently in Python
        for (line, meta), out in zip(cases, impl):
            if meta is None:
                continue
            want = None
            if name == "ints.u64":
                parent, ph, v = meta
                c = canon(v)
                cid = hashlib.sha256(parent + ph + c).digest()
                want = "%s %s %s %d %d" % (cid.hex(), hexo(c), hexo(c), 5 + 39 + 1 + 1 + ser_len(c), ser_len(c))
            elif name == "ints.san":
                want = "%s %s" % (san_spec(meta, 8), san_spec(meta, 4))
            elif name == "ints.enc":
                want = hexo(canon(meta[2]))
            elif name == "ints.decn":
                want, may_reject = decn_spec(*meta)
                if may_reject and out == "N":
                    want = "N"
            if out != want:
                rep.add_failure(name + "/oracle", line, out, want,
                                "implementation output differs from the canonical-form specification (Python oracle)")
        rep.streams.setdefault(name, {})["oracle_checked"] = len(cases)
    if not ctx.get("replay"):
        # ToClvm / FromClvm of the primitive integer types (the glue around encode_number / decode_number: which sign
        # is passed, which width is decoded).  Implementation: ints.prim / ints.primsize through the real Allocator;
        # model: the proved encode_number (ints.enc) and decode_number (ints.decn) of the same width and sign;
        # oracle: the canonical form in Python.
        pc = []
        for L in (1, 2, 4, 8, 16):
            for signed in (0, 1):
                for v in width_values(L, signed, rng.fork("prim%d%d" % (L, signed)), tier):
                    pc.append((L, signed, v))
        pl = ["ints.prim %d %d %s" % (L, sg, v.to_bytes(L, "big", signed=bool(sg)).hex()) for (L, sg, v) in pc]
        for sg in (0, 1):
            for v in width_values(8, sg, rng.fork("size%d" % sg), tier):
                pc.append((8, sg, v))
                pl.append("ints.primsize %d %s" % (sg, v.to_bytes(8, "big", signed=bool(sg)).hex()))
        pi = C.run_lines(C.VH(UNIT), pl)
        if ctx["have_model"]:
            me = C.run_lines(C.VRUN(UNIT), ["ints.enc %d %d %s" % (L, sg, v.to_bytes(L, "big", signed=bool(sg)).hex()) for (L, sg, v) in pc])
            md = C.run_lines(C.VRUN(UNIT), ["ints.decn %d %d %s" % (L, sg, me_i) for (L, sg, v), me_i in zip(pc, me)])
        else:
            me = md = [None] * len(pc)
        st = {"cases": len(pl), "disagreements": 0}
        for (L, sg, v), line, o, e, d in zip(pc, pl, pi, me, md):
            rep.evaluations += 1
            be = v.to_bytes(L, "big", signed=bool(sg)).hex()
            want = "%s %s" % (hexo(canon(v)), be)
            rep.nontrivial.add(("ints.prim", L, sg, len(canon(v)), v < 0))
            if o != want:
                rep.add_failure("ints.prim/oracle", line, o, want,
                                "ToClvm/FromClvm of a primitive integer is not the canonical form / does not round-trip (Python oracle)")
            if e is not None:
                mwant = "%s %s" % (e, d[2:] if d.startswith("S:") else "ERR")
                if o != mwant:
                    st["disagreements"] += 1
                    rep.add_failure("ints.prim", line, o, mwant,
                                    "ToClvm/FromClvm of a primitive integer differs from the proved encode_number / decode_number of its width and sign")
        rep.streams["ints.prim"] = st
    if tier == "thorough" and not ctx.get("replay"):
        # exhaustive below 2^32 on the implementation (independent minimal encoding inside the harness)
        step = (1 << 32) // 16
        lines = ["ints.sweep %d %d" % (i * step, (i + 1) * step) for i in range(16)]
        outs = C.run_lines(C.VH(UNIT), lines, shards=16, timeout=3000)
        for l, o in zip(lines, outs):
            if o != "OK":
                rep.add_failure("ints.sweep", l, o, "OK", "exhaustive sweep below 2^32 found an amount whose encodings disagree")
        rep.streams["ints.sweep"] = {"cases": 1 << 32, "exhaustive_below_2^32": True, "results": outs}
        rep.evaluations += 1 << 32
