"""C16 — key and signature encodings round-trip and derivations commute.

Streams (model = coq/Run/BlsRun.v over Bls/Keys.v; impl = harness/src/bin/vh_bls.rs with the real chia-bls):
  scalar layer, exact at the real group order (model vs implementation, byte for byte):
    bls.dersk    SecretKey::derive_unhardened (digest of the REAL public key bytes, which the implementation supplies)
    bls.modgo    mod_by_group_order           bls.synsk   SecretKey::derive_synthetic_hidden (+ the offset)
    bls.skparse  SecretKey::from_bytes/to_bytes           bls.skadd   &SecretKey + &SecretKey
    bls.pkscalar (model) -> bls.o_derpk (impl): PublicKey::derive_unhardened(pk, i) == G * scalar + pk with the model's scalar
  group layer: bls.lawsym — the three commutation laws evaluated on the Toy instance at the real group order and on the
    real library (both routes), bits compared;  bls.o_laws — the laws along whole paths on the real library only
  encodings: bls.pkparse / bls.sigparse — Rust's flag rules around the decompression oracle: the two oracle bits
    (does decompression succeed, is the point in the subgroup) come from the independent reference below;
    bls.o_pkenc / bls.o_sigenc / bls.o_gt — round trip, canonicity, checked subset of unchecked, r * P = 0 on the real library
Reference (TRUSTED, independent of blst and of the Coq model): BLS12-381 G1/G2 affine arithmetic over Python integers
(field sqrt, ZCash compressed encoding, subgroup test by multiplication with r) and the scalar layer via int/hashlib."""
import hashlib, json, os, sys
sys.path.insert(0, os.path.dirname(os.path.dirname(os.path.abspath(__file__))))
import common as C
from run import diff_stream

UNIT = "bls"
GEN = ["blsconsts"]
RULE = ("scalar layer: secret keys {0,1,2,r-2,r-1} + seeded random, indices {0,1,2^31,2^32-1,wallet path} + random; "
        "mod_by_group_order / from_bytes: all of 0, +-1, r, r+-1, 2r+-1, 2^255+-1, 2^256-1, 2^256-r, sign-bit boundary, random; "
        "encodings: for every valid point all 8 flag-bit settings, single-bit coordinate perturbations, x+-1, x>=p, "
        "infinity with non-zero body / sign bit / without compression bit, x=0, curve points outside the subgroup "
        "(constructed by the reference), random strings; G1 (48 bytes), G2 (96 bytes), secret keys (32), GT (576). "
        "distinct non-trivial = distinct (stream, reference class of the input, verdict) tuples")
ASSUMPTIONS = ["blst's curve arithmetic, compression and subgroup tests are oracles: the encoding theorems (_partial) are relative to "
               "hypotheses about them; they are validated here against the independent Python reference only",
               "the group-layer theorems are over the abstract pairing interface (premise pairing_laws P, satisfiable: toy, toy_bls)",
               "Gallina SHA-256 equals the real one (every digest in the scalar streams is recomputed by both sides and hashlib)"]
TRUSTED = ["Python reference for BLS12-381 G1/G2 encoding and subgroup membership in driver/props/C16.py (int arithmetic, hashlib)"]

P = 0x1a0111ea397fe69a4b1ba7b6434bacd764774b84f38512bf6730d2a0f6b0f6241eabfffeb153ffffb9feffffffffaaab
R = 0x73eda753299d7d483339d80809a1d80553bda402fffe5bfeffffffff00000001
G1X = 0x17f1d3a73197d7942695638c4fa9ac0fc3688c4f9774b905a14e3a3f171bac586c55e83ff97a1aeffb3af00adb22c6bb
G1Y = 0x08b3f481e3aaa0f1a09e30ed741d8ae4fcf5e095d5d00af600db18cb2c04b3edd03cc744a2888ae40caa232946c5e7e1
assert (G1Y * G1Y - G1X ** 3 - 4) % P == 0


# ------------------------------------------------------------------ field arithmetic (Fp, Fp2 = Fp[u]/(u^2+1))
def fp_sqrt(a):
    a %= P
    s = pow(a, (P + 1) // 4, P)
    return s if s * s % P == a else None


class F1:
    """operations of Fp on ints"""
    zero, one = 0, 1
    b = 4

    @staticmethod
    def add(a, b): return (a + b) % P
    @staticmethod
    def sub(a, b): return (a - b) % P
    @staticmethod
    def mul(a, b): return a * b % P
    @staticmethod
    def inv(a): return pow(a, -1, P)
    @staticmethod
    def sqrt(a): return fp_sqrt(a)
    @staticmethod
    def is_zero(a): return a % P == 0
    @staticmethod
    def larger(y): return y > (P - 1) // 2


class F2:
    """operations of Fp2 on pairs (c0, c1) = c0 + c1*u"""
    zero, one = (0, 0), (1, 0)
    b = (4, 4)

    @staticmethod
    def add(a, b): return ((a[0] + b[0]) % P, (a[1] + b[1]) % P)
    @staticmethod
    def sub(a, b): return ((a[0] - b[0]) % P, (a[1] - b[1]) % P)
    @staticmethod
    def mul(a, b): return ((a[0] * b[0] - a[1] * b[1]) % P, (a[0] * b[1] + a[1] * b[0]) % P)
    @staticmethod
    def inv(a):
        n = pow(a[0] * a[0] + a[1] * a[1], -1, P)
        return (a[0] * n % P, (-a[1]) * n % P)
    @staticmethod
    def is_zero(a): return a[0] % P == 0 and a[1] % P == 0
    @staticmethod
    def sqrt(a):
        a0, a1 = a[0] % P, a[1] % P
        if a1 == 0:
            s = fp_sqrt(a0)
            if s is not None:
                return (s, 0)
            s = fp_sqrt(-a0)
            return (0, s) if s is not None else None
        n = fp_sqrt(a0 * a0 + a1 * a1)
        if n is None:
            return None
        inv2 = pow(2, -1, P)
        for cand in ((a0 + n) * inv2 % P, (a0 - n) * inv2 % P):
            x0 = fp_sqrt(cand)
            if x0 is not None and x0 != 0:
                x1 = a1 * pow(2 * x0, -1, P) % P
                if F2.mul((x0, x1), (x0, x1)) == (a0, a1):
                    return (x0, x1)
        return None
    @staticmethod
    def larger(y):
        return y[1] > (P - 1) // 2 if y[1] != 0 else y[0] > (P - 1) // 2


def ec_add(F, p1, p2):
    if p1 is None:
        return p2
    if p2 is None:
        return p1
    (x1, y1), (x2, y2) = p1, p2
    if x1 == x2:
        if F.is_zero(F.add(y1, y2)):
            return None
        lam = F.mul(F.mul((3 if F is F1 else (3, 0)), F.mul(x1, x1)), F.inv(F.add(y1, y1)))
    else:
        lam = F.mul(F.sub(y2, y1), F.inv(F.sub(x2, x1)))
    x3 = F.sub(F.sub(F.mul(lam, lam), x1), x2)
    return (x3, F.sub(F.mul(lam, F.sub(x1, x3)), y1))


def ec_mul(F, k, pt):
    acc = None
    while k:
        if k & 1:
            acc = ec_add(F, acc, pt)
        pt = ec_add(F, pt, pt)
        k >>= 1
    return acc


def on_curve(F, pt):
    x, y = pt
    return F.sub(F.mul(y, y), F.add(F.mul(F.mul(x, x), x), F.b)) == F.zero


def decode(F, b):
    """reference decoder of the ZCash compressed encoding -> ('bad'|'inf'|'pt', point)"""
    n = 48 if F is F1 else 96
    assert len(b) == n
    b0 = b[0]
    if not b0 & 0x80:
        return "bad", None
    if b0 & 0x40:
        return ("inf", None) if (b0 & 0x3f) == 0 and not any(b[1:]) else ("bad", None)
    first = int.from_bytes(bytes([b0 & 0x1f]) + b[1:48], "big")
    if first >= P:
        return "bad", None
    if F is F1:
        x = first
    else:
        c0 = int.from_bytes(b[48:], "big")
        if c0 >= P:
            return "bad", None
        x = (c0, first)
    y = F.sqrt(F.add(F.mul(F.mul(x, x), x), F.b))
    if y is None:
        return "bad", None
    if F.larger(y) != bool(b0 & 0x20):
        y = F.sub(F.zero, y)
    assert on_curve(F, (x, y))
    return "pt", (x, y)


def encode(F, pt):
    if pt is None:
        return bytes([0xc0]) + bytes(47 if F is F1 else 95)
    x, y = pt
    raw = x.to_bytes(48, "big") if F is F1 else x[1].to_bytes(48, "big") + x[0].to_bytes(48, "big")
    return bytes([raw[0] | 0x80 | (0x20 if F.larger(y) else 0)]) + raw[1:]


def classify(F, b):
    """-> (class, oncurve_bit, insub_bit): what blst's decompression and subgroup test must answer"""
    st, pt = decode(F, b)
    if st == "bad":
        return "bad", 0, 0
    if st == "inf":
        return "inf", 1, 1
    insub = ec_mul(F, R, pt) is None
    return ("sub" if insub else "offsub"), 1, (1 if insub else 0)


def spec_checked(F, b):
    """the PROPERTY: checked parsing accepts exactly the canonical encodings of subgroup points and of infinity"""
    cls, _, _ = classify(F, b)
    return cls in ("sub", "inf")


# ------------------------------------------------------------------ generators
def hexo(b):
    return b.hex() if b else "-"


def sk_pool(rng, n):
    vals = [0, 1, 2, 3, R - 2, R - 1, (R - 1) // 2, 1 << 254]
    while len(vals) < n:
        bits = 1 + rng.below(255)
        vals.append(int.from_bytes(rng.bytes(32), "big") >> (256 - bits))
    return [v % R for v in vals][:n]


def be32(v):
    return v.to_bytes(32, "big")


def flag_and_coordinate_mutations(rng, b, n_bits):
    out = []
    for f in range(8):                       # all settings of the three flag bits
        out.append(bytes([(b[0] & 0x1f) | (f << 5)]) + b[1:])
    for _ in range(n_bits):                  # single-bit coordinate perturbations
        i = rng.below(len(b) * 8 - 3) + 3
        m = bytearray(b)
        m[i // 8] ^= 0x80 >> (i % 8)
        out.append(bytes(m))
    v = int.from_bytes(b, "big")
    for d in (1, -1, 2):
        out.append(((v + d) % (1 << (8 * len(b)))).to_bytes(len(b), "big"))
    if len(b) == 96:                          # perturb the second coordinate as well
        m = bytearray(b)
        m[95] ^= 1
        out.append(bytes(m))
    return out


def special_encodings(n):
    z = bytes(n - 1)
    out = [bytes([0xc0]) + z, bytes([0xe0]) + z, bytes([0x40]) + z, bytes([0x00]) + z, bytes([0x80]) + z,
           bytes([0xa0]) + z, bytes([0xc1]) + z, bytes([0xc0]) + z[:-1] + b"\x01", bytes([0xc0, 0x80]) + z[1:],
           bytes([0xff]) * n, bytes([0x9f]) + bytes([0xff]) * (n - 1), bytes([0x80]) + z[:-1] + b"\x01"]
    for xv in (P, P + 1, P - 1, (1 << 381) - 1):      # x >= p (and the largest x < p)
        raw = xv.to_bytes(48, "big")
        for fl in (0x80, 0xa0):
            if n == 48:
                out.append(bytes([raw[0] | fl]) + raw[1:])
            else:
                out.append(bytes([raw[0] | fl]) + raw[1:] + (5).to_bytes(48, "big"))
                out.append(bytes([0x80 | fl]) + (7).to_bytes(47, "big") + raw)       # c0 >= p
    return out


def off_subgroup_points(F, rng, count):
    """curve points outside the prime-order subgroup, constructed here (not through the library)"""
    out = []
    while len(out) < count:
        if F is F1:
            x = int.from_bytes(rng.bytes(48), "big") % P
        else:
            x = (int.from_bytes(rng.bytes(48), "big") % P, int.from_bytes(rng.bytes(48), "big") % P)
        y = F.sqrt(F.add(F.mul(F.mul(x, x), x), F.b))
        if y is None:
            continue
        pt = (x, y)
        if ec_mul(F, R, pt) is None:
            continue          # (astronomically unlikely) landed in the subgroup
        out.append(encode(F, pt))
        out.append(encode(F, (x, F.sub(F.zero, y))))
        # a point of small order: clear the prime-order component
        q = ec_mul(F, R, pt)
        if q is not None and len(out) < count + 2:
            out.append(encode(F, q))
    return out


def run(ctx):
    rep, tier = ctx["rep"], ctx["tier"]
    rng = C.SplitMix64(ctx["seed"])
    quick = tier == "quick"
    VH, VRUN = C.VH(UNIT), C.VRUN(UNIT)

    if ctx.get("replay"):
        f = json.load(open(ctx["replay"]))
        line = f["failing_input"]["case"]
        impl = C.run_lines(VH, [line])
        name = line.split(" ")[0]
        if name.startswith("bls.o_"):
            if impl[0] != "OK":
                rep.add_failure(name, line, impl[0], "OK", "replayed oracle still fails")
        else:
            model = C.run_lines(VRUN, [line])
            diff_stream(rep, name, [line], impl, model)
        return

    def both(name, lines, key=None, why="model and implementation disagree"):
        impl = C.run_lines(VH, lines, timeout=1500)
        if ctx["have_model"]:
            model = C.run_lines(VRUN, lines, timeout=1500)
            diff_stream(rep, name, lines, impl, model, key, why=why)
        else:
            rep.evaluations += len(lines)
        return impl

    # ---------------- scalar layer ----------------
    g = rng.fork("scalar")
    sks = sk_pool(g, 24 if quick else 400)
    pk_hex = C.run_lines(VH, ["bls.pkof %s" % be32(s).hex() for s in sks])
    pk_of = dict(zip(sks, pk_hex))
    # independent reference for public_key() + to_bytes(): compress(sk * G1)
    bad = 0
    for s in sks[:12 if quick else 60]:
        want = encode(F1, ec_mul(F1, s, (G1X, G1Y)))
        if pk_of[s] != want.hex():
            rep.add_failure("bls.pkof/reference", "bls.pkof %s" % be32(s).hex(), pk_of[s], want.hex(),
                            "public key bytes differ from the reference compress(sk * G1)")
            bad += 1
    rep.streams["bls.pkof/reference"] = {"cases": 12 if quick else 60, "bad": bad}
    idxs = [0, 1, 2, 12381, 8444, 1 << 31, (1 << 32) - 1]
    lines, metas = [], []
    for s in sks:
        for i in (idxs if s in sks[:8] else [g.choice(idxs), g.next() & 0xffffffff]):
            lines.append("bls.dersk %s %s %d" % (be32(s).hex(), pk_of[s], i))
            metas.append((s, i))
    impl = both("bls.dersk", lines, lambda c, i: (c.split(" ")[3] in ("0", "4294967295"), i[:1]))
    for l, (s, i), o in zip(lines, metas, impl):
        d = int.from_bytes(hashlib.sha256(bytes.fromhex(pk_of[s]) + i.to_bytes(4, "big")).digest(), "big")
        want = "PANIC" if d % R == 0 or (d % R + s) % R == 0 else "S:" + hexo(be32((d + s) % R))
        if o != want:
            rep.add_failure("bls.dersk/oracle", l, o, want, "derived secret key differs from (sha256(pk||idx) + sk) mod r")
    # the public-key route with the model's scalar
    pl = ["bls.pkscalar %s %d" % (pk_of[s], i) for (s, i) in metas[:60 if quick else 1500]]
    if ctx["have_model"]:
        scal = C.run_lines(VRUN, pl)
        ol = ["bls.o_derpk %s %d %s" % (pk_of[s], i, sc) for (s, i), sc in zip(metas, scal)]
        outs = C.run_lines(VH, ol)
        for l, o, (s, i), sc in zip(ol, outs, metas, scal):
            d = hashlib.sha256(bytes.fromhex(pk_of[s]) + i.to_bytes(4, "big")).digest()
            if sc != d.hex():
                rep.add_failure("bls.pkscalar/oracle", l, sc, d.hex(), "model's derive scalar is not the big-endian digest")
            if o != "OK":
                rep.add_failure("bls.o_derpk", l, o, "OK", "PublicKey::derive_unhardened differs from G*BE(digest) + pk")
        rep.streams["bls.o_derpk"] = {"cases": len(ol), "ok": sum(1 for o in outs if o == "OK")}
        rep.evaluations += len(ol)

    # mod_by_group_order, from_bytes, add, synthetic
    vals = {0, 1, R - 1, R, R + 1, 2 * R - 1, 2 * R, 2 * R + 1, (1 << 255) - 1, 1 << 255, (1 << 255) + 1, (1 << 256) - 1,
            (1 << 256) - R, (1 << 256) - R - 1, (1 << 256) - R + 1, (1 << 256) - 2 * R, 3 * R % (1 << 256), (1 << 256) - 2}
    for _ in range(40 if quick else 2000):
        bits = 1 + g.below(256)
        vals.add(int.from_bytes(g.bytes(32), "big") >> (256 - bits))
        vals.add((1 << 256) - 1 - (int.from_bytes(g.bytes(32), "big") >> (256 - bits)))
    vals = sorted(vals)
    lines = ["bls.modgo %s" % be32(v).hex() for v in vals]
    impl = both("bls.modgo", lines, lambda c, i: (len(c.split(" ")[1].lstrip("0")), c.split(" ")[1][0] >= "8"))
    for l, v, o in zip(lines, vals, impl):
        want = be32(int.from_bytes(be32(v), "big", signed=True) % R).hex()
        if o != want:
            rep.add_failure("bls.modgo/oracle", l, o, want, "mod_by_group_order differs from the signed value mod r")
    lines = ["bls.skparse %s" % be32(v).hex() for v in vals]
    impl = both("bls.skparse", lines, lambda c, i: (len(c.split(" ")[1].lstrip("0")), i[:1]))
    for l, v, o in zip(lines, vals, impl):
        want = "A:" + hexo(be32(v)) if v < R else "R"
        if o != want:
            rep.add_failure("bls.skparse/oracle", l, o, want, "SecretKey::from_bytes must accept exactly values below r, with a unique encoding")
    lines, metas = [], []
    for _ in range(40 if quick else 1500):
        a, b = g.choice(sks), g.choice(sks)
        lines.append("bls.skadd %s %s" % (be32(a).hex(), be32(b).hex()))
        metas.append((a, b))
    impl = both("bls.skadd", lines)
    for l, (a, b), o in zip(lines, metas, impl):
        if o != hexo(be32((a + b) % R)):
            rep.add_failure("bls.skadd/oracle", l, o, hexo(be32((a + b) % R)), "secret key addition is not addition mod r")
    lines, metas = [], []
    hiddens = [bytes(32), b"\xff" * 32, bytes.fromhex("711d6c4e32c92e53179b199484cf8c897542bc57f2b22582799f9d657eec4699")]
    for s in sks[:40 if quick else 400]:
        h = g.choice(hiddens) if g.chance(1, 2) else g.bytes(32)
        lines.append("bls.synsk %s %s %s" % (be32(s).hex(), pk_of[s], h.hex()))
        metas.append((s, h))
    impl = both("bls.synsk", lines)
    for l, (s, h), o in zip(lines, metas, impl):
        off = int.from_bytes(hashlib.sha256(bytes.fromhex(pk_of[s]) + h).digest(), "big", signed=True) % R
        want = "S:%s %s" % (hexo(be32((s + off) % R)), hexo(be32(off)))
        if o != want:
            rep.add_failure("bls.synsk/oracle", l, o, want, "synthetic secret key differs from sk + (signed digest mod r)")

    # ---------------- group layer ----------------
    g = rng.fork("laws")
    lines, olines = [], []
    for _ in range(30 if quick else 600):
        a, b = g.choice(sks), g.choice(sks)
        path = [g.choice(idxs) if g.chance(1, 3) else g.next() & 0xffffffff for _ in range(1 + g.below(4))]
        if g.chance(1, 4):
            path = [12381, 8444, 2, g.below(100)]
        h = g.choice(hiddens) if g.chance(1, 3) else g.bytes(32)
        ps = ",".join(map(str, path))
        lines.append("bls.lawsym %s %s %s %s" % (be32(a).hex(), be32(b).hex(), ps, h.hex()))
        olines.append("bls.o_laws %s %s %s %s %s" % (be32(a).hex(), be32(b).hex(), h.hex(), ps, hexo(g.bytes(g.below(40)))))
    impl = both("bls.lawsym", lines)
    for l, o in zip(lines, impl):
        if o != "1 1 1":
            rep.add_failure("bls.lawsym/oracle", l, o, "1 1 1", "a commutation law (derivation / addition / synthetic) fails on the real library")
    outs = C.run_lines(VH, olines, timeout=1500)
    for l, o in zip(olines, outs):
        if o != "OK":
            rep.add_failure("bls.o_laws", l, o, "OK", "a derivation / addition / synthetic / signing law fails on the real library")
    rep.streams["bls.o_laws"] = {"cases": len(olines), "ok": sum(1 for o in outs if o == "OK")}
    rep.evaluations += len(olines)

    # ---------------- encodings ----------------
    g = rng.fork("points")
    nvalid = 6 if quick else 40
    valid1 = [bytes.fromhex(pk_of[s]) for s in sks[1:1 + nvalid]]
    sig_lines = ["bls.sigof %s %s" % (be32(s).hex(), hexo(g.bytes(g.below(6)))) for s in sks[1:1 + nvalid]]
    valid2 = [bytes.fromhex(x) for x in C.run_lines(VH, sig_lines)]
    for F, n, valid, pname, oname in ((F1, 48, valid1, "bls.pkparse", "bls.o_pkenc"), (F2, 96, valid2, "bls.sigparse", "bls.o_sigenc")):
        encs = list(valid) + special_encodings(n)
        for b in valid:
            encs += flag_and_coordinate_mutations(g, b, 6 if quick else 40)
        encs += off_subgroup_points(F, g, 4 if quick else 30)
        encs += [g.bytes(n) for _ in range(20 if quick else 400)]
        encs += [bytes([0x80 | (x[0] & 0x1f)]) + x[1:] for x in (g.bytes(n) for _ in range(20 if quick else 400))]
        seen, uniq = set(), []
        for e in encs:
            if e not in seen:
                seen.add(e)
                uniq.append(e)
        cls = [classify(F, e) for e in uniq]
        lines = ["%s %s %d %d" % (pname, e.hex(), oc, ins) for e, (_, oc, ins) in zip(uniq, cls)]
        kinds = {}
        for c, _, _ in cls:
            kinds[c] = kinds.get(c, 0) + 1
        classes = {l: c[0] for l, c in zip(lines, cls)}
        impl = both(pname, lines, lambda c, i, classes=classes: (classes[c], c.split(" ")[1][:1], i),
                    why="Rust's flag rules around the decompression oracle differ between model and implementation "
                        "(or blst disagrees with the reference on decompression / subgroup membership)")
        for l, e, o in zip(lines, uniq, impl):
            unchecked, checked = o.split(" ")
            want = "A" if spec_checked(F, e) else "R"
            if checked != want:
                rep.add_failure(pname + "/oracle", l, o, "checked=" + want,
                                "checked parsing must accept exactly canonical encodings of subgroup points (or infinity)")
            if checked == "A" and unchecked != "A":
                rep.add_failure(pname + "/oracle", l, o, "unchecked superset", "unchecked parsing rejects what checked parsing accepts")
        rep.streams.setdefault(pname, {})["reference_classes"] = kinds
        ol = ["%s %s" % (oname, e.hex()) for e in uniq]
        outs = C.run_lines(VH, ol)
        for l, o in zip(ol, outs):
            if o != "OK":
                rep.add_failure(oname, l, o, "OK", "encoding round trip / canonicity / subgroup cross-check fails on the real library")
        rep.streams[oname] = {"cases": len(ol), "ok": sum(1 for o in outs if o == "OK")}
        rep.evaluations += len(ol)
    # GTElement
    ol = ["bls.o_gt k%d.%d %d %d" % (g.below(4), g.below(3), g.below(576), g.below(8)) for _ in range(20 if quick else 300)]
    outs = C.run_lines(VH, ol)
    for l, o in zip(ol, outs):
        if o != "OK":
            rep.add_failure("bls.o_gt", l, o, "OK", "GTElement encoding does not round-trip or is not unique")
    rep.streams["bls.o_gt"] = {"cases": len(ol), "ok": sum(1 for o in outs if o == "OK")}
    rep.evaluations += len(ol)
