"""C20 — the Python JSON-dict representation round-trips every exported value.

Model = Stream/Json.v (to_json / from_json over the type universe) rendered by `wire.tojson` / `wire.fromjson`
of Run/WireRun.v; implementation = harness binary vh_wirejson (vh_wire built with feature `py`: the repository's
crates with py-bindings and an embedded CPython through pyo3, calling the real ToJsonDict / FromJsonDict impls).

Streams (every type of the translated table that derives / implements the JSON conversions)
  json.rt    generated values (also field combinations only JSON can construct, e.g. a v1 proof with v2 fields):
             to_json_dict on both sides, from_json_dict of that JSON on both sides
  json.bad   single-point corruptions of the JSON form at every position: hex strings (one byte short/long, odd digit
             count, non-hex digit, missing 0x, upper case), integers (2^bits, -1, min-1, max+1, str, bool, null), bools,
             Option <-> null, lists (str / dict / null instead, element of wrong type), tuples (one element short/long),
             dicts (each key removed, extra key, null instead of a required value), enums (unlisted discriminant)
Oracles: `wire.orcj` (implementation only): from_json_dict(to_json_dict(v)) == v with identical encoding and hash, also
after json.dumps/json.loads;  Python reference rendering of the JSON form;  the corruption classes named by the
property (wrong byte length, invalid hex digit, out-of-range integer, wrong element count, missing key) must be
rejected by the implementation."""
import os, sys, json
sys.path.insert(0, os.path.dirname(os.path.dirname(os.path.abspath(__file__))))
import common as C
from run import diff_stream
from props import wire_common as W

UNIT = "wire"
GEN = ["streamtypes"]
RULE = ("per JSON-capable type: N generated values and every single-point corruption of their JSON form (capped per value); "
        "distinct non-trivial = distinct (type, corruption class, field type kind, accept/reject) tuples")
ASSUMPTIONS = ["Python object protocol is modelled only for JSON-shaped inputs (None, bool, int, str, list, dict); floats, bytes "
               "objects and user classes are out of scope", "GTElement's JSON form is not modelled",
               "duplicate dict keys cannot occur in a Python dict; the model's association list takes the first"]
TRUSTED = ["pyo3 embedding and the JSON text bridge in harness/src/wire_pyjson.inc.rs", "Python reference to_json in driver/props/C20.py"]

TARGET_PY = C.CACHE + "/target_py"     # own target dir: the py-bindings feature set must not evict the other units' artifacts
VHJ = TARGET_PY + "/release/vh_wirejson"
MUST_REJECT = ("len-1", "len+1", "odd", "badhex", "badhex-mid", "oor-high", "oor-low", "count-1", "count+1", "missing",
               # "invalid hex digit" in the wider sense: anything that is not [0x]<hex digits> must be rejected
               "dup-prefix", "dup-prefix-only", "upper-prefix", "prefix-inside", "prefix-at-end", "space-inside", "space-before",
               "space-after", "space-after-prefix", "newline-after", "underscore", "minus", "nul-inside", "non-ascii-digit")
HEX_KINDS = ("BytesN", "G1", "G2", "Sk", "Bytes", "Prog")
HEX_CLASSES = ("len-1", "var-len-1", "len+1", "var-len+1", "odd", "badhex", "badhex-mid", "no0x", "upper", "dup-prefix", "dup-prefix-only",
               "upper-prefix", "prefix-inside", "prefix-at-end", "space-inside", "space-before", "space-after", "space-after-prefix",
               "newline-after", "underscore", "minus", "nul-inside", "non-ascii-digit", "prefix-only", "empty-str")
# for the deterministic hex stream: a bare leaf type and a derived class carrying that leaf, per hex-carrying leaf kind
HEX_TYPES = {"Bytes": ["Bytes", "VDFProof", "Message"], "Prog": ["Program", "CoinSpend"], "BytesN": ["Bytes32", "Coin"],
             "G1": ["G1Element", "ProofOfSpace"], "G2": ["G2Element", "SpendBundle"], "Sk": ["PrivateKey"]}


# ------------------------------------------------------------------ python reference: value -> json object
class S:           # a JSON string (bytes = its UTF-8)
    def __init__(self, b):
        self.b = bytes(b)


def jtext(j):
    if j is None:
        return "z"
    if isinstance(j, bool):
        return "t" if j else "f"
    if isinstance(j, int):
        return str(j)
    if isinstance(j, S):
        return "s" + j.b.hex()
    if isinstance(j, list):
        return "[" + ",".join(jtext(x) for x in j) + "]"
    return "{" + ",".join("%s:%s" % (k, jtext(v)) for k, v in j.items()) + "}"


def hx(b):
    return S(b"0x" + bytes(b).hex().encode())


def to_json(D, d, v):
    k = d[0]
    if k in ("U", "I"):
        return v
    if k == "Bool":
        return bool(v)
    if k in ("BytesN", "G1", "G2", "Sk"):
        return hx(v)
    if k in ("Bytes", "Prog"):
        return S(b"") if len(v) == 0 else hx(v)
    if k == "Str":
        return S(v)
    if k == "Opt":
        return None if v is None else to_json(D, d[1], v[1])
    if k == "Vec":
        return [to_json(D, d[1], x) for x in v]
    if k == "Arr":
        return [to_json(D, d[2], x) for x in v]
    if k == "Tup":
        return [to_json(D, x, y) for x, y in zip(d[1], v)]
    if k == "PoS":
        return {n: to_json(D, fd, x) for (n, fd), x in zip(W.POS_FIELDS, v)}
    if k == "Ref":
        t = D.types[d[1]]
        if t["kind"] == "enum":
            return v
        if t["name"] == "ProofOfSpace":
            return to_json(D, ("PoS",), v)
        if t["shape"] == "tuple":
            return to_json(D, t["ftypes"][0][1], v[0])
        up = (lambda s: s.upper()) if t["upper"] else (lambda s: s)
        return {up(n): to_json(D, fd, x) for (n, fd), x in zip(t["ftypes"], v)}
    raise ValueError(d)


def kind_of(D, d):
    if d[0] == "Ref":
        t = D.types[d[1]]
        if t["kind"] == "enum":
            return "Enum"
        if t["name"] == "ProofOfSpace":
            return "Struct"
        return "TupleStruct" if t["shape"] == "tuple" else "Struct"
    return d[0]


def sites(D, d, j, path=()):
    """yield (path, descriptor, json node) for every node of the JSON form"""
    yield path, d, j
    k = d[0]
    if k == "Opt" and j is not None:
        yield from sites(D, d[1], j, path)       # same node, payload view
    elif k == "Vec" and isinstance(j, list):
        for i, x in enumerate(j[:3]):
            yield from sites(D, d[1], x, path + (i,))
    elif k == "Arr" and isinstance(j, list):
        for i, x in enumerate(j[:3]):
            yield from sites(D, d[2], x, path + (i,))
    elif k == "Tup" and isinstance(j, list):
        for i, (x, y) in enumerate(zip(d[1], j)):
            yield from sites(D, x, y, path + (i,))
    elif k == "PoS" and isinstance(j, dict):
        for n, fd in W.POS_FIELDS:
            yield from sites(D, fd, j[n], path + (n,))
    elif k == "Ref":
        t = D.types[d[1]]
        if t["kind"] == "enum":
            return
        if t["name"] == "ProofOfSpace":
            for n, fd in W.POS_FIELDS:
                yield from sites(D, fd, j[n], path + (n,))
        elif t["shape"] == "tuple":
            yield from sites(D, t["ftypes"][0][1], j, path)
        elif isinstance(j, dict):
            for n, fd in t["ftypes"]:
                kk = n.upper() if t["upper"] else n
                yield from sites(D, fd, j[kk], path + (kk,))


def replace_at(j, path, fn):
    """copy of j with node at path replaced by fn(node) (fn may return the marker DROP for dict keys)"""
    if not path:
        return fn(j)
    h = path[0]
    if isinstance(j, dict):
        out = dict(j)
        r = replace_at(j[h], path[1:], fn)
        if r is DROP:
            del out[h]
        else:
            out[h] = r
        return out
    out = list(j)
    out[h] = replace_at(j[h], path[1:], fn)
    return out


DROP = object()


def corruptions(D, d, j, rng, cap):
    """[(class, kind, json)] single-point corruptions of the JSON form j of a value of descriptor d"""
    out = []
    for path, sd, node in sites(D, d, j):
        k = kind_of(D, sd)
        if sd[0] == "Opt":
            if node is None:
                continue        # the payload view does not exist
            out.append(("opt->null", k, replace_at(j, path, lambda x: None)))
            continue
        def add(cls, fn):
            out.append((cls, k, replace_at(j, path, fn)))
        if k in ("BytesN", "G1", "G2", "Sk", "Bytes", "Prog") and isinstance(node, S):
            b = node.b
            fixed = k in ("BytesN", "G1", "G2", "Sk")
            if len(b) >= 4:
                h = b[2:]
                add("len-1" if fixed else "var-len-1", lambda x: S(x.b[:-2]))
                add("odd", lambda x: S(x.b[:-1]))
                add("badhex", lambda x: S(x.b[:-1] + b"g"))                 # non-hex character, last position
                add("badhex", lambda x: S(x.b[:2] + b"x" + x.b[3:]))         # non-hex character, first position
                add("badhex-mid", lambda x: S(x.b[:3] + b"z" + x.b[4:]))
                add("no0x", lambda x: S(x.b[2:]))                            # missing prefix
                add("upper", lambda x: S(b"0x" + x.b[2:].upper()))           # upper-case digits
                # prefix / format variants (all are "invalid hex" unless the parser strips more than one prefix)
                add("dup-prefix", lambda x: S(b"0x" + x.b))                  # 0x0x...
                add("dup-prefix", lambda x: S(b"0x0x" + x.b))                # 0x0x0x...
                add("upper-prefix", lambda x: S(b"0X" + x.b[2:]))            # 0X...
                add("prefix-inside", lambda x: S(x.b[:4] + b"0x" + x.b[4:]))
                add("prefix-at-end", lambda x: S(x.b + b"0x"))
                add("space-inside", lambda x: S(x.b[:4] + b" " + x.b[4:]))
                add("space-before", lambda x: S(b" " + x.b))
                add("space-after", lambda x: S(x.b + b" "))
                add("space-after-prefix", lambda x: S(b"0x " + x.b[2:]))
                add("newline-after", lambda x: S(x.b + b"\n"))
                add("underscore", lambda x: S(x.b[:4] + b"_" + x.b[4:]))
                add("minus", lambda x: S(b"-" + x.b))
                add("nul-inside", lambda x: S(x.b[:4] + b"\x00" + x.b[4:]))
                add("non-ascii-digit", lambda x: S(x.b[:2] + "\uff11".encode() + x.b[3:]))   # fullwidth digit one
            add("prefix-only", lambda x: S(b"0x"))
            add("dup-prefix-only", lambda x: S(b"0x0x"))
            add("empty-str", lambda x: S(b""))
            add("len+1" if fixed else "var-len+1", lambda x: S((x.b or b"0x") + b"00"))
            add("int-for-str", lambda x: 5)
            add("null", lambda x: None)
            add("list-of-ints", lambda x: [int(c) for c in bytes.fromhex(x.b[2:].decode())] if len(x.b) >= 2 else [])
        elif k in ("U", "I"):
            bits = 8 * sd[1]
            lo, hi = (0, (1 << bits) - 1) if k == "U" else (-(1 << (bits - 1)), (1 << (bits - 1)) - 1)
            add("oor-high", lambda x: hi + 1)
            add("oor-low", lambda x: lo - 1)
            add("oor-high", lambda x: 1 << (bits + 64))
            add("in-range-edge", lambda x: hi)
            add("in-range-edge", lambda x: lo)
            add("str-for-int", lambda x: S(b"5"))
            add("bool-for-int", lambda x: True)
            add("null", lambda x: None)
            add("list-for-int", lambda x: [1])
        elif k == "Bool":
            add("int-for-bool", lambda x: 1)
            add("null", lambda x: None)
            add("str-for-bool", lambda x: S(b"true"))
        elif k == "Str":
            add("int-for-str", lambda x: 7)
            add("null", lambda x: None)
            add("other-str", lambda x: S("é€".encode()))
        elif k == "Enum":
            t = D.types[sd[1]]
            listed = [x for _, x in t["variants"]]
            un = [x for x in (0, 1, 2, 200, 255) if x not in listed][:2]
            for u in un:
                add("enum-unlisted", lambda x, u=u: u)
            add("oor-high", lambda x: 256)
            add("oor-low", lambda x: -1)
            add("str-for-int", lambda x: S(b"1"))
        elif k in ("Vec",):
            add("str-for-list", lambda x: S(b""))
            add("str-for-list", lambda x: S(b"ab"))
            add("dict-for-list", lambda x: {})
            add("dict-for-list", lambda x: {"a": 1})
            add("null", lambda x: None)
            add("int-for-list", lambda x: 3)
            if isinstance(node, list) and node:
                add("elem-dup", lambda x: list(x) + [x[-1]])
        elif k in ("Tup", "Arr"):
            if isinstance(node, list) and node:
                add("count-1", lambda x: list(x)[:-1])
                add("count+1", lambda x: list(x) + [x[-1]])
            add("null", lambda x: None)
            add("dict-for-list", lambda x: {})
        elif k == "Struct" and isinstance(node, dict):
            for key in list(node.keys()):
                out.append(("missing", k, replace_at(j, path + (key,), lambda x: DROP)))
            add("extra-key", lambda x: dict(list(x.items()) + [("zzz_extra", 1)]))
            add("null", lambda x: None)
            add("list-for-dict", lambda x: list(x.values()))
            add("str-for-dict", lambda x: S(b"abc"))
    if len(out) > cap:
        rng.shuffle(out)
        must = [x for x in out[cap:] if x[0] in MUST_REJECT][:cap // 3]
        out = out[:cap] + must
    return out


def build_vhj(rep):
    rc, out, dt = C.sh(["cargo", "build", "--release", "--offline", "--features", "hooks,py", "--bin", "vh_wirejson"],
                       timeout=2400, cwd=C.VERIF + "/harness", env=dict(C.ENV, CARGO_TARGET_DIR=TARGET_PY))
    rep.extra["vh_wirejson_build_s"] = round(dt, 1)
    if rc != 0:
        rep.add_broken("harness-build", "vh_wirejson", out[-3000:])
        return False
    return True


def run(ctx):
    rep, tier = ctx["rep"], ctx["tier"]
    rng = C.SplitMix64(ctx["seed"])
    have_model = ctx["have_model"]
    if not build_vhj(rep):
        return
    D = W.Descs()
    rep.extra["types_from_snapshot"] = D.broken is not None
    cache = W.OracleCache()
    jt = C.run_lines(VHJ, ["wire.jsontypes"], shards=1)[0].split(",")
    if jt != D.json_types:
        rep.add_broken("type-table", "wire.jsontypes", "harness and translator disagree on the JSON-capable types: %r" % sorted(set(jt) ^ set(D.json_types))[:10])
    if have_model:
        ok = dict(x.split(":") for x in C.run_lines(C.VRUN(UNIT), ["wire.jsonok"], shards=1)[0].split(","))
        bad = [n for n in D.json_types if ok.get(n) != "1"]
        for n in bad:
            rep.add_broken("side-condition", "json_ok " + n, "the JSON round-trip theorem's side condition (no directly nested Option, "
                           "2/3-tuples only, distinct keys) is false for this type: its JSON form is ambiguous")
        rep.extra["json_ok_types"] = len(D.json_types) - len(bad)
    if ctx.get("replay"):
        f = json.load(open(ctx["replay"]))
        line = f["failing_input"]["case"]
        return replay(ctx, rep, cache, line)

    P = W.Pools()
    G = W.Gen(D, P, rng.fork("gen"))
    per_type = 3 if tier == "quick" else 40
    cap = 28 if tier == "quick" else 400
    vals = []
    for n in D.json_types:
        d = D.top[n]
        for i in range(per_type):
            v = G.value(d)
            vals.append((n, d, v))
    # values only JSON (or `new`) can build: inconsistent ProofOfSpace / generator tails
    g1 = P.g1[1] if len(P.g1) > 1 else W.INF1
    for v in ([b"\x11" * 32, ("some", g1), ("some", b"\x22" * 32), g1, 1, 9, 3, 2, 5, b"\x01"],
              [b"\x11" * 32, None, None, g1, 0, 7, 1, 1, 32, b""],
              [b"\x11" * 32, None, None, g1, 77, 0, 0, 0, 0, b"\xff"]):
        vals.append(("ProofOfSpace", D.top["ProofOfSpace"], v))

    # ---------------- json.rt
    lines = ["wire.tojson %s %s" % (n, W.vtext(v)) for n, d, v in vals]
    impl = C.run_lines(VHJ, lines)
    model = C.run_lines(C.VRUN(UNIT), lines) if have_model else impl

    def key_rt(c, i):
        return (c.split(" ")[1], "tojson", i[:1])
    diff_stream(rep, "json.to", lines, impl, model, key_rt)
    for (n, d, v), l, i in zip(vals, lines, impl):
        want = jtext(to_json(D, d, v))
        if i != want:
            rep.add_failure("json.to/reference", l, i[:1500], want[:1500], "to_json_dict differs from the reference rendering")
    # from_json of the produced JSON
    fj_cases = [(n, i, "roundtrip", "ok") for (n, d, v), i in zip(vals, impl) if not i.startswith(("E", "PANIC", "ERR"))]
    run_fromjson(rep, cache, have_model, "json.from", fj_cases, expect_values=[W.vtext(v) for (n, d, v), i in zip(vals, impl) if not i.startswith(("E", "PANIC", "ERR"))])
    # oracle: the property on the implementation
    ol = ["wire.orcj %s %s" % (n, W.vtext(v)) for n, d, v in vals]
    oo = C.run_lines(VHJ, ol)
    for l, o in zip(ol, oo):
        if o != "OK":
            rep.add_failure("json.rt/oracle", l, o, "OK", "JSON round trip violates the property on the implementation")
    rep.streams.setdefault("json.to", {})["oracle_checked"] = len(ol)

    # ---------------- json.bad
    brng = rng.fork("bad")
    bad = []
    seen = {}
    for n, d, v in vals:
        if seen.get(n, 0) >= (2 if tier == "quick" else 10):
            continue
        seen[n] = seen.get(n, 0) + 1
        j = to_json(D, d, v)
        for cls, kind, cj in corruptions(D, d, j, brng, cap):
            bad.append((n, jtext(cj), cls, kind))
    run_fromjson(rep, cache, have_model, "json.bad", bad)

    # ---------------- json.hex: every prefix / format variant on every hex-carrying leaf kind, bare and inside a class
    hrng = rng.fork("hex")
    Gh = W.Gen(D, P, hrng)
    hexcases, covered = [], set()
    for kind, names in HEX_TYPES.items():
        for n in names:
            if n not in D.top or n not in D.json_types:
                continue
            d = D.top[n]
            for attempt in range(3 if tier == "quick" else 12):
                j = to_json(D, d, Gh.value(d))
                cs = [c for c in corruptions(D, d, j, hrng, 10 ** 9) if c[1] == kind and c[0] in HEX_CLASSES]
                for cls, k, cj in cs:
                    hexcases.append((n, jtext(cj), cls, k))
                    covered.add((kind, cls))
    missing = [(k, c) for k in HEX_TYPES for c in HEX_CLASSES if (k, c) not in covered
               and not (c.startswith("var-") and k not in ("Bytes", "Prog")) and not (c in ("len-1", "len+1") and k in ("Bytes", "Prog"))]
    if missing:
        rep.add_broken("generator", "json.hex", "hex format variants not exercised: %r" % missing[:8])
    # de-duplicate, keep order
    seen, uniq = set(), []
    for c in hexcases:
        if (c[0], c[1]) not in seen:
            seen.add((c[0], c[1]))
            uniq.append(c)
    run_fromjson(rep, cache, have_model, "json.hex", uniq)


def run_fromjson(rep, cache, have_model, stream, cases, expect_values=None):
    """cases: [(type, jsontext, class, kind)]"""
    need = ["wire.need %s j %s" % (n, jt) for n, jt, _, _ in cases]
    tabs = W.with_oracles(cache, need, have_model)
    lines = ["wire.fromjson %s %s %s" % (n, jt, tab) for (n, jt, _, _), tab in zip(cases, tabs)]
    impl = C.run_lines(VHJ, lines)
    model = C.run_lines(C.VRUN(UNIT), lines) if have_model else impl
    meta = {l: c for l, c in zip(lines, cases)}

    def key(c, i):
        m = meta.get(c)
        return (c.split(" ")[1], m[2] if m else "", m[3] if m else "", "reject" if i == "E" else "accept")
    diff_stream(rep, stream, lines, impl, model, key)
    st = rep.streams.setdefault(stream, {})
    hist = {}
    for (n, jt, cls, kind), l, i in zip(cases, lines, impl):
        a = "reject" if i == "E" else ("accept" if not i.startswith(("PANIC", "ERR", "CRASH", "TIMEOUT")) else i.split(" ")[0])
        hist.setdefault(cls, {}).setdefault(a, 0)
        hist[cls][a] += 1
        if a not in ("accept", "reject"):
            rep.add_failure(stream + "/oracle", l, i, "E or a value", "from_json_dict panicked or the bridge failed")
        elif cls in MUST_REJECT and a != "reject":
            rep.add_failure(stream + "/oracle", l, i[:800], "E", "malformed JSON (%s in a %s) accepted instead of rejected" % (cls, kind))
    if expect_values:
        for (n, jt, cls, kind), l, i, want in zip(cases, lines, impl, expect_values):
            if i != want:
                rep.add_failure(stream + "/reference", l, i[:1500], want[:1500], "from_json_dict(to_json_dict(v)) != v")
    st["classes"] = hist


def replay(ctx, rep, cache, line):
    toks = line.split(" ")
    f = json.load(open(ctx["replay"]))["failing_input"]
    if f.get("stream", "").endswith("/oracle") and toks[0] == "wire.fromjson":
        # a malformed-JSON class that must be rejected: re-evaluate on the implementation alone
        o = C.run_lines(VHJ, [" ".join(toks[:3] + ["-"])], shards=1)[0]
        if o != "E":
            rep.add_failure("replay/oracle", line, o[:800], "E", f.get("why", "malformed JSON accepted"))
        return
    if toks[0] == "wire.fromjson":
        tab = W.with_oracles(cache, ["wire.need %s j %s" % (toks[1], toks[2])], ctx["have_model"])[0]
        line = " ".join(toks[:3] + [tab])
    impl = C.run_lines(VHJ, [line], shards=1)
    if toks[0] == "wire.orcj":
        if impl[0] != "OK":
            rep.add_failure("replay/oracle", line, impl[0], "OK", "JSON round trip violates the property on the implementation")
        return
    model = C.run_lines(C.VRUN(UNIT), [line], shards=1) if ctx["have_model"] else impl
    diff_stream(rep, "replay", [line], impl, model)
