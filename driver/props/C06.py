"""C06 — strict modes only restrict, and ordering never changes the verdict."""
import os, sys, json
sys.path.insert(0, os.path.dirname(os.path.dirname(os.path.abspath(__file__))))
import common as C
import condlib, condgen
from condlib import UNIT
from run import diff_stream

GEN = ["opcodes"]
RULE = ("for every generated bundle: (1) if accepted with strictness flags S (subset of NO_UNKNOWN_CONDS, STRICT_ARGS_COUNT, "
        "LIMIT_SPENDS) it is re-run with every subset of S cleared and must be accepted with the identical summary; (2) spends "
        "and the conditions inside each spend are permuted (all permutations up to 3 elements, seeded random otherwise) and "
        "verdict, cost and every aggregate must be unchanged (listing order and the positional fast-forward flag excepted). "
        "Both on the implementation (oracle) and against the model. non-trivial = distinct (opcode, shape, flags, visitor, verdict)")
ASSUMPTIONS = ["signatures are not checked in this stream (DONT_VALIDATE_SIGNATURE)"]
TRUSTED = []
STRICT = [0x20000, 0x80000, 0x2000000]


def canon_summary(line):
    """order-insensitive view of an accepted result: spends sorted by coin id, signature lists sorted, FF bit masked"""
    d = condlib.parse_ok(line)
    if d is None:
        return "ERR" if line.startswith("ERR") else line
    sp = []
    for s in d["spend_list"]:
        s = list(s)
        s[10] = str(int(s[10]) & ~4)
        for i in range(14, 21):
            s[i] = ",".join(sorted(s[i].split(",")))
        sp.append(";".join(s))
    sp.sort()
    uns = ",".join(sorted(d["unsafe"].split(",")))
    return " ".join(["OK"] + ["%s=%s" % (k, d[k]) for k in ("cost", "rf", "ha", "sa", "bha", "bsa", "rem", "add", "cc", "ec")] + [uns] + sp)


def perms(rng, items, limit):
    import itertools
    if len(items) <= 3:
        return [list(p) for p in itertools.permutations(items)][1:limit + 1]
    out = []
    for _ in range(limit):
        p = list(items)
        rng.shuffle(p)
        out.append(p)
    return out


def run(ctx):
    rep, tier = ctx["rep"], ctx["tier"]
    rng = C.SplitMix64(ctx["seed"])
    if ctx.get("replay"):
        f = json.load(open(ctx["replay"]))["failing_input"]
        impl = C.run_lines(C.VH(UNIT), [f["case"]])
        rep.evaluations += 1
        if f.get("model") and canon_summary(impl[0]) != f["model"]:
            rep.add_failure("cond.order", f["case"], impl[0], f["model"], "replayed")
        return
    n = 350 if tier == "quick" else 10000

    def tweak(c, r):
        c["flags"] |= 0x10000
        if r.chance(2, 3):
            c["max_cost"] = 11000000000
        if r.chance(1, 2):
            c["flags"] |= r.choice(STRICT) | r.choice(STRICT)
    g, cases, consts_hex, valid = condlib.make_cases(rng.fork("cases"), n, None, tweak, matrix=True)
    lines = [c["line"] for c in cases]
    impl, model = condlib.run_both(lines, ctx["have_model"])
    condlib.stream_stats(rep, "cond.strict", cases, impl)
    if ctx["have_model"]:
        diff_stream(rep, "cond.strict", lines, impl, model, None, condlib.summary_no_pairs)
    # (1) strict => lenient
    relax = []
    for c, l, o in zip(cases, lines, impl):
        if not o.startswith("OK"):
            continue
        S = [b for b in STRICT if c["flags"] & b]
        for mask in range(1, 1 << len(S)):
            fl = c["flags"]
            for i, b in enumerate(S):
                if mask >> i & 1:
                    fl &= ~b
            relax.append((condlib.replace_arg(l, 1, fl), o, l))
    ro = C.run_lines(C.VH(UNIT), [r[0] for r in relax])
    for (nl, o, l), x in zip(relax, ro):
        if condlib.summary_no_pairs(x) != condlib.summary_no_pairs(o):
            rep.add_failure("cond.strict/oracle", nl, x, condlib.summary_no_pairs(o)[:400],
                            "accepted with strictness flags but not identically accepted without them (strict case: %s)" % l[:120])
    rep.streams["cond.strict"]["relaxed_reruns"] = len(relax)
    rep.evaluations += len(relax)
    # (2) permutations
    pl = []
    for ci, (c, l, o) in enumerate(zip(cases, lines, impl)):
        if not c["std"] or c["scenario"] in ("limits",):
            continue
        r = rng.fork("p%d" % ci)
        spends = c["spends"]
        variants = []
        for p in perms(r, list(range(len(spends))), 2):
            variants.append([spends[i] for i in p])
        for si, s in enumerate(spends):
            if len(s["conds"]) >= 2:
                for p in perms(r, list(range(len(s["conds"]))), 2):
                    s2 = dict(s)
                    s2["conds"] = [s["conds"][i] for i in p]
                    variants.append(spends[:si] + [s2] + spends[si + 1:])
        for v in variants:
            c2 = dict(c)
            c2["tree"] = g.bundle_tree(v)
            pl.append((condgen.case_line(c2, consts_hex, valid), canon_summary(o), l))
    po = C.run_lines(C.VH(UNIT), [p[0] for p in pl])
    pm = C.run_lines(C.VRUN(UNIT), [p[0] for p in pl]) if ctx["have_model"] else None
    for i, ((nl, want, l), x) in enumerate(zip(pl, po)):
        if canon_summary(x) != want:
            rep.add_failure("cond.order/oracle", nl, x, want, "a permutation of spends/conditions changed the verdict, cost or an aggregate (original: %s)" % l[:120])
        if pm is not None and condlib.summary_no_pairs(pm[i]) != condlib.summary_no_pairs(x):
            rep.add_failure("cond.order", nl, x, pm[i], "permuted bundle: implementation and model differ")
    rep.streams["cond.order"] = {"cases": len(pl)}
    rep.evaluations += len(pl)
    rep.traces += len(pl)
