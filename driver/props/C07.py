"""C07 — both block-generator execution paths agree.

Model: coq/Chain/{Backref,Intern,Rom,Generator}.v over the Cond mirror, executed by the extracted runner with the
CLVM oracle instantiated by the table of real evaluations recorded per case; implementation: run_block_generator
(legacy, generator ROM inside CLVM) and run_block_generator2 (native) through harness vh_gen.

Streams
  gen.both     legacy result, native result and the ROM reading (real ROM output tree = Rom.v's, ROM cost >= sum of
               the delegated evaluations), model against implementation
  gen.limits   the same cases again with cost limits at both totals -1/0/+1 and at the byte cost
  gen.plain    back-reference deserialization (Backref.v) against clvmr on every program of the stream
  gen.vbytes   interned_vbytes (Intern.v) against clvmr intern_tree + generator_cost.rs
  gen.romconst the deserializer constant inside the ROM is the one the native path passes
  gen.oracle07 the property on the implementation alone: accept/reject alike, equal summaries, native never costs more,
               only asymmetry = legacy exhausting cost / interpreter limits
  gen.oracle07sig  the same with signature validation ENABLED: identity signature, a non-identity G2 point, and the
               correct aggregate of the block's AGG_SIG pairs (harness keys); both paths must agree each time
"""
import os, sys, json
sys.path.insert(0, os.path.dirname(os.path.dirname(os.path.abspath(__file__))))
import common as C
import genlib as G
from genlib import UNIT, F
from run import diff_stream

GEN = ["opcodes", "ladders", "chainconsts"]
RULE = ("generators = quoted spend lists from the cond grammar (15 scenarios; quote puzzles and a pool of 4 procedural "
        "puzzles) x 18 output-shape mutations (short/improper/atom spend tuples, non-nil terminators, spend- and block-level "
        "extras, unwrapped/nested lists, late malformed spend, id/amount encodings, failing puzzles) x procedural wrappers "
        "(apply, cons, block-reference deserializer, reference used as parent id) x malformed bytes (truncation, bad and "
        "valid back-references, non-canonical prefixes, bit flips) x 10 non-canonical first-byte forms of the quote (over-long length prefixes 1..6, back-reference, nested, two-byte, nil), each with and without SIMPLE_GENERATOR x back-reference re-serialisation x reference lists x "
        "flag sets (condition flags, SIMPLE/INTERNED generator, mempool mode, CLVM dialect bits) x cost limits (block "
        "limit, byte-cost boundary, both totals -1/0/+1) + /repo/generator-tests. "
        "non-trivial/distinct = distinct (source kind, mutation tag, flag class, legacy verdict, native verdict, ROM class)")
ASSUMPTIONS = ["CLVM evaluation is an oracle: every (program, environment) -> (cost, result) pair the model uses is "
               "recorded from the real interpreter for the case; no CLVM interpreter is formalised",
               "the generator ROM is modelled from its Chialisp source (Chain/Rom.v) and tied by execution: real ROM "
               "output tree = the reading's, real ROM cost >= the sum of the delegated evaluations",
               "public-key validity is an oracle table from the implementation; signature verdict: the stream uses the "
               "default signature, modelled as 'verifies exactly the empty pair list'",
               "clvmr back-reference deserializer and intern_tree are modelled dependencies (Chain/Backref.v, Intern.v), "
               "tied by the gen.plain / gen.vbytes streams"]
TRUSTED = ["hand-written mirrors coq/Chain/Generator.v, Rom.v tied to run_block_generator.rs / the ROM by this stream",
           "harness re-performs the interpreter calls of a case to record the oracle table (clvmr run_program is not hookable)"]

PENDING = {"F-C07-2": "interned-storage-cost"}
HEAVY_TIMEOUT = 600         # seconds per corpus block run alone through the implementation-level oracle (else: unchecked)


def listed_ids():
    return {k["id"] for k in C.load_known() if k.get("property") == "C07" and k.get("status") == "known"}


def classify_known(f, known):
    """the one known witness class: F-C07-2 = INTERNED_GENERATOR set, and the native total exceeds the legacy total
    (or, at a limit in between, native fails on cost where legacy accepts) because only the native path charges the
    interned storage cost.  Anything else is reported.  (F-C07-1, SIMPLE_GENERATOR with block references, was fixed in
    /repo by e4597dd2 and is checked strictly.)"""
    ids = {k["id"] for k in known}
    if f["stream"] != "gen.oracle07":
        return None
    t = f["case"].split(" ")
    flags = int(t[1])
    out = f["impl"]
    if "F-C07-2" in ids and flags & F["INTERNED_GENERATOR"] and \
            (out.startswith("FAIL native-costs-more") or out == "FAIL legacy-accepts-native-rejects(CostExceeded)"):
        return "F-C07-2"
    return None


def flag_class(fl):
    return (bool(fl & F["SIMPLE_GENERATOR"]), bool(fl & F["INTERNED_GENERATOR"]), bool(fl & F["COST_CONDITIONS"]),
            bool(fl & F["NO_UNKNOWN_CONDS"]), bool(fl & F["STRICT_ARGS_COUNT"]), bool(fl & F["LIMIT_SPENDS"]),
            bool(fl & G.CLVM_MASK), bool(fl & F["DONT_VALIDATE_SIGNATURE"]))


def run_both(rep, name, cases, env, have_model):
    G.tables(cases)
    cases[:] = G.with_table(rep, name, cases)
    lines = [G.both_line(c, env.consts_hex) for c in cases]
    impl = G.vh(lines)
    model = G.vrun(lines) if have_model else [None] * len(lines)
    base = [G.base_line(c) for c in cases]
    st = rep.streams.setdefault(name, {"cases": 0, "disagreements": 0})
    from collections import Counter
    kinds = Counter()
    for c, b, i, m in zip(cases, base, impl, model):
        f = G.split3(i)
        c["impl"] = f
        if G.unchecked(rep, name, b, i, m if have_model else None):
            continue
        if len(f) != 3:
            rep.add_failure(name, b, i, m, "implementation side did not answer (panic / crash)")
            continue
        lv = "OK" if f[0].startswith("OK") else f[0]
        nv = "OK" if f[1].startswith("OK") else f[1]
        kinds[(lv, nv, f[2])] += 1
        tagkey = tuple(t for t in c["tags"] if t[0] in ("shape", "proc", "bytes", "file", "limit", "backref", "simple-refs"))
        rep.nontrivial.add((name, c["kind"], tagkey, flag_class(c["flags"]), lv.split(" ")[-1], nv.split(" ")[-1], f[2]))
        if have_model:
            rep.evaluations += 1
            rep.traces += 1
            st["cases"] += 1
            if G.verdict_line(i) != G.verdict_line(m):
                st["disagreements"] += 1
                rep.add_failure(name, b, i, m, "legacy/native/ROM result of the implementation differs from the mirrors "
                                               "(accept/reject, summary or ROM output tree)")
    st["verdicts"] = {"%s | %s | %s" % k: v for k, v in kinds.most_common(40)}
    st["line_bytes_max"] = max([len(l) for l in lines] + [st.get("line_bytes_max", 0)])
    st["error_code_agreement"] = st.get("error_code_agreement", 0) + sum(1 for i, m in zip(impl, model) if i == m)
    if cases and len(rep.samples) < 8:
        rep.samples.append({"stream": name, "case": base[0][:300], "impl": impl[0][:400], "model": (model[0] or "")[:400]})
    return impl, model


def oracle(rep, cases, listed):
    lines = []
    for c in cases:
        strict = True
        if c["flags"] & F["INTERNED_GENERATOR"] and "F-C07-2" not in listed:
            strict = False
        lines.append("gen.oracle07 %d %d %s %s%s" % (c["flags"], c["max_cost"], G.hexo(c["program"]), G.refs_tok(c["refs"]),
                                                     "" if strict else " lenient"))
    hv = [k for k, c in enumerate(cases) if c.get("heavy")]
    lt = [k for k, c in enumerate(cases) if not c.get("heavy")]
    outs = [None] * len(lines)
    for k, o in zip(lt, G.vh([lines[k] for k in lt])):
        outs[k] = o
    for k, o in zip(hv, G.vh_heavy([lines[k] for k in hv], HEAVY_TIMEOUT)):
        outs[k] = o
    from collections import Counter
    cl = Counter()
    for l, o in zip(lines, outs):
        if G.unchecked(rep, "gen.oracle07", l, o):
            continue
        cl[o.split(" legacy=")[0]] += 1
        if not o.startswith("OK"):
            rep.add_failure("gen.oracle07", l, o, "OK", "the two real generator paths disagree on this input (property C07 on the implementation)")
    st = rep.streams.setdefault("gen.oracle07", {"cases": 0, "classes": {}})
    st["cases"] += len(lines)
    for k, v in cl.items():
        st["classes"][k] = st["classes"].get(k, 0) + v
    rep.evaluations += len(lines)


def oracle_sig(rep, cases):
    """signature validation ENABLED (the other streams run with the default signature, mostly under
    DONT_VALIDATE_SIGNATURE): every case the native path accepts is re-run on both paths with the identity signature, a
    fixed non-identity G2 point and, when the block has AGG_SIG pairs under harness keys, the correct aggregate"""
    pick = [c for c in cases if len(c.get("impl") or []) == 3 and c["impl"][1].startswith("OK") and len(c["program"]) < 20000]
    lines = ["gen.oracle07sig %d %d %s %s" % (c["flags"], c["max_cost"], G.hexo(c["program"]), G.refs_tok(c["refs"])) for c in pick]
    outs = G.vh(lines)
    from collections import Counter
    cl = Counter()
    for l, o in zip(lines, outs):
        if G.unchecked(rep, "gen.oracle07sig", l, o):
            continue
        cl[" ".join(t for t in o.split(" ## ")[-1].split(" ") if not t.startswith("pairs=") or t == "pairs=0")[:120]] += 1
        if not o.startswith("OK"):
            rep.add_failure("gen.oracle07sig", l, o, "OK", "with signature validation enabled the two real generator paths disagree "
                                                           "(or the native path accepts a wrong / rejects a correct aggregate signature)")
    rep.streams["gen.oracle07sig"] = {"cases": len(lines), "classes": dict(cl.most_common(12))}
    rep.evaluations += len(lines)


def run(ctx):
    rep, tier = ctx["rep"], ctx["tier"]
    rng = C.SplitMix64(ctx["seed"])
    listed = listed_ids()
    env = G.Env(rng.fork("env"))
    if ctx.get("replay"):
        f = json.load(open(ctx["replay"]))
        fi = f["failing_input"]
        line = fi["case"]
        if fi["stream"] in ("gen.oracle07", "gen.oracle07sig"):
            o = G.vh([line])[0]
            if not o.startswith("OK"):
                rep.add_failure(fi["stream"], line, o, "OK", "replayed: the two real generator paths disagree")
        elif line.startswith("gen.case"):
            run_both(rep, fi["stream"], [G.parse_case_line(line)], env, ctx["have_model"])
        else:
            i, m = G.vh([line])[0], (G.vrun([line])[0] if ctx["have_model"] else None)
            if i != m:
                rep.add_failure(fi["stream"], line, i, m, "replayed disagreement")
        rep.evaluations += 1
        return

    # thorough tier: sized to finish in < 20 min on an unloaded 16-core machine (about 6x the quick tier's lines)
    thorough = tier != "quick"
    if thorough:
        G.LINE_TIMEOUT = 1800
    n = int(os.environ.get("VERIF_GEN_N", "0")) or (120 if tier == "quick" else 600)
    cases = []
    for k in range(n):
        cases.append(env.case(want_valid=(k % 2 == 0)))
    # every output-shape mutation, at every run
    for k in range(env.N_SHAPES):
        for _ in range(2 if tier == "quick" else 8):
            cases.append(env.shape_case(k))
    # SIMPLE_GENERATOR with block references (rejected by both paths since fix e4597dd2), on otherwise valid generators
    for _ in range(6 if tier == "quick" else 30):
        c = env.case(want_valid=True)
        c["flags"] |= F["SIMPLE_GENERATOR"]
        c["refs"] = [rng.bytes(rng.below(40))] + ([rng.bytes(3)] if rng.chance(1, 3) else [])
        c["tags"] = c["tags"] + [("simple-refs", str(len(c["refs"])))]
        cases.append(c)
    # non-canonical first bytes (every variant, at every run, with and without SIMPLE_GENERATOR): the byte-level
    # check_generator_quote must reject on BOTH paths what only the node-level check would accept
    cases.extend(env.head_cases(per_head=2 if tier == "quick" else 5))
    # corpus
    impl_only = []
    for name, prog, refs, big in G.file_cases(tier, env):
        # model side: only the corpus files measured small AND cheap (G.QUICK_FILES; five flag sets in the thorough tier);
        # every other file goes through the implementation-level oracle alone, one process per line with a time limit
        cheap = name in G.QUICK_FILES and not big
        if tier == "quick" or not cheap:
            fls = [F["DONT_VALIDATE_SIGNATURE"]] + ([env.mempool_mode | F["DONT_VALIDATE_SIGNATURE"]] if tier == "quick" or len(prog) <= 100000 else [])
        else:
            fls = [F["DONT_VALIDATE_SIGNATURE"], env.mempool_mode | F["DONT_VALIDATE_SIGNATURE"],
                   F["DONT_VALIDATE_SIGNATURE"] | F["COST_CONDITIONS"], F["DONT_VALIDATE_SIGNATURE"] | F["SIMPLE_GENERATOR"],
                   F["DONT_VALIDATE_SIGNATURE"] | F["INTERNED_GENERATOR"] | F["COST_CONDITIONS"]]
        for fl in fls:
            if name in ("aa-million-messages", "aa-million-message-spends"):
                fl |= F["COST_CONDITIONS"]
            (cases if cheap else impl_only).append({"program": prog, "refs": refs, "flags": fl, "max_cost": G.BLOCK, "kind": "file",
                                                    "tags": [("file", name)], "heavy": not cheap})
    # the spend-count limit: 6001 minimal spends (quoted), with and without LIMIT_SPENDS
    if tier != "quick":
        sp = [(i.to_bytes(32, "big"), (b"", (b"", (b"", b"")))) for i in range(6001)]
        from clvm import ser, to_list
        prog = ser((b"\x01", (to_list(sp), b"")))
        for fl in (F["DONT_VALIDATE_SIGNATURE"] | F["LIMIT_SPENDS"], F["DONT_VALIDATE_SIGNATURE"]):
            # implementation-level oracle only: through the model one such line (1.4 MB with its oracle table) costs many
            # minutes and was the straggler of the thorough tier
            impl_only.append({"program": prog, "refs": [], "flags": fl, "max_cost": G.BLOCK, "kind": "limit-spends", "tags": [("limit", "6001")],
                              "heavy": True})
    # back-reference re-serialisations of a share of the programs
    pick = [c for c in cases if rng.chance(1, 4)]
    outs = G.vh(["gen.backrefs %s" % G.hexo(c["program"]) for c in pick])
    for c, o in zip(pick, outs):
        if o and all(ch in "0123456789abcdef" for ch in o) and bytes.fromhex(o) != c["program"]:
            d = dict(c)
            d["program"] = bytes.fromhex(o)
            d["kind"] = c["kind"] + "+backref"
            d["tags"] = c["tags"] + [("backref", "compressed")]
            cases.append(d)
    # while F-C07-2 is not listed in KNOWN_FINDINGS.jsonl its class runs the oracle in lenient mode (see notes/gen.md)
    impl, model = run_both(rep, "gen.both", cases, env, ctx["have_model"])

    # cost limits around both totals
    lim = []
    for c in cases:
        f = c.get("impl") or []
        if len(f) != 3:
            continue
        d1, d2 = G.parse_ok(f[0]), G.parse_ok(f[1])
        if not (d1 or d2) or c["max_cost"] not in (G.BLOCK, G.SMALL_LIMIT):
            continue
        if not rng.chance(1, 3 if tier == "quick" else 2):
            continue
        if c["kind"].startswith("file") and not any(t[0] == "file" and t[1] in G.QUICK_FILES for t in c["tags"]):
            continue            # expensive corpus programs are not re-run at a dozen cost limits
        pts = set()
        for d in (d1, d2):
            if d:
                t = int(d["cost"])
                pts.update([t - 1, t, t + 1])
                pts.add(t - int(d["cc"]))            # just enough for storage + execution, none for conditions
        bc = 12000 * len(c["program"])
        pts.update([bc - 1, bc, bc + 20])
        pts = sorted(p for p in pts if p >= 0)
        rng.shuffle(pts)
        pts = pts[:3] if tier == "quick" else pts[:4]
        for p in pts:
            d = dict(c)
            d["max_cost"] = p
            d["tags"] = c["tags"] + [("limit", "at-total")]
            d.pop("impl", None)
            lim.append(d)
    if tier != "quick" and len(lim) > 1000:
        rng.shuffle(lim)
        lim = lim[:1000]
    if lim:
        run_both(rep, "gen.limits", lim, env, ctx["have_model"])
    oracle(rep, cases + lim + impl_only, listed)
    oracle_sig(rep, cases)
    rep.streams["gen.oracle07"]["implementation_only_files"] = sorted({t[1] for c in impl_only for t in c["tags"]})

    # dependencies: back-reference reader and interning
    progs = list(dict.fromkeys(G.hexo(c["program"]) for c in cases if len(c["program"]) < (20000 if tier == "quick" else 10 ** 7)))
    for op, key in (("gen.plain", lambda c, i: (i == "ERR", len(c) // 200)), ("gen.vbytes", lambda c, i: (i == "ERR",))):
        ls = ["%s %s" % (op, p) for p in progs]
        i = G.vh(ls)
        if ctx["have_model"]:
            m = G.vrun(ls)
            keep = [k for k in range(len(ls)) if not G.unchecked(rep, op, ls[k], i[k], m[k])]
            diff_stream(rep, op, [ls[k] for k in keep], [i[k] for k in keep], [m[k] for k in keep], key)
    ls = ["gen.romconst"]
    i = G.vh(ls, shards=1)
    if ctx["have_model"]:
        m = G.vrun(ls, shards=1)
        diff_stream(rep, "gen.romconst", ls, i, m)
    if not i[0].startswith("1 "):
        rep.add_failure("gen.romconst", ls[0], i[0][:40], "1 ...", "the deserializer inside the ROM differs from CHIALISP_DESERIALISATION")

    # fixed regression inputs (strict oracle): the former witness of F-C07-1 (fixed by e4597dd2) must pass;
    # the witness of the known class F-C07-2 is a failure that classify_known recognises only if the id is listed
    from clvm import ser, to_list, canon
    spend = to_list([b"\x11" * 32, (b"\x01", b""), canon(10), b""])
    g = ser((b"\x01", (to_list([spend]), b"")))
    line = "gen.oracle07 %d %d %s 00" % (F["SIMPLE_GENERATOR"] | F["DONT_VALIDATE_SIGNATURE"], G.BLOCK, g.hex())
    o = G.vh([line], shards=1)[0]
    rep.streams["regression_simple_generator_with_refs"] = {"case": line, "implementation": o}
    if not o.startswith("OK"):
        rep.add_failure("gen.oracle07", line, o, "OK both-reject", "SIMPLE_GENERATOR with block references: the two paths disagree "
                                                                   "(defect F-C07-1, fixed by e4597dd2, is back)")
    wit = {"F-C07-2": "gen.oracle07 %d %d %s -" % (F["INTERNED_GENERATOR"] | F["DONT_VALIDATE_SIGNATURE"], G.BLOCK, g.hex())}
    pend = {}
    for fid, line in wit.items():
        o = G.vh([line], shards=1)[0]
        pend[fid] = {"class": PENDING[fid], "witness": line, "implementation": o, "listed_in_KNOWN_FINDINGS": fid in listed}
        if fid in listed and not o.startswith("OK"):
            rep.add_failure("gen.oracle07", line, o, "OK", "known divergence class " + PENDING[fid])
    rep.streams["pending_finding_classes"] = pend
    rep.streams["gen.both"]["kinds"] = {}
    from collections import Counter
    rep.streams["gen.both"]["kinds"] = dict(Counter(c["kind"] for c in cases))
