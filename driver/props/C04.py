"""C04 — cost charged equals the consensus cost table and the limit is exact (condition / spend cost part;
byte cost and CLVM execution cost are added by the generator and bundle units)."""
import os, sys, json
sys.path.insert(0, os.path.dirname(os.path.dirname(os.path.abspath(__file__))))
import common as C
import condlib
from condlib import UNIT
from run import diff_stream

GEN = ["opcodes"]
RULE = ("every bundle the implementation accepts with an ample limit is re-run with limit = reported cost (must accept with "
        "the identical summary) and limit = cost-1 (must fail with CostExceeded), in both COST_CONDITIONS modes; an independent "
        "Python cost table (consensus literals) recomputes the expected cost from the condition list; exhaustive: all 65536 "
        "unknown-condition costs. non-trivial = distinct (opcode, shape, flags, visitor, verdict) tuples")
ASSUMPTIONS = ["CLVM execution cost is outside parse_spends (clvm_cost is an input here)"]
TRUSTED = ["Python cost-table oracle in driver/props/C04.py (consensus literals)"]

TABLE = None


def table():
    global TABLE
    if TABLE is None:
        import re
        src = open(C.COQ + "/Cond/Spec.v").read()
        m = re.search(r"Definition two_byte_costs : list N :=\s*\[(.*?)\]\.", src, re.S)
        TABLE = [int(x) for x in m.group(1).replace("\n", " ").split(";")]
        assert len(TABLE) == 256
    return TABLE


MSG8 = {60, 61, 62, 63, 64, 65, 66, 67}
AGG = {43, 44, 45, 46, 47, 48, 49, 50}
KNOWN = {1, 43, 44, 45, 46, 47, 48, 49, 50, 51, 52, 60, 61, 62, 63, 64, 65, 66, 67, 70, 71, 72, 73, 74, 75, 76,
         80, 81, 82, 83, 84, 85, 86, 87, 90}


def expected_cost(case):
    """consensus cost of the conditions of an ACCEPTED standard bundle (all conditions were processed)"""
    cc = bool(case["flags"] & 0x800000)
    total = 0
    per_spend = []
    for s in case["spends"]:
        c = 450000 if cc else 0
        for cond in s["conds"]:
            if not isinstance(cond, tuple):
                return None
            op = cond[0]
            if isinstance(op, tuple):
                c += 200 if cc else 0
                continue
            if len(op) == 1 and op[0] in KNOWN:
                o = op[0]
                if o in AGG:
                    c += 1200000
                elif o == 51:
                    c += 1350000 if cc else 1800000
                elif o in MSG8:
                    c += 700 if cc else 0
                else:
                    c += 200 if cc else 0
                    if o == 90:
                        args = cond[1]
                        if not isinstance(args, tuple) or isinstance(args[0], tuple):
                            return None
                        c += int.from_bytes(args[0], "big") * 10000
            elif len(op) == 2 and op[0] != 0:
                c += (200 if cc else 0) + table()[op[1]]
            else:
                c += 200 if cc else 0
        per_spend.append(c)
        total += c
    return total, per_spend


def run(ctx):
    rep, tier = ctx["rep"], ctx["tier"]
    rng = C.SplitMix64(ctx["seed"])
    if ctx.get("replay"):
        line = json.load(open(ctx["replay"]))["failing_input"]["case"]
        impl, model = condlib.run_both([line], ctx["have_model"])
        if model[0] is not None and condlib.summary_no_pairs(impl[0]) != condlib.summary_no_pairs(model[0]):
            rep.add_failure("cond.cost", line, impl[0], model[0], "replayed disagreement")
        rep.evaluations += 1
        return
    n = 900 if tier == "quick" else 20000

    def tweak(c, r):
        c["flags"] |= 0x10000
        c["max_cost"] = 11000000000
    g, cases, consts_hex, valid = condlib.make_cases(rng.fork("cases"), n, None, tweak, matrix=True)
    lines = [c["line"] for c in cases]
    impl = C.run_lines(C.VH(UNIT), lines)
    condlib.stream_stats(rep, "cond.cost", cases, impl)
    second = []
    for c, l, o in zip(cases, lines, impl):
        d = condlib.parse_ok(o)
        if d is None:
            continue
        cost = int(d["cost"])
        # sub-totals add up
        if int(d["cc"]) != sum(int(s[12]) for s in d["spend_list"]):
            rep.add_failure("cond.cost/oracle", l, o, None, "bundle condition_cost is not the sum of the per-spend condition costs")
        if cost != int(d["cc"]):
            rep.add_failure("cond.cost/oracle", l, o, None, "parse_spends cost differs from its condition cost")
        if c["std"]:
            e = expected_cost(c)
            if e is not None:
                tot, per = e
                if tot != cost or per != [int(s[12]) for s in d["spend_list"]]:
                    rep.add_failure("cond.cost/oracle", l, o, "expected cost %d per-spend %s" % (tot, per),
                                    "reported cost differs from the consensus cost table applied to the condition list")
        second.append((l, o, cost, condlib.replace_arg(l, 3, cost), "exact"))
        if cost > 0:
            second.append((l, o, cost, condlib.replace_arg(l, 3, cost - 1), "minus1"))
    l2 = [s[3] for s in second]
    i2, m2 = condlib.run_both(l2, ctx["have_model"])
    n_exact = n_minus = 0
    for (l, o, cost, nl, kind), io in zip(second, i2):
        if kind == "exact":
            n_exact += 1
            if condlib.summary_no_pairs(io) != condlib.summary_no_pairs(o):
                rep.add_failure("cond.cost/oracle", nl, io, condlib.summary_no_pairs(o)[:300],
                                "validation with limit = reported cost does not reproduce the accepted result")
        else:
            n_minus += 1
            if io != "ERR CostExceeded":
                rep.add_failure("cond.cost/oracle", nl, io, "ERR CostExceeded",
                                "validation with limit = cost-1 did not fail with CostExceeded")
    rep.streams["cond.cost"].update({"rerun_at_cost": n_exact, "rerun_at_cost_minus_1": n_minus})
    if ctx["have_model"]:
        m1 = C.run_lines(C.VRUN(UNIT), lines)
        diff_stream(rep, "cond.cost", lines, impl, m1, None, condlib.summary_no_pairs,
                    "cost or verdict differs from the model whose cost accounting is proved")
        diff_stream(rep, "cond.cost.limit", l2, i2, m2, None,
                    lambda o: o if o == "ERR CostExceeded" else condlib.summary_no_pairs(o),
                    "behaviour at the exact cost limit differs from the model")
    else:
        rep.evaluations += len(lines) + len(l2)
    # the generator entry points (run_block_generator, run_block_generator2): exact limit and consistent sub-totals,
    # evaluated on the implementation alone by harness op gen.oracle04 (unit gen's case generator and binary)
    try:
        import genlib as G
        okg, logg, _ = C.step_harness("gen")
        if not okg:
            raise RuntimeError("vh_gen does not build: " + logg[-600:])
        env = G.Env(rng.fork("genenv"))
        gcases = []
        for i in range(150 if tier == "quick" else 1500):
            gcases.append(env.case(want_valid=(i % 3 != 2)))
        for c in gcases:
            if c["max_cost"] > G.BLOCK:
                c["max_cost"] = G.BLOCK
        gl = ["gen.oracle04 %d %d %s %s" % (c["flags"], c["max_cost"], G.hexo(c["program"]), G.refs_tok(c["refs"])) for c in gcases]
        go = G.vh(gl, timeout=1800)
        st = {"cases": len(gl), "legacy_accept": 0, "native_accept": 0, "both_reject": 0}
        for l, o in zip(gl, go):
            rep.evaluations += 1
            if ":FAIL:" in o or o.startswith("PANIC") or o.startswith("ERR"):
                rep.add_failure("gen.oracle04", l, o, None,
                                "a generator entry point reports a cost above its limit, inconsistent sub-totals, or the limit is not exact "
                                "(limit = cost must reproduce the result, limit = cost-1 must fail with a cost error)")
            st["legacy_accept"] += "legacy:ok" in o
            st["native_accept"] += "native:ok" in o
            st["both_reject"] += o == "legacy:reject native:reject"
            if "ok" in o:
                rep.nontrivial.add(("gen.oracle04", o.count(":ok"), l.split(" ")[1]))
        rep.streams["gen.oracle04"] = st
    except Exception as ex:      # the oracle is an addition: a broken generator harness is reported, not hidden
        rep.add_broken("harness", "gen.oracle04", "generator-level cost oracle could not run: %r" % (ex,))
    ul = ["cond.ucost %d" % i for i in range(65536)]
    ui = C.run_lines(C.VH(UNIT), ul)
    tb = table()
    for i, o in enumerate(ui):
        want = 0 if i < 256 else tb[i & 0xFF]
        if o != str(want):
            rep.add_failure("cond.ucost/oracle", ul[i], o, str(want), "unknown-condition cost differs from the consensus table")
            break
    rep.streams["cond.ucost"] = {"cases": 65536, "exhaustive": True}
    rep.evaluations += 65536
