"""C10 — block builders emit exactly the accepted bundles within the cost limit.

Model: coq/Bundle/Builder.v (both builders as init/step/finalize with explicit u64 arithmetic in two modes: wrap-around
= release build, panic = overflow-checks build) executed by the extracted runner; the compressed builder's serializer
sizes are recorded from a shadow clvmr Serializer per history.  Implementation: harness vh_bundle in TWO builds:
release, and cargo profile `ovf` (release + overflow-checks = true).
Streams:
  bundle.hist/r, bundle.hist/d   a history of add_spend_bundles calls then finalize, on the compressed and the interned
                                 builder: per call (added, done, cost()), finally (cost, signature = aggregate of which
                                 bundles, decoded generator)
Oracle (implementation only, op bundle.o10, both builds): the property itself — the finalized generator decodes to exactly
the accepted attempts' spends; the signature is the aggregate of exactly their signatures; returned cost = size cost + 20
+ declared costs, <= the limit, = the cost run_block_generator2 charges when the declared costs are truthful (and the block
is invalid with a budget one below); after every prefix cost() >= the cost of finalizing there; leaving out the rejected /
failed attempts gives byte-identical output; nothing panics.
Histories with a declared cost chosen to make a u64 sum overflow (finding F-C10-1, FIXED in /repo by "fix: block builders
reject a declared cost above the block limit before summing") are part of the default streams: they must satisfy the
property like any other history (the attempt is rejected, nothing changes, no panic in the overflow-checking build).
Known findings, matched by witness class only: F-C10-2 class `initcost` (oracle verdict FAIL-INIT: compressed builder, nothing
serialized yet, cost() short by exactly 5*cost_per_byte), F-C10-3 class `recompress` (verdict FAIL-COMPRESS: same decoded
spends and signature, different bytes/cost after a serialized-then-restored attempt)."""
import os, sys, json
from collections import Counter
sys.path.insert(0, os.path.dirname(os.path.dirname(os.path.abspath(__file__))))
import common as C
import bundlelib as B
from bundlelib import UNIT
from run import diff_stream

GEN = ["builder", "ladders", "opcodes"]
RULE = ("histories of 1-8 add_spend_bundles calls (batches of 0-3 bundles from a pool of individually valid synthetic "
        "bundles, occasionally an unparsable one) on both builders x cost_per_byte in {12000, 1, 7, 10^6} x limits chosen "
        "from the dry-run cost trajectory (exactly on / one below a step, +-1 around the MIN_COST_THRESHOLD test, tiny, roomy) x "
        "declared costs truthful / halved / zero / landing exactly on the limit (+1) / huge (2^50..2^63); both builds "
        "(release, overflow-checks); shuffled histories of the real /repo/test-bundles with their real signatures for the "
        "oracle. non-trivial/distinct = distinct (builder, build, cpb class, limit kind, multiset of declared-cost kinds, "
        "result pattern) tuples")
ASSUMPTIONS = ["clvmr's incremental back-reference Serializer is an oracle: sizes recorded per history from a shadow "
               "Serializer; restore returns to the previous size/content; finishing adds exactly two bytes",
               "node_to_bytes_backrefs / node_from_bytes_backrefs (clvmr) are oracles: generators are compared after decoding",
               "signatures: the model computes in the free commutative monoid over key indices; the harness checks the real "
               "aggregate against that multiset",
               "no restriction on declared costs (values up to 2^64-1 incl. ones aimed at wrapping the u64 sums are in the default stream)"]
TRUSTED = ["hand-written mirror coq/Bundle/Builder.v tied to build_compressed_block.rs / build_interned_block.rs by these streams",
           "the shadow Serializer in harness/src/bin/vh_bundle.rs (follows the real builder's accept decisions)"]

SOFT = {"initcost": "FAIL-INIT", "recompress": "COMPRESS"}     # witness class -> tag in the oracle verdict


def build_ovf():
    rc, out, dt = C.sh(["cargo", "build", "--offline", "--features", "hooks", "--bin", "vh_" + UNIT, "--profile", "ovf",
                        "--config", 'profile.ovf.inherits="release"', "--config", "profile.ovf.overflow-checks=true"],
                       timeout=1500, cwd=C.VERIF + "/harness")
    return rc == 0, out, dt


def binary(build):
    return C.VH(UNIT) if build == "r" else B.VH_OVF


def classify_known(failure, known):
    """a failure is a known finding only if it sits in the stream of a witness class (bundle.o10.<class>), its oracle verdict
    carries that class's tag (FAIL-INIT / FAIL-COMPRESS, i.e. the oracle found NOTHING else wrong with the history), and
    KNOWN_FINDINGS.jsonl has an entry whose match.class is that class"""
    for cls, tag in SOFT.items():
        if failure["stream"] == "bundle.o10." + cls and failure["impl"].startswith("FAIL-") and tag in failure["impl"].split(" ")[0]:
            for k in known:
                if (k.get("match") or {}).get("class") == cls:
                    return k["id"]
    return None


def real_histories(rng, env, tier):
    """shuffled real bundles, real signatures, truthful costs, the real block limit"""
    tb = B.load_test_bundles(20000 if tier == "quick" else None)
    lines = ["bundle.truth c %s!%s" % (sig, tok) for _, sig, tok, _ in tb]
    outs = C.run_lines(C.VH(UNIT), lines)
    items = [(sig, tok, int(o)) for (_, sig, tok, _), o in zip(tb, outs) if o.isdigit()]
    hs = []
    for i in range(4 if tier == "quick" else 30):
        r = rng.fork("real%d" % i)
        its = list(items)
        r.shuffle(its)
        its = its[:r.choice([5, 12, 30])]
        total = sum(t for _, _, t in its)
        attempts = [{"bundles": [(sig, tok)], "truth": t, "cost": t} for sig, tok, t in its]
        mx = r.choice([11000000000, total // 2 + 8000000, total + 9000000])
        for kind in "ci":
            hs.append({"kind": kind, "cpb": env["cpb"], "max": mx, "attempts": attempts, "truthful": True, "check_sig": True,
                       "overflow": False, "maxkind": "real", "id": 100000 + i})
    return hs


def run(ctx):
    rep, tier = ctx["rep"], ctx["tier"]
    rng = C.SplitMix64(ctx["seed"])
    env = B.setup(rng)
    okb, logb, dtb = build_ovf()
    rep.extra["ovf_build_s"] = round(dtb, 1)
    builds = ["r"]
    if okb and os.path.exists(B.VH_OVF):
        builds.append("d")
    else:
        rep.add_broken("harness-build", "harness profile ovf (overflow-checks)", logb[-2000:])
    if ctx.get("replay"):
        f = json.load(open(ctx["replay"]))
        fi = f["failing_input"]
        line = fi["case"]
        build = "d" if fi["stream"].endswith("/d") else "r"
        impl = C.run_lines(binary(build), [line])[0]
        rep.evaluations += 1
        if line.startswith("bundle.o10"):
            if not impl.startswith("OK"):
                rep.add_failure(fi["stream"], line, impl, "OK", "replayed: the builder property fails on the implementation")
            return
        model = C.run_lines(C.VRUN(UNIT), [line])[0] if ctx["have_model"] else None
        if model is not None and impl != model:
            rep.add_failure(fi["stream"], line, impl, model, "replayed disagreement")
        return

    pool = B.make_pool(rng.fork("pool"), env, 60 if tier == "quick" else 400)
    hs = B.make_histories(rng.fork("hist"), env, pool, 260 if tier == "quick" else 6000)
    rep.extra["pool"] = len(pool)

    # ---- correspondence: model vs implementation, per build
    for build in builds:
        name = "bundle.hist/" + build
        sz = C.run_lines(binary(build), [B.history_line("bundle.sizes", build, h) for h in hs])
        lines = [B.history_line("bundle.hist", build, h, s.split(",")) for h, s in zip(hs, sz)]
        impl = C.run_lines(binary(build), lines)
        st = rep.streams.setdefault(name, {})
        st["kinds"] = dict(Counter(h["kind"] for h in hs))
        st["max_kinds"] = dict(Counter(h["maxkind"] for h in hs))
        st["declared_kinds"] = dict(Counter(a["decl"] for h in hs for a in h["attempts"]))
        st["overflow_histories"] = sum(1 for h in hs if h["overflow"])
        st["step_results"] = dict(Counter(t.split(":")[0] + ":" + (t.split(":")[1] if ":" in t and t[0] in "01" else "")
                                          for o in impl for t in o.split(" ") if not t.startswith("F")))
        st["finals"] = dict(Counter((o.split(" ")[-1].split(":")[0] if o.split(" ")[-1].startswith("F") else "none") for o in impl))
        meta = dict(zip(lines, hs))

        def key(line, out, meta=meta, build=build):
            h = meta[line]
            pat = tuple(t.split(":")[0] + (t.split(":")[1] if t[0] in "01" else "") for t in out.split(" ") if not t.startswith("F:"))
            return (h["kind"], build, h["cpb"], h["maxkind"], tuple(sorted(Counter(a["decl"] for a in h["attempts"]).items())), pat)
        if ctx["have_model"]:
            model = C.run_lines(C.VRUN(UNIT), lines, timeout=1500)
            diff_stream(rep, name, lines, impl, model, key, None,
                        "the builder's observable behaviour (added/done/cost() per call, final cost, signature set, decoded "
                        "generator) deviates from the mirror")
        else:
            rep.evaluations += len(lines)

    # ---- the property itself on the implementation
    listed = {cls: any((k.get("match") or {}).get("class") == cls and k.get("property") == "C10" and k.get("status") == "known"
                       for k in C.load_known()) for cls in SOFT}
    # a block limit below the cost of the EMPTY generator is outside the quantifier (finalize's assert fires on an empty
    # builder; the mirror predicts it, see the hist streams)
    hs_all = [h for h in hs + real_histories(rng.fork("real"), env, tier) if h["max"] >= 20 + 11 * h["cpb"]]
    why = {"initcost": "cost() underestimates the final cost before the first serialized add",
           "recompress": "a rejected (serialized, restored) attempt changes the bytes and cost of the later output"}
    for build in builds:
        lines = [B.history_line("bundle.o10", build, h) for h in hs_all]
        outs = C.run_lines(binary(build), lines, timeout=1500)
        name = "bundle.o10/" + build
        st = rep.streams.setdefault(name, {})
        st["cases"] = len(lines)
        st["overflow_aimed_histories"] = sum(1 for h in hs_all if h["overflow"])
        st["results"] = dict(Counter(" ".join(o.split(" ")[:1]) for o in outs))
        st["results_overflow_aimed"] = dict(Counter(" ".join(o.split(" ")[:1]) for o, h in zip(outs, hs_all) if h["overflow"]))
        st["accepted_hist"] = dict(Counter(o.split(" ")[1] for o in outs if o.startswith("OK ")).most_common(12))
        rep.evaluations += len(lines)
        rep.traces += len(lines)
        for cls, tag in SOFT.items():
            hits = [(l, o) for l, o in zip(lines, outs) if o.startswith("FAIL-") and tag in o.split(" ")[0]]
            st2 = rep.streams.setdefault("bundle.o10.%s/%s" % (cls, build), {})
            st2["cases"] = len(hits)
            st2["listed_in_KNOWN_FINDINGS"] = listed[cls]
            if hits:
                ex = min(hits, key=lambda x: len(x[0]))
                st2["example"] = {"case": ex[0][:6000], "impl": ex[1]}
            for l, o in hits:
                # known finding when listed; otherwise a plain violation
                rep.add_failure("bundle.o10." + cls, l, o, "OK", why[cls])
        for l, o, h in zip(lines, outs, hs_all):
            if o.startswith("FAIL-"):
                continue
            if not o.startswith("OK"):
                rep.add_failure(name, l, o, "OK", "the builder violates the property on this history (implementation-level oracle)")
            else:
                rep.nontrivial.add((name, h["kind"], h["cpb"], h["maxkind"], h["overflow"], o))
