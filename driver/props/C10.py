"""C10 — block builders emit exactly the accepted bundles within the cost limit.

Model: coq/Bundle/Builder.v (both builders as init/step/finalize with explicit u64 arithmetic in two modes: wrap-around
= release build, panic = overflow-checks build) executed by the extracted runner; the compressed builder's serializer
sizes are recorded from a shadow clvmr Serializer per history.  Implementation: harness vh_bundle in TWO builds:
release, and cargo profile `ovf` (release + overflow-checks = true).
Streams:
  bundle.hist/r, bundle.hist/d   a history of add_spend_bundles calls then finalize, on the compressed and the interned
                                 builder: per call (added, done, cost()), finally (cost, signature = aggregate of which
                                 bundles, decoded generator)
Oracle (implementation only, op bundle.o10, both builds): the property itself — the finalized generator decodes to exactly
the accepted attempts' spends; the signature is the aggregate of exactly their signatures; returned cost = size cost + 20
+ declared costs, <= the limit, = the cost run_block_generator2 charges when the declared costs are truthful (and the block
is invalid with a budget one below); after every prefix cost() >= the cost of finalizing there; leaving out the rejected /
failed attempts gives byte-identical output; nothing panics.
The overflow class (a declared cost so large that a u64 sum overflows: candidate finding F-C10-1) is generated in a
SEPARATE stream `bundle.o10.overflow`; it only counts as a failure when KNOWN_FINDINGS.jsonl lists F-C10-1."""
import os, sys, json
from collections import Counter
sys.path.insert(0, os.path.dirname(os.path.dirname(os.path.abspath(__file__))))
import common as C
import bundlelib as B
from bundlelib import UNIT
from run import diff_stream

GEN = ["builder", "ladders", "opcodes"]
RULE = ("histories of 1-8 add_spend_bundles calls (batches of 0-3 bundles from a pool of individually valid synthetic "
        "bundles, occasionally an unparsable one) on both builders x cost_per_byte in {12000, 1, 7, 10^6} x limits chosen "
        "from the dry-run cost trajectory (exactly on / one below a step, +-1 around the MIN_COST_THRESHOLD test, tiny, roomy) x "
        "declared costs truthful / halved / zero / landing exactly on the limit (+1) / huge (2^50..2^63); both builds "
        "(release, overflow-checks); shuffled histories of the real /repo/test-bundles with their real signatures for the "
        "oracle. non-trivial/distinct = distinct (builder, build, cpb class, limit kind, multiset of declared-cost kinds, "
        "result pattern) tuples")
ASSUMPTIONS = ["clvmr's incremental back-reference Serializer is an oracle: sizes recorded per history from a shadow "
               "Serializer; restore returns to the previous size/content; finishing adds exactly two bytes",
               "node_to_bytes_backrefs / node_from_bytes_backrefs (clvmr) are oracles: generators are compared after decoding",
               "signatures: the model computes in the free commutative monoid over key indices; the harness checks the real "
               "aggregate against that multiset",
               "declared costs whose u64 sums overflow are outside the default stream (candidate finding F-C10-1, reported "
               "separately)"]
TRUSTED = ["hand-written mirror coq/Bundle/Builder.v tied to build_compressed_block.rs / build_interned_block.rs by these streams",
           "the shadow Serializer in harness/src/bin/vh_bundle.rs (follows the real builder's accept decisions)"]

FINDING = "F-C10-1"       # u64 overflow with declared costs near 2^64
FINDING2 = "F-C10-2"      # compressed builder: byte_cost starts at 0, cost() short by 5 * cost_per_byte until an add is serialized
FINDING3 = "F-C10-3"      # compressed builder: a serialized-then-restored attempt changes the compression of later attempts


def build_ovf():
    rc, out, dt = C.sh(["cargo", "build", "--offline", "--features", "hooks", "--bin", "vh_" + UNIT, "--profile", "ovf",
                        "--config", 'profile.ovf.inherits="release"', "--config", "profile.ovf.overflow-checks=true"],
                       timeout=1500, cwd=C.VERIF + "/harness")
    return rc == 0, out, dt


def binary(build):
    return C.VH(UNIT) if build == "r" else B.VH_OVF


def classify_known(failure, known):
    """F-C10-1: exactly the histories of the overflow stream whose oracle verdict is the overflow symptom;
    F-C10-2: exactly the FAIL-INIT verdicts (compressed builder, no attempt serialized yet, cost() short by 5*cpb)"""
    if failure["stream"] == "bundle.o10.initcost" and failure["impl"].startswith("FAIL-INIT"):
        for k in known:
            if k.get("id") == FINDING2:
                return FINDING2
        return None
    if failure["stream"] == "bundle.o10.recompress" and "COMPRESS " in failure["impl"].split(" ")[0] + " ":
        for k in known:
            if k.get("id") == FINDING3:
                return FINDING3
        return None
    if failure["stream"] != "bundle.o10.overflow":
        return None
    for k in known:
        if k.get("id") == FINDING:
            msg = failure["impl"]
            if msg.startswith("FAIL add_spend_bundles panicked") or msg.startswith("FAIL returned cost") \
               or msg.startswith("FAIL cost() panicked") or msg.startswith("FAIL prefix panicked"):
                return FINDING
    return None


def real_histories(rng, env, tier):
    """shuffled real bundles, real signatures, truthful costs, the real block limit"""
    tb = B.load_test_bundles(20000 if tier == "quick" else None)
    lines = ["bundle.truth c %s!%s" % (sig, tok) for _, sig, tok, _ in tb]
    outs = C.run_lines(C.VH(UNIT), lines)
    items = [(sig, tok, int(o)) for (_, sig, tok, _), o in zip(tb, outs) if o.isdigit()]
    hs = []
    for i in range(4 if tier == "quick" else 30):
        r = rng.fork("real%d" % i)
        its = list(items)
        r.shuffle(its)
        its = its[:r.choice([5, 12, 30])]
        total = sum(t for _, _, t in its)
        attempts = [{"bundles": [(sig, tok)], "truth": t, "cost": t} for sig, tok, t in its]
        mx = r.choice([11000000000, total // 2 + 8000000, total + 9000000])
        for kind in "ci":
            hs.append({"kind": kind, "cpb": env["cpb"], "max": mx, "attempts": attempts, "truthful": True, "check_sig": True,
                       "overflow": False, "maxkind": "real", "id": 100000 + i})
    return hs


def run(ctx):
    rep, tier = ctx["rep"], ctx["tier"]
    rng = C.SplitMix64(ctx["seed"])
    env = B.setup(rng)
    okb, logb, dtb = build_ovf()
    rep.extra["ovf_build_s"] = round(dtb, 1)
    builds = ["r"]
    if okb and os.path.exists(B.VH_OVF):
        builds.append("d")
    else:
        rep.add_broken("harness-build", "harness profile ovf (overflow-checks)", logb[-2000:])
    if ctx.get("replay"):
        f = json.load(open(ctx["replay"]))
        fi = f["failing_input"]
        line = fi["case"]
        build = "d" if fi["stream"].endswith("/d") else "r"
        impl = C.run_lines(binary(build), [line])[0]
        rep.evaluations += 1
        if line.startswith("bundle.o10"):
            if not impl.startswith("OK"):
                rep.add_failure(fi["stream"], line, impl, "OK", "replayed: the builder property fails on the implementation")
            return
        model = C.run_lines(C.VRUN(UNIT), [line])[0] if ctx["have_model"] else None
        if model is not None and impl != model:
            rep.add_failure(fi["stream"], line, impl, model, "replayed disagreement")
        return

    pool = B.make_pool(rng.fork("pool"), env, 60 if tier == "quick" else 400)
    hs = B.make_histories(rng.fork("hist"), env, pool, 260 if tier == "quick" else 6000)
    rep.extra["pool"] = len(pool)

    # ---- correspondence: model vs implementation, per build
    for build in builds:
        name = "bundle.hist/" + build
        sz = C.run_lines(binary(build), [B.history_line("bundle.sizes", build, h) for h in hs])
        lines = [B.history_line("bundle.hist", build, h, s.split(",")) for h, s in zip(hs, sz)]
        impl = C.run_lines(binary(build), lines)
        st = rep.streams.setdefault(name, {})
        st["kinds"] = dict(Counter(h["kind"] for h in hs))
        st["max_kinds"] = dict(Counter(h["maxkind"] for h in hs))
        st["declared_kinds"] = dict(Counter(a["decl"] for h in hs for a in h["attempts"]))
        st["overflow_histories"] = sum(1 for h in hs if h["overflow"])
        st["step_results"] = dict(Counter(t.split(":")[0] + ":" + (t.split(":")[1] if ":" in t and t[0] in "01" else "")
                                          for o in impl for t in o.split(" ") if not t.startswith("F")))
        st["finals"] = dict(Counter((o.split(" ")[-1].split(":")[0] if o.split(" ")[-1].startswith("F") else "none") for o in impl))
        meta = dict(zip(lines, hs))

        def key(line, out, meta=meta, build=build):
            h = meta[line]
            pat = tuple(t.split(":")[0] + (t.split(":")[1] if t[0] in "01" else "") for t in out.split(" ") if not t.startswith("F:"))
            return (h["kind"], build, h["cpb"], h["maxkind"], tuple(sorted(Counter(a["decl"] for a in h["attempts"]).items())), pat)
        if ctx["have_model"]:
            model = C.run_lines(C.VRUN(UNIT), lines, timeout=1500)
            diff_stream(rep, name, lines, impl, model, key, None,
                        "the builder's observable behaviour (added/done/cost() per call, final cost, signature set, decoded "
                        "generator) deviates from the mirror")
        else:
            rep.evaluations += len(lines)

    # ---- the property itself on the implementation
    known_listed = any(k.get("id") == FINDING for k in C.load_known())
    known2_listed = any(k.get("id") == FINDING2 for k in C.load_known())
    known3_listed = any(k.get("id") == FINDING3 for k in C.load_known())
    # a block limit below the cost of the EMPTY generator is outside the quantifier (finalize's assert fires on an empty
    # builder; the mirror predicts it, see the hist streams)
    hs_all = [h for h in hs + real_histories(rng.fork("real"), env, tier) if h["max"] >= 20 + 11 * h["cpb"]]
    for build in builds:
        normal = [h for h in hs_all if not h["overflow"]]
        lines = [B.history_line("bundle.o10", build, h) for h in normal]
        outs = C.run_lines(binary(build), lines, timeout=1500)
        name = "bundle.o10/" + build
        st = rep.streams.setdefault(name, {})
        st["cases"] = len(lines)
        st["results"] = dict(Counter(" ".join(o.split(" ")[:1]) for o in outs))
        st["accepted_hist"] = dict(Counter(o.split(" ")[1] for o in outs if o.startswith("OK ")).most_common(12))
        rep.evaluations += len(lines)
        rep.traces += len(lines)
        soft = {"initcost": ("FAIL-INIT", known2_listed, "cost() underestimates the final cost before the first serialized add"),
                "recompress": ("COMPRESS", known3_listed, "a rejected (serialized, restored) attempt changes the bytes and cost of the later output")}
        for sname, (tag, listed, why) in soft.items():
            hits = [(l, o) for l, o in zip(lines, outs) if o.startswith("FAIL-") and tag in o.split(" ")[0]]
            st2 = rep.streams.setdefault("bundle.o10.%s/%s" % (sname, build), {})
            st2["cases"] = len(hits)
            st2["counted_as_failures"] = listed
            if hits:
                ex = min(hits, key=lambda x: len(x[0]))
                st2["example"] = {"case": ex[0][:6000], "impl": ex[1]}
            if listed:
                for l, o in hits:
                    rep.add_failure("bundle.o10." + sname, l, o, "OK", why)
        for l, o, h in zip(lines, outs, normal):
            if o.startswith("FAIL-"):
                pass
            elif not o.startswith("OK"):
                rep.add_failure(name, l, o, "OK", "the builder violates the property on this history (implementation-level oracle)")
            else:
                rep.nontrivial.add((name, h["kind"], h["cpb"], h["maxkind"], o))
        # the overflow class: separate stream, reported; a failure only once the finding is listed
        ov = [h for h in hs_all if h["overflow"]]
        lines = [B.history_line("bundle.o10", build, h) for h in ov]
        outs = C.run_lines(binary(build), lines, timeout=1500)
        st = rep.streams.setdefault("bundle.o10.overflow/" + build, {})
        st["cases"] = len(lines)
        st["results"] = dict(Counter(" ".join(o.split(" ")[:4]) for o in outs).most_common(12))
        st["counted_as_failures"] = known_listed
        bad = [(l, o) for l, o in zip(lines, outs) if not o.startswith("OK") and not o.startswith("FAIL-")]
        if bad:
            st["example"] = {"case": min(bad, key=lambda x: len(x[0]))[0][:3000], "impl": min(bad, key=lambda x: len(x[0]))[1]}
        rep.evaluations += len(lines)
        if known_listed:
            for l, o in bad:
                rep.add_failure("bundle.o10.overflow", l, o, "OK", "declared cost near 2^64 overflows the builder's u64 sums")
