"""C17 — every tree-hash routine computes the same hash.

Streams (model = coq/Run/ThashRun.v over coq/Thash/*.v + Gen/Precomputed.v, Gen/CurryFF.v;
         impl  = harness/src/bin/vh_thash.rs on the real clvmr Allocator and clvm-utils):
  thash.seq    scripts that build trees / DAGs in one allocator and run tree_hash, tree_hash_cached,
               visit_tree, cache.get, should_memoize through ONE shared TreeCache, interleaved with
               further allocations (the allocator grows between cached calls, as in run_block_generator2)
  thash.fb     tree_hash_from_bytes on plain and back-referenced serializations: produced by clvmr
               (node_to_bytes, node_to_bytes_backrefs) from the same DAGs, produced by a Python
               generator that places back-references into values and into the parse stack itself, and
               malformed / truncated / mutated inputs (error verdicts must agree too)
  thash.fbo    the same inputs through clvmr's older stack-as-cons-list deserializer + tree_hash_cached
  thash.curry  curry_tree_hash on hash lists
  thash.curried the tree CurriedProgram::to_clvm builds (with clvm_curried_args!) against the model's curried_program
  thash.ff     fast_forward.rs curry_and_treehash, observed through fast_forward_singleton
Oracles (the property itself, independent of the Coq model):
  * Python (hashlib) recursive tree hash over the script / over an independent Python deserializer,
    compared with every hash the implementation printed
  * harness op thash.ohelper: every `X::curry_tree_hash` of chia-puzzle-types (set pinned by translator/gen_curryhelpers.py)
    against tree_hash / tree_hash_cached / tree_hash_from_bytes / reference hash of the ACTUAL curried program
    (real module bytes, args = X::new(same pairwise distinct arguments))
  * harness ops thash.oracle / thash.ocurry: every routine on every node against an independent
    recursive hash inside the harness, including the real CurriedProgram::to_clvm tree and TreeHasher
"""
import hashlib, json, os, sys
sys.path.insert(0, os.path.dirname(os.path.dirname(os.path.abspath(__file__))))
import common as C
from run import diff_stream

UNIT = "thash"
GEN = ["precomputed", "curryhelpers"]
RULE = ("scripts: every small atom 0..40 and every 2^k-1,2^k,2^k+1 below 2^27 in small-atom / new_atom / byte-heap form; "
        "tree shapes deep-left, deep-right, balanced, random DAG, doubling DAG (expanded size up to 2^60), shared-module "
        "spend lists; cache histories: pre-visit all then hash all, interleaved visit/hash/get/should_memoize/reset with "
        "allocations in between. serializations: clvmr plain + back-referenced for every generated root, Python-generated "
        "back-references (into values, into the stack, path 0, redundant leading zero bytes, long-form path atoms), "
        "truncations and byte mutations. non-trivial/distinct = distinct (stream, shape or kind, log2 size bucket, "
        "result class, set of op kinds) tuples")
ASSUMPTIONS = ["clvmr Allocator / node_from_bytes_backrefs are modelled (heap of small atoms, byte atoms, pairs; "
               "stack-as-cons-list deserializer) and tied by execution only; allocator resource limits are not modelled",
               "Gallina SHA-256 equals the real one (every hash in every stream is compared)",
               "curry_and_treehash is private: observed through fast_forward_singleton's accept/reject, and tied by the "
               "translator (Gen/CurryFF.v is generated from its source text)"]
TRUSTED = ["Python reference oracle in driver/props/C17.py (hashlib; independent back-reference deserializer)"]

NIL_PATH_LIMIT = 1 << 60


# ------------------------------------------------------------------ reference (Python)
def sha(b):
    return hashlib.sha256(b).digest()


def h_atom(b):
    return sha(b"\x01" + b)


def h_pair(l, r):
    return sha(b"\x02" + l + r)


def canon(v):
    if v == 0:
        return b""
    return v.to_bytes((v.bit_length() + 8) // 8, "big")


def hexo(b):
    return b.hex() if b else "-"


def unhex(s):
    return b"" if s == "-" else bytes.fromhex(s)


def ser_atom(b):
    n = len(b)
    if n == 0:
        return b"\x80"
    if n == 1 and b[0] < 0x80:
        return b
    if n < 0x40:
        return bytes([0x80 | n]) + b
    if n < 0x2000:
        return bytes([0xc0 | (n >> 8), n & 0xff]) + b
    raise ValueError("atom too long for this generator")


class RefErr(Exception):
    pass


def py_parse_atom(bs, pos, first):
    """returns (blob, newpos); mirrors clvmr parse_atom_ptr / decode_size"""
    if first <= 0x7f:
        return bytes([first]), pos
    ones = 0
    m = 0x80
    while m and (first & m):
        ones += 1
        m >>= 1
    if ones >= 7:
        raise RefErr("bad size prefix")
    size = first & (0xff >> ones)
    if pos + ones - 1 > len(bs):
        raise RefErr("eof in size")
    for i in range(ones - 1):
        size = (size << 8) | bs[pos + i]
    pos += ones - 1
    if size >= 0x400000000:
        raise RefErr("too large")
    if pos + size > len(bs):
        raise RefErr("eof in blob")
    return bs[pos:pos + size], pos + size


def py_deser_br(bs):
    """independent reading of deserialization with back-references: trees are bytes (atoms) or
    2-tuples; the value stack is a Python list, read as a cons list when a path is followed"""
    ops = ["S"]
    vals = []
    pos = 0
    while ops:
        op = ops.pop()
        if op == "S":
            if pos >= len(bs):
                raise RefErr("eof")
            b = bs[pos]
            pos += 1
            if b == 0xff:
                ops += ["C", "S", "S"]
            elif b == 0xfe:
                if pos >= len(bs):
                    raise RefErr("eof")
                first = bs[pos]
                pos += 1
                path, pos = py_parse_atom(bs, pos, first)
                p = int.from_bytes(path, "big")
                if p == 0:
                    vals.append(b"")
                    continue
                # the stack as a cons list, built only as far as the path walks along it
                cur = ("STACK", len(vals))      # virtual list starting at vals[idx-1]
                while p > 1:
                    bit = p & 1
                    p >>= 1
                    if isinstance(cur, tuple) and len(cur) == 2 and cur[0] == "STACK":
                        k = cur[1]
                        if k == 0:
                            raise RefErr("path into atom")     # nil
                        cur = ("STACK", k - 1) if bit else vals[k - 1]
                    elif isinstance(cur, tuple):
                        cur = cur[1] if bit else cur[0]
                    else:
                        raise RefErr("path into atom")
                if isinstance(cur, tuple) and len(cur) == 2 and cur[0] == "STACK":
                    t = b""
                    for v in vals[:cur[1]]:
                        t = (v, t)
                    cur = t
                vals.append(cur)
            elif b == 0x80:
                vals.append(b"")
            else:
                blob, pos = py_parse_atom(bs, pos, b)
                vals.append(blob)
        else:
            r = vals.pop()
            l = vals.pop()
            vals.append((l, r))
    return vals[-1]


def py_tree_hash(t):
    """iterative, memoised on object identity (DAGs stay linear)"""
    memo = {}
    stack = [(t, False)]
    while stack:
        n, done = stack.pop()
        if id(n) in memo:
            continue
        if isinstance(n, tuple):
            if done:
                memo[id(n)] = h_pair(memo[id(n[0])], memo[id(n[1])])
            else:
                stack.append((n, True))
                stack.append((n[0], False))
                stack.append((n[1], False))
        else:
            memo[id(n)] = h_atom(n)
    return memo[id(t)]


# ------------------------------------------------------------------ scripts
class Script:
    def __init__(self):
        self.toks, self.size, self.want, self.ispair = [], [], [], []

    def n(self):
        return len(self.size)

    def _add(self, tok, size, want, ispair):
        self.toks.append(tok)
        self.size.append(size)
        self.want.append(want)
        self.ispair.append(ispair)
        return len(self.size) - 1

    def small(self, v):
        return self._add("s%d" % v, 1, h_atom(canon(v)), False)

    def atom(self, b):
        return self._add("a" + hexo(b), 1, h_atom(b), False)

    def batom(self, b):
        return self._add("b" + hexo(b), 1, h_atom(b), False)

    def pair(self, i, j):
        return self._add("p%d.%d" % (i, j), min(1 + self.size[i] + self.size[j], 1 << 62),
                         h_pair(self.want[i], self.want[j]), True)

    def op(self, c, k=None):
        self.toks.append(c if k is None else "%s%d" % (c, k))

    def line(self, name="thash.seq"):
        return name + " " + " ".join(self.toks)


SMALL_POOL = list(range(0, 41)) + [0x7f, 0x80, 0x81, 0xff, 0x100, 0x7fff, 0x8000, 0xffff, 0x10000, 0x7fffff, 0x800000,
                                   0xffffff, 0x1000000, 0x3ffffff]


def rand_atom(s, rng):
    k = rng.below(10)
    if k < 3:
        return s.small(rng.choice(SMALL_POOL))
    if k < 5:
        v = rng.choice(SMALL_POOL)
        return s.atom(canon(v)) if rng.chance(1, 2) else s.batom(canon(v))
    if k == 5:
        # non-canonical / negative / zero-byte atoms: never small atoms
        return s.atom(rng.choice([b"\x00", b"\x00\x05", b"\xff", b"\x80", b"\x00\x00", b"\x04\x00\x00\x00", b"\x00\x80",
                                  b"\x03\xff\xff\xff", b"\x00\xff\xff\xff\xff"]))
    if k == 6:
        return s.atom(rng.bytes(32))
    if k == 7:
        return s.atom(rng.bytes(1 + rng.below(70)))
    if k == 8:
        return s.batom(rng.bytes(rng.below(5)))
    return s.atom(b"")


def build_shape(s, rng, shape, budget):
    """adds nodes to s; returns the list of interesting roots"""
    if shape == "atoms":
        return [rand_atom(s, rng) for _ in range(1 + rng.below(6))]
    if shape in ("deep_r", "deep_l"):
        cur = rand_atom(s, rng)
        for _ in range(budget):
            a = rand_atom(s, rng) if rng.chance(1, 3) else rng.below(s.n())
            if s.size[a] > 50:
                a = rand_atom(s, rng)
            cur = s.pair(a, cur) if shape == "deep_r" else s.pair(cur, a)
        return [cur]
    if shape == "balanced":
        level = [rand_atom(s, rng) for _ in range(max(2, budget // 2))]
        while len(level) > 1:
            nxt = [s.pair(level[i], level[i + 1]) for i in range(0, len(level) - 1, 2)]
            if len(level) % 2:
                nxt.append(level[-1])
            level = nxt
        return level
    if shape == "doubling":
        cur = s.pair(rand_atom(s, rng), rand_atom(s, rng))
        roots = [cur]
        for _ in range(budget):
            cur = s.pair(cur, cur) if rng.chance(3, 4) else s.pair(cur, rng.below(s.n()))
            if s.size[cur] > NIL_PATH_LIMIT:
                break
            roots.append(cur)
        return roots[-3:]
    if shape == "spends":
        # a few shared modules curried with different arguments, collected in a list (block generator shape)
        mods = [build_shape(s, rng, "random", 6 + rng.below(10))[-1] for _ in range(1 + rng.below(3))]
        nil = s.small(0)
        puzzles = []
        for _ in range(2 + rng.below(max(1, budget // 8))):
            m = rng.choice(mods)
            args = s.small(1)
            for _ in range(rng.below(3)):
                q = s.pair(s.small(1), rand_atom(s, rng))
                args = s.pair(s.small(4), s.pair(q, s.pair(args, nil)))
            puzzles.append(s.pair(s.small(2), s.pair(s.pair(s.small(1), m), s.pair(args, nil))))
        lst = nil
        for p in reversed(puzzles):
            lst = s.pair(p, lst)
        return puzzles + [lst]
    # random DAG
    base = s.n()
    for _ in range(2 + rng.below(4)):
        rand_atom(s, rng)
    roots = []
    for _ in range(budget):
        lo = base if rng.chance(3, 4) else 0
        i = lo + rng.below(s.n() - lo)
        j = lo + rng.below(s.n() - lo)
        if rng.chance(1, 6):
            j = i
        if 1 + s.size[i] + s.size[j] > NIL_PATH_LIMIT:
            i = rand_atom(s, rng)
        roots.append(s.pair(i, j))
    return roots[-4:]


SHAPES = ["atoms", "deep_r", "deep_l", "balanced", "doubling", "spends", "random", "random"]


def gen_script(rng, tier, shape=None, hlimit=1500):
    s = Script()
    shape = shape or rng.choice(SHAPES)
    big = 40 if tier == "quick" else 70
    budget = 3 + rng.below(big)
    if shape in ("deep_r", "deep_l") and rng.chance(1, 5):
        budget = 100 + rng.below(200) if tier == "quick" else 300 + rng.below(600)
    if shape == "doubling":
        budget = 2 + rng.below(58)
    roots = build_shape(s, rng, shape, budget)
    style = rng.below(4)
    used = set()

    def do(c, k):
        if c == "H" and s.size[k] > hlimit:
            c = "C"
        s.op(c, k)
        used.add(c)

    if style == 0:
        # the run_block_generator pattern: visit everything, then hash everything
        for r in roots:
            do("V", r)
        for r in roots:
            do("C", r)
            if rng.chance(1, 2):
                do("G", r)
    elif style == 1:
        for r in roots:
            do("C", r)
            do("G", r)
            do("C", r)
            do("G", r)
            do("M", r)
            do("H", r)
    else:
        for _ in range(4 + rng.below(12)):
            k = rng.choice(roots) if rng.chance(2, 3) else rng.below(s.n())
            c = rng.choice(["C", "C", "C", "V", "G", "M", "H"])
            if c == "R" or rng.chance(1, 25):
                s.op("R")
                used.add("R")
            do(c, k)
            if rng.chance(1, 4):
                # the allocator grows between cached calls; new nodes may reuse cached subtrees
                extra = build_shape(s, rng, rng.choice(["random", "deep_r", "atoms"]), 2 + rng.below(8))
                roots = roots + extra[-2:]
    return s, shape, used, roots


def expect_seq(line):
    """Python oracle for a thash.seq line: list of expected outputs (None = unconstrained)"""
    want, exp = [], []
    for t in line.split(" ")[1:]:
        c, p = t[0], t[1:]
        if c == "s":
            want.append(h_atom(canon(int(p))))
        elif c in "ab":
            want.append(h_atom(unhex(p)))
        elif c == "p":
            i, j = p.split(".")
            want.append(h_pair(want[int(i)], want[int(j)]))
        elif c in "HC":
            exp.append(("=", want[int(p)].hex()))
        elif c == "G":
            exp.append(("N|", want[int(p)].hex()))
        elif c == "M":
            exp.append(("01", None))
    return exp


def check_seq_oracle(rep, stream, line, out):
    if out == "UNCHECKED-TIMEOUT":
        return
    exp = expect_seq(line)
    got = [] if out == "-" else out.split(" ")
    bad = None
    if len(got) != len(exp):
        bad = "number of results"
    else:
        for (kind, w), g in zip(exp, got):
            if kind == "=" and g != w:
                bad = "a routine returned a hash different from the reference tree hash"
            elif kind == "N|" and g != "N" and g != w:
                bad = "cache.get returned a hash different from the reference tree hash"
            elif kind == "01" and g not in ("0", "1"):
                bad = "should_memoize result"
            if bad:
                break
    if bad:
        rep.add_failure(stream + "/oracle", line, out, " ".join(w or "?" for _, w in exp), bad + " (Python oracle)")



def mask_policy(line, out):
    """thash.seq output with the results of cache.get / should_memoize masked: WHAT is memoized is
    the cache's policy, not part of the property (a returned hash is still checked by the oracle)"""
    kinds = [t[0] for t in line.split(" ")[1:] if t[0] in "HCGM"]
    toks = [] if out == "-" else out.split(" ")
    if len(toks) != len(kinds):
        return out
    return " ".join("*" if k in "GM" else t for k, t in zip(kinds, toks))


def diff_seq(rep, lines, impl, model, key):
    """hashes returned by tree_hash / tree_hash_cached: a disagreement is a failing input.
    cache.get / should_memoize observations: a disagreement means the TreeCache mirror (visit
    counters, memoization policy) no longer describes the code, i.e. the theorems no longer speak
    about it: reported as a broken tie (no failing input for the property itself)"""
    diff_stream(rep, "thash.seq", lines, [mask_policy(l, o) for l, o in zip(lines, impl)],
                [mask_policy(l, o) for l, o in zip(lines, model)], key)
    pol = [(l, i, m) for l, i, m in zip(lines, impl, model) if i != m and mask_policy(l, i) == mask_policy(l, m)]
    rep.streams["thash.seq"]["policy_disagreements"] = len(pol)
    if pol:
        pol.sort(key=lambda x: len(x[0]))
        l, i, m = pol[0]
        rep.add_broken("correspondence", "thash.seq (TreeCache get/should_memoize observations)",
                       json.dumps({"cases": len(pol), "smallest_case": l, "impl": i, "model": m}))

# ------------------------------------------------------------------ Python-made back-reference streams
def path_bytes(p, rng):
    b = p.to_bytes(max(1, (p.bit_length() + 7) // 8), "big") if p else (b"" if rng.chance(1, 2) else b"\x00")
    if rng.chance(1, 8):
        b = b"\x00" * (1 + rng.below(3)) + b          # redundant leading zero bytes are skipped by the walker
    if len(b) == 1 and b[0] < 0x80 and not rng.chance(1, 10):
        return b
    if rng.chance(1, 10) and len(b) < 0x2000:
        return bytes([0xc0 | (len(b) >> 8), len(b) & 0xff]) + b     # long-form length prefix
    if len(b) == 0:
        return b"\x80"
    return bytes([0x80 | len(b)]) + b


def gen_br_stream(rng, nops, bad_paths):
    """simulate the parser while emitting bytes, so that back-reference paths are valid by construction"""
    out = bytearray()
    ops = ["S"]
    vals = []
    budget = nops
    while ops:
        op = ops.pop()
        if op == "C":
            r = vals.pop()
            l = vals.pop()
            vals.append((l, r))
            continue
        budget -= 1
        k = rng.below(10)
        if budget > 0 and k < 4:
            out.append(0xff)
            ops += ["C", "S", "S"]
        elif k < 7 and (vals or rng.chance(1, 5)):
            # walk from the stack list; stop somewhere
            cur = b""
            for v in vals:
                cur = (v, cur)
            bits = []
            while isinstance(cur, tuple) and not rng.chance(1, 4) and len(bits) < 40:
                b = 1 if rng.chance(1, 2) else 0
                bits.append(b)
                cur = cur[1] if b else cur[0]
            if bad_paths and rng.chance(1, 6):
                bits.append(rng.below(2))
                bits += [rng.below(2) for _ in range(rng.below(60))]
            p = 1
            for b in reversed(bits):
                p = (p << 1) | b
            if rng.chance(1, 15):
                p = 0
            out.append(0xfe)
            out += path_bytes(p, rng)
            # the reference deserializer decides what this denotes; keep the simulation in step
            try:
                vals.append(py_deser_br_path(vals, p))
            except RefErr:
                return bytes(out) + rng.bytes(rng.below(4))
        else:
            a = rng.choice([b"", b"\x01", b"\x05", b"\x00", b"\x7f", b"\x80", b"\xff", rng.bytes(2), rng.bytes(32),
                            rng.bytes(rng.below(70)), canon(rng.choice(SMALL_POOL))])
            out += ser_atom(a)
            vals.append(a)
    if rng.chance(1, 10):
        out += rng.bytes(1 + rng.below(3))       # trailing bytes are ignored
    return bytes(out)


def py_deser_br_path(vals, p):
    if p == 0:
        return b""
    cur = b""
    for v in vals:
        cur = (v, cur)
    while p > 1:
        if not isinstance(cur, tuple):
            raise RefErr("path into atom")
        cur = cur[1] if (p & 1) else cur[0]
        p >>= 1
    return cur


def expect_fb(line):
    bs = unhex(line.split(" ")[1])
    try:
        return py_tree_hash(py_deser_br(bs)).hex()
    except RefErr:
        return "ERR"


def plain_ser_tree(rng, depth):
    if depth == 0 or rng.chance(1, 3):
        a = rng.choice([b"", b"\x01", canon(rng.choice(SMALL_POOL)), rng.bytes(32), rng.bytes(rng.below(6)), b"\x00"])
        return ser_atom(a)
    return b"\xff" + plain_ser_tree(rng, depth - 1) + plain_ser_tree(rng, depth - 1)



# ------------------------------------------------------------------ hash-only currying helpers of chia-puzzle-types
def distinct_trees(rng, n):
    seen, out = set(), []
    small = not isinstance(rng, C.SplitMix64)
    while len(out) < n:
        t = rng.choice(SMALL_TREES) if small else plain_ser_tree(rng, 1 + rng.below(3)).hex()
        if t not in seen:
            seen.add(t)
            out.append(t)
    return out


def distinct_ints(rng, n, hi):
    seen = []
    small = not isinstance(rng, C.SplitMix64)
    while len(seen) < n:
        if small:
            v = rng.choice([0, 0, 1, 2, 5, 22, 23])
        else:
            v = rng.choice([0, 1, 2, 3, 5, 7, 10, 100, 127, 128, 255, 256, 300, 1000, 10000, 32767, 32768, 65535]) if rng.chance(1, 2) else rng.below(hi)
        if v < hi and v not in seen:
            seen.append(v)
    return seen


def opt32(rng):
    return rng.bytes(32).hex() if rng.chance(3, 4) else "none"


# one generator per helper; all arguments of a case are pairwise distinct so that a transposition changes the result
HELPERS = {
    "StandardArgs": lambda r: [r.bytes(32).hex()],
    "EverythingWithSignatureTailArgs": lambda r: [r.bytes(32).hex()],
    "GenesisByCoinIdTailArgs": lambda r: [r.bytes(32).hex()],
    "CatArgs": lambda r: [r.bytes(32).hex()] + distinct_trees(r, 1),
    "SingletonArgs": lambda r: [r.bytes(32).hex()] + distinct_trees(r, 1),
    "DidArgs": lambda r: (lambda t: [t[0], opt32(r), str(distinct_ints(r, 1, 1 << 40)[0]), r.bytes(32).hex(), r.bytes(32).hex(),
                                     r.bytes(32).hex(), t[1]])(distinct_trees(r, 2)),
    "NftIntermediateLauncherArgs": lambda r: [str(v) for v in distinct_ints(r, 2, 1 << 20)],
    "NftStateLayerArgs": lambda r: distinct_trees(r, 2),
    "NftOwnershipLayerArgs": lambda r: [opt32(r)] + distinct_trees(r, 2),
    "NftRoyaltyTransferPuzzleArgs": lambda r: [r.bytes(32).hex(), r.bytes(32).hex(), str(distinct_ints(r, 1, 1 << 16)[0])],
}


SMALL_TREES = ["80", "00", "01", "05", "17", "18", "ff0080", "ff8000", "ff0105", "ffff008080"]


def small_mode(rng):
    """a generator context whose choices are zero / small integers (< 24) and trees made of one-byte atoms, so that
    curried arguments go through the small-atom and precomputed-table paths"""
    class R:
        def bytes(self, n):
            return rng.bytes(n)

        def chance(self, a, b):
            return rng.chance(a, b)

        def choice(self, l):
            return rng.choice(l)

        def below(self, n):
            return rng.below(min(n, 24))
    return R()


def helper_lines(rep, rng, per_helper):
    """one block of cases per `pub fn curry_tree_hash` found in the source NOW (translator scan): a helper
    without a generator here is reported, so a new helper cannot stay unchecked"""
    names = sorted(HELPERS)
    try:
        sys.path.insert(0, C.VERIF + "/translator")
        import gen_curryhelpers
        names = sorted(gen_curryhelpers.scan(C.REPO))
    except Exception as e:        # the translator step reports the broken tie; keep checking what we know
        rep.notes.append("curry helper scan failed: %r" % (e,))
    lines = []
    for n in names:
        if n not in HELPERS:
            rep.add_broken("oracle-coverage", "%s::curry_tree_hash" % n, "no thash.ohelper case generator for this helper")
            continue
        for k in range(per_helper):
            small = k < max(2, per_helper // 3)
            lines.append("thash.ohelper %s %s" % (n, " ".join(HELPERS[n](small_mode(rng) if small else rng))))
    return lines

# ------------------------------------------------------------------ the check
def run_side(binary, lines, timeout):
    """C.run_lines cuts the list into consecutive chunks of equal length; the cases are handed over in a fixed
    pseudo-random order so that every chunk gets its share of the few expensive ones (deep chains, long inputs).
    C.run_lines itself re-runs every line of a timed-out chunk alone, with the same limit."""
    order = list(range(len(lines)))
    C.SplitMix64(0x5eed + len(lines)).shuffle(order)
    res = C.run_lines(binary, [lines[i] for i in order], timeout=timeout)
    out = [None] * len(lines)
    for i, o in zip(order, res):
        out[i] = o
    return out


def unchecked(rep, stream, n):
    """cases the machine did not finish in time: recorded in the evidence, never a verdict"""
    u = rep.extra.setdefault("unchecked_timeout", {})
    u[stream] = u.get(stream, 0) + n


def limits(ctx):
    """(per-chunk limit, limit for the confirmation re-run of a single line)"""
    return (900, 600) if ctx["tier"] == "thorough" else (400, 300)


def both(ctx, lines):
    """implementation and model outputs.  A case that one side did not finish within the limit (even when re-run
    alone by C.run_lines) is NOT a disagreement: an overloaded machine must not produce a verdict.  It is marked
    UNCHECKED-TIMEOUT on both sides and counted in the evidence.  Only an asymmetry that persists - the other side
    answered, and the line times out once more when it is re-run alone, nothing else of this check running - is
    reported, as a broken correspondence (at most two lines are re-tried, the shortest first)."""
    rep = ctx["rep"]
    timeout, confirm = limits(ctx)
    impl = run_side(C.VH(UNIT), lines, timeout)
    model = run_side(C.VRUN(UNIT), lines, timeout) if ctx["have_model"] else None
    if model is None:
        for i, o in enumerate(impl):
            if o == "TIMEOUT":
                impl[i] = "UNCHECKED-TIMEOUT"
        return impl, None
    stream = lines[0].split(" ")[0] if lines else "?"
    for side, mine, other, binary in (("model", model, impl, C.VRUN(UNIT)), ("implementation", impl, model, C.VH(UNIT))):
        late = sorted([i for i in range(len(lines)) if mine[i] == "TIMEOUT" and other[i] != "TIMEOUT"],
                      key=lambda i: len(lines[i]))
        for i in late[:2]:
            again = C.run_lines(binary, [lines[i]], timeout=confirm)[0]
            if again == "TIMEOUT":
                rep.add_broken("correspondence", "%s (%s does not finish)" % (stream, side),
                               json.dumps({"case": lines[i][:3000], "other_side_answered": other[i][:200],
                                           "limit_s_alone": confirm, "lines_affected": len(late)}))
                break
            mine[i] = again
    late = [i for i in range(len(lines)) if impl[i] == "TIMEOUT" or model[i] == "TIMEOUT"]
    if late:
        unchecked(rep, stream, len(late))
        for i in late:
            impl[i] = model[i] = "UNCHECKED-TIMEOUT"
    return impl, model


def impl_only(ctx, lines):
    """implementation-level oracle ops: a timeout is unchecked, not a failure"""
    out = run_side(C.VH(UNIT), lines, limits(ctx)[0])
    n = out.count("TIMEOUT")
    if n:
        unchecked(ctx["rep"], lines[0].split(" ")[0], n)
    return ["UNCHECKED-TIMEOUT" if o == "TIMEOUT" else o for o in out]


def bucket(n):
    return n.bit_length()


def run(ctx):
    rep, tier = ctx["rep"], ctx["tier"]
    rng = C.SplitMix64(ctx["seed"])
    thorough = tier == "thorough"

    if ctx.get("replay"):
        f = json.load(open(ctx["replay"]))
        fi = f.get("failing_input")
        if not fi:
            return
        line = fi["case"]
        name = line.split(" ")[0]
        if name in ("thash.oracle", "thash.ocurry", "thash.ohelper"):
            out = C.run_lines(C.VH(UNIT), [line])[0]
            if not out.startswith("OK"):
                rep.add_failure(name, line, out, "OK", "implementation-level oracle: a routine disagrees with the independent tree hash")
            return
        impl, model = both(ctx, [line])
        if model is not None and name == "thash.seq":
            diff_seq(rep, [line], impl, model, None)
        elif model is not None:
            diff_stream(rep, name, [line], impl, model)
        if name == "thash.seq":
            check_seq_oracle(rep, name, line, impl[0])
        elif name in ("thash.fb", "thash.fbo"):
            w = expect_fb(line)
            if impl[0] != w:
                rep.add_failure(name + "/oracle", line, impl[0], w, "tree_hash_from_bytes differs from the Python reference")
        return

    # ---------------- stream thash.seq (+ oracle ops on the same scripts)
    r1 = rng.fork("seq")
    scripts = []
    # finite part: every small value in all three atom forms, alone and under a pair, plain and cached
    vals = sorted(set(SMALL_POOL) | {(1 << k) + d for k in range(27) for d in (-1, 0, 1) if 0 <= (1 << k) + d < (1 << 26)})
    for v in vals:
        s = Script()
        a, b, c = s.small(v), s.atom(canon(v)), s.batom(canon(v))
        p = s.pair(a, b)
        q = s.pair(p, c)
        for k in (a, b, c, q):
            s.op("H", k)
            s.op("C", k)
        s.op("G", q)
        s.op("C", q)
        s.op("G", q)
        scripts.append((s, "small-atoms", {"H", "C", "G"}))
    n_rand = 160 if not thorough else 700
    for _ in range(n_rand):
        s, shape, used, _ = gen_script(r1, tier, hlimit=600 if not thorough else 2000)
        scripts.append((s, shape, used))
    lines = [s.line() for s, _, _ in scripts]
    impl, model = both(ctx, lines)
    meta = {l: (shape, used, max(s.size) if s.size else 0) for l, (s, shape, used) in zip(lines, scripts)}

    def key_seq(c, i):
        shape, used, mx = meta[c]
        return (shape, bucket(mx), "".join(sorted(used)), "hit" if any(len(x) == 64 for x in i.split(" ")[-3:]) else "")
    if model is not None:
        diff_seq(rep, lines, impl, model, key_seq)
    else:
        rep.evaluations += len(lines)
    for l, o in zip(lines, impl):
        check_seq_oracle(rep, "thash.seq", l, o)
    shapes = {}
    for _, shape, _ in scripts:
        shapes[shape] = shapes.get(shape, 0) + 1
    rep.streams.setdefault("thash.seq", {}).update({"shapes": shapes, "oracle_checked": len(lines),
                                                    "max_expanded_size_log2": max(bucket(m[2]) for m in meta.values())})

    olines = [s.line("thash.oracle") for s, _, _ in scripts]
    # finite part of the oracle only (no model cost): EVERY one-byte atom 0x00..0xff, the empty atom and two-byte atoms
    # with a leading zero, in new_atom and byte-heap form, alone, as list elements and under pairs.  The oracle op hashes
    # each node with every routine AND through the hash-only encoder (TreeHasher / ToTreeHash) against the reference
    for lo in range(0, 256, 32):
        sc = Script()
        ids = [sc.atom(b"")] + [sc.atom(bytes([v])) for v in range(lo, lo + 32)] + [sc.batom(bytes([v])) for v in range(lo, lo + 32)]
        ids += [sc.atom(bytes([0, v])) for v in (0, 1, 0x17, 0x18, 0x7f, 0x80, 0xff) if lo == 0]
        lst = sc.small(0)
        for i in reversed(ids):
            lst = sc.pair(i, lst)
        sc.pair(ids[1], ids[2])
        olines.append(sc.line("thash.oracle"))
    oout = impl_only(ctx, olines)
    for l, o in zip(olines, oout):
        if not o.startswith("OK") and o != "UNCHECKED-TIMEOUT":
            rep.add_failure("thash.oracle", l, o, "OK", "implementation-level oracle: a routine disagrees with the independent tree hash")
    rep.streams["thash.oracle"] = {"cases": len(olines), "routine_checks": sum(int(o.split(" ")[1]) for o in oout if o.startswith("OK "))}
    rep.evaluations += len(olines)

    # ---------------- stream thash.fb
    r2 = rng.fork("fb")
    fb = []      # (line, kind)
    ser_scripts = [s for s, shape, _ in scripts if s.ispair and s.ispair[-1]][: (150 if not thorough else 700)]
    for extra_shape in ("doubling", "spends", "random", "deep_r"):
        for _ in range(6 if not thorough else 60):
            s = Script()
            build_shape(s, r2, extra_shape, 4 + r2.below(40))
            ser_scripts.append(s)
    slines = []
    for s in ser_scripts:
        # serialize the last created node: strip the ops, keep the allocations
        toks = [t for t in s.toks if t[0] in "sabp"]
        slines.append("thash.ser " + " ".join(toks))
    souts = impl_only(ctx, slines)
    for s, so in zip(ser_scripts, souts):
        parts = so.split(" ")
        if so == "UNCHECKED-TIMEOUT":
            continue
        if len(parts) != 2:
            rep.add_broken("harness", "thash.ser", so)
            continue
        want = s.want[-1].hex()
        plain_limit = 600 if not thorough else 2000
        if parts[0] != "-" and s.size[-1] <= plain_limit:
            fb.append(("thash.fb " + parts[0], "clvmr-plain", want))
        fb.append(("thash.fb " + parts[1], "clvmr-backrefs", want))
    for _ in range(250 if not thorough else 2000):
        bs = gen_br_stream(r2, 3 + r2.below(60), bad_paths=r2.chance(1, 3))
        fb.append(("thash.fb " + hexo(bs), "py-backrefs", None))
        if r2.chance(1, 3) and len(bs) > 1:
            k = r2.below(3)
            if k == 0:
                m = bs[: r2.below(len(bs))]
            elif k == 1:
                i = r2.below(len(bs))
                m = bs[:i] + bytes([r2.choice([0xfe, 0xff, 0x80, 0x00, 0x01, 0xfd, 0xbf, r2.below(256)])]) + bs[i + 1:]
            else:
                i = r2.below(len(bs))
                m = bs[:i] + bytes([r2.choice([0xfe, 0xff, 0xfe])]) + bs[i:]
            fb.append(("thash.fb " + hexo(m), "mutated", None))
    for _ in range(40 if not thorough else 600):
        fb.append(("thash.fb " + hexo(plain_ser_tree(r2, 2 + r2.below(6))), "py-plain", None))
    for bs in (b"", b"\xff", b"\xfe", b"\xfe\x01", b"\xfe\x00", b"\xfe\x80", b"\xff\x01\xfe\x01", b"\xff\x01\xfe\x02", b"\xff\x01\xfe\x03",
               b"\xff\x01\xfe\x04", b"\xff\xfe\x01\x00", b"\xfe\xfe", b"\xfe\xff", b"\xfd", b"\xfc\x00\x00\x00\x00\x01\x00",
               b"\xff\xff\x01\x02\xfe\x02", b"\xff\xff\x01\x02\xfe\x06", b"\xff\xff\x01\x02\xfe\x82\x00\x02", b"\x81", b"\xbf" + b"\x00" * 62):
        fb.append(("thash.fb " + hexo(bs), "corner", None))
    flines = [x[0] for x in fb]
    kinds = {x[0]: x[1] for x in fb}
    impl, model = both(ctx, flines)

    def key_fb(c, i):
        return (kinds[c], "ERR" if i == "ERR" else "ok", bucket(len(c) // 2))
    if model is not None:
        diff_stream(rep, "thash.fb", flines, impl, model, key_fb)
    else:
        rep.evaluations += len(flines)
    verdicts = {}
    for (l, kind, want), o in zip(fb, impl):
        w = want if want is not None else expect_fb(l)
        verdicts[(kind, "ERR" if o == "ERR" else "ok")] = verdicts.get((kind, "ERR" if o == "ERR" else "ok"), 0) + 1
        if o != w and o != "UNCHECKED-TIMEOUT":
            rep.add_failure("thash.fb/oracle", l, o, w,
                            "tree_hash_from_bytes differs from the reference tree hash of the deserialized tree (Python oracle)")
    rep.streams.setdefault("thash.fb", {}).update({"verdicts": {"%s:%s" % k: v for k, v in sorted(verdicts.items())},
                                                   "oracle_checked": len(fb)})
    # the older cons-list deserializer on every input that contains a back-reference marker
    olds = ["thash.fbo" + l[len("thash.fb"):] for l, kind, _ in fb if kind != "clvmr-plain" and "fe" in l]
    impl_o, model_o = both(ctx, olds)
    if model_o is not None:
        diff_stream(rep, "thash.fbo", olds, impl_o, model_o, lambda c, i: ("ERR" if i == "ERR" else "ok", bucket(len(c) // 2)))
    new_by_line = {l: o for (l, _, _), o in zip(fb, impl)}
    for l, o in zip(olds, impl_o):
        if "UNCHECKED-TIMEOUT" not in (o, new_by_line["thash.fb" + l[len("thash.fbo"):]]) and o != new_by_line["thash.fb" + l[len("thash.fbo"):]]:
            rep.add_failure("thash.fbo/oracle", l, o, new_by_line["thash.fb" + l[len("thash.fbo"):]],
                            "the two back-reference deserializers of clvmr lead to different tree hashes")

    # ---------------- stream thash.curry (+ oracle on real curried programs)
    r3 = rng.fork("curry")
    clines = []
    for n in list(range(0, 8)) + [r3.below(24) for _ in range(16 if not thorough else 300)]:
        hs = [r3.bytes(32) if r3.chance(3, 4) else h_atom(canon(r3.choice(SMALL_POOL))) for _ in range(n + 1)]
        clines.append("thash.curry " + " ".join(h.hex() for h in hs))
    impl, model = both(ctx, clines)
    if model is not None:
        diff_stream(rep, "thash.curry", clines, impl, model, lambda c, i: ("nargs", len(c.split(" ")) - 2))
    for l, o in zip(clines, impl):
        hs = [bytes.fromhex(x) for x in l.split(" ")[1:]]
        acc = h_atom(b"\x01")
        for a in reversed(hs[1:]):
            acc = h_pair(h_atom(b"\x04"), h_pair(h_pair(h_atom(b"\x01"), a), h_pair(acc, h_atom(b""))))
        w = h_pair(h_atom(b"\x02"), h_pair(h_pair(h_atom(b"\x01"), hs[0]), h_pair(acc, h_atom(b"")))).hex()
        if o != w and o != "UNCHECKED-TIMEOUT":
            rep.add_failure("thash.curry/oracle", l, o, w, "curry_tree_hash differs from the hash of the curried program structure (Python oracle)")
    cd = []
    for _ in range(40 if not thorough else 600):
        n = r3.choice([0, 1, 2, 3, 3, 4, 6])
        cd.append("thash.curried " + " ".join(plain_ser_tree(r3, r3.below(4)).hex() for _ in range(n + 1)))
    impl, model = both(ctx, cd)
    if model is not None:
        diff_stream(rep, "thash.curried", cd, impl, model, lambda c, i: ("nargs", len(c.split(" ")) - 2, bucket(len(i))))
    oc = []
    for _ in range(60 if not thorough else 1200):
        s = Script()
        shape = r3.choice(["random", "balanced", "deep_r", "atoms", "spends"])
        build_shape(s, r3, shape, 3 + r3.below(25))
        nargs = r3.choice([0, 1, 2, 3, 4, 5, 7, 12])
        idx = [r3.below(s.n()) for _ in range(nargs + 1)]
        if any(s.size[i] > 5000 for i in idx):
            continue
        toks = [t for t in s.toks if t[0] in "sabp"]
        oc.append("thash.ocurry " + " ".join(toks) + " | " + " ".join(str(i) for i in idx))
    sc = Script()
    vals = [sc.atom(b"\x00"), sc.batom(b"\x00"), sc.atom(b""), sc.atom(b"\x00\x00"), sc.atom(b"\x00\x17"), sc.small(0), sc.small(1),
            sc.small(5), sc.small(23), sc.small(24), sc.atom(b"\x17"), sc.batom(b"\x05"), sc.atom(b"\x80"), sc.atom(r3.bytes(32))]
    pr = sc.pair(vals[0], vals[5])
    toks = " ".join(sc.toks)
    for prog, args in ((vals[6], [vals[0]]), (vals[0], [vals[7]]), (pr, [vals[1], vals[2], vals[3]]), (vals[6], vals[:5]),
                       (vals[13], vals), (vals[9], [pr, vals[0], pr, vals[8]]), (vals[6], [])):
        oc.append("thash.ocurry %s | %s" % (toks, " ".join(str(i) for i in [prog] + list(args))))
    oo = impl_only(ctx, oc)
    for l, o in zip(oc, oo):
        if o != "OK" and o != "UNCHECKED-TIMEOUT":
            rep.add_failure("thash.ocurry", l, o, "OK", "implementation-level oracle: hash of the real curried program differs")
    rep.streams["thash.ocurry"] = {"cases": len(oc)}
    rep.evaluations += len(oc)

    # ---------------- oracle thash.ohelper: every X::curry_tree_hash against the actual curried program
    hl = helper_lines(rep, rng.fork("helpers"), 6 if not thorough else 60)
    ho = impl_only(ctx, hl)
    for l, o in zip(hl, ho):
        if o != "OK" and o != "UNCHECKED-TIMEOUT":
            rep.add_failure("thash.ohelper", l, o, "OK",
                            "a hash-only currying helper differs from the tree hash of the actual curried program "
                            "(real module, args = X::new(same arguments))")
        rep.nontrivial.add(("thash.ohelper", l.split(" ")[1]))
    rep.streams["thash.ohelper"] = {"cases": len(hl), "helpers": sorted(set(l.split(" ")[1] for l in hl))}
    rep.evaluations += len(hl)

    # ---------------- stream thash.ff
    r4 = rng.fork("ff")
    modhash = C.run_lines(C.VH(UNIT), ["thash.modhash"])[0]
    fl = []
    for _ in range(30 if not thorough else 400):
        inner = plain_ser_tree(r4, r4.below(6))
        fl.append("thash.ff %s %s %s %s" % (modhash, r4.bytes(32).hex(), r4.bytes(32).hex(), inner.hex()))
    impl, model = both(ctx, fl)
    if model is not None:
        diff_stream(rep, "thash.ff", fl, impl, model, lambda c, i: ("inner-len", bucket(len(c.split(" ")[4]) // 2), i[:6] == "REJECT"))
    for l, o in zip(fl, impl):
        if o.startswith("REJECT"):
            rep.add_failure("thash.ff/oracle", l, o, "accept",
                            "fast_forward_singleton rejects a consistent singleton spend: curry_and_treehash differs from the tree hash of the curried puzzle")
