"""C13 — wire encoding is a canonical bijection consistent with hashing.

Model = coq/Run/WireRun.v over Stream/{Universe,Versioned,Codec}.v + Gen/StreamTypes.v (type descriptors
translated from /repo on this run); implementation = harness vh_wire (real to_bytes / from_bytes /
from_bytes_unchecked / hash / parse of every type of the generated dispatch table).

Streams
  wire.valid   per type: generated well-formed values, encoded by an independent Python reference encoder;
               `wire.rt` on both sides (untrusted value, trusted value, bytes consumed, re-encoding, hash)
  wire.mut     the same encodings perturbed at every Option / bool / enum / version / two-option prefix, every
               length field (+-1, 0, 2^31, 2^32-1), BLS flag bits, CLVM head bytes, truncated, with trailing bytes
  wire.enc     values given as text (`wire.enc`): well-formed ones and ill-formed ones (v1 proof with v2 fields,
               both/neither pool key, version >= 2, buffer with version 0, ...): to_bytes, hash, decode(encode v)=v
  wire.golden  pinned vectors (corpus/C13/golden.jsonl): bytes -> field-name/value map and hash must not change
Oracles (implementation only): `wire.orc` evaluates the property on the real code (trusted superset of
untrusted, re-encode identity, decode(encode)=v, hash = SHA-256(encoding) / commitment variant for v2 proofs);
the Python reference encoder + hashlib give the expected bytes, values and hashes for the valid stream."""
import os, sys, json, hashlib
sys.path.insert(0, os.path.dirname(os.path.dirname(os.path.abspath(__file__))))
import common as C
from run import diff_stream
from props import wire_common as W

UNIT = "wire"
GEN = ["streamtypes"]
RULE = ("per type of the translated table (147): N generated well-formed values (boundary-heavy integers, empty/short/"
        "long byte strings, every Option/two-option/version combination, valid + infinity BLS points, CLVM programs incl. "
        "non-minimal size prefixes and back references, v1/v2 proofs of space incl. the repository's quality-string vectors) "
        "and single-point mutations of their encodings at every structural byte, truncations, trailing bytes; "
        "distinct non-trivial = distinct (type, stream, mutation kind, outcome class) tuples where outcome class is "
        "accepted / trusted-only / rejected")
ASSUMPTIONS = ["BLS point decompression and subgroup membership (blst), the CLVM serialized length (clvmr) and the "
               "v2 quality string (chia-pos2) are oracles: the implementation's own answers are handed to the model",
               "Gallina SHA-256 equals the real one (every hash in the stream is compared)",
               "values with Vec/Bytes lengths >= 2^32 are covered by the theorems only (not executable)"]
TRUSTED = ["Python reference encoder and generator in driver/props/wire_common.py", "hashlib.sha256"]

GOLDEN = C.VERIF + "/corpus/C13/golden.jsonl"
W_D = [None]      # the type description of this run (set in run)


def outcome(tok):
    if tok.get("U", "E") != "E":
        return "accepted"
    if tok.get("T", "E") != "E":
        return "trusted-only"
    return "rejected"


def gen_valid(D, G, rng, per_type):
    cases = []
    for n in D.names():
        d = D.top[n]
        for i in range(per_type):
            v = G.value(d)
            bs, marks = W.encode(D, d, v)
            cases.append({"type": n, "value": v, "bytes": bs, "marks": marks, "v2": W.contains_v2(D, d, v)})
    return cases


def ill_formed_values(D, G, rng):
    """(type, value, expectation) for values that must not round trip / must not encode"""
    out = []
    P = G.P
    g1 = P.g1[1] if len(P.g1) > 1 else W.INF1
    base0 = [b"\x11" * 32, ("some", g1), None, g1, 0, 0, 0, 0, 32, b"\x01\x02"]
    base1 = [b"\x11" * 32, ("some", g1), None, g1, 1, 7, 3, 2, 0, b"\x01\x02"]

    def mod(b, i, x):
        c = list(b)
        c[i] = x
        return c
    pos = [("v1-with-plot-index", mod(base0, 5, 9), "NRT"), ("v1-with-meta-group", mod(base0, 6, 1), "NRT"),
           ("v1-with-strength", mod(base0, 7, 1), "NRT"), ("v2-with-size", mod(base1, 8, 5), "NRT"),
           ("v2-both", mod(base1, 2, ("some", b"\x22" * 32)), "NRT"), ("v2-neither", mod(base1, 1, None), "NRT"),
           ("version2", mod(base0, 4, 2), "NOENC"), ("version255", mod(base0, 4, 255), "NOENC")]
    for tag, v, exp in pos:
        out.append(("ProofOfSpace", v, exp, tag))
    for n in ("FullBlock", "UnfinishedBlock"):
        if n not in D.types:
            continue
        d = D.top[n]
        for tag, tail, exp in (("v0-with-buffer", [None, [1], ("some", [1, 2]), 0], "NRT"),
                               ("v1-with-generator", [("some", b"\x80"), [], None, 1], "NRT"),
                               ("v1-with-refs", [None, [5], None, 1], "NRT"),
                               ("version2", [None, [], None, 2], "NOENC"), ("version200", [None, [], None, 200], "NOENC")):
            v = G.value(d)
            v = v[:-4] + tail
            out.append((n, v, exp, tag))
    if P.bad1:
        out.append(("G1Element", P.bad1[0], "TRUSTED-ONLY", "g1-not-in-subgroup"))
    if P.bad2:
        out.append(("G2Element", P.bad2[0], "TRUSTED-ONLY", "g2-not-in-subgroup"))
    return [x for x in out if x[1] is not None]


def run(ctx):
    rep, tier = ctx["rep"], ctx["tier"]
    rng = C.SplitMix64(ctx["seed"])
    have_model = ctx["have_model"]
    D = W.Descs()
    W_D[0] = D
    rep.extra["types_from_snapshot"] = D.broken is not None
    rep.extra["snapshot_stale"] = D.snapshot_stale
    cache = W.OracleCache()

    # the model and the harness must enumerate the identical type list (both generated from one parse)
    ti = C.run_lines(C.VH(UNIT), ["wire.types"], shards=1)[0].split(",")
    tm = C.run_lines(C.VRUN(UNIT), ["wire.types"], shards=1)[0].split(",") if have_model else ti
    if ti != tm or ti != D.names():
        rep.add_broken("type-table", "wire.types", "model, harness and translator enumerate different type lists: %r" %
                       sorted(set(ti) ^ set(tm) ^ set(D.names()))[:10])
    rep.extra["types"] = len(ti)

    if ctx.get("replay"):
        f = json.load(open(ctx["replay"]))
        line = f["failing_input"]["case"]
        return replay(ctx, rep, D, cache, line)

    P = W.Pools()
    G = W.Gen(D, P, rng.fork("gen"))
    per_type = 6 if tier == "quick" else 60
    mut_values = 2 if tier == "quick" else 12
    mut_limit = 16 if tier == "quick" else 60

    # ---------------- wire.valid
    valid = gen_valid(D, G, rng, per_type)
    run_rt(rep, cache, have_model, "wire.valid", [(c["type"], c["bytes"], "valid") for c in valid], valid, quality=P.v2_quality)

    # ---------------- wire.mut
    mrng = rng.fork("mut")
    muts = []
    seen_per_type = {}
    for c in valid:
        k = seen_per_type.get(c["type"], 0)
        if k >= mut_values or not c["bytes"]:
            continue
        seen_per_type[c["type"]] = k + 1
        for kind, bs in W.mutations(c["bytes"], c["marks"], mrng, mut_limit):
            muts.append((c["type"], bs, kind))
    # a few random byte strings per type
    for n in D.names():
        for ln in (0, 1, 7, 40):
            muts.append((n, mrng.bytes(ln), "random"))
    run_rt(rep, cache, have_model, "wire.mut", muts, None)

    # ---------------- wire.enc
    erng = rng.fork("enc")
    G2 = W.Gen(D, P, erng)
    enc_cases = []
    for n in D.names():
        for i in range(2 if tier == "quick" else 10):
            v = G2.value(D.top[n])
            enc_cases.append((n, v, "RT", "well-formed"))
    enc_cases += ill_formed_values(D, G2, erng)
    run_enc(rep, cache, have_model, enc_cases, D)

    # ---------------- wire.prefix: every value of every hand-written prefix byte
    run_rt(rep, cache, have_model, "wire.prefix", prefix_sweep(D, W.Gen(D, P, rng.fork("prefix")), tier), None)

    # ---------------- wire.v2: the repository's valid v2 proofs (quality-string-tests), hash against the reference
    v2 = v2_vector_cases(D, W.Gen(D, P, rng.fork("v2")), P)
    run_rt(rep, cache, have_model, "wire.v2", [(c["type"], c["bytes"], "v2-vector") for c in v2], v2, quality=P.v2_quality)
    if not v2:
        rep.add_broken("corpus", "quality-string-tests", "no valid v2 proof-of-space vectors found under crates/chia-protocol/quality-string-tests")

    # ---------------- wire.golden
    run_golden(rep, D)


BOUNDARY_BYTES = [0, 1, 2, 3, 4, 5, 6, 7, 8, 0x10, 0x20, 0x40, 0x7f, 0x80, 0x81, 0x82, 0x83, 0x84, 0xfc, 0xfd, 0xfe, 0xff]


def prefix_sweep(D, G, tier):
    """all 256 values at the hand-written prefix bytes (two-option helper of utils.rs, version-packed Option prefixes
    of ProofOfSpace / FullBlock / UnfinishedBlock), for a value of every prefix combination"""
    cases = []
    for n in W.prefix_types(D):
        is_pos = D.types[n]["name"] == "ProofOfSpace"
        for ci, (tag, v) in enumerate(W.prefix_combo_values(D, G, n)):
            bs, marks = W.encode(D, D.top[n], v)
            own_kind = "version" if (is_pos or any(fd[0] == "GenTail" for _, fd in D.types[n]["wire"] or [])) else "opt2"
            cand = [m for m in marks if m[1] in ("opt2", "version")]
            own = [m for m in cand if m[1] == own_kind][-1:]
            sites = cand if tier != "quick" else own
            small = len(bs) < 600
            for off, kind, _, _ in sites:
                full = tier != "quick" or small or ci == 0
                for b in (range(256) if full else BOUNDARY_BYTES):
                    if b == bs[off]:
                        continue
                    m = bytearray(bs)
                    m[off] = b
                    cases.append((n, bytes(m), "%s:%s" % (kind, tag)))
            cases.append((n, bs, "%s:unchanged" % tag))
    return cases


def v2_vector_cases(D, G, P):
    out = []
    for v in P.v2:
        out.append({"type": "ProofOfSpace", "value": list(v), "v2": True})
        for n, idx in (("RewardChainBlockUnfinished", 3), ("RewardChainBlock", 5)):
            if n in D.top:
                w = G.value(D.top[n])
                w[idx] = list(v)
                out.append({"type": n, "value": w, "v2": True})
    for c in out:
        c["bytes"], c["marks"] = W.encode(D, D.top[c["type"]], c["value"])
    return out


def run_rt(rep, cache, have_model, stream, cases, valid_meta, quality=None):
    """cases: [(type, bytes, kind)]"""
    need = ["wire.need %s b %s" % (t, bs.hex() or "-") for t, bs, _ in cases]
    tabs = W.with_oracles(cache, need, have_model)
    lines = ["wire.rt %s %s %s" % (t, bs.hex() or "-", tab) for (t, bs, _), tab in zip(cases, tabs)]
    impl = C.run_lines(C.VH(UNIT), lines)
    model = C.run_lines(C.VRUN(UNIT), lines) if have_model else None
    kinds = {l: k for l, (_, _, k) in zip(lines, cases)}

    def key(c, i):
        toks = c.split(" ")
        return (toks[1], kinds.get(c, "").split(":")[0], outcome(W.tokens(i)))
    if have_model:
        diff_stream(rep, stream, lines, impl, model, key)
    else:
        rep.evaluations += len(lines)
    st = rep.streams.setdefault(stream, {})
    hist = {}
    for i in impl:
        o = outcome(W.tokens(i)) if not i.startswith(("PANIC", "CRASH", "TIMEOUT", "ERR")) else i.split(" ")[0]
        hist[o] = hist.get(o, 0) + 1
    st["outcomes"] = hist
    st["bytes_total"] = sum(len(bs) for _, bs, _ in cases)
    # implementation-level oracle: the property itself on the real code
    olines = ["wire.orc %s %s" % (t, bs.hex() or "-") for t, bs, _ in cases]
    oo = C.run_lines(C.VH(UNIT), olines)
    for l, o, c in zip(olines, oo, cases):
        if not o.startswith("OK"):
            rep.add_failure(stream + "/oracle", l, o, "OK", "the implementation violates the property on this input (%s)" % c[2])
    st["oracle_checked"] = len(olines)
    # python reference: expected bytes / value / hash for generated valid values
    if valid_meta:
        for c, l, i in zip(valid_meta, lines, impl):
            tok = W.tokens(i)
            want_v = W.vtext(c["value"])
            if tok.get("U") != want_v or tok.get("T") != want_v:
                rep.add_failure(stream + "/reference", l, i, "U:%s T:%s" % (want_v, want_v),
                                "a generated well-formed value does not decode to itself from its reference encoding")
                continue
            if tok.get("B") != (c["bytes"].hex() or "-") or tok.get("P") != str(len(c["bytes"])):
                rep.add_failure(stream + "/reference", l, i, "B:%s P:%d" % (c["bytes"].hex(), len(c["bytes"])),
                                "re-encoding or consumed length differs from the reference encoding")
                continue
            h = hashlib.sha256(c["bytes"]).hexdigest()
            if not c["v2"] and tok.get("H") != h:
                rep.add_failure(stream + "/reference", l, i, "H:" + h, "streaming hash differs from SHA-256 of the encoding")
            elif c["v2"] and quality is not None:
                # v2 proofs: SHA-256 of the encoding with the proof replaced by its quality string (from the vector files)
                hq = W.reference_hash(W_D[0], W_D[0].top[c["type"]], c["value"], quality)
                if hq is not None and tok.get("H") != hq:
                    rep.add_failure(stream + "/reference", l, i, "H:" + hq,
                                    "streaming hash of a valid v2 proof of space differs from SHA-256 of the encoding with the proof "
                                    "replaced by its quality-string commitment")
        st["reference_checked"] = len(valid_meta)


def run_enc(rep, cache, have_model, enc_cases, D):
    stream = "wire.enc"
    need = ["wire.need %s v %s" % (t, W.vtext(v)) for t, v, _, _ in enc_cases]
    tabs = W.with_oracles(cache, need, have_model)
    lines = ["wire.enc %s %s %s" % (t, W.vtext(v), tab) for (t, v, _, _), tab in zip(enc_cases, tabs)]
    impl = C.run_lines(C.VH(UNIT), lines)
    tags = {l: c[3] for l, c in zip(lines, enc_cases)}

    def key(c, i):
        return (c.split(" ")[1], tags.get(c), i.split(" R:")[-1] if " R:" in i else i)
    if have_model:
        model = C.run_lines(C.VRUN(UNIT), lines)
        diff_stream(rep, stream, lines, impl, model, key)
    else:
        rep.evaluations += len(lines)
    olines = ["wire.orcv %s %s" % (t, W.vtext(v)) for t, v, _, _ in enc_cases]
    oo = C.run_lines(C.VH(UNIT), olines)
    for l, o, c, i in zip(olines, oo, enc_cases, impl):
        exp = c[2]
        tok = W.tokens(i)
        ok = True
        if o.startswith("FAIL") or o.startswith("ERR") or o == "PANIC":
            ok = False
        elif exp == "RT":
            ok = (o == "RT" and tok.get("R") == "1" and tok.get("RT") == "1")
        elif exp == "NRT":
            ok = o.startswith("NRT") or o == "NOENC"       # must not silently round trip to an equal value
        elif exp == "NOENC":
            ok = (o == "NOENC")
        elif exp == "TRUSTED-ONLY":
            ok = (o == "RT" and tok.get("R") == "E" and tok.get("RT") == "1")
        if not ok:
            rep.add_failure(stream + "/oracle", l, o + " | " + i, exp, "value/encoding round trip expectation violated (%s)" % c[3])
    rep.streams.setdefault(stream, {})["oracle_checked"] = len(olines)


def golden_lines(D):
    out = []
    if os.path.exists(GOLDEN):
        for l in open(GOLDEN):
            l = l.strip()
            if l:
                out.append(json.loads(l))
    return out


def run_golden(rep, D):
    gold = golden_lines(D)
    st = rep.streams.setdefault("wire.golden", {"cases": 0})
    if not gold:
        rep.add_broken("corpus", "corpus/C13/golden.jsonl", "pinned vectors missing")
        return
    names = sorted(set(g["type"] for g in gold))
    fl = C.run_lines(C.VH(UNIT), ["wire.fields %s" % n for n in names])
    fields = {n: ([] if f == "-" else f.split(",")) for n, f in zip(names, fl)}
    lines = ["wire.rt %s %s -" % (g["type"], g["hex"] or "-") for g in gold]
    impl = C.run_lines(C.VH(UNIT), lines)
    for g, l, i in zip(gold, lines, impl):
        tok = W.tokens(i)
        got = None
        t = tok.get("T", "E")
        if t != "E" and fields.get(g["type"]):
            try:
                got = dict(zip(fields[g["type"]], W.split_top(t)))
            except AssertionError:
                got = None
        elif t != "E":
            got = {"": t}
        want = g["fields"]
        if got != want or tok.get("H") != g["hash"] or tok.get("B") != (g["hex"] or "-"):
            diff = [k for k in set(list((got or {}).keys()) + list(want.keys())) if (got or {}).get(k) != want.get(k)]
            rep.add_failure("wire.golden", l, i[:2000], json.dumps({"fields": want, "hash": g["hash"]})[:2000],
                            "a pinned encoding no longer decodes to its pinned field values / hash (fields that differ: %s)" % sorted(diff)[:6])
    st["cases"] = len(gold)
    rep.evaluations += len(gold)
    rep.traces += len(gold)


def regen_golden(seed=20260923):
    """write corpus/C13/golden.jsonl from the CURRENT tree (run once on the pinned tree; reviewed by hand)"""
    D = W.Descs()
    P = W.Pools()
    G = W.Gen(D, P, C.SplitMix64(seed))
    rows = []
    for n in D.names():
        for i in range(2):
            v = G.value(D.top[n])
            bs, _ = W.encode(D, D.top[n], v)
            rows.append((n, bs))
    names = D.names()
    fl = C.run_lines(C.VH(UNIT), ["wire.fields %s" % n for n in names])
    fields = {n: ([] if f == "-" else f.split(",")) for n, f in zip(names, fl)}
    lines = ["wire.rt %s %s -" % (n, bs.hex() or "-") for n, bs in rows]
    impl = C.run_lines(C.VH(UNIT), lines)
    os.makedirs(os.path.dirname(GOLDEN), exist_ok=True)
    with open(GOLDEN, "w") as f:
        for (n, bs), i in zip(rows, impl):
            tok = W.tokens(i)
            t = tok["T"]
            assert t != "E", (n, bs.hex())
            fm = dict(zip(fields[n], W.split_top(t))) if fields[n] else {"": t}
            if tok["H"] == "PANIC":
                continue
            f.write(json.dumps({"type": n, "hex": bs.hex(), "fields": fm, "hash": tok["H"]}, sort_keys=True) + "\n")
    return len(rows)


def replay(ctx, rep, D, cache, line):
    toks = line.split(" ")
    op = toks[0]
    if op in ("wire.orc", "wire.orcv", "wire.fields"):
        o = C.run_lines(C.VH(UNIT), [line], shards=1)[0]
        if not (o.startswith("OK") or o in ("RT",)):
            rep.add_failure("replay/oracle", line, o, "OK", "replayed oracle case still fails")
        return
    if op == "wire.rt" and len(toks) >= 3:
        need = ["wire.need %s b %s" % (toks[1], toks[2])]
    elif op == "wire.enc":
        need = ["wire.need %s v %s" % (toks[1], toks[2])]
    else:
        need = None
    if need and ctx["have_model"]:
        tab = W.with_oracles(cache, need, True)[0]
        line = " ".join(toks[:3] + [tab])
    impl = C.run_lines(C.VH(UNIT), [line], shards=1)
    model = C.run_lines(C.VRUN(UNIT), [line], shards=1) if ctx["have_model"] else impl
    diff_stream(rep, "replay", [line], impl, model)
    if op == "wire.rt":
        o = C.run_lines(C.VH(UNIT), ["wire.orc %s %s" % (toks[1], toks[2])], shards=1)[0]
        if not o.startswith("OK"):
            rep.add_failure("replay/oracle", line, o, "OK", "the implementation violates the property on this input")
        # pinned vectors
        for g in golden_lines(D):
            if g["type"] == toks[1] and (g["hex"] or "-") == toks[2]:
                rep2 = rep
                run_golden_one(rep2, g)


def run_golden_one(rep, g):
    fl = C.run_lines(C.VH(UNIT), ["wire.fields %s" % g["type"]], shards=1)[0]
    fields = [] if fl == "-" else fl.split(",")
    l = "wire.rt %s %s -" % (g["type"], g["hex"] or "-")
    i = C.run_lines(C.VH(UNIT), [l], shards=1)[0]
    tok = W.tokens(i)
    t = tok.get("T", "E")
    got = (dict(zip(fields, W.split_top(t))) if fields else {"": t}) if t != "E" else None
    if got != g["fields"] or tok.get("H") != g["hash"]:
        rep.add_failure("wire.golden", l, i[:2000], json.dumps(g)[:2000], "a pinned encoding no longer decodes to its pinned field values / hash")


if __name__ == "__main__":
    if len(sys.argv) > 1 and sys.argv[1] == "regen-golden":
        print(regen_golden())
