"""C02 — accepted bundles conserve value and never duplicate coins (entry point parse_spends here;
the generator / bundle entry points re-check the same oracle in units gen and bundle)."""
import os, sys, json, hashlib
sys.path.insert(0, os.path.dirname(os.path.dirname(os.path.abspath(__file__))))
import common as C
import condlib
from condlib import UNIT
from clvm import canon
from run import diff_stream

GEN = ["opcodes", "ladders"]
RULE = ("bundles from the cond grammar weighted to value scenarios (fees, dup, many-spends with amounts near 2^64, "
        "ephemeral, ff, multi); oracle recomputes every invariant on each accepted implementation result with an "
        "independent SHA-256; non-trivial = distinct (scenario, opcode, shape, flags, visitor, verdict) tuples")
ASSUMPTIONS = ["CLVM evaluation and signatures are outside this check (DONT_VALIDATE_SIGNATURE cases dominate)"]
TRUSTED = ["Python invariant oracle in driver/props/C02.py (hashlib)"]


def oracle(line, out):
    """the property, evaluated on an accepted implementation result"""
    d = condlib.parse_ok(out)
    if d is None:
        return None
    sp = d["spend_list"]
    rem = sum(int(s[3]) for s in sp)
    add = 0
    ids = set()
    for s in sp:
        cid, parent, ph, amt = s[0], s[1], s[2], int(s[3])
        if hashlib.sha256(bytes.fromhex(parent) + bytes.fromhex(ph) + canon(amt)).hexdigest() != cid:
            return "coin id of spend %s is not SHA-256(parent, puzzle hash, canonical amount)" % cid
        if cid in ids:
            return "coin id %s spent twice" % cid
        ids.add(cid)
        seen = set()
        if s[13] != "-":
            for c in s[13].split(","):
                cph, camt, _ = c.split(":")
                if (cph, camt) in seen:
                    return "spend %s creates (%s, %s) twice" % (cid, cph, camt)
                seen.add((cph, camt))
                add += int(camt, 16)
    if int(d["rem"]) != rem:
        return "removal_amount %s != sum of spent amounts %d" % (d["rem"], rem)
    if int(d["add"]) != add:
        return "addition_amount %s != sum of created amounts %d" % (d["add"], add)
    if add + int(d["rf"]) > rem:
        return "created %d + reserve fee %s exceeds spent %d" % (add, d["rf"], rem)
    return None


def run(ctx):
    rep, tier = ctx["rep"], ctx["tier"]
    rng = C.SplitMix64(ctx["seed"])
    if ctx.get("replay"):
        line = json.load(open(ctx["replay"]))["failing_input"]["case"]
        impl, model = condlib.run_both([line], ctx["have_model"])
        why = oracle(line, impl[0])
        if why:
            rep.add_failure("cond.value/oracle", line, impl[0], None, why)
        rep.evaluations += 1
        return
    n = 900 if tier == "quick" else 20000
    scen = ["fees", "fees", "dup", "dup", "multi", "ephemeral", "ff", "single", "malformed", "aggsig", "announce"]
    g, cases, consts_hex, valid = condlib.make_cases(rng.fork("cases"), n, scen,
                                                     tweak=lambda c, r: c.__setitem__("flags", c["flags"] | 0x10000), matrix=True)
    # a few very large bundles whose totals exceed 64 bits
    import condgen
    big = []
    for k in range(2 if tier == "quick" else 12):
        spends = g.sc_many(300 if tier == "quick" else 3000)
        c = {"tree": g.bundle_tree(spends), "flags": 0x10000 | (0x800000 if k % 2 else 0), "visitor": k % 2, "max_cost": 11000000000000,
             "clvm_cost": 0, "tags": [("CREATE_COIN", "many%d" % len(spends))], "scenario": "many", "keys": [], "spends": spends, "std": True}
        c["line"] = condgen.case_line(c, consts_hex, valid)
        big.append(c)
    cases += big
    # deterministic boundary sweep of spent amounts: every 2^k-1, 2^k, 2^k+1
    sweep = []
    for k in range(65):
        for d in (-1, 0, 1):
            v = (1 << k) + d
            if 0 <= v < (1 << 64):
                spends = g.sc_amount(v)
                c = {"tree": g.bundle_tree(spends), "flags": 0x10000 | (0x800000 if k % 2 else 0), "visitor": (k + d) % 2, "max_cost": 11000000000,
                     "clvm_cost": 0, "tags": [("AMOUNT", "2^%d%+d" % (k, d))], "scenario": "amount-sweep", "keys": [x for s in spends for x in s["keys"]], "spends": spends, "std": True}
                c["line"] = condgen.case_line(c, consts_hex, valid | set(g.keys))
                sweep.append(c)
    cases += sweep
    lines = [c["line"] for c in cases]
    impl, model = condlib.run_both(lines, ctx["have_model"])
    condlib.stream_stats(rep, "cond.value", cases, impl)
    if ctx["have_model"]:
        diff_stream(rep, "cond.value", lines, impl, model, None, condlib.summary_no_pairs,
                    "accept/reject or value summary differs from the model for which conservation is proved")
    else:
        rep.evaluations += len(lines)
    bad = 0
    big_sums = 0
    for l, o in zip(lines, impl):
        why = oracle(l, o)
        if why:
            bad += 1
            rep.add_failure("cond.value/oracle", l, o, None, why)
        d = condlib.parse_ok(o)
        if d and int(d["rem"]) >= 1 << 64:
            big_sums += 1
    # Coin::coin_id (chia-protocol) on the same boundary amounts, against the independent oracle and the model
    cl, meta = [], []
    for k in range(65):
        for d in (-1, 0, 1):
            v = (1 << k) + d
            if 0 <= v < (1 << 64):
                parent, ph = rng.bytes(32), rng.bytes(32)
                cl.append("cond.coinid %s %s %d" % (parent.hex(), ph.hex(), v))
                meta.append((parent, ph, v))
    ci, cm = condlib.run_both(cl, ctx["have_model"])
    if ctx["have_model"]:
        diff_stream(rep, "cond.coinid", cl, ci, cm, lambda c, i: c.split(" ")[3])
    for l, o, (parent, ph, v) in zip(cl, ci, meta):
        want = hashlib.sha256(parent + ph + canon(v)).hexdigest()
        if o != want:
            rep.add_failure("cond.coinid/oracle", l, o, want, "Coin::coin_id is not SHA-256(parent, puzzle hash, minimal big-endian amount)")
    rep.streams["cond.value"]["oracle_checked_accepted"] = sum(1 for o in impl if o.startswith("OK"))
    rep.streams["cond.value"]["accepted_with_total_over_64_bits"] = big_sums
