"""C12 — Merkle set roots are canonical and proofs are complete and sound.

Streams (model = coq/Run/MsetRun.v over Merkle/*.v + Gen/Mset.v; impl = harness vh_mset.rs):
  mset.set        compute_merkle_set_root, MerkleSet::from_leafs + get_root, and per query item
                  generate_proof + validate_merkle_proof of that proof against the root
  mset.validate   validate_merkle_proof on mutated / malformed candidate proofs
  mset.fromproof  MerkleSet::from_proof + get_root + generate_proof (tree built from a proof)
Oracles:
  (a) Python: an independent statement of the property (reference collapsed-trie root with hashlib,
      membership, "Ok(b) implies b == membership") evaluated on the implementation's outputs;
  (b) harness ops mset.o_root / o_proofs / o_mut / o_exh (see vh_mset.rs) on the implementation alone."""
import hashlib, os, sys, json
sys.path.insert(0, os.path.dirname(os.path.dirname(os.path.abspath(__file__))))
import common as C
from run import diff_stream

UNIT = "mset"
GEN = ["mset"]
RULE = ("sets: sizes 0,1,2 with the two leaves first differing at every boundary bit (0,1,7,8,9,127,128,253,254,255), clusters "
        "sharing prefixes of boundary lengths, dense top-level sets, random sets, each in several orders with duplicates; "
        "all 6/24 orders of 3/4-element lists; query items = members, members with one bit flipped (boundary bits), random. "
        "candidate proofs: structural mutants of honest proofs at every node (swap sides, drop/insert a level, truncate, retag, "
        "replace leaf), byte flips, truncations, trailing bytes, nesting depth 254..259, random bytes. "
        "non-trivial/distinct = distinct (op, set-size class, deepest-split class, duplicate?, verdict pattern) for sets and "
        "(op, mutation kind, verdict) for candidate proofs")
ASSUMPTIONS = ["Gallina SHA-256 equals the real one (FIPS vectors by vm_compute + every root/proof hash in the stream)",
               "u8 depth arithmetic in generate_proof_impl/pad_middles_for_proof_gen modelled with release-build wrap-around",
               "theorems assume length (H m) = 32 for the abstract hash (true of SHA-256; proved for the Gallina one)"]
TRUSTED = ["Python reference oracle in driver/props/C12.py (hashlib; collapsed-trie root, proof-tree parser)",
           "independent reference trie and proof-tree mutator inside harness/src/bin/vh_mset.rs"]

BLANK = b"\x00" * 32


# ------------------------------------------------------------------ independent reference (Python)
def bit(v, i):
    return (v[i // 8] >> (7 - (i % 8))) & 1


HASH_CALLS = [0]


def hash2(lt, rt, l, r):
    enc = lambda t: 2 if t == 3 else t
    HASH_CALLS[0] += 1
    return hashlib.sha256(b"\x00" * 30 + bytes([enc(lt), enc(rt)]) + l + r).digest()


def join(a, b):
    ta, tb = a[1], b[1]
    if ta == 0 and tb == 0:
        return (BLANK, 0)
    if ta == 0:
        return (hash2(0, 2, BLANK, b[0]), 2) if tb == 2 else b
    if tb == 0:
        return (hash2(2, 0, a[0], BLANK), 2) if ta == 2 else a
    if ta == 1 and tb == 1:
        return (hash2(1, 1, a[0], b[0]), 3)
    return (hash2(ta, tb, a[0], b[0]), 2)


def ref_trie(s, depth):
    """s: sorted list of distinct 32-byte leaves sharing their first `depth` bits"""
    if not s:
        return (BLANK, 0)
    if len(s) == 1:
        return (s[0], 1)
    z = [v for v in s if not bit(v, depth)]
    o = [v for v in s if bit(v, depth)]
    return join(ref_trie(z, depth + 1), ref_trie(o, depth + 1))


def ref_root(leaves):
    s = ref_trie(sorted(set(leaves)), 0)
    if s[1] == 0:
        return BLANK
    if s[1] == 1:
        return hashlib.sha256(b"\x01" + s[0]).digest()
    return s[0]


def hash_cost(f, *a):
    """number of node hashes the reference needs for f(*a): the cost unit of the (slow) Gallina SHA-256"""
    c0 = HASH_CALLS[0]
    f(*a)
    return HASH_CALLS[0] - c0


def deepest_split(leaves):
    s = sorted(set(leaves))
    best = -1
    for a, b in zip(s, s[1:]):
        x = int.from_bytes(a, "big") ^ int.from_bytes(b, "big")
        best = max(best, 256 - x.bit_length())
    return best


# proof trees: ("E",) ("T", h) ("X", h) ("M", l, r)
def parse(b, pos=0, depth=0):
    if depth > 400 or pos >= len(b):
        return None, pos
    t = b[pos]
    pos += 1
    if t == 0:
        return ("E",), pos
    if t in (1, 3):
        if pos + 32 > len(b):
            return None, pos
        return ("T" if t == 1 else "X", b[pos:pos + 32]), pos + 32
    if t == 2:
        l, pos = parse(b, pos, depth + 1)
        if l is None:
            return None, pos
        r, pos = parse(b, pos, depth + 1)
        if r is None:
            return None, pos
        return ("M", l, r), pos
    return None, pos


def ser(t):
    out = bytearray()
    stack = [t]
    while stack:
        n = stack.pop()
        if n[0] == "E":
            out.append(0)
        elif n[0] == "T":
            out.append(1)
            out += n[1]
        elif n[0] == "X":
            out.append(3)
            out += n[1]
        else:
            out.append(2)
            stack.append(n[2])
            stack.append(n[1])
    return bytes(out)


def summary(t):
    if t[0] == "E":
        return (BLANK, 0)
    if t[0] == "T":
        return (t[1], 1)
    if t[0] == "X":
        return (t[1], 2)
    a, b = summary(t[1]), summary(t[2])
    if a[1] == 0 and b[1] == 3:
        return b
    if a[1] == 3 and b[1] == 0:
        return a
    if a[1] == 1 and b[1] == 1:
        return (hash2(1, 1, a[0], b[0]), 3)
    return (hash2(a[1], b[1], a[0], b[0]), 2)


def proof_root(t):
    s = summary(t)
    return BLANK if s[1] == 0 else hashlib.sha256(b"\x01" + s[0]).digest() if s[1] == 1 else s[0]


def paths(t, cur=()):
    out = [cur]
    if t[0] == "M":
        out += paths(t[1], cur + (0,))
        out += paths(t[2], cur + (1,))
    return out


def at(t, p):
    for b in p:
        t = t[1 + b]
    return t


def replace(t, p, new):
    if not p:
        return new
    if p[0] == 0:
        return ("M", replace(t[1], p[1:], new), t[2])
    return ("M", t[1], replace(t[2], p[1:], new))


def flip(v, i):
    b = bytearray(v)
    b[i // 8] ^= 0x80 >> (i % 8)
    return bytes(b)


def mutants_at(t, p, members, rng):
    n = at(t, p)
    E = ("E",)
    out = []
    if n[0] == "M":
        h = summary(n)[0]
        out += [("swap", ("M", n[2], n[1])), ("dropL", n[1]), ("dropR", n[2]), ("trunc", ("X", h)), ("asleaf", ("T", h)),
                ("padL", ("M", E, n)), ("padR", ("M", n, E)), ("cutR", ("M", n[1], E)), ("cutL", ("M", E, n[2]))]
    elif n[0] == "T":
        out += [("t2e", E), ("t2x", ("X", n[1])), ("tflip", ("T", flip(n[1], rng.below(256)))), ("tflip255", ("T", flip(n[1], 255))),
                ("padL", ("M", E, n)), ("padR", ("M", n, E)), ("dup", ("M", n, n))]
        if members:
            out.append(("tother", ("T", rng.choice(members))))
    elif n[0] == "X":
        out += [("x2e", E), ("x2t", ("T", n[1])), ("xflip", ("X", flip(n[1], rng.below(256)))), ("padL", ("M", E, n))]
    else:
        out += [("e2t", ("T", rng.bytes(32))), ("e2x", ("X", BLANK)), ("e2m", ("M", E, E))]
        if members:
            out.append(("e2member", ("T", rng.choice(members))))
    return [(k, replace(t, p, s)) for k, s in out]


# ------------------------------------------------------------------ generators
BOUNDARY_BITS = [0, 1, 6, 7, 8, 9, 15, 16, 63, 64, 127, 128, 200, 247, 248, 253, 254, 255]


def leaf_from(rng, base, k, tail):
    """a leaf sharing bits 0..k-1 with base, differing at bit k, then `tail` (zero / ones / random / base)"""
    v = bytearray(base)
    fill = {"zero": 0, "ones": 1}.get(tail)
    for i in range(k, 256):
        if i == k:
            b = 1 - bit(base, i)
        elif tail == "base":
            b = bit(base, i)
        elif fill is None:
            b = rng.below(2)
        else:
            b = fill
        if b:
            v[i // 8] |= 0x80 >> (i % 8)
        else:
            v[i // 8] &= ~(0x80 >> (i % 8)) & 0xff
    return bytes(v)


def gen_sets(rng, tier):
    """-> list of (ordered leaf list incl. duplicates, kind)"""
    quick = tier == "quick"
    sets = [([], "empty")]
    bases = [b"\x00" * 32, b"\xff" * 32, rng.bytes(32), bytes([0x80]) + b"\x00" * 31, b"\x00" * 31 + b"\x01"]
    for b in bases:
        sets.append(([b], "single"))
        sets.append(([b, b], "single-dup"))
        sets.append(([b] * 5, "single-dup"))
    # pairs first differing at bit k
    for k in BOUNDARY_BITS if quick else range(256):
        for tail in ("base", "rand"):
            base = rng.choice(bases)
            o = leaf_from(rng, base, k, tail)
            sets.append(([base, o], "pair"))
            sets.append(([o, base], "pair"))
            if rng.chance(1, 2):
                sets.append(([o, base, o, base, base], "pair-dup"))
    # clusters: a few groups sharing long prefixes
    for _ in range(24 if quick else 150):
        leaves = []
        for _g in range(1 + rng.below(3)):
            base = rng.bytes(32)
            leaves.append(base)
            for _m in range(rng.below(4)):
                k = rng.choice(BOUNDARY_BITS) if rng.chance(2, 3) else rng.below(256)
                leaves.append(leaf_from(rng, rng.choice(leaves), k, rng.choice(["zero", "ones", "rand", "base"])))
        sets.append((leaves, "cluster"))
    # triples / quads at the bottom of the tree (bits 253..255)
    for _ in range(6 if quick else 60):
        base = rng.bytes(32)
        low = list(range(8))
        rng.shuffle(low)
        leaves = [base[:31] + bytes([(base[31] & 0xf8) | x]) for x in low[:2 + rng.below(5)]]
        sets.append((leaves, "bottom"))
    # dense at the top: first byte varies, rest equal
    for _ in range(6 if quick else 60):
        n = 2 + rng.below(14)
        tail = rng.bytes(31)
        firsts = list(range(256))
        rng.shuffle(firsts)
        sets.append(([bytes([f]) + tail for f in firsts[:n]], "dense"))
    # random sets
    sizes = [3, 4, 5, 8, 16, 33] if quick else [3, 4, 5, 8, 16, 33, 64, 100, 257, 600]
    for n in sizes:
        for _ in range(2 if quick else 6):
            sets.append(([rng.bytes(32) for _ in range(n)], "random"))
    # orders and duplicates of every set so far (permutation/duplicate invariance is then visible in the outputs)
    out = []
    for leaves, kind in sets:
        out.append((leaves, kind))
        if len(leaves) >= 2 and kind not in ("pair", "pair-dup"):
            cheap = hash_cost(ref_root, leaves) <= (100 if tier == "quick" else 150)
            l2 = list(leaves)
            rng.shuffle(l2)
            for _ in range(1 + rng.below(3)):
                l2.insert(rng.below(len(l2) + 1), rng.choice(leaves))
            out.append((l2, kind + "-perm-dup"))
            if cheap:
                out.append((sorted(leaves), kind + "-sorted"))
                out.append((sorted(leaves, reverse=True), kind + "-rsorted"))
    # all orders of small lists
    import itertools
    for n in (3, 4):
        for _ in range(1 if quick else 4):
            base = rng.bytes(32)
            leaves = [base] + [leaf_from(rng, base, rng.choice([0, 1, 7, 254, 255]), "base") for _ in range(n - 1)]
            for perm in itertools.permutations(leaves):
                out.append((list(perm), "allperm%d" % n))
    return out


def gen_items(rng, leaves, tier):
    members = sorted(set(leaves))
    items = []
    pick = list(members)
    rng.shuffle(pick)
    lim = 4 if tier == "quick" else 10
    items += pick[:lim]
    for m in pick[:3]:
        items.append(flip(m, rng.choice([0, 1, 7, 8, 127, 254, 255])))
        items.append(flip(m, rng.below(256)))
    items.append(rng.bytes(32))
    if rng.chance(1, 4):
        items += [b"\x00" * 32, b"\xff" * 32]
    # the model's SHA-256 costs ~3 ms per node hash: bound (2 + queries) * hashes per line
    h = max(1, hash_cost(ref_root, leaves))
    q = max(1, (300 if tier == "quick" else 1200) // h - 2)
    return items[:q]


def hexo(b):
    return b.hex() if b else "-"


def set_line(items, leaves):
    return " ".join(["mset.set", str(len(items))] + [x.hex() for x in items] + [x.hex() for x in leaves])


def size_class(n):
    return n if n <= 4 else 8 if n <= 8 else 32 if n <= 32 else 128 if n <= 128 else 1000


def split_class(d):
    return d if d < 2 or d > 252 else (d // 8) * 8


def check_set_output(rep, line, items, leaves, out):
    """the property itself on the implementation's output (independent Python reference)"""
    toks = out.split(" ")
    want = ref_root(leaves).hex()
    if len(toks) != 2 + 2 * len(items):
        rep.add_failure("mset.set/oracle", line, out, "?", "unexpected output shape")
        return
    if toks[0] != want or toks[1] != want:
        rep.add_failure("mset.set/oracle", line, out, want, "root differs from the reference collapsed-trie root (compute_merkle_set_root / from_leafs.get_root)")
        return
    ms = set(leaves)
    for i, it in enumerate(items):
        g, v = toks[2 + 2 * i], toks[3 + 2 * i]
        member = it in ms
        exp = "1" if member else "0"
        if not g.startswith(exp + ":"):
            rep.add_failure("mset.set/oracle", line, out, exp, "generate_proof inclusion flag differs from membership of item %s" % it.hex())
            return
        if v != exp:
            rep.add_failure("mset.set/oracle", line, out, exp, "honest proof does not validate with the right inclusion bit for item %s" % it.hex())
            return
        pb = bytes.fromhex(g[2:]) if g[2:] != "-" else b""
        t, pos = parse(pb)
        if t is None or pos != len(pb) or proof_root(t).hex() != want:
            rep.add_failure("mset.set/oracle", line, out, want, "honest proof is not a serialised proof tree hashing to the root (reference parser) item %s" % it.hex())
            return


def candidate_lines(rng, tier, set_cases, impl_out):
    """mutants of the honest proofs the implementation produced -> [(validate line, meta)]"""
    cands = []
    budget = 1000 if tier == "quick" else 12000
    hcost, hbudget = 0, (7000 if tier == "quick" else 150000)
    order = list(range(len(set_cases)))
    rng.shuffle(order)
    for ci in order:
        line, items, leaves, kind = set_cases[ci]
        toks = impl_out[ci].split(" ")
        if len(toks) != 2 + 2 * len(items) or not items:
            continue
        members = sorted(set(leaves))
        root = toks[0]
        for i in ([rng.below(len(items))] if tier == "quick" else range(min(3, len(items)))):
            g = toks[2 + 2 * i]
            if ":" not in g:
                continue
            pb = bytes.fromhex(g[2:]) if g[2:] != "-" else b""
            t, pos = parse(pb)
            if t is None:
                continue
            ps = paths(t)
            if len(ps) > 14:
                keep = ps[:4] + ps[-6:]
                for _ in range(4):
                    keep.append(rng.choice(ps))
                ps = keep
            muts = []
            for p in ps:
                muts += [(k, ser(m)) for k, m in mutants_at(t, p, members, rng)]
            rng.shuffle(muts)
            muts = muts[:10 if tier == "quick" else 60]
            muts.append(("honest", pb))
            if pb:
                j = rng.below(len(pb))
                muts.append(("byteflip", pb[:j] + bytes([pb[j] ^ (1 << rng.below(8))]) + pb[j + 1:]))
                muts.append(("trail", pb + bytes([rng.below(4)])))
                muts.append(("cut", pb[:len(pb) - rng.choice([1, 32, 33])]))
                muts.append(("retag", bytes([rng.below(5)]) + pb[1:]))
            for kind_m, mb in muts:
                # the query item: the proof's own item, another member, or a neighbour
                its = [items[i]]
                if members and rng.chance(1, 2):
                    its.append(rng.choice(members))
                if rng.chance(1, 4):
                    its.append(flip(items[i], 255))
                pt, _ = parse(mb)
                hc = 1 + (hash_cost(summary, pt) if pt is not None else 0)
                for it in its:
                    if hcost + hc > hbudget and hc > 20:
                        continue
                    hcost += hc
                    cands.append(("mset.validate %s %s %s" % (hexo(mb), it.hex(), root), (kind_m, mb, it, leaves)))
        if len(cands) >= budget:
            break
    return cands[:budget]


def nesting_cases(rng):
    """MIDDLE nested k times (the parser's depth limit, u8 depth in generate_proof_impl, audit `pos as u8`)"""
    out = []
    for k in (1, 2, 254, 255, 256, 257, 258, 259):
        for shape in ("left-empty", "right-empty", "leafpair"):
            # the one-sided chains hash every level (k node hashes, ~6 ms each in the model): keep the boundary ones
            if (shape == "left-empty" and k not in (1, 256, 257, 258)) or (shape == "right-empty" and k not in (2, 255, 257)):
                continue
            x = rng.bytes(32)
            if shape == "left-empty":
                pb = b"\x02" * k + b"\x00" + b"\x00" * k
            elif shape == "right-empty":
                pb = b"\x02" * k + b"\x00" * (k + 1)
            else:
                # k levels following the bits of x, two terminals at the bottom
                body = b"\x01" + flip(x, (k - 1) % 256) + b"\x01" + x if bit(x, (k - 1) % 256) else b"\x01" + x + b"\x01" + flip(x, (k - 1) % 256)
                pb = b""
                tailparts = []
                for d in range(k - 1):
                    pb += b"\x02"
                    if bit(x, d % 256):
                        pb += b"\x00"
                        tailparts.append(b"")
                    else:
                        tailparts.append(b"\x00")
                pb += b"\x02" + body
                for tp in reversed(tailparts):
                    pb += tp
            out.append((pb, x, "nest%d-%s" % (k, shape)))
    return out


def malformed_cases(rng, tier):
    out = []
    for _ in range(100 if tier == "quick" else 2000):
        n = rng.choice([0, 1, 2, 3, 33, 34, 35, 66, 67, 68, 100])
        b = bytearray(rng.bytes(n))
        # bias the tag positions towards valid tags so that parsing gets somewhere
        for i in range(0, len(b), 1 + rng.below(33)):
            b[i] = rng.below(5)
        out.append((bytes(b), rng.bytes(32), "random"))
    return out


def is_timeout(o):
    return o == "TIMEOUT"


def run_spread(binary, lines, timeout):
    """C.run_lines cuts the case list into CONTIGUOUS chunks; expensive cases are generated next to each other
    (deep clusters, large sets, one proof's mutants), so the list is run in a fixed pseudo-random order and the
    answers are put back in place: every chunk then gets about the same share of the expensive cases."""
    order = list(range(len(lines)))
    C.SplitMix64(0x5EED + len(lines)).shuffle(order)
    out = C.run_lines(binary, [lines[i] for i in order], timeout=timeout)
    res = [None] * len(lines)
    for pos, i in enumerate(order):
        res[i] = out[pos]
    return res


def run_model(lines, tier):
    return run_spread(C.VRUN(UNIT), lines, 900 if tier == "quick" else 1500)


def run_impl(lines, tier, timeout=None):
    """run the implementation side.  C.run_lines already re-runs a timed-out chunk line by line (in parallel);
    a line that still times out there is re-run once more ALONE, sequentially (at most 3 of them), so that a
    TIMEOUT that survives means: this very line does not answer within the timeout on its own."""
    timeout = timeout or (90 if tier == "quick" else 900)
    out = run_spread(C.VH(UNIT), lines, timeout)
    idx = [i for i, o in enumerate(out) if is_timeout(o)]
    for i in idx[:3]:
        out[i] = C._run_shard((C.VH(UNIT), [lines[i]], timeout))[0]
    return out


def note_unchecked(rep, name, n, why):
    if n:
        u = rep.extra.setdefault("unchecked", {})
        u[name] = u.get(name, 0) + n
        rep.streams.setdefault(name, {})["unchecked"] = rep.streams.get(name, {}).get("unchecked", 0) + n
        rep.notes.append("%s: %d case(s) unchecked (%s)" % (name, n, why))


def checked_diff(rep, name, lines, impl, model, key):
    """diff_stream on the cases both sides answered.  The model (reference) timing out is machine overload:
    unchecked.  The implementation timing out alone (see run_impl) while the model answered is a hang: failure."""
    keep = []
    unch = 0
    for k, (l, i, m) in enumerate(zip(lines, impl, model)):
        if is_timeout(m):
            unch += 1
        elif is_timeout(i):
            rep.add_failure(name, l, i, m, "the implementation does not answer this case within the timeout when run alone, "
                            "while the model answers: hang")
        else:
            keep.append(k)
    note_unchecked(rep, name, unch, "model runner timed out: machine overload")
    diff_stream(rep, name, [lines[k] for k in keep], [impl[k] for k in keep], [model[k] for k in keep], key)
    return set(keep)


def run(ctx):
    rep, tier = ctx["rep"], ctx["tier"]
    rng = C.SplitMix64(ctx["seed"])
    have_model = ctx["have_model"]

    if ctx.get("replay"):
        f = json.load(open(ctx["replay"]))
        fi = f.get("failing_input")
        if not fi:
            return
        line = fi["case"]
        impl = run_impl([line], tier)
        if line.startswith("mset.o_"):
            if not impl[0].startswith("OK"):
                rep.add_failure(line.split(" ")[0], line, impl[0], "OK", "implementation-level oracle fails on the replayed case")
            rep.evaluations += 1
            return
        model = run_model([line], tier) if have_model else ["MODEL-UNAVAILABLE"]
        diff_stream(rep, line.split(" ")[0], [line], impl, model)
        if line.startswith("mset.set "):
            toks = line.split(" ")
            nq = int(toks[1])
            items = [bytes.fromhex(x) for x in toks[2:2 + nq]]
            leaves = [bytes.fromhex(x) for x in toks[2 + nq:]]
            check_set_output(rep, line, items, leaves, impl[0])
        return

    import time
    tm = {}
    t0 = time.time()
    # ---- stream mset.set
    sets = gen_sets(rng.fork("sets"), tier)
    irng = rng.fork("items")
    set_cases = []
    est_hashes = 0
    # node hashes spent on sets with long hashed chains / many leaves (the model's SHA-256 is slow);
    # thorough: a separate allowance for the large random sets so that the clusters cannot use it up
    deep_budget = 5000 if tier == "quick" else 120000
    big_budget = 0 if tier == "quick" else 60000
    for leaves, kind in sets:
        h = hash_cost(ref_root, leaves)
        if h > 60:
            if tier != "quick" and kind.startswith("random"):
                if 3 * h > big_budget:
                    continue
                big_budget -= 3 * h
            else:
                if 3 * h > deep_budget:
                    continue
                deep_budget -= 3 * h
        items = gen_items(irng, leaves, tier)
        est_hashes += (2 + len(items)) * max(1, h)
        set_cases.append((set_line(items, leaves), items, leaves, kind))
    rep.streams.setdefault("mset.set", {})["est_model_node_hashes"] = est_hashes
    lines = [c[0] for c in set_cases]
    impl = run_impl(lines, tier)
    tm["set_impl"] = round(time.time() - t0, 1)
    model = run_model(lines, tier) if have_model else ["MODEL-UNAVAILABLE"] * len(lines)
    tm["set_model"] = round(time.time() - t0, 1)
    meta = {c[0]: c for c in set_cases}

    def key_set(c, i):
        _, items, leaves, kind = meta[c]
        toks = i.split(" ")
        verd = "".join(t[0] for t in toks[2::2])
        return ("set", size_class(len(set(leaves))), split_class(deepest_split(leaves)), len(leaves) != len(set(leaves)), verd[:6])
    if have_model:
        checked_diff(rep, "mset.set", lines, impl, model, key_set)
    else:
        rep.evaluations += len(lines)
    for (line, items, leaves, kind), out in zip(set_cases, impl):
        if not is_timeout(out):
            check_set_output(rep, line, items, leaves, out)
    # permutation / duplicate invariance as seen in the outputs: equal sets => equal roots
    by_set = {}
    for (line, items, leaves, kind), out in zip(set_cases, impl):
        k = frozenset(leaves)
        r = out.split(" ")[0]
        if is_timeout(out):
            continue
        if k in by_set and by_set[k][1] != r:
            rep.add_failure("mset.set/oracle", line, r, by_set[k][1], "two orders/duplications of the same set give different roots; other order: " + by_set[k][0][:2000])
        by_set.setdefault(k, (line, r))
    kinds = {}
    for c in set_cases:
        kinds[c[3]] = kinds.get(c[3], 0) + 1
    st = rep.streams.setdefault("mset.set", {})
    st.update({"kinds": kinds, "oracle_checked": len(set_cases), "queries": sum(len(c[1]) for c in set_cases),
               "max_set": max(len(c[2]) for c in set_cases), "distinct_sets": len(by_set)})

    # ---- stream mset.validate: candidate proofs
    cands = candidate_lines(rng.fork("cands"), tier, set_cases, impl)
    nrng = rng.fork("nest")
    extra = nesting_cases(nrng) + malformed_cases(nrng, tier)
    # malformed / nested proofs are validated against their OWN root (so that the root test passes) and a random root
    fp_lines = ["mset.fromproof %s %s" % (hexo(pb), it.hex()) for pb, it, _ in extra]
    # also honest + mutated proofs through from_proof
    for l, m in cands[:150 if tier == "quick" else 2000]:
        fp_lines.append("mset.fromproof %s %s" % (hexo(m[1]), m[2].hex()))
    fp_impl = run_impl(fp_lines, tier)
    fp_model = run_model(fp_lines, tier) if have_model else ["MODEL-UNAVAILABLE"] * len(fp_lines)
    if have_model:
        checked_diff(rep, "mset.fromproof", fp_lines, fp_impl, fp_model,
                     lambda c, i: ("fromproof", min(len(c) // 200, 10), i.split(" ")[-1][:2] if i != "E" else "E"))
    else:
        rep.evaluations += len(fp_lines)
    for (pb, it, kind), o in zip(extra, fp_impl):
        if o not in ("E", "PANIC", "TIMEOUT") and " " in o:
            own_root = o.split(" ")[0]
            cands.append(("mset.validate %s %s %s" % (hexo(pb), it.hex(), own_root), (kind, pb, it, None)))
        cands.append(("mset.validate %s %s %s" % (hexo(pb), it.hex(), nrng.bytes(32).hex()), (kind, pb, it, None)))
    vlines = [c[0] for c in cands]
    v_impl = run_impl(vlines, tier)
    v_model = run_model(vlines, tier) if have_model else ["MODEL-UNAVAILABLE"] * len(vlines)
    vmeta = {c[0]: c[1] for c in cands}
    if have_model:
        checked_diff(rep, "mset.validate", vlines, v_impl, v_model, lambda c, i: ("validate", vmeta[c][0], i))
    else:
        rep.evaluations += len(vlines)
    verdicts = {}
    accepted_mutants = 0
    for (line, (kind, pb, it, leaves)), o in zip(cands, v_impl):
        verdicts[o] = verdicts.get(o, 0) + 1
        if o == "PANIC":
            rep.add_failure("mset.validate/oracle", line, o, "E|0|1", "validate_merkle_proof panicked")
        if leaves is not None and o in ("0", "1"):
            if kind != "honest":
                accepted_mutants += 1
            member = it in set(leaves)
            if (o == "1") != member:
                oline = "mset.o_verdict %s %s %s" % (hexo(pb), it.hex(), " ".join(x.hex() for x in sorted(set(leaves))))
                rep.add_failure("mset.o_verdict", oline, o, "1" if member else "0",
                                "a candidate proof validates against the root of the set while stating the opposite of membership (mutation %s)" % kind)
    rep.streams.setdefault("mset.validate", {}).update({"verdicts": verdicts, "accepted_mutants": accepted_mutants})

    tm["candidates"] = round(time.time() - t0, 1)
    # ---- implementation-level oracle ops
    orng = rng.fork("oracle")
    olines = []
    seen = set()
    for leaves, kind in sets:
        k = tuple(leaves)
        if k in seen or kind.startswith("allperm"):
            continue
        seen.add(k)
        ls = " ".join(x.hex() for x in leaves)
        sd = orng.next() >> 1
        olines.append(("mset.o_root %d %s" % (sd, ls)).rstrip())
        if len(leaves) <= 64 or tier != "quick":
            olines.append(("mset.o_proofs %d %s" % (sd, ls)).rstrip())
        if (tier != "quick" or orng.chance(1, 4) or len(leaves) <= 1) and len(leaves) <= 128:
            olines.append(("mset.o_mut %d %s" % (sd, ls)).rstrip())
    z = lambda first: bytes([first]) + b"\x00" * 31
    pools = [(2, [z(0x00), z(0x40), z(0x80), z(0xc0)]), (2, [z(0x00), z(0x20), z(0x80), z(0xa0)]),
             (2, [z(0x00), b"\x00" * 31 + b"\x01", z(0x80), z(0x80)[:31] + b"\x01"]),
             (3, [z(0x00), z(0x20)]), (3, [z(0x40), z(0xc0)])]
    for d, pool in pools:
        if tier == "quick":
            olines.append("mset.o_exh %d %s" % (d, " ".join(x.hex() for x in pool)))
    if tier != "quick":
        # the enumeration is cut into shards (pair number k of the top level goes to line k % nshards), so that
        # run_lines spreads it over all cores and no single line runs for more than a few seconds unloaded
        pools += [(2, [z(0x00), z(0x40), z(0x80), z(0xc0), z(0x60)]), (3, [z(0x00), z(0x80), z(0xc0)]),
                  (2, [orng.bytes(32) for _ in range(4)]), (3, [z(0x10), z(0x30), z(0x20)])]
        # nesting is capped at 3 (4-leaf pools at nesting 3 would be ~9e9 trees); the largest pool here has 3e8 trees
        for d, pool in pools:
            nsh = 64 if (d >= 3 and len(pool) >= 3) else 16
            for sh in range(nsh):
                olines.append("mset.o_exh %d %d %d %s" % (d, sh, nsh, " ".join(x.hex() for x in pool)))
    otimeout = 150 if tier == "quick" else 1200
    o_out = run_impl(olines, tier, otimeout)
    if any(is_timeout(o) for o in o_out):
        # is the machine merely overloaded?  time a trivial reference line
        tc = time.time()
        cal = C._run_shard((C.VH(UNIT), ["mset.o_root 1"], 60))[0]
        responsive = cal == "OK" and time.time() - tc < 5.0
    ostats = {}
    for l, o in zip(olines, o_out):
        op = l.split(" ")[0]
        ostats[op] = ostats.get(op, 0) + 1
        rep.evaluations += 1
        if o.startswith("UNCHECKED"):
            note_unchecked(rep, op, 1, o[:120])
        elif is_timeout(o):
            if responsive:
                rep.add_failure(op, l, o, "OK", "implementation-level oracle does not finish within %d s when run alone while "
                                "a trivial reference call answers immediately: hang" % otimeout)
            else:
                note_unchecked(rep, op, 1, "timed out on an overloaded machine")
        elif not o.startswith("OK"):
            rep.add_failure(op, l, o, "OK", "implementation-level oracle: " + o[:300])
        elif op in ("mset.o_mut", "mset.o_exh"):
            for kv in o.split(" ")[1:]:
                k, v = kv.split("=")
                ostats[op + "." + k] = ostats.get(op + "." + k, 0) + int(v)
    rep.evaluations += ostats.get("mset.o_mut.validations", 0) + ostats.get("mset.o_exh.validations", 0)
    rep.streams["mset.oracle_ops"] = ostats
    tm["oracle_ops"] = round(time.time() - t0, 1)
    rep.extra["phase_times_cumulative_s"] = tm
