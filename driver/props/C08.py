"""C08 — what the mempool validated is what the block yields.

Models: coq/Bundle/SpendBundle.v (run_spendbundle, validate_clvm_and_signature), SolutionGen.v (build_generator,
calculate_generator_length), Interned.v (interned_vbytes), BlockPath.v (run_block_generator2, the unit's own minimal
mirror) executed by the extracted runner with the CLVM results / key validity / signature verdict / compressed
lengths recorded from the implementation; implementation: harness vh_bundle.
Streams:
  bundle.sb    run_spendbundle + validate_clvm_and_signature           (accept/reject + full summary)
  bundle.blk   generator built by solution_generator / _backrefs / BlockBuilder / InternedBlockBuilder, then
               run_block_generator2                                   (accept/reject + full summary)
  bundle.gen   calculate_generator_length, interned size, plain generator bytes
Oracle (implementation only, op bundle.o8): the property itself — mempool path vs block path under all four
serialization modes: same verdict, same conditions, cost_block - cost_bundle = the fixed wrapper overhead
(20 + 2*cost_per_byte plain, 20 interned), predicted length = actual length, compressed forms decode to the plain tree."""
import os, sys, json
sys.path.insert(0, os.path.dirname(os.path.dirname(os.path.abspath(__file__))))
import common as C
import bundlelib as B
from bundlelib import UNIT
from run import diff_stream

GEN = ["builder", "ladders", "opcodes"]
RULE = ("synthetic bundles: 15 condgen scenarios x {puzzle `1` with the conditions as solution, puzzle `(q . conditions)`, puzzle "
        "`(r (c EXPR (q . conditions)))` with EXPR one of 11 dialect-gated expressions (unknown operators, modpow, keccak256, "
        "sha256tree, secp, non-canonical integers, invalid G1 point) under consensus-mode / MEMPOOL_MODE / mixed CLVM flag sets} x "
        "random subsets of the condition flags + MEMPOOL_MODE + INTERNED_GENERATOR + SIMPLE_GENERATOR, amounts from the "
        "length-ladder thresholds +-1, real aggregate signatures (and tampered ones) when signatures are validated, cost limits "
        "exactly at / one below the mempool and block costs; single-point mutations (wrong declared hash, unparsable reveal/"
        "solution, non-canonical length prefix); the serialized bundles of /repo/test-bundles (quick: the 8 smallest for the "
        "model, all 92 for the oracle). non-trivial/distinct = distinct (op, scenario, form, flag class, mutation, verdict or "
        "error kind) tuples")
ASSUMPTIONS = ["CLVM evaluation is an oracle: per case the implementation's (puzzle, solution) -> (cost, result) pairs; "
               "the generator's quote evaluates to its argument at cost 20; budget-monotone, CostExceeded exactly above budget",
               "public-key validity and the aggregate-signature verdict are oracle values taken from the implementation",
               "back-reference COMPRESSION (clvmr) is an oracle: the model takes the compressed length and assumes the "
               "compressed generator decodes to the plain tree (checked per case by the implementation-level oracle)",
               "reveals and solutions without back-references (the mirror parses them with the plain deserializer)",
               "COMPUTE_FINGERPRINT is never set (mempool-internal, C19)"]
TRUSTED = ["hand-written mirrors coq/Bundle/{SpendBundle,SolutionGen,Interned,BlockPath}.v tied to spendbundle_conditions.rs, "
           "solution_generator.rs, generator_cost.rs, run_block_generator.rs by these streams",
           "Cond/Model.v (unit cond) for process_single_spend / validate_conditions"]

MODES = "pbci"


def make_bundles(rng, env, tier):
    n = 170 if tier == "quick" else 6000
    bundles = []
    for i in range(n):
        b = B.synthetic(rng.fork("syn%d" % i), env)
        b["want_sig"] = rng.chance(5, 6)
        bundles.append(b)
    B.sign_pass(env, bundles)
    for b in bundles:
        if not (b["flags"] & B.F_DONT_VALIDATE) and not b.get("want_sig"):
            b["sig"] = rng.choice(["-", "k7", "k3"])
            b["mut"] = b["mut"] if b["mut"] != "none" else "other-sig"
    # real bundles
    tb = B.load_test_bundles()
    # the Gallina SHA-256 makes the tree hash of a real puzzle cost seconds: the model runs the smallest real bundles
    # only (quick: the 8 smallest), the implementation-level oracle runs all of them
    by_size = sorted(t[3] for t in tb)
    limit = by_size[min(7, len(by_size) - 1)] if tier == "quick" else 20000
    for name, sig, tok, size in tb:
        fl = rng.choice([0, env["mempool_mode"], B.F_INTERNED, env["mempool_mode"] | B.F_INTERNED | B.F_SIMPLE,
                         B.F_DONT_VALIDATE, 0x800000])
        bundles.append({"spends": None, "token": tok, "sig": sig, "flags": fl, "max_cost": 11000000000, "scenario": "file",
                        "form": "real", "tags": [], "mut": "none", "file": name, "size": size, "model": size <= limit})
    return bundles


def vary_limits(rng, env, bundles):
    """cost limits exactly on / one below the mempool and the block cost"""
    for b in bundles:
        p = b.get("pre")
        if not p or p["cost"] is None or not rng.chance(1, 4):
            continue
        c = p["cost"]
        over = 20 if b["flags"] & B.F_INTERNED else 20 + 2 * env["cpb"]
        b["max_cost"] = rng.choice([c, c - 1, c + over, c + over - 1, c + 1, max(0, c - 20), c // 2, 0, 19, 20])
        b["limit"] = True


def run(ctx):
    rep, tier = ctx["rep"], ctx["tier"]
    rng = C.SplitMix64(ctx["seed"])
    env = B.setup(rng)
    if ctx.get("replay"):
        f = json.load(open(ctx["replay"]))
        line = f["failing_input"]["case"]
        impl = C.run_lines(C.VH(UNIT), [line])[0]
        rep.evaluations += 1
        if line.startswith("bundle.o8"):
            if not impl.startswith("OK"):
                rep.add_failure("bundle.o8", line, impl, "OK", "replayed: mempool path and block path disagree")
            return
        model = C.run_lines(C.VRUN(UNIT), [line])[0] if ctx["have_model"] else None
        proj = B.verdict_sb if line.startswith("bundle.sb") else B.verdict
        if model is not None and proj(impl) != proj(model):
            rep.add_failure(line.split(" ")[0], line, impl, model, "replayed disagreement")
        return
    bundles = make_bundles(rng.fork("bundles"), env, tier)
    B.pre_pass(env, bundles)
    for b in bundles:
        if not b["pre"]:
            rep.add_broken("harness", "bundle.pre", "pre-pass failed: %s" % b.get("pre_raw", "")[:300])
    bundles = [b for b in bundles if b["pre"]]
    vary_limits(rng.fork("limits"), env, bundles)

    # ---- correspondence streams
    cases = {"bundle.sb": [], "bundle.blk": [], "bundle.gen": []}
    for b in bundles:
        if not b.get("model", True):
            continue
        cases["bundle.sb"].append((B.line_sb(env, b), b, ""))
        for m in (MODES if b["form"] != "real" else rng.choice(MODES)):
            cases["bundle.blk"].append((B.line_blk(env, b, m), b, m))
        cases["bundle.gen"].append((B.line_gen(b), b, ""))
    for name, cs in cases.items():
        lines = [c[0] for c in cs]
        impl = C.run_lines(C.VH(UNIT), lines)
        st = rep.streams.setdefault(name, {})
        st["accepted"] = sum(1 for i in impl if i.startswith("OK"))
        st["rejected"] = sum(1 for i in impl if i.startswith("ERR"))
        from collections import Counter
        st["error_kinds"] = dict(Counter(i.split(" # ")[0] for i in impl if i.startswith("ERR")).most_common(40))
        st["scenarios"] = dict(Counter(c[1]["scenario"] + "/" + c[1]["form"] for c in cs))
        st["mutations"] = dict(Counter(c[1]["mut"] for c in cs))
        st["dialect_gated"] = dict(Counter("%s/%s/%s" % (c[1].get("dialect", "-"), t[1], "OK" if o.startswith("OK") else "ERR")
                                           for c, o in zip(cs, impl) for t in c[1]["tags"] if t[0] == "DIALECT"))
        st["line_bytes_max"] = max((len(l) for l in lines), default=0)
        meta = {c[0]: c for c in cs}

        def key(line, out, meta=meta, name=name):
            _, b, m = meta[line]
            fl = b["flags"]
            v = out.split(" ")[0] if out.startswith("OK") else out.split(" # ")[0][:40]
            if name == "bundle.gen":
                v = "len"
            return (b["scenario"], b["form"], b.get("dialect", "-"), tuple(sorted(t[1] for t in b["tags"] if t[0] == "DIALECT"))[:3],
                    bool(fl & B.F_INTERNED), bool(fl & B.F_SIMPLE), bool(fl & 0x800000),
                    bool(fl & B.F_DONT_VALIDATE), b["mut"], b.get("limit", False), m, v)
        if ctx["have_model"]:
            model = C.run_lines(C.VRUN(UNIT), lines, timeout=1500)
            proj = B.verdict_sb if name == "bundle.sb" else (B.verdict if name == "bundle.blk" else None)
            diff_stream(rep, name, lines, impl, model, key, proj,
                        {"bundle.sb": "run_spendbundle / validate_clvm_and_signature deviate from the mirror (accept/reject or summary)",
                         "bundle.blk": "the block path (generator by this mode + run_block_generator2) deviates from the mirror",
                         "bundle.gen": "calculate_generator_length / interned size / generator bytes deviate from the mirror"}[name])
        else:
            rep.evaluations += len(lines)

    # ---- the property itself on the implementation
    lines = [B.line_o8(env, b) for b in bundles]
    outs = C.run_lines(C.VH(UNIT), lines, timeout=1500)
    from collections import Counter
    st = rep.streams.setdefault("bundle.o8", {"cases": 0})
    st["cases"] = len(lines)
    st["results"] = dict(Counter(o.split(" ")[0] + " " + (o.split(" ")[1] if " " in o else "") for o in outs))
    rep.evaluations += len(lines)
    rep.traces += len(lines)
    for l, o, b in zip(lines, outs, bundles):
        if not o.startswith("OK"):
            rep.add_failure("bundle.o8", l, o, "OK",
                            "mempool path (run_spendbundle / validate_clvm_and_signature) and block path (generator + "
                            "run_block_generator2) disagree on verdict, conditions, cost offset or generator length")
        else:
            rep.nontrivial.add(("bundle.o8", b["scenario"], b["form"], bool(b["flags"] & B.F_INTERNED), b["mut"], o[:12]))
