"""C01 — spend conditions are accepted, rejected and summarised exactly per the rules.

Model: coq/Cond/Model.v (mirror of conditions.rs + sanitizers + messages) executed by the extracted
runner; implementation: parse_spends via harness vh_cond.  Compared: accept/reject and the full
owned summary (create_coin as a set); error codes are recorded as information only."""
import os, sys, json
sys.path.insert(0, os.path.dirname(os.path.dirname(os.path.abspath(__file__))))
import common as C
import condlib
from condlib import UNIT
from run import diff_stream

GEN = ["opcodes", "ladders"]
RULE = ("grammar-based bundles (15 scenarios: single/multi/announce/concurrent/message/ephemeral/locks/dup/fees/aggsig/"
        "unknown/ff/limits/malformed) x argument-shape classes x random subsets of the 5 condition flags x both visitors; "
        "exhaustive: parse_opcode on every 0-,1-,2-byte atom, unknown-condition cost for all 65536 opcodes. "
        "non-trivial/distinct = distinct (opcode, argument shape, flags, visitor, verdict or error kind) tuples")
ASSUMPTIONS = ["public-key validity (blst) is an oracle table taken from the implementation per case",
               "aggregate signature verdict is outside this property (cases use the default signature; "
               "BadAggregateSignature results are excluded here and covered by C05)",
               "CLVM evaluation is outside this property (input is the generator's output tree)"]
TRUSTED = ["hand-written mirror coq/Cond/Model.v tied to conditions.rs by this correspondence stream"]


def run(ctx):
    rep, tier = ctx["rep"], ctx["tier"]
    rng = C.SplitMix64(ctx["seed"])
    if ctx.get("replay"):
        f = json.load(open(ctx["replay"]))
        line = f["failing_input"]["case"]
        impl, model = condlib.run_both([line], ctx["have_model"])
        if condlib.verdict(impl[0]) != condlib.verdict(model[0] or ""):
            rep.add_failure("cond.parse", line, impl[0], model[0], "replayed disagreement")
        rep.evaluations += 1
        return
    n = 1200 if tier == "quick" else 40000
    g, cases, consts_hex, valid = condlib.make_cases(rng.fork("cases"), n, matrix=True)
    lines = [c["line"] for c in cases]
    impl, model = condlib.run_both(lines, ctx["have_model"])
    condlib.stream_stats(rep, "cond.parse", cases, impl)
    if ctx["have_model"]:
        def proj(o):
            return condlib.verdict(o)
        keep = [(l, i, m) for l, i, m in zip(lines, impl, model) if i != "ERR BadAggregateSignature"]
        diff_stream(rep, "cond.parse", [k[0] for k in keep], [k[1] for k in keep], [k[2] for k in keep], None, proj,
                    "parse_spends deviates from the formalised condition rules (accept/reject or summary differs from the model)")
        # cases where the only difference is the (out of scope) signature check: the model must accept them
        for l, i, m in zip(lines, impl, model):
            if i == "ERR BadAggregateSignature" and not m.startswith("OK "):
                rep.add_failure("cond.parse", l, i, m, "implementation reached the signature check on a bundle the rules reject")
        rep.streams["cond.parse"]["error_code_agreement"] = sum(1 for i, m in zip(impl, model) if i == m or i.startswith("OK"))
    else:
        rep.evaluations += len(lines)
    # exhaustive finite parts
    atoms = [b""] + [bytes([i]) for i in range(256)] + [bytes([i, j]) for i in range(256) for j in range(256)]
    atoms += [bytes([0, 0, 51]), bytes([51, 0, 0]), bytes([1, 2, 3])]
    ol = ["cond.opcode %s" % (a.hex() if a else "-") for a in atoms]
    oi, om = condlib.run_both(ol, ctx["have_model"])
    if ctx["have_model"]:
        diff_stream(rep, "cond.opcode", ol, oi, om, lambda c, i: c.split(" ")[1][:2] + i[:1])
    rep.streams.setdefault("cond.opcode", {})["exhaustive_atoms_up_to_2_bytes"] = True
    ul = ["cond.ucost %d" % i for i in range(65536)]
    ui, um = condlib.run_both(ul, ctx["have_model"])
    if ctx["have_model"]:
        diff_stream(rep, "cond.ucost", ul, ui, um, lambda c, i: i)
    rep.streams.setdefault("cond.ucost", {})["exhaustive_all_65536_opcodes"] = True
