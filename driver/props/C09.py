"""C09 — trusted fast paths report what full validation reports.

Model: coq/Chain/Trusted.v (mirrors of additions_and_removals, get_coinspends_for_trusted_block(+with_conditions),
get_puzzle_and_solution_for_coin, SpendBundle::additions) executed by the extracted runner over the recorded CLVM
oracle table; implementation: the real helpers through harness vh_gen.

Streams
  gen.trusted   additions (with hints) / removals (ids and coins, in order), recovered coin spends, coin spends with
                conditions, lookup of every removed coin: model against implementation, on accepted AND rejected generators
  gen.rebuild   solution_generator over the recovered coin spends (reversed and in order; length + FNV of the program)
  gen.sbadd     SpendBundle::additions on the recovered coin spends (cases run with dialect flags 0)
  gen.oracle09  the property on the implementation alone: for every generator run_block_generator2 accepts, helper
                removals/additions/hints = the validated OwnedSpendBundleConditions, the recovered coin spends rebuild
                (solution_generator) a generator with the same conditions, lookup of every removed coin returns its
                puzzle and solution, SpendBundle::additions lists the same created coins
"""
import os, sys, json
sys.path.insert(0, os.path.dirname(os.path.dirname(os.path.abspath(__file__))))
import common as C
import genlib as G
from genlib import UNIT, F
from clvm import to_list, canon, ser

GEN = ["opcodes", "ladders", "chainconsts"]
RULE = ("accepted generators (quoted spend lists from the cond grammar, quote and pool puzzles, 6 valid scenarios) enriched "
        "with 11 memo shapes on every CREATE_COIN (absent, nil, EMPTY-atom/32/33/1-byte first memo, two memos, pair first memo, "
        "improper list, atom instead of list, 32-byte memo with non-nil tail) x arguments after the memo list (none, atom, nil, pair, "
        "improper tail), amount encodings and spend-level extras, x flag sets, "
        "15 unknown-condition shapes (opcode = pair, nil, over-long atom, unknown 1/2/3-byte atom, improper tails; several with "
        "CREATE_COIN arguments) before / between / after / around CREATE_COINs in consensus mode, with COST_CONDITIONS and under "
        "NO_UNKNOWN_CONDS, and injected at random into the grammar's condition lists, 10 non-canonical first-byte forms of the "
        "generator with and without SIMPLE_GENERATOR, "
        "twin spends sharing two of (parent, puzzle, amount), plus rejected and "
        "malformed generators (helpers are total) and /repo/generator-tests. "
        "non-trivial/distinct = distinct (source kind, memo shape, flag class, helper verdicts, spend-count bucket)")
ASSUMPTIONS = ["CLVM evaluation is an oracle table recorded from the real interpreter per case",
               "Program::from_clvm's 2 MB limit is modelled; serialized puzzles/solutions are compared by length and FNV-1a-64",
               "SpendBundle::additions runs with dialect flags 0: compared on cases whose CLVM flag bits are 0"]
TRUSTED = ["hand-written mirrors coq/Chain/Trusted.v tied to the helpers by this stream"]

# no known findings for C09: F-C09-1 (empty first memo) and F-C09-2 (spend-level extras) were fixed in /repo by
# 0a21e864 and 1aa0e3f6; both classes are generated and checked strictly in the default stream.


def unknown_conds(r):
    """conditions that consensus-mode validation (no NO_UNKNOWN_CONDS) skips as unknown and that the trusted helpers
    must skip as well: name -> condition tree.  The opcode position holds a pair, nil, an over-long atom, or an unknown
    one-/two-/three-byte atom; several carry the arguments of a CREATE_COIN so that a helper that does not skip them
    reports a coin."""
    ph = r.bytes(32)
    cc_args = (ph, (canon(1), b""))
    return {
        "pair-op": ((b"\x01", b"\x02"), (canon(5), b"")),                 # ((1 . 2) 5)
        "pair-op-51": ((b"\x33", b""), cc_args),                          # ((51) ph 1)
        "pair-op-improper": ((b"\x01", b"\x02"), b"\x09"),                # ((1 . 2) . 9)
        "nil-op": (b"", cc_args),                                         # (() ph 1)
        "nil-op-noargs": (b"", b""),                                      # (())
        "long-op-5": (b"\x00\x00\x00\x00\x33", cc_args),
        "long-op-33": (r.bytes(33), (canon(5), b"")),
        "unk1-02": (b"\x02", cc_args),
        "unk1-ff": (b"\xff", (canon(5), b"")),
        "unk1-00": (b"\x00", b""),
        "unk2-0033": (b"\x00\x33", cc_args),                              # CREATE_COIN with a redundant leading zero
        "unk2-3300": (b"\x33\x00", cc_args),
        "unk2-0100": (b"\x01\x00", (canon(5), b"")),                      # two-byte opcode with a cost
        "unk3-000033": (b"\x00\x00\x33", cc_args),
        "unk1-improper": (b"\x02", b"\x07"),                              # (2 . 7)
    }


HEAVY_TIMEOUT = 600         # seconds per corpus block run alone through the implementation-level oracle (else: unchecked)


def memo_rewriter(rng, allow_empty=True):
    shapes = ["absent", "nil", "b32", "b33", "b1", "two", "pair-first", "improper", "atom", "b32-nonnil-tail"]
    if allow_empty:
        shapes.append("empty-first")
    used = []

    def shape_tree(name):
        r = rng
        if name == "absent":
            return None
        if name == "nil":
            return b""
        if name == "b32":
            return to_list([r.bytes(32)])
        if name == "b33":
            return to_list([r.bytes(33)])
        if name == "b1":
            return to_list([r.choice([b"\x00", b"\x01", b"\xff"])])
        if name == "two":
            return to_list([r.bytes(32), b"memo two"])
        if name == "pair-first":
            return to_list([(b"a", b"b"), r.bytes(32)])
        if name == "improper":
            return (r.bytes(32), b"x")
        if name == "atom":
            return r.bytes(32)
        if name == "b32-nonnil-tail":
            return to_list([r.bytes(32)], term=b"\x01")
        if name == "empty-first":
            return to_list([b""] + ([r.bytes(32)] if r.chance(1, 2) else []))
        raise KeyError(name)

    def rewrite(conds):
        out = []
        t = conds
        while isinstance(t, tuple):
            c = t[0]
            if isinstance(c, tuple) and c[0] == b"\x33" and isinstance(c[1], tuple) and isinstance(c[1][1], tuple):
                name = rng.choice(shapes)
                used.append(name)
                m = shape_tree(name)
                ph, amt = c[1][0], c[1][1][0]
                # what follows the memo list: usually nothing; else further arguments (valid without STRICT_ARGS_COUNT),
                # which neither validation nor the helper may let influence the hint
                after = b""
                if m is not None and rng.chance(1, 3):
                    after = rng.choice([to_list([b"\x13\x37"]), to_list([b""]), to_list([(b"a", b"b")]), b"\x01",
                                        to_list([rng.bytes(32), b"x"]), (b"", b"\x05")])
                    used.append("trailing-after-memo")
                c = (c[0], (ph, (amt, b"" if m is None else (m, after))))
            out.append(c)
            t = t[1]
        # unknown conditions (pair / nil / over-long / unknown opcodes) before, between and after the others: skipped
        # by consensus-mode validation, and the helpers must skip exactly the same
        if rng.chance(1, 3):
            uc = unknown_conds(rng)
            for _ in range(1 + rng.below(3)):
                name = rng.choice(sorted(uc))
                out.insert(rng.below(len(out) + 1), uc[name])
                used.append("unknown-op:" + name.split("-")[0])
        return to_list(out, t)

    return rewrite, used


def flag_class(fl):
    return (bool(fl & F["SIMPLE_GENERATOR"]), bool(fl & F["INTERNED_GENERATOR"]), bool(fl & F["COST_CONDITIONS"]),
            bool(fl & G.CLVM_MASK))


def has_extras(c):
    return any(t[0] == "shape" and t[1] in ("shape4", "shape5") for t in c["tags"])


def run_trusted(rep, cases, have_model):
    G.tables(cases)
    cases[:] = G.with_table(rep, "gen.trusted", cases)
    lines = [G.trusted_line(c) for c in cases]
    impl = G.vh(lines)
    model = G.vrun(lines) if have_model else [None] * len(lines)
    st = rep.streams.setdefault("gen.trusted", {"cases": 0, "disagreements": 0})
    from collections import Counter
    v = Counter()
    for c, i, m in zip(cases, lines, impl):
        pass
    for c, i, m in zip(cases, impl, model):
        if G.unchecked(rep, "gen.trusted", G.trusted_line(c), i, m if have_model else None):
            continue
        f = i.split(" ## ")
        ar = "ERR" if f[0] == "ERR" else "OK"
        v[(ar, "ERR" if len(f) > 1 and f[1] == "CS=ERR" else "OK")] += 1
        nsp = f[0].count("|") if ar == "OK" else -1
        memo = tuple(sorted(set(c.get("memo_used", []))))
        rep.nontrivial.add(("gen.trusted", c["kind"], memo, flag_class(c["flags"]), ar, min(nsp, 5)))
        if have_model:
            rep.evaluations += 1
            rep.traces += 1
            st["cases"] += 1
            if i != m:
                st["disagreements"] += 1
                rep.add_failure("gen.trusted", G.base_line(c), i[:3000], (m or "")[:3000],
                                "a trusted-block helper deviates from its mirror (additions/removals/coin spends/conditions/lookup)")
    st["verdicts"] = {"AR=%s CS=%s" % k: n for k, n in v.items()}
    if cases and len(rep.samples) < 6:
        rep.samples.append({"stream": "gen.trusted", "case": G.base_line(cases[0])[:300], "impl": impl[0][:500], "model": (model[0] or "")[:500]})
    return impl


def run_rebuild(rep, cases, have_model):
    """solution_generator over the recovered coin spends (reversed = same spend order, and in order): mirror vs implementation"""
    lines = ["gen.rebuild %d %s %s %s %s" % (c["flags"], G.hexo(c["program"]), G.refs_tok(c["refs"]), c["keys_tok"], c["table_tok"]) for c in cases]
    impl = G.vh(lines)
    model = G.vrun(lines) if have_model else [None] * len(lines)
    st = rep.streams.setdefault("gen.rebuild", {"cases": 0, "disagreements": 0})
    for c, l, i, m in zip(cases, lines, impl, model):
        if G.unchecked(rep, "gen.rebuild", l, i, m if have_model else None):
            continue
        rep.nontrivial.add(("gen.rebuild", c["kind"], i.startswith("rev=ERR") or i.startswith("ERR"), i.split(".")[0][-3:]))
        if have_model:
            rep.evaluations += 1
            st["cases"] += 1
            if i != m:
                st["disagreements"] += 1
                rep.add_failure("gen.rebuild", G.base_line(c), i[:600], (m or "")[:600],
                                "solution_generator over the recovered coin spends deviates from its mirror")


def run_sbadd(rep, cases, have_model):
    sel = [c for c in cases if not (c["flags"] & G.CLVM_MASK)]
    if not sel:
        return
    tl = ["gen.table 0 %d %s %s" % (G.BLOCK, G.hexo(c["program"]), G.refs_tok(c["refs"])) for c in sel]
    tabs = G.vh(tl)
    ok = [k for k, t in enumerate(tabs) if not G.unchecked(rep, "gen.sbadd", tl[k], t)]
    sel, tabs = [sel[k] for k in ok], [tabs[k] for k in ok]
    lines = []
    for c, t in zip(sel, tabs):
        tt = t.split(" ")
        lines.append("gen.sbadd %s %s %s" % (G.hexo(c["program"]), G.refs_tok(c["refs"]), tt[1] if len(tt) == 2 else "-"))
    impl = G.vh(lines)
    model = G.vrun(lines) if have_model else [None] * len(lines)
    st = rep.streams.setdefault("gen.sbadd", {"cases": 0, "disagreements": 0})
    for c, l, i, m in zip(sel, lines, impl, model):
        if G.unchecked(rep, "gen.sbadd", l, i, m if have_model else None):
            continue
        rep.nontrivial.add(("gen.sbadd", c["kind"], i[:3] if i.startswith("ERR") else "OK", min(i.count("|"), 5)))
        if have_model:
            rep.evaluations += 1
            st["cases"] += 1
            if i != m:
                st["disagreements"] += 1
                rep.add_failure("gen.sbadd", "gen.sbcase %s %s" % (G.hexo(c["program"]), G.refs_tok(c["refs"])), i[:2000], (m or "")[:2000],
                                "SpendBundle::additions deviates from its mirror")


def oracle(rep, cases):
    lines = ["gen.oracle09 %d %d %s %s" % (c["flags"], c["max_cost"], G.hexo(c["program"]), G.refs_tok(c["refs"])) for c in cases]
    hv = [k for k, c in enumerate(cases) if c.get("heavy")]
    lt = [k for k, c in enumerate(cases) if not c.get("heavy")]
    outs = [None] * len(lines)
    for k, o in zip(lt, G.vh([lines[k] for k in lt])):
        outs[k] = o
    for k, o in zip(hv, G.vh_heavy([lines[k] for k in hv], HEAVY_TIMEOUT)):
        outs[k] = o
    from collections import Counter
    cl = Counter()
    for l, o in zip(lines, outs):
        if G.unchecked(rep, "gen.oracle09", l, o):
            continue
        cl[" ".join(o.split(" ")[:2]) + ("" if " note=" not in o else " " + o.split(" ")[-1])] += 1
        if not o.startswith("OK"):
            rep.add_failure("gen.oracle09", l, o, "OK", "a trusted helper reports something else than full validation on this accepted block "
                                                        "(property C09 on the implementation)")
    st = rep.streams.setdefault("gen.oracle09", {"cases": 0, "classes": {}})
    st["cases"] += len(lines)
    for k, v in cl.items():
        st["classes"][k] = st["classes"].get(k, 0) + v
    rep.evaluations += len(lines)


def big_cases(env):
    """large, highly redundant generators around the point where the raw byte cost alone reaches the block limit
    (max_block_cost_clvm / cost_per_byte = 916 666 bytes): under INTERNED_GENERATOR validation charges the (tiny) interned
    size and accepts them, so the trusted helpers must not run out of their fixed budget; without the flag validation
    itself rejects above the point.  Implementation-level oracle only (1 MB is out of reach of the Gallina SHA-256)."""
    cpb_limit = G.BLOCK // 12000
    out = []
    for size in (cpb_limit - 700, cpb_limit + 400, 1000000):
        for fl in (F["DONT_VALIDATE_SIGNATURE"] | F["INTERNED_GENERATOR"], F["DONT_VALIDATE_SIGNATURE"]):
            out.append((fl, size))
    return out


def big_line(fl, size):
    return "gen.oracle09 %d %d %s -" % (fl, G.BLOCK, G.big_redundant_generator(size).hex())


def run_big(rep, descriptors):
    lines = [big_line(fl, size) for fl, size in descriptors]
    outs = G.vh(lines, shards=len(lines))
    st = rep.streams.setdefault("gen.oracle09.big", {"cases": 0, "results": {}})
    for (fl, size), o in zip(descriptors, outs):
        d = "gen.oracle09big %d %d" % (fl, size)
        if G.unchecked(rep, "gen.oracle09.big", d, o):
            continue
        st["cases"] += 1
        st["results"][d] = o[:120]
        rep.evaluations += 1
        rep.nontrivial.add(("gen.oracle09.big", fl, size, o[:12]))
        want = "OK accepted" if (fl & F["INTERNED_GENERATOR"] or size * 12000 + 40 <= G.BLOCK) else "OK rejected"
        if not o.startswith(want):
            # the case is stored as a short descriptor: the replay regenerates the program (G.big_redundant_generator)
            rep.add_failure("gen.oracle09", d, o[:300], want,
                            "large redundant generator (plain size %d bytes, flags %d): a trusted helper or validation "
                            "behaves differently from the expected verdict" % (size, fl))


def run(ctx):
    rep, tier = ctx["rep"], ctx["tier"]
    rng = C.SplitMix64(ctx["seed"])
    env = G.Env(rng.fork("env"))
    if ctx.get("replay"):
        f = json.load(open(ctx["replay"]))
        fi = f["failing_input"]
        line = fi["case"]
        if fi["stream"] == "gen.oracle09" and line.startswith("gen.oracle09big "):
            t = line.split(" ")
            run_big(rep, [(int(t[1]), int(t[2]))])
        elif fi["stream"] == "gen.oracle09":
            o = G.vh([line])[0]
            if not o.startswith("OK"):
                rep.add_failure("gen.oracle09", line, o, "OK", "replayed: a trusted helper differs from full validation")
        elif line.startswith("gen.case"):
            run_trusted(rep, [G.parse_case_line(line)], ctx["have_model"])
        elif line.startswith("gen.sbcase"):
            t = line.split(" ")
            c = {"program": bytes.fromhex(t[1]), "refs": [] if t[2] == "-" else [bytes.fromhex(x) if x != "e" else b"" for x in t[2].split(",")],
                 "flags": 0, "max_cost": G.BLOCK, "kind": "replay", "tags": []}
            run_sbadd(rep, [c], ctx["have_model"])
        rep.evaluations += 1
        return

    # thorough tier: sized to finish in < 20 min on an unloaded 16-core machine
    if tier != "quick":
        G.LINE_TIMEOUT = 1800
    n = int(os.environ.get("VERIF_GEN_N", "0")) or (110 if tier == "quick" else 500)
    cases = []
    allow_empty = True          # empty first memos and spend-level extras are part of the default stream
    for k in range(n):
        rw, used = memo_rewriter(rng.fork("memo%d" % k), allow_empty)
        valid = (k % 4 != 3)
        c = env.case(want_valid=valid, memo=rw)
        if ("proc", "proc-odd") in c["tags"] or ("bytes", "bitflip") in c["tags"]:
            continue            # arbitrary programs may loop up to the helpers' fixed 11e9 budget: too slow, not the property
        c["max_cost"] = G.BLOCK
        c.pop("budget", None)
        c["memo_used"] = used
        cases.append(c)
    # dedicated memo-shape x amount-encoding cases: accepted by construction (quote puzzles, outputs <= input)
    shapes_all = ["absent", "nil", "b32", "b33", "b1", "two", "pair-first", "improper", "atom", "b32-nonnil-tail"] + (["empty-first"] if allow_empty else [])
    amounts = [0, 1, 127, 128, 255, 256, 32767, 32768, 2 ** 32 - 1, 2 ** 32, 2 ** 63 - 1, 2 ** 63, 2 ** 64 - 1]
    mr = rng.fork("memocases")
    reps = 3 if tier == "quick" else 8
    for shape in shapes_all:
        for rep_i in range(reps):
            rw, used = memo_rewriter(mr.fork("%s%d" % (shape, rep_i)), allow_empty)
            spends = []
            for si in range(1 + mr.below(3)):
                total = mr.choice(amounts[3:])
                ncc = 1 + mr.below(3)
                left = total
                conds = []
                for ci in range(ncc):
                    a = mr.choice([x for x in amounts if x <= left] or [0])
                    left -= a
                    conds.append(to_list([b"\x33", mr.bytes(32), canon(a), b"placeholder"]))
                ct = rw(to_list(conds))
                # force the wanted shape on the first CREATE_COIN of the first spend
                tail = mr.choice([[], [], [b"extra"], [b"", (b"a", b"b")]])          # spend-level extras (ignored by validation)
                spends.append(to_list([mr.bytes(32), (b"\x01", ct), canon(total), b""] + tail,
                                      term=(mr.choice([b"", b"", b"\x01"]) if tail else b"")))
            prog = ser((b"\x01", (to_list(spends), b"")))
            fl = F["DONT_VALIDATE_SIGNATURE"] | (F["COST_CONDITIONS"] if mr.chance(1, 2) else 0) | (F["SIMPLE_GENERATOR"] if mr.chance(1, 4) else 0)
            cases.append({"program": prog, "refs": [], "flags": fl, "max_cost": G.BLOCK, "kind": "memo", "tags": [("memo", shape)],
                          "memo_used": used})
    # every (first memo, argument after the memo list) combination once per run: the hint must not depend on what follows
    fr = rng.fork("memo-after")
    for hint in (fr.bytes(32), b"\x42", b"", fr.bytes(33)):
        for after in (to_list([b"\x13\x37"]), to_list([b""]), to_list([(b"a", b"b")]), b"\x01"):
            cond = (b"\x33", (fr.bytes(32), (canon(1000), (to_list([hint]), after))))
            spend = to_list([fr.bytes(32), (b"\x01", to_list([cond])), canon(1000), b""])
            cases.append({"program": ser((b"\x01", (to_list([spend]), b""))), "refs": [], "flags": F["DONT_VALIDATE_SIGNATURE"],
                          "max_cost": G.BLOCK, "kind": "memo-after", "tags": [("memo-after", "%d" % len(hint))],
                          "memo_used": ["trailing-after-memo"]})
    # unknown conditions next to CREATE_COINs, every shape x every position (before / between / after / everywhere), in
    # consensus mode (accepted by full validation, which skips them; every helper must skip them too), once more with
    # COST_CONDITIONS, and once under NO_UNKNOWN_CONDS (full validation rejects; helpers stay total)
    ur = rng.fork("unknown-ops")
    for ui, name in enumerate(sorted(unknown_conds(ur))):
        # quick tier: "all" for every shape plus one rotating single position; full tier: every position
        for pos in ((("before", "between", "after")[(ui + ctx["seed"]) % 3], "all") if tier == "quick" else ("before", "between", "after", "all")):
            u = unknown_conds(ur)[name]
            cc1 = to_list([b"\x33", ur.bytes(32), canon(400), to_list([ur.bytes(32)])])
            cc2 = to_list([b"\x33", ur.bytes(32), canon(500)])
            conds = {"before": [u, cc1, cc2], "between": [cc1, u, cc2], "after": [cc1, cc2, u], "all": [u, cc1, u, cc2, u]}[pos]
            spend = to_list([ur.bytes(32), (b"\x01", to_list(conds)), canon(1000), b""])
            other = to_list([ur.bytes(32), (b"\x01", to_list([to_list([b"\x33", ur.bytes(32), canon(7)])])), canon(7), b""])
            prog = ser((b"\x01", (to_list([spend, other] if ur.chance(1, 2) else [spend]), b"")))
            fls = [F["DONT_VALIDATE_SIGNATURE"] | (F["COST_CONDITIONS"] if pos in ("between", "all") else 0)]
            if pos == "all":
                fls.append(F["DONT_VALIDATE_SIGNATURE"] | F["NO_UNKNOWN_CONDS"])
            for fl in fls:
                cases.append({"program": prog, "refs": [], "flags": fl, "max_cost": G.BLOCK, "kind": "unknown-op",
                              "tags": [("unknown-op", name), ("pos", pos)], "memo_used": ["unknown-op:" + name]})
    # twins: spends that share two of (parent, puzzle, amount) and differ in the third and in the solution, so a
    # lookup that ignores one component of the coin returns the wrong spend
    tr = rng.fork("twins")
    for rep_i in range(2 if tier == "quick" else 8):
        for differ in ("parent", "amount", "puzzle"):
            pa, pb = tr.bytes(32), tr.bytes(32)
            am = tr.choice([1, 100, 2 ** 32, 2 ** 63])
            puz1, puz2 = b"\x01", b"\x02"          # solution / (f solution)
            mk = lambda par, puz, amt, marker: to_list([par, puz, canon(amt),
                                                        (to_list([to_list([b"\x01", marker])]) if puz == b"\x01"
                                                         else (to_list([to_list([b"\x01", marker])]), b""))])
            first = mk(pa, puz1, am, b"first")
            if differ == "parent":
                second = mk(pb, puz1, am, b"second")
            elif differ == "amount":
                second = mk(pa, puz1, am + 1, b"second")
            else:
                second = mk(pa, puz2, am, b"second")
            spends = [first, second] if tr.chance(1, 2) else [second, first]
            prog = ser((b"\x01", (to_list(spends), b"")))
            cases.append({"program": prog, "refs": [], "flags": F["DONT_VALIDATE_SIGNATURE"], "max_cost": G.BLOCK, "kind": "twins",
                          "tags": [("twins", differ)], "memo_used": []})
    # non-canonical first bytes of the generator (quote atom with over-long length prefixes, back-reference, nested,
    # two-byte, nil), with and without SIMPLE_GENERATOR: get_coinspends*_for_trusted_block apply the byte-level
    # check_generator_quote like full validation does; the helpers' mirrors are compared on rejected inputs too
    for c in env.head_cases(per_head=1 if tier == "quick" else 3):
        c["max_cost"] = G.BLOCK
        c.pop("budget", None)
        c["memo_used"] = []
        cases.append(c)
    impl_only = []
    for name, prog, refs, big in G.file_cases(tier, env):
        # model side: only the corpus files measured small and cheap (G.QUICK_FILES); the others through the
        # implementation-level oracle alone, one process per line with a time limit
        cheap = name in G.QUICK_FILES and not big
        for fl in [F["DONT_VALIDATE_SIGNATURE"]] + ([env.mempool_mode | F["DONT_VALIDATE_SIGNATURE"]] if cheap or len(prog) <= 100000 else []):
            if name in ("aa-million-messages", "aa-million-message-spends"):
                fl |= F["COST_CONDITIONS"]
            (cases if cheap else impl_only).append({"program": prog, "refs": refs, "flags": fl, "max_cost": G.BLOCK, "kind": "file",
                                                    "tags": [("file", name)], "heavy": not cheap})
    run_trusted(rep, cases, ctx["have_model"])
    run_rebuild(rep, cases, ctx["have_model"])
    run_sbadd(rep, cases, ctx["have_model"])
    oracle(rep, cases + impl_only)
    run_big(rep, big_cases(env))
    rep.streams["gen.oracle09"]["implementation_only_files"] = sorted({t[1] for c in impl_only for t in c["tags"]})

    # fixed regression inputs: the former witnesses of F-C09-1 (0a21e864) and F-C09-2 (1aa0e3f6) must pass
    cc = lambda memo: to_list([b"\x33", b"\x22" * 32, canon(5)] + memo)
    s1 = to_list([b"\x11" * 32, (b"\x01", to_list([cc([to_list([b""])])])), canon(10), b""])
    s2 = to_list([b"\x11" * 32, (b"\x01", to_list([cc([])])), canon(10), b"", b"extra"])
    wit = {"F-C09-1 empty first memo": "gen.oracle09 %d %d %s -" % (F["DONT_VALIDATE_SIGNATURE"], G.BLOCK, ser((b"\x01", (to_list([s1]), b""))).hex()),
           "F-C09-2 spend-level extras": "gen.oracle09 %d %d %s -" % (F["DONT_VALIDATE_SIGNATURE"], G.BLOCK, ser((b"\x01", (to_list([s2]), b""))).hex())}
    reg = {}
    for what, line in wit.items():
        o = G.vh([line], shards=1)[0]
        reg[what] = {"case": line, "implementation": o}
        if not o.startswith("OK accepted"):
            rep.add_failure("gen.oracle09", line, o, "OK accepted", "fixed defect is back: " + what)
    rep.streams["regression_fixed_findings"] = reg
    from collections import Counter
    rep.streams["gen.trusted"]["kinds"] = dict(Counter(c["kind"] for c in cases))
    rep.streams["gen.trusted"]["memo_shapes"] = dict(Counter(m for c in cases for m in c.get("memo_used", [])))
