"""C18 — DataLayer Merkle blob stays a valid authenticated map under any history.

Stream dl.hist   (model = coq/Run/DlRun.v over Dl/Blob.v; impl = harness vh_dl on the real MerkleBlob):
    operation histories, compared after EVERY operation on result, exact blob bytes, key/value map,
    check_integrity verdict, reload verdict, and after hashing on root and all proofs of inclusion.
    The model additionally evaluates, per operation, the L2->L1 abstraction link (abs, inv_b, reload
    equivalence) and prints it as "@flags" (a = holds, K/S = known class, X = broken).
Oracle dl.oracle (implementation only, no model): the history against a plain HashMap, check_integrity,
    reload through MerkleBlob::new, independent root recomputation, proof validity.
The former finding classes (batch with a duplicate, upsert with another leaf's hash, insert at a stale index;
    repaired in /repo by a9e08b84, c5be66b8, 9e5ac516) are part of the default stream (kind "former-known"):
    they must satisfy the property like every other history.  classify_known matches nothing."""
import hashlib, json, os, sys
sys.path.insert(0, os.path.dirname(os.path.dirname(os.path.abspath(__file__))))
import common as C
from run import diff_stream

UNIT = "dl"
GEN = ["dl"]
RULE = ("histories of insert(auto / at reference key+side / as root / at raw index), delete, upsert, batch_insert, "
        "calculate_lazy_hashes, reload over small key pools (4-10 keys incl. 0, 1, -1, i64::MIN/MAX) and small hash pools "
        "(forcing KeyAlreadyPresent / HashAlreadyPresent), grow-then-drain histories (deletes down to 2/1/0 leaves, "
        "free-index reuse), batches of size 0..n on trees of 0,1,2,n leaves, large random key spaces, blobs above 200 "
        "blocks (compared by SHA-256). non-trivial/distinct = distinct (operation kind, location kind, leaf-count class "
        "before the operation {0,1,2,3-7,8+}, result) tuples reached with a non-empty tree or a successful result")
ASSUMPTIONS = ["TreeIndex is u32 and blob.len()/BLOCK_SIZE is cast with `as u32`: the model has no wrap-around (blobs below 2^32 blocks)",
               "from_path/to_path (zstd file I/O), deltas.rs and build_blob_from_node_list are not modelled",
               "HashMap/IndexSet are modelled as association lists / a FIFO list; iteration order of HashMap is never observable in the compared output (sorted)",
               "Gallina SHA-256 equals the real one (every internal hash and Auto insert location in the stream depends on it)"]
TRUSTED = ["Python classification of known finding classes in driver/props/C18.py (plain dict replay + block parser)"]

BLOCK = 55
I64 = 1 << 64


# ------------------------------------------------------------------ encoding of cases
def k16(k):
    return (k % I64).to_bytes(8, "big").hex()


def op_tok(op):
    t = op[0]
    if t == "i":
        _, k, v, h, loc = op
        s = "i:%s:%s:%s:" % (k16(k), k16(v), h.hex())
        if loc[0] == "a":
            return s + "a"
        if loc[0] == "r":
            return s + "r"
        if loc[0] == "k":
            return s + "k:%s:%d" % (k16(loc[1]), loc[2])
        return s + "x:%d:%d" % (loc[1], loc[2])
    if t == "d":
        return "d:%s" % k16(op[1])
    if t == "u":
        return "u:%s:%s:%s" % (k16(op[1]), k16(op[2]), op[3].hex())
    if t == "b":
        return ":".join(["b"] + ["%s:%s:%s" % (k16(k), k16(v), h.hex()) for (k, v, h) in op[1]])
    return t  # h, l


def parse_tok(tok):
    f = tok.split(":")
    u = lambda s: int(s, 16)
    if f[0] == "i":
        k, v, h = u(f[1]), u(f[2]), bytes.fromhex(f[3])
        if f[4] in ("a", "r"):
            return ("i", k, v, h, (f[4],))
        if f[4] == "k":
            return ("i", k, v, h, ("k", u(f[5]), int(f[6])))
        return ("i", k, v, h, ("x", int(f[5]), int(f[6])))
    if f[0] == "d":
        return ("d", u(f[1]))
    if f[0] == "u":
        return ("u", u(f[1]), u(f[2]), bytes.fromhex(f[3]))
    if f[0] == "b":
        items = []
        for i in range(1, len(f) - 2, 3):
            items.append((u(f[i]), u(f[i + 1]), bytes.fromhex(f[i + 2])))
        return ("b", items)
    return (f[0],)


# ------------------------------------------------------------------ the plain map (specification)
def hash_of_other(m, k, h):
    return any(kk != k and hh == h for kk, (_, hh) in m.items())


def plain_apply(m, op, live_leaf=None):
    """returns the new map or None (operation must fail and change nothing)"""
    t = op[0]
    n = dict(m)
    if t == "i":
        _, k, v, h, loc = op
        if k in m or hash_of_other(m, k, h):
            return None
        if loc[0] == "r" and m:
            return None
        if loc[0] == "k" and loc[1] not in m:
            return None
        if loc[0] == "x" and not (live_leaf and live_leaf(loc[1])):
            return None
        n[k] = (v, h)
        return n
    if t == "d":
        if op[1] not in m:
            return None
        del n[op[1]]
        return n
    if t == "u":
        _, k, v, h = op
        if hash_of_other(m, k, h):
            return None
        n[k] = (v, h)
        return n
    if t == "b":
        for (k, v, h) in op[1]:
            if k in n or hash_of_other(n, k, h):
                return None
            n[k] = (v, h)
        return n
    return n


def known_class_of(m, op):
    """the former finding classes that are decidable on the plain map (used to GENERATE such operations)"""
    if op[0] == "b" and plain_apply(m, op) is None:
        return "batch-duplicate"
    if op[0] == "u" and op[1] in m and hash_of_other(m, op[1], op[3]):
        return "upsert-hash-of-other-leaf"
    return None


# ------------------------------------------------------------------ block parser (for the stale-index class)
def reachable_leaves(blob):
    """indices of the leaves reachable from block 0 by child pointers; None if undecidable"""
    n = len(blob) // BLOCK
    if n == 0:
        return set()
    seen, leaves, todo = set(), set(), [0]
    while todo:
        i = todo.pop()
        if i in seen or i >= n:
            return None
        seen.add(i)
        b = blob[i * BLOCK:(i + 1) * BLOCK]
        if b[0] == 1:
            leaves.add(i)
        else:
            off = 2 + 32
            off += 5 if b[off] == 1 else 1
            todo.append(int.from_bytes(b[off:off + 4], "big"))
            todo.append(int.from_bytes(b[off + 4:off + 8], "big"))
    return leaves


def block_is_leaf(blob, i):
    return i * BLOCK < len(blob) and blob[i * BLOCK] == 1


# ------------------------------------------------------------------ generators
BOUNDARY_KEYS = [0, 1, -1, (1 << 63) - 1, -(1 << 63), 2, 255, 256, -256]


class Gen:
    def __init__(self, rng, nkeys, nhashes, large=False, raw_index=False):
        self.rng = rng
        self.m = {}
        self.ops = []
        self.large = large
        self.raw_index = raw_index
        if large:
            self.keys = None
        else:
            pool = list(BOUNDARY_KEYS)
            rng.shuffle(pool)
            self.keys = pool[:min(nkeys, 5)] + [3 + i for i in range(max(0, nkeys - 5))]
        self.hashes = [hashlib.sha256(b"h%d" % i).digest() if i % 3 else bytes([i + 1]) * 32 for i in range(nhashes)]
        self.nh = nhashes
        self.blocks_hint = 0

    def key(self):
        if self.keys is None:
            r = self.rng
            if r.chance(1, 8):
                return r.choice(BOUNDARY_KEYS)
            v = r.next()
            return v - I64 if v >= (1 << 63) else v
        return self.rng.choice(self.keys)

    def fresh_key(self):
        for _ in range(40):
            k = self.key()
            if k not in self.m:
                return k
        return None

    def present_key(self):
        return self.rng.choice(sorted(self.m)) if self.m else None

    def hash(self):
        if self.large:
            return self.rng.bytes(32)
        return self.rng.choice(self.hashes)

    def fresh_hash(self, extra=()):
        used = {h for (_, h) in self.m.values()} | set(extra)
        for _ in range(40):
            h = self.hash()
            if h not in used:
                return h
        # pool exhausted: mint a new one
        h = hashlib.sha256(b"x%d" % self.rng.next()).digest()
        return h

    def val(self):
        r = self.rng
        if r.chance(1, 6):
            return r.choice(BOUNDARY_KEYS)
        return r.below(1000)

    def loc(self):
        r = self.rng
        if not self.m:
            return ("r",) if r.chance(1, 2) else ("a",)
        x = r.below(100)
        if x < 50:
            return ("a",)
        if x < 85:
            return ("k", self.present_key(), r.below(2))
        if x < 90:
            return ("r",)                                   # invalid: tree not empty
        if x < 93:
            k = self.fresh_key()
            return ("k", k if k is not None else 12345, r.below(2))   # invalid: unknown reference key
        return ("a",)

    def push(self, op):
        """append the operation and track its effect on the plain map"""
        self.ops.append(op)
        n = plain_apply(self.m, op)
        if n is not None:
            self.m = n
        return True

    def insert(self, valid=True):
        if valid:
            k = self.fresh_key()
            if k is None:
                return self.delete()
            return self.push(("i", k, self.val(), self.fresh_hash(), self.loc()))
        r = self.rng
        if self.m and r.chance(1, 2):
            return self.push(("i", self.present_key(), self.val(), self.fresh_hash(), self.loc()))   # KeyAlreadyPresent
        if self.m:
            k = self.fresh_key()
            if k is not None:
                return self.push(("i", k, self.val(), self.m[self.present_key()][1], self.loc()))    # HashAlreadyPresent
        return self.insert(True)

    def delete(self, valid=True):
        if valid and self.m:
            return self.push(("d", self.present_key()))
        k = self.fresh_key()
        return self.push(("d", k if k is not None else 424242))

    def upsert(self):
        r = self.rng
        if self.m and r.chance(2, 3):
            k = self.present_key()
            # same hash, fresh hash (never the hash of another leaf: that is class F-C18-2)
            h = self.m[k][1] if r.chance(1, 4) else self.fresh_hash()
            # same value id with a new hash (and the reverse) are distinct code paths of upsert
            v = self.m[k][0] if r.chance(1, 3) else self.val()
            if r.chance(1, 3):
                self.push(("h",))          # clean hashes first: the upsert must mark the lineage dirty again
            return self.push(("u", k, v, h))
        k = self.fresh_key()
        if k is None:
            return False
        if self.m and r.chance(1, 5):
            return self.push(("u", k, self.val(), self.m[self.present_key()][1]))    # absent key, used hash: Err
        return self.push(("u", k, self.val(), self.fresh_hash()))

    def batch(self, size):
        items, ks, hs = [], set(), set()
        for _ in range(size):
            k = None
            for _ in range(40):
                c = self.key()
                if c not in self.m and c not in ks:
                    k = c
                    break
            if k is None:
                break
            h = self.fresh_hash(hs)
            ks.add(k)
            hs.add(h)
            items.append((k, self.val(), h))
        return self.push(("b", items))

    def random_op(self):
        r = self.rng
        x = r.below(100)
        if x < 34:
            return self.insert(valid=not r.chance(1, 6))
        if x < 58:
            return self.delete(valid=not r.chance(1, 7))
        if x < 74:
            return self.upsert()
        if x < 86:
            return self.batch(r.choice([0, 1, 2, 3, 4, 5, 7, 8]))
        if x < 94:
            return self.push(("h",))
        return self.push(("l",))


def gen_history(rng, kind, tier):
    r = rng
    scale = 1 if tier == "quick" else 2
    if kind == "churn":
        g = Gen(r, 4 + r.below(6), 5 + r.below(8))
        for _ in range(18 + r.below(22 * scale)):
            g.random_op()
        if r.chance(1, 3):
            # a blind raw-index insert, always LAST (its effect is unknown to the generator): hits a live leaf,
            # an internal node, an index out of range, or a stale leaf block (then the history moves to dl.known)
            k = g.fresh_key()
            if k is not None:
                g.ops.append(("i", k, g.val(), g.fresh_hash(), ("x", r.below(2 * len(g.m) + 4), r.below(2))))
                g.ops.append(("h",))
    elif kind == "drain":
        g = Gen(r, 10 + r.below(14), 40)
        n = 5 + r.below(14 * scale)
        for _ in range(n):
            g.insert()
        g.push(("h",))
        while g.m:
            if r.chance(1, 6):
                g.random_op()
            else:
                g.delete()
            if len(g.ops) > 120 * scale:
                break
        for _ in range(3 + r.below(8)):
            g.random_op()
        g.push(("h",))
    elif kind == "batch":
        g = Gen(r, 30, 60)
        start = r.choice([0, 0, 1, 1, 2, 2, 3, 5, 9])
        if start and r.chance(1, 2):
            g.batch(start)
        else:
            for _ in range(start):
                g.insert()
        for _ in range(2 + r.below(4)):
            g.batch(r.choice([0, 1, 2, 3, 4, 5, 6, 9, 13]))
            for _ in range(r.below(4)):
                g.random_op()
        g.push(("h",))
    elif kind == "large":
        g = Gen(r, 0, 0, large=True)
        for _ in range(25 + r.below(30 * scale)):
            x = r.below(10)
            if x < 6:
                g.insert()
            else:
                g.random_op()
        g.push(("h",))
    elif kind == "reload":
        g = Gen(r, 8, 12)
        for _ in range(10 + r.below(14 * scale)):
            g.random_op()
            if r.chance(1, 3):
                g.push(("l",))
        g.push(("h",))
    elif kind == "medium":  # 30-70 leaves, hashing in between so that dirty nodes do not pile up
        g = Gen(r, 0, 0, large=True)
        g.batch(20 + r.below(25 * scale))
        g.push(("h",))
        for _ in range(14 + r.below(10)):
            g.random_op()
            if r.chance(1, 4):
                g.push(("h",))
        g.push(("h",))
    else:  # big: beyond 200 blocks, blob compared by SHA-256
        g = Gen(r, 0, 0, large=True)
        g.batch(101 + r.below(20 * scale))
        g.push(("h",))
        for _ in range(5):
            g.random_op()
        g.push(("h",))
    return g.ops


HAND = [
    # the empty history; single operations on the empty blob
    [], [("h",)], [("l",)], [("d", 5)], [("b", [])], [("u", 1, 2, b"\x07" * 32)],
    [("i", 1, 1, b"\x01" * 32, ("k", 9, 0))], [("i", 1, 1, b"\x01" * 32, ("x", 0, 0))],
    # 1 -> 2 -> 1 -> 0 leaves, both sides, then reuse
    [("i", 1, 10, b"\x01" * 32, ("r",)), ("i", 2, 20, b"\x02" * 32, ("k", 1, 0)), ("d", 1), ("d", 2), ("i", 3, 30, b"\x03" * 32, ("a",)), ("h",)],
    [("i", 1, 10, b"\x01" * 32, ("a",)), ("i", 2, 20, b"\x02" * 32, ("k", 1, 1)), ("d", 2), ("i", 2, 21, b"\x02" * 32, ("a",)), ("h",), ("l",), ("d", 1)],
    # delete a leaf whose sibling is internal and whose parent is the root (children re-parented to 0)
    [("i", 1, 1, b"\x01" * 32, ("a",)), ("i", 2, 2, b"\x02" * 32, ("k", 1, 0)), ("i", 3, 3, b"\x03" * 32, ("k", 2, 0)),
     ("i", 4, 4, b"\x04" * 32, ("k", 3, 1)), ("d", 1), ("h",), ("d", 3), ("d", 4), ("h",)],
    # batches on 0, 1, 2 leaves of sizes 1, 2, 3
    [("b", [(1, 1, b"\x01" * 32)])], [("b", [(1, 1, b"\x01" * 32), (2, 2, b"\x02" * 32)]), ("h",)],
    [("b", [(1, 1, b"\x01" * 32), (2, 2, b"\x02" * 32), (3, 3, b"\x03" * 32)]), ("h",), ("l",)],
    [("i", 9, 9, b"\x09" * 32, ("a",)), ("b", [(1, 1, b"\x01" * 32)]), ("h",)],
    [("i", 9, 9, b"\x09" * 32, ("a",)), ("b", [(1, 1, b"\x01" * 32), (2, 2, b"\x02" * 32), (3, 3, b"\x03" * 32), (4, 4, b"\x04" * 32)]), ("h",)],
    [("i", 9, 9, b"\x09" * 32, ("a",)), ("i", 8, 8, b"\x08" * 32, ("a",)), ("b", [(1, 1, b"\x01" * 32), (2, 2, b"\x02" * 32), (3, 3, b"\x03" * 32)]), ("h",), ("d", 9), ("d", 8), ("h",)],
    # upsert: same hash, new hash, root leaf, after hashing (dirty propagation)
    [("i", 1, 1, b"\x01" * 32, ("a",)), ("u", 1, 5, b"\x01" * 32), ("u", 1, 6, b"\x02" * 32), ("h",)],
    # upsert with the SAME value id and a new hash on clean hashes (root must be recomputed), 2 and 4 leaves, after a delete
    [("i", 1, 1, b"\x01" * 32, ("a",)), ("i", 2, 2, b"\x02" * 32, ("a",)), ("h",), ("u", 1, 1, b"\x11" * 32), ("h",), ("u", 2, 2, b"\x22" * 32), ("h",)],
    [("b", [(k, k, bytes([k]) * 32) for k in range(1, 5)]), ("h",), ("d", 2), ("h",), ("u", 3, 7, b"\x73" * 32), ("h",), ("u", 3, 7, b"\x74" * 32), ("h",), ("u", 4, 4, b"\x44" * 32), ("h",)],
    [("b", [(k, k, bytes([k]) * 32) for k in range(1, 8)]), ("h",), ("u", 3, 99, b"\x63" * 32), ("h",), ("u", 3, 98, b"\x63" * 32), ("d", 5), ("h",)],
]

KNOWN_HAND = [
    ("batch-duplicate", [("b", [(1, 1, b"\x01" * 32), (2, 2, b"\x02" * 32), (3, 3, b"\x03" * 32), (4, 4, b"\x04" * 32), (3, 9, b"\x09" * 32)])]),
    ("batch-duplicate", [("b", [(1, 1, b"\x01" * 32), (2, 2, b"\x02" * 32), (3, 3, b"\x03" * 32), (4, 4, b"\x04" * 32), (5, 5, b"\x01" * 32)])]),
    ("batch-duplicate", [("b", [(1, 1, b"\x01" * 32), (1, 2, b"\x02" * 32)])]),
    ("batch-duplicate", [("i", 7, 7, b"\x07" * 32, ("a",)), ("i", 8, 8, b"\x08" * 32, ("a",)), ("i", 9, 9, b"\x09" * 32, ("a",)), ("b", [(7, 1, b"\x01" * 32)])]),
    ("upsert-hash-of-other-leaf", [("i", 1, 1, b"\x01" * 32, ("a",)), ("i", 2, 2, b"\x02" * 32, ("a",)), ("i", 3, 3, b"\x03" * 32, ("a",)), ("u", 1, 5, b"\x02" * 32)]),
    ("insert-at-stale-index", [("i", 1, 1, b"\x01" * 32, ("a",)), ("i", 2, 2, b"\x02" * 32, ("a",)), ("d", 2), ("i", 3, 3, b"\x03" * 32, ("x", 2, 0))]),
    # a freed block that still names a key which is live again in another block (delete A, delete K, re-insert K)
    ("insert-at-stale-index?", [("i", 1, 1, b"\x01" * 32, ("a",)), ("i", 2, 2, b"\x02" * 32, ("a",)), ("i", 3, 3, b"\x03" * 32, ("a",)),
                                ("i", 4, 4, b"\x04" * 32, ("a",)), ("d", 2), ("d", 3), ("i", 3, 33, b"\x33" * 32, ("a",)),
                                ("i", 9, 9, b"\x09" * 32, ("x", "?", 0))]),
    ("insert-at-stale-index?", [("i", 1, 1, b"\x01" * 32, ("a",)), ("i", 2, 2, b"\x02" * 32, ("a",)), ("i", 3, 3, b"\x03" * 32, ("a",)),
                                ("d", 1), ("d", 3), ("i", 3, 33, b"\x33" * 32, ("a",)), ("i", 1, 11, b"\x11" * 32, ("a",)), ("d", 2),
                                ("i", 9, 9, b"\x09" * 32, ("x", "?", 1))]),
]


def gen_known(rng, tier):
    """histories whose LAST generated operation is in a known class (prefix is a default-stream history)"""
    out = list(KNOWN_HAND)
    n = 24 if tier == "quick" else 200
    for i in range(n):
        r = rng.fork("known%d" % i)
        g = Gen(r, 6 + r.below(6), 12 + r.below(8))
        for _ in range(3 + r.below(14)):
            g.random_op()
        kind = i % 3
        if kind == 0:
            # batch with a duplicate key or hash (inside the batch or against the tree), any position
            size = 1 + r.below(7)
            items, ks, hs = [], set(), set()
            for _ in range(size):
                k = g.fresh_key()
                if k is None or k in ks:
                    continue
                h = g.fresh_hash(hs)
                ks.add(k)
                hs.add(h)
                items.append((k, g.val(), h))
            if not items:
                continue
            j = r.below(len(items))
            mode = r.below(4)
            k, v, h = items[j]
            if mode == 0 and len(items) > 1:
                o = items[(j + 1 + r.below(len(items) - 1)) % len(items)]
                items[j] = (o[0], v, h)                       # key duplicated inside the batch
            elif mode == 1 and len(items) > 1:
                o = items[(j + 1 + r.below(len(items) - 1)) % len(items)]
                items[j] = (k, v, o[2])                       # hash duplicated inside the batch
            elif mode == 2 and g.m:
                items[j] = (g.present_key(), v, h)            # key already in the tree
            elif g.m:
                items[j] = (k, v, g.m[g.present_key()][1])    # hash already in the tree
            else:
                items.append(items[0])
            op = ("b", items)
            if known_class_of(g.m, op) != "batch-duplicate":
                continue
            out.append(("batch-duplicate", g.ops + [op] + ([("h",)] if r.chance(1, 2) else [])))
        elif kind == 1:
            if len(g.m) < 2:
                continue
            k = g.present_key()
            others = [kk for kk in sorted(g.m) if kk != k and g.m[kk][1] != g.m[k][1]]
            if not others:
                continue
            op = ("u", k, g.val(), g.m[r.choice(others)][1])
            out.append(("upsert-hash-of-other-leaf", g.ops + [op] + ([("h",)] if r.chance(1, 2) else [])))
        else:
            # raw-index insert after deletes: the index is classified after running the prefix
            if not g.m:
                continue
            deleted = []
            for _ in range(1 + r.below(3)):
                if len(g.m) > 1:
                    before = set(g.m)
                    g.delete()
                    deleted += sorted(before - set(g.m))
            # re-insert some deleted keys: they land in earlier freed blocks (FIFO free list), so a later freed block
            # still holds the bytes of a key that is LIVE elsewhere (a stale block naming a live key)
            for dk in deleted:
                if r.chance(2, 3) and dk not in g.m:
                    g.push(("i", dk, g.val(), g.fresh_hash(), ("a",)))
            k = g.fresh_key()
            if k is None:
                continue
            out.append(("insert-at-stale-index?", g.ops + [("i", k, g.val(), g.fresh_hash(), ("x", "?", r.below(2)))]))
    return out


# ------------------------------------------------------------------ running
def line_of(stream, ops):
    return (stream + " " + " ".join(op_tok(o) for o in ops)).rstrip()


def split_model(out):
    """model line -> (comparable part, flags)"""
    toks = out.split(" ")
    if toks and toks[-1].startswith("@"):
        return " ".join(toks[:-1]), toks[-1][1:]
    return out, None


def leafclass(n):
    return "0" if n == 0 else "1" if n == 1 else "2" if n == 2 else "3-7" if n < 8 else "8+"


_HIST_CACHE = {}


def classify_known(failure, known):
    """no known findings for C18 any more: every failure is a violation"""
    return None


def run(ctx):
    rep, tier = ctx["rep"], ctx["tier"]
    rng = C.SplitMix64(ctx["seed"])
    have_model = ctx["have_model"]

    # ---------------- default stream
    hists = []
    if ctx.get("replay"):
        f = json.load(open(ctx["replay"]))
        line = f["failing_input"]["case"]
        toks = [t for t in line.split(" ")[1:] if t]
        hists = [("replay", [parse_tok(t) for t in toks])]
    else:
        for h in HAND:
            hists.append(("hand", h))
        cdir = C.VERIF + "/corpus/C18"
        if os.path.isdir(cdir):
            for fn in sorted(os.listdir(cdir)):
                for l in open(os.path.join(cdir, fn)):
                    l = l.strip()
                    if l and not l.startswith("#"):
                        hists.append(("corpus", [parse_tok(t) for t in l.split(" ")[1:] if t]))
        mix = (["churn"] * 50 + ["drain"] * 28 + ["batch"] * 28 + ["large"] * 10 + ["reload"] * 16 + ["medium"] * 6 + ["big"] * 2)
        rng.fork("mix").shuffle(mix)
        mult = 1 if tier == "quick" else 12
        for rep_i in range(mult):
            for i, kind in enumerate(mix):
                hists.append((kind, gen_history(rng.fork("%s/%d/%d" % (kind, rep_i, i)), kind, tier)))

        # the former finding classes, now ordinary histories: resolve the blind stale indexes on the implementation
        kh = gen_known(rng.fork("known"), tier)
        pre_lines = [line_of("dl.hist", ops[:-1]) for cls, ops in kh if cls.endswith("?")]
        pre_out = C.run_lines(C.VH(UNIT), pre_lines, timeout=300) if pre_lines else []
        pi = 0
        for cls, ops in kh:
            if not cls.endswith("?"):
                hists.append(("former-known", ops))
                continue
            o = pre_out[pi]
            pi += 1
            outs = o.split(" ")
            last = outs[-1].split("|") if outs and "|" in outs[-1] else None
            if not last or last[1] in ("-",) or last[1].startswith("#"):
                continue
            blob = bytes.fromhex(last[1])
            lv = reachable_leaves(blob)
            if lv is None:
                continue
            stale = [i for i in range(len(blob) // BLOCK) if i not in lv and block_is_leaf(blob, i)]
            if not stale:
                continue
            op = ops[-1]
            # every stale block (up to 4): one of them may hold the bytes of a key that is live elsewhere
            pick = list(stale)
            while len(pick) > 4:
                pick.pop(rng.below(len(pick)))
            for idx in pick:
                hists.append(("former-known", ops[:-1] + [("i", op[1], op[2], op[3], ("x", idx, op[4][2])), ("h",)]))

    hl = [line_of("dl.hist", ops) for _, ops in hists]
    ol = [line_of("dl.oracle", ops) for _, ops in hists]
    impl = C.run_lines(C.VH(UNIT), hl, timeout=600)
    for l, o in zip(hl, impl):
        _HIST_CACHE[l[len("dl.hist "):] if " " in l else ""] = o
    if have_model:
        mraw = C.run_lines(C.VRUN(UNIT), hl, timeout=1200)
        msplit = [split_model(x) for x in mraw]
        model = [a for a, _ in msplit]
    else:
        model = ["MODEL-UNAVAILABLE"] * len(hl)
        msplit = [(x, None) for x in model]

    dist = {"kinds": {}, "ops": {}, "results": {}, "locations": {}, "history_lengths": {}, "max_leaves": 0,
            "blobs_by_sha": 0, "integrity_fail_states": 0}

    def key_fn_factory():
        return None

    # distribution + non-trivial tuples, from the implementation's own outputs
    for (kind, ops), io in zip(hists, impl):
        dist["kinds"][kind] = dist["kinds"].get(kind, 0) + 1
        lb = "%d-%d" % (len(ops) // 10 * 10, len(ops) // 10 * 10 + 9)
        dist["history_lengths"][lb] = dist["history_lengths"].get(lb, 0) + 1
        outs = io.split(" ") if io != "-" else []
        nleaves = 0
        for j, op in enumerate(ops):
            if j >= len(outs):
                break
            f = outs[j].split("|")
            res = f[0].split(":")[0]
            opk = op[0] + ("/" + op[4][0] if op[0] == "i" else "/%d" % min(len(op[1]), 9) if op[0] == "b" else "")
            dist["ops"][opk] = dist["ops"].get(opk, 0) + 1
            dist["results"][res] = dist["results"].get(res, 0) + 1
            if nleaves > 0 or res == "ok":
                rep.nontrivial.add(("dl.hist", (opk, leafclass(nleaves), res)))
            if len(f) >= 4:
                nleaves = 0 if f[2] in ("-", "E", "P") else f[2].count("=")
                dist["max_leaves"] = max(dist["max_leaves"], nleaves)
                if f[1].startswith("#"):
                    dist["blobs_by_sha"] += 1
                if f[3] != "11":
                    dist["integrity_fail_states"] += 1

    if have_model:
        diff_stream(rep, "dl.hist", hl, impl, model)
        # the model-only abstraction link (L2 -> L1 validated by execution on every history)
        link = {"ops_checked": 0, "holds": 0, "broken": 0}
        for (kind, ops), l, (mo, flags) in zip(hists, hl, msplit):
            if flags is None:
                continue
            link["ops_checked"] += len(flags)
            link["holds"] += flags.count("a")
            if "X" in flags:
                link["broken"] += 1
                rep.add_failure("dl.hist/link", l, "-", "@" + flags,
                                "model-internal: abs(blob') differs from the L1 operation applied to abs(blob), or inv_b / reload "
                                "equivalence fails, at the first X (the L2->L1 link validated by execution does not hold)")
        rep.streams.setdefault("dl.hist", {})["abstraction_link"] = link
    else:
        rep.evaluations += len(hl)
    rep.streams.setdefault("dl.hist", {}).update(dist)

    # implementation-level oracle: the property itself on the real code
    oo = C.run_lines(C.VH(UNIT), ol, timeout=600)
    nfail = 0
    for (kind, ops), l, hline, o in zip(hists, ol, hl, oo):
        if o != "OK":
            nfail += 1
            rep.add_failure("dl.hist/oracle", l, o, "OK", "the property fails on the implementation: " + o)
    rep.streams["dl.oracle"] = {"cases": len(ol), "failures": nfail}
    rep.evaluations += len(ol)
