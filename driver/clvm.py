"""Minimal CLVM tree construction and plain serialization for case generators.
A tree is bytes (atom) or a 2-tuple (pair).  Lists: to_list([a,b,c], term=b'')."""
import hashlib


def canon(v):
    """canonical CLVM integer (minimal two's complement)"""
    if v == 0:
        return b""
    n = (v.bit_length() + 8) // 8 if v > 0 else ((-v - 1).bit_length() + 8) // 8
    return v.to_bytes(n, "big", signed=True)


def to_list(items, term=b""):
    t = term
    for x in reversed(items):
        t = (x, t)
    return t


def atom_prefix(a):
    n = len(a)
    if n == 0:
        return b"\x80"
    if n == 1 and a[0] < 0x80:
        return b""
    if n < 0x40:
        return bytes([0x80 | n])
    if n < 0x2000:
        return bytes([0xC0 | (n >> 8), n & 0xFF])
    if n < 0x100000:
        return bytes([0xE0 | (n >> 16), (n >> 8) & 0xFF, n & 0xFF])
    if n < 0x8000000:
        return bytes([0xF0 | (n >> 24), (n >> 16) & 0xFF, (n >> 8) & 0xFF, n & 0xFF])
    return bytes([0xF8 | (n >> 32), (n >> 24) & 0xFF, (n >> 16) & 0xFF, (n >> 8) & 0xFF, n & 0xFF])


def ser(t):
    """iterative plain serialization"""
    out = bytearray()
    stack = [t]
    while stack:
        x = stack.pop()
        if isinstance(x, tuple):
            out.append(0xFF)
            stack.append(x[1])
            stack.append(x[0])
        else:
            if len(x) == 0:
                out.append(0x80)
            else:
                out += atom_prefix(x)
                out += x
    return bytes(out)


def sha256(b):
    return hashlib.sha256(b).digest()


def tree_hash(t):
    if isinstance(t, tuple):
        return sha256(b"\x02" + tree_hash(t[0]) + tree_hash(t[1]))
    return sha256(b"\x01" + t)


def coin_id(parent, ph, amount):
    return sha256(parent + ph + canon(amount))


def hexo(b):
    return b.hex() if b else "-"
