"""Shared machinery of the checks: build steps, proof audit, sharded execution of the
implementation harness (vh) and the extracted Coq model runner (vrun), diffing, violation
reporting, known findings and the evidence writer."""
import os, sys, json, time, subprocess, re, hashlib, shutil, tempfile, fcntl
from concurrent.futures import ThreadPoolExecutor

VERIF = "/verif"
REPO = "/repo"
CACHE = VERIF + "/.cache"
COQ = VERIF + "/coq"


def VH(unit):
    return CACHE + "/target/release/vh_" + unit


def VRUN(unit):
    return CACHE + "/vrun_" + unit

NPROC = 16

ENV = dict(os.environ, CARGO_NET_OFFLINE="true", CARGO_TARGET_DIR=CACHE + "/target")

ALLOWED_AXIOMS = set()   # no axioms are expected anywhere; extend only with stdlib axioms named in DESIGN §6

FORBIDDEN = re.compile(
    r"\b(Admitted|admit|Axiom|Axioms|Parameter|Parameters|Conjecture|Conjectures|Admit Obligations|"
    r"bypass_check|Unset Guard Checking|Unset Positivity Checking|Unset Universe Checking|"
    r"Guard Checking|Positivity Checking|Universe Checking|type-in-type|impredicative-set|native_compute)\b")


class SplitMix64:
    def __init__(self, seed):
        self.s = seed & 0xFFFFFFFFFFFFFFFF

    def next(self):
        self.s = (self.s + 0x9E3779B97F4A7C15) & 0xFFFFFFFFFFFFFFFF
        z = self.s
        z = ((z ^ (z >> 30)) * 0xBF58476D1CE4E5B9) & 0xFFFFFFFFFFFFFFFF
        z = ((z ^ (z >> 27)) * 0x94D049BB133111EB) & 0xFFFFFFFFFFFFFFFF
        return z ^ (z >> 31)

    def below(self, n):
        return self.next() % n if n > 0 else 0

    def choice(self, l):
        return l[self.below(len(l))]

    def bytes(self, n):
        out = bytearray()
        while len(out) < n:
            out += self.next().to_bytes(8, "big")
        return bytes(out[:n])

    def chance(self, num, den):
        return self.below(den) < num

    def shuffle(self, l):
        for i in range(len(l) - 1, 0, -1):
            j = self.below(i + 1)
            l[i], l[j] = l[j], l[i]

    def fork(self, tag):
        h = hashlib.sha256(("%d/%s" % (self.s, tag)).encode()).digest()
        return SplitMix64(int.from_bytes(h[:8], "big"))


def sh(cmd, timeout=1800, cwd=None, env=None, stdin_data=None):
    t0 = time.time()
    try:
        p = subprocess.run(cmd, shell=isinstance(cmd, str), cwd=cwd, env=env or ENV, input=stdin_data,
                           stdout=subprocess.PIPE, stderr=subprocess.STDOUT, timeout=timeout)
        return p.returncode, p.stdout.decode("utf-8", "replace"), time.time() - t0
    except subprocess.TimeoutExpired as e:
        return 124, (e.stdout or b"").decode("utf-8", "replace") + "\nTIMEOUT", time.time() - t0


# ------------------------------------------------------------------ build steps
def step_translate():
    sys.path.insert(0, VERIF + "/translator")
    import rs2v
    return rs2v.run(REPO, COQ + "/Gen")


def step_coq(targets, timeout=1500):
    """full .vo build of the given targets through the serialised make wrapper"""
    rc, out, dt = sh([VERIF + "/bin/cm"] + targets, timeout=timeout + 60,
                     env=dict(ENV, CM_TIMEOUT=str(timeout)))
    return rc == 0, out, dt


def coq_errors(log):
    """extract (file, message) of the first errors in a make log"""
    errs = []
    for m in re.finditer(r'File "\./([^"]+)", line (\d+), characters [\d-]+:\nError:((?:.|\n)*?)(?=\n\n|\nmake|\Z)', log):
        errs.append({"file": m.group(1), "line": int(m.group(2)), "error": m.group(3).strip()[:600]})
    return errs


def step_runner(unit):
    """build Run/<Unit>Extract.vo (which writes .cache/extract/<unit>/vrun_core.ml) and the OCaml runner"""
    tgt = "Run/%sExtract" % unit.capitalize()
    os.makedirs(CACHE + "/extract/" + unit, exist_ok=True)
    ok, out, dt = step_coq([tgt + ".vo"])
    if not ok:
        return False, out
    if not os.path.exists(CACHE + "/extract/%s/vrun_core.ml" % unit):
        # .vo up to date but extraction output missing (cache wiped): force re-extraction
        for ext in (".vo", ".vok", ".vos", ".glob"):
            try:
                os.remove(COQ + "/" + tgt + ext)
            except FileNotFoundError:
                pass
        ok, out, dt = step_coq([tgt + ".vo"])
        if not ok:
            return False, out
    with open(CACHE + "/runner_%s.lock" % unit, "w") as lk:
        fcntl.flock(lk, fcntl.LOCK_EX)
        rc, out2, _ = sh([VERIF + "/runner/build.sh", unit], timeout=900)
    return rc == 0, out + out2


def step_harness(unit, timeout=int(os.environ.get("VERIF_BUILD_TIMEOUT", "1500"))):
    lock = VERIF + "/harness/Cargo.lock"
    if not os.path.exists(lock) or open(lock).read() != open(REPO + "/Cargo.lock").read():
        shutil.copy(REPO + "/Cargo.lock", lock)
    rc, out, dt = sh(["cargo", "build", "--release", "--offline", "--features", "hooks", "--bin", "vh_" + unit],
                     timeout=timeout, cwd=VERIF + "/harness")
    return rc == 0, out, dt


def strip_coq_comments(src):
    out, depth, i = [], 0, 0
    while i < len(src):
        if src.startswith("(*", i):
            depth += 1
            i += 2
        elif src.startswith("*)", i) and depth > 0:
            depth -= 1
            i += 2
        else:
            if depth == 0:
                out.append(src[i])
            i += 1
    return "".join(out)


def scan_forbidden():
    """grep the whole development (comments stripped) for forbidden constructs"""
    hits = []
    for root, _, files in os.walk(COQ):
        for f in files:
            if not f.endswith(".v"):
                continue
            p = os.path.join(root, f)
            src = strip_coq_comments(open(p).read())
            for ln, line in enumerate(src.split("\n"), 1):
                if FORBIDDEN.search(line):
                    hits.append("%s:%d: %s" % (os.path.relpath(p, COQ), ln, line.strip()[:120]))
                # Variable / Hypothesis outside a section would declare an axiom
            depth = 0
            for ln, line in enumerate(src.split("\n"), 1):
                s = line.strip()
                if re.match(r"^Section\b", s):
                    depth += 1
                elif re.match(r"^End\b", s) and depth > 0:
                    depth -= 1
                elif depth == 0 and re.match(r"^(Variable|Variables|Hypothesis|Hypotheses|Context)\b", s):
                    hits.append("%s:%d: %s outside a section" % (os.path.relpath(p, COQ), ln, s[:80]))
    pf = COQ + "/_CoqProject.in"
    if re.search(r"type-in-type|impredicative-set|-noinit|bypass", open(pf).read()):
        hits.append("_CoqProject.in passes a forbidden flag")
    return hits


def step_audit(pid):
    """compile driver/pins/<pid>.v: `Check thm : statement.` pins each property theorem's statement,
    `Print Assumptions thm.` lists its axioms.  Returns (theorems, problems, log)."""
    pins = VERIF + "/driver/pins/%s.v" % pid
    work = CACHE + "/audit"
    os.makedirs(work, exist_ok=True)
    dst = work + "/Audit_%s.v" % pid
    shutil.copy(pins, dst)
    rc, out, dt = sh(["coqc", "-Q", COQ, "ChiaV", "-w", "-notation-overridden", dst], timeout=600, cwd=work)
    src = strip_coq_comments(open(pins).read())
    names = re.findall(r"Print Assumptions\s+([A-Za-z0-9_'.]+)\s*\.", src)
    checks = re.findall(r"\bCheck\s+([A-Za-z0-9_'.]+)\s*:", src)
    problems = []
    if rc != 0:
        problems.append("audit file does not compile (a pinned statement changed or a theorem is missing): " + out[-800:])
    for n in names:
        if n not in checks:
            problems.append("theorem %s has no statement pin" % n)
    # parse assumption blocks in order
    blocks = re.split(r"(?m)^(?=Closed under the global context|Axioms:)", out)
    results = []
    for b in blocks:
        if b.startswith("Closed under the global context"):
            results.append([])
        elif b.startswith("Axioms:"):
            ax = re.findall(r"(?m)^([A-Za-z_][A-Za-z0-9_'.]*)\s*:", b[len("Axioms:"):])
            results.append(ax)
    theorems = []
    if rc == 0 and len(results) != len(names):
        problems.append("could not match Print Assumptions output to theorems (%d vs %d)" % (len(results), len(names)))
    for i, n in enumerate(names):
        ax = results[i] if i < len(results) else None
        ok = rc == 0 and ax is not None and all(a in ALLOWED_AXIOMS for a in ax)
        if rc == 0 and ax:
            bad = [a for a in ax if a not in ALLOWED_AXIOMS]
            if bad:
                problems.append("theorem %s depends on axioms %s" % (n, bad))
        theorems.append({"name": n, "axioms": ax, "ok": ok})
    return theorems, problems, out


# ------------------------------------------------------------------ execution
def _run_shard(args):
    binary, lines, timeout = args
    data = ("\n".join(lines) + "\n").encode()
    try:
        p = subprocess.run([binary], input=data, stdout=subprocess.PIPE, stderr=subprocess.PIPE, timeout=timeout,
                           preexec_fn=_unlimit_stack)
        outs = p.stdout.decode("utf-8", "replace").split("\n")
        if outs and outs[-1] == "":
            outs.pop()
        if len(outs) < len(lines):
            # the process died (abort / stack overflow / OOM): mark the first unanswered case
            outs += ["CRASH rc=%d" % p.returncode] + ["SKIPPED-AFTER-CRASH"] * (len(lines) - len(outs) - 1)
        return outs[:len(lines)]
    except subprocess.TimeoutExpired:
        return ["TIMEOUT"] * len(lines)


def _unlimit_stack():
    import resource
    try:
        resource.setrlimit(resource.RLIMIT_STACK, (resource.RLIM_INFINITY, resource.RLIM_INFINITY))
    except Exception:
        try:
            soft, hard = resource.getrlimit(resource.RLIMIT_STACK)
            resource.setrlimit(resource.RLIMIT_STACK, (hard, hard))
        except Exception:
            pass


def run_lines(binary, lines, shards=NPROC, timeout=900):
    """run `binary` over the case lines in chunks of at most 200 lines on a pool of `shards` processes; order-preserving.
    A crashed or timed-out chunk is re-run line by line, so that one bad or very slow case cannot hide (or be blamed
    on) the others: only a line that alone crashes / exceeds the timeout keeps that mark."""
    if not lines:
        return []
    workers = max(1, min(shards, (len(lines) + 7) // 8))
    size = max(8, min(200, (len(lines) + workers - 1) // workers))
    chunks = [lines[i:i + size] for i in range(0, len(lines), size)]
    with ThreadPoolExecutor(max_workers=workers) as ex:
        res = list(ex.map(_run_shard, [(binary, c, timeout) for c in chunks]))
        redo = []
        for ci, (c, r) in enumerate(zip(chunks, res)):
            for li, old in enumerate(r):
                if old.startswith("CRASH") or old == "SKIPPED-AFTER-CRASH" or old == "TIMEOUT":
                    redo.append((ci, li))
        if redo:
            single = list(ex.map(_run_shard, [(binary, [chunks[ci][li]], timeout) for ci, li in redo]))
            for (ci, li), o in zip(redo, single):
                res[ci][li] = o[0]
    out = []
    for r in res:
        out.extend(r)
    return out


# ------------------------------------------------------------------ findings / reporting
def load_known():
    p = VERIF + "/KNOWN_FINDINGS.jsonl"
    out = []
    if os.path.exists(p):
        for l in open(p):
            l = l.strip()
            if l and not l.startswith("#"):
                out.append(json.loads(l))
    return out


class Report:
    """collects everything a check run establishes, then prints the verdict and writes evidence"""

    def __init__(self, pid, tier, seed):
        self.pid, self.tier, self.seed = pid, tier, seed
        self.t0 = time.time()
        self.broken = []        # broken proof obligations / ties: dicts {kind, name, detail}
        self.failures = []      # concrete failing inputs: dicts {stream, case, impl, model, why, finding?}
        self.streams = {}       # per-stream statistics
        self.samples = []
        self.theorems = []
        self.notes = []
        self.evaluations = 0
        self.nontrivial = set()
        self.traces = 0
        self.assumptions = []
        self.trusted = []
        self.rule = ""
        self.extra = {}

    def add_broken(self, kind, name, detail):
        self.broken.append({"kind": kind, "name": name, "detail": detail[:4000] if isinstance(detail, str) else detail})

    def add_failure(self, stream, case, impl, model, why):
        self.failures.append({"stream": stream, "case": case, "impl": impl, "model": model, "why": why})

    def finish(self, known_classifier=None):
        known = [k for k in load_known() if k.get("property") == self.pid and k.get("status") == "known"]
        viol = 0
        lines = []
        os.makedirs(VERIF + "/replays/%s" % self.pid, exist_ok=True)
        unknown_fail = []
        known_hit = {}
        for f in self.failures:
            kid = known_classifier(f, known) if known_classifier else None
            if kid:
                known_hit.setdefault(kid, f)
            else:
                unknown_fail.append(f)
        for kid, f in known_hit.items():
            k = [x for x in known if x["id"] == kid][0]
            lines.append("KNOWN-FINDING: property=%s %s (%s)" % (self.pid, k["what"], kid))
        if unknown_fail:
            # report the smallest failing case first
            unknown_fail.sort(key=lambda f: len(json.dumps(f["case"])))
            f = unknown_fail[0]
            path = VERIF + "/replays/%s/fail_%s.json" % (self.pid, hashlib.sha256(json.dumps(f, sort_keys=True).encode()).hexdigest()[:12])
            with open(path, "w") as fh:
                json.dump({"property": self.pid, "failing_input": f, "other_failures": len(unknown_fail) - 1,
                           "broken": self.broken, "replay": "./check %s --replay %s" % (self.pid, path)}, fh, indent=1)
            lines.append("VIOLATION property=%s replay=%s" % (self.pid, path))
            viol = len(unknown_fail)
        elif self.broken:
            path = VERIF + "/replays/%s/broken_%s.json" % (self.pid, hashlib.sha256(json.dumps(self.broken, sort_keys=True).encode()).hexdigest()[:12])
            with open(path, "w") as fh:
                json.dump({"property": self.pid, "no_longer_checks": self.broken,
                           "note": "a proof obligation, translator tie or correspondence stream no longer checks; "
                                   "the search over model and implementation found no concrete failing input"}, fh, indent=1)
            lines.append("VIOLATION property=%s replay=%s no-failing-input-found" % (self.pid, path))
            viol = len(self.broken)
        if not getattr(self, "is_replay", False):      # a replay re-runs one input: it must not replace the run's record
            self.write_evidence(viol, [k for k in known_hit])
        for l in lines:
            print(l)
        sys.stdout.flush()
        return 1 if viol else 0

    def write_evidence(self, violations, known_hits):
        obligations = len(self.theorems)
        discharged = len([t for t in self.theorems if t["ok"]])
        ev = {
            "property_id": self.pid,
            "tier": self.tier,
            "seed": self.seed,
            "level": "proof",
            "coverage": {
                "obligations": max(obligations, 1),
                "discharged": discharged,
                "checker_cmd": "bin/cm Props/%s.vo (coq_makefile + make, full .vo, Coq 8.16.1) ; coqc driver/pins/%s.v (Check pins + Print Assumptions)" % (self.pid, self.pid),
                "trusted_base": self.trusted,
                "theorems": self.theorems,
                "evaluations": self.evaluations,
                "distinct_nontrivial": len(self.nontrivial),
                "traces_validated_against_impl": self.traces,
                "rule": self.rule,
                "samples": self.samples[:12],
                "streams": self.streams,
                "broken": self.broken,
                "known_findings_reproduced": known_hits,
            },
            "assumptions": self.assumptions,
            "wall_s": round(time.time() - self.t0, 2),
            "violations": violations,
        }
        ev["coverage"].update(self.extra)
        os.makedirs(VERIF + "/evidence", exist_ok=True)
        with open(VERIF + "/evidence/%s.json" % self.pid, "w") as f:
            json.dump(ev, f, indent=1, sort_keys=True)


TRUSTED_COMMON = [
    "Coq 8.16.1 kernel (coqc), vm_compute for finite facts; no native_compute; no axioms (Print Assumptions: closed)",
    "translator /verif/translator (regex extraction, fail-closed shape checks)",
    "extraction: ExtrOcamlBasic only (bool/option/unit/list/prod/sumbool), N/Z/byte stay Coq inductives; runner/main.ml glue; ocamlfind ocamlopt",
    "correspondence harness /verif/harness (vh) and driver canonicalisation",
]
