"""Grammar-based generator of spend bundles ("generator output" trees) for the `cond` stream.

Every random choice comes from the SplitMix64 passed in.  A case is a dict:
  {tree, flags, visitor, max_cost, clvm_cost, tags:[(opcode-name, shape)], scenario, keys:[48-byte atoms used]}
Trees are clvm.py trees.  Scenarios are mostly valid by construction with single-point mutations,
plus a separate malformed stream."""
import re, os
from clvm import canon, to_list, ser, sha256, coin_id

OPC = {
    "REMARK": 1, "AGG_SIG_PARENT": 43, "AGG_SIG_PUZZLE": 44, "AGG_SIG_AMOUNT": 45, "AGG_SIG_PUZZLE_AMOUNT": 46,
    "AGG_SIG_PARENT_AMOUNT": 47, "AGG_SIG_PARENT_PUZZLE": 48, "AGG_SIG_UNSAFE": 49, "AGG_SIG_ME": 50,
    "CREATE_COIN": 51, "RESERVE_FEE": 52, "CREATE_COIN_ANNOUNCEMENT": 60, "ASSERT_COIN_ANNOUNCEMENT": 61,
    "CREATE_PUZZLE_ANNOUNCEMENT": 62, "ASSERT_PUZZLE_ANNOUNCEMENT": 63, "ASSERT_CONCURRENT_SPEND": 64,
    "ASSERT_CONCURRENT_PUZZLE": 65, "SEND_MESSAGE": 66, "RECEIVE_MESSAGE": 67, "ASSERT_MY_COIN_ID": 70,
    "ASSERT_MY_PARENT_ID": 71, "ASSERT_MY_PUZZLEHASH": 72, "ASSERT_MY_AMOUNT": 73, "ASSERT_MY_BIRTH_SECONDS": 74,
    "ASSERT_MY_BIRTH_HEIGHT": 75, "ASSERT_EPHEMERAL": 76, "ASSERT_SECONDS_RELATIVE": 80, "ASSERT_SECONDS_ABSOLUTE": 81,
    "ASSERT_HEIGHT_RELATIVE": 82, "ASSERT_HEIGHT_ABSOLUTE": 83, "ASSERT_BEFORE_SECONDS_RELATIVE": 84,
    "ASSERT_BEFORE_SECONDS_ABSOLUTE": 85, "ASSERT_BEFORE_HEIGHT_RELATIVE": 86, "ASSERT_BEFORE_HEIGHT_ABSOLUTE": 87,
    "SOFTFORK": 90,
}
FLAG = {"DONT_VALIDATE_SIGNATURE": 0x10000, "NO_UNKNOWN_CONDS": 0x20000, "STRICT_ARGS_COUNT": 0x80000,
        "COST_CONDITIONS": 0x800000, "LIMIT_SPENDS": 0x2000000}
AGG = ["AGG_SIG_PARENT", "AGG_SIG_PUZZLE", "AGG_SIG_AMOUNT", "AGG_SIG_PUZZLE_AMOUNT", "AGG_SIG_PARENT_AMOUNT",
       "AGG_SIG_PARENT_PUZZLE", "AGG_SIG_UNSAFE", "AGG_SIG_ME"]
LOCKS = [("ASSERT_SECONDS_RELATIVE", 8), ("ASSERT_SECONDS_ABSOLUTE", 8), ("ASSERT_HEIGHT_RELATIVE", 4),
         ("ASSERT_HEIGHT_ABSOLUTE", 4), ("ASSERT_BEFORE_SECONDS_RELATIVE", 8), ("ASSERT_BEFORE_SECONDS_ABSOLUTE", 8),
         ("ASSERT_BEFORE_HEIGHT_RELATIVE", 4), ("ASSERT_BEFORE_HEIGHT_ABSOLUTE", 4), ("ASSERT_MY_BIRTH_SECONDS", 8),
         ("ASSERT_MY_BIRTH_HEIGHT", 4)]
HASH1 = ["ASSERT_COIN_ANNOUNCEMENT", "ASSERT_PUZZLE_ANNOUNCEMENT", "ASSERT_CONCURRENT_SPEND", "ASSERT_CONCURRENT_PUZZLE",
         "ASSERT_MY_COIN_ID", "ASSERT_MY_PARENT_ID", "ASSERT_MY_PUZZLEHASH"]
SHAPES = ["valid", "len-1", "len+1", "pair-for-atom", "negative", "redundant-zero", "oversize", "missing", "extra",
          "non-nil-term", "improper", "empty-atom"]


def load_gen_opcodes():
    """current opcode values as translated from the source on this run (so a moved opcode is still exercised)"""
    out = {}
    p = "/verif/coq/Gen/Opcodes.v"
    if os.path.exists(p):
        for m in re.finditer(r"Definition ([A-Z_0-9]+) : N := (\d+)\.", open(p).read()):
            out[m.group(1)] = int(m.group(2))
    return out


def op_atom(n):
    return bytes([n]) if n < 256 else n.to_bytes(2, "big")


class Gen:
    def __init__(self, rng, keys, consts):
        self.r = rng
        self.keys = keys          # valid public keys (bytes)
        self.consts = consts      # 7 x 32 bytes
        self.opc = dict(OPC)
        cur = load_gen_opcodes()
        self.opc_cur = {k: cur[k] for k in OPC if k in cur}
        r = rng
        self.parents = [r.bytes(32) for _ in range(4)]
        self.phs = [r.bytes(32) for _ in range(4)]
        self.msgs = [b"", b"m", b"hello", r.bytes(32), r.bytes(33), b"\x00", b"\xff" * 31, r.bytes(100)]

    # ---- value pools
    def amount(self):
        r = self.r
        k = r.below(10)
        if k < 4:
            return r.choice([0, 1, 2, 3, 100, 127, 128, 255, 256, 1000, 32767, 32768, 10**6, 10**12])
        if k < 6:
            b = r.below(64)
            return (1 << b) + r.choice([-1, 0, 1]) if b > 0 else 1
        if k < 7:
            return (1 << 64) - 1 - r.below(3)
        return r.next() >> (1 + r.below(63))

    def lockval(self, size):
        r = self.r
        top = 1 << (8 * size)
        return r.choice([0, 1, 2, 10, 100, 1000, top - 1, top - 2, top // 2, top // 2 - 1, r.below(top), r.below(1000)])

    def key(self):
        return self.r.choice(self.keys)

    def bad_key(self):
        r = self.r
        if getattr(self, "offkeys", None) and r.chance(1, 3):
            return r.choice(self.offkeys)          # on the curve, outside the subgroup
        k = r.below(5)
        if k == 0:
            return b"\x00" * 48
        if k == 1:
            return b"\xc0" + b"\x00" * 47          # infinity
        if k == 2:
            return r.bytes(48)
        if k == 3:
            b = bytearray(self.key())
            b[1 + r.below(47)] ^= 1 << r.below(8)
            return bytes(b)
        return self.key()[:47]

    def op(self, name):
        """opcode atom: the consensus value, or (rarely) the value the source currently uses if it differs"""
        v = self.opc[name]
        if name in self.opc_cur and self.opc_cur[name] != v and self.r.chance(1, 2):
            v = self.opc_cur[name]
        return op_atom(v)

    # ---- argument shape mutations
    def mutate_args(self, args, shape, int_idx=None, hash_idx=None):
        """args: list of trees.  Returns (args, term)"""
        r = self.r
        term = b""
        a = list(args)
        if shape == "valid":
            return a, term
        if shape == "missing":
            return (a[:-1] if a else a), term
        if shape == "extra":
            return a + [r.choice([b"", b"\x01", (b"", b""), r.bytes(3)])], term
        if shape == "non-nil-term":
            return a, r.choice([b"\x01", b"\x00", b"xyz"])
        if shape == "improper":
            return None, r.choice([b"", b"\x05", r.bytes(32)])
        if not a:
            return a, term
        i = r.below(len(a))
        if shape == "pair-for-atom":
            a[i] = (a[i] if not isinstance(a[i], tuple) else b"", b"")
        elif shape == "empty-atom":
            a[i] = b""
        elif shape in ("len-1", "len+1"):
            j = hash_idx if hash_idx is not None else i
            if j < len(a) and not isinstance(a[j], tuple):
                a[j] = a[j][:-1] if shape == "len-1" else a[j] + b"\x00"
        elif shape in ("negative", "redundant-zero", "oversize"):
            j = int_idx if int_idx is not None else i
            if j < len(a) and not isinstance(a[j], tuple):
                if shape == "negative":
                    a[j] = r.choice([b"\xff", b"\x80", b"\xff\xff\xff\xff\xff", canon(-1 - r.below(1 << 40)), b"\x80" + b"\x00" * 8])
                elif shape == "redundant-zero":
                    a[j] = b"\x00" + (a[j] if (a[j] and a[j][0] < 0x80) else b"\x01")
                else:
                    a[j] = r.choice([b"\x01" + b"\x00" * 8, b"\x00\xff" + b"\xff" * 8, b"\x7f" + b"\xff" * 8, b"\x01" + b"\x00" * 4, b"\x00\x80" + b"\x00" * 4])
        return a, term

    def cond(self, opname, args, shape="valid", int_idx=None, hash_idx=None):
        a, term = self.mutate_args(args, shape, int_idx, hash_idx)
        if a is None:
            return (self.op(opname), term)
        return (self.op(opname), to_list(a, term))

    # ---- condition templates (valid forms) for a spend dict s
    def tmpl(self, name, s, shape="valid"):
        r = self.r
        if name in AGG:
            pk = self.key() if not r.chance(1, 8) else self.bad_key()
            msg = r.choice(self.msgs)
            if name == "AGG_SIG_UNSAFE" and r.chance(1, 6):
                msg = r.choice([b"", b"x" * 5, r.bytes(20)]) + r.choice(self.consts)
            s["keys"].append(pk)
            return self.cond(name, [pk, msg], shape, hash_idx=0)
        if name == "CREATE_COIN":
            ph = r.choice(self.phs)
            amt = s["budget"].pop() if s["budget"] else 0
            args = [ph, canon(amt)]
            k = r.below(8)
            if k == 0:
                args.append(to_list([r.choice([r.bytes(32), b"", r.bytes(31), r.bytes(33), b"\x00"])]))
            elif k == 1:
                args.append(to_list([r.bytes(32), b"memo"]))
            elif k == 2:
                args.append(r.choice([b"\x01", (b"", b""), ((b"a", b"b"), b""), to_list([(b"x", b"y")])]))
            elif k == 3:
                args.append(to_list([r.bytes(32)], term=b"\x01"))
            s["created"].append((ph, amt))
            return self.cond(name, args, shape, int_idx=1, hash_idx=0)
        if name == "RESERVE_FEE":
            return self.cond(name, [canon(r.choice([0, 1, r.below(1000)]))], shape, int_idx=0)
        if name in ("CREATE_COIN_ANNOUNCEMENT", "CREATE_PUZZLE_ANNOUNCEMENT"):
            return self.cond(name, [r.choice(self.msgs + [b"a" * 1024, b"a" * 1025])], shape)
        if name in HASH1:
            v = {"ASSERT_MY_COIN_ID": s["id"], "ASSERT_MY_PARENT_ID": s["parent"], "ASSERT_MY_PUZZLEHASH": s["ph"]}.get(name, r.bytes(32))
            if r.chance(1, 10):
                b = bytearray(v)
                b[r.below(32)] ^= 1
                v = bytes(b)
            return self.cond(name, [v], shape, hash_idx=0)
        if name == "ASSERT_MY_AMOUNT":
            v = s["amount"] if not r.chance(1, 8) else s["amount"] ^ 1
            return self.cond(name, [canon(v)], shape, int_idx=0)
        for (ln, size) in LOCKS:
            if ln == name:
                return self.cond(name, [canon(self.lockval(size))], shape, int_idx=0)
        if name == "ASSERT_EPHEMERAL":
            return self.cond(name, [], shape)
        if name == "REMARK":
            return self.cond(name, r.choice([[], [b"x"], [(b"a", b"b")]]), shape)
        if name == "SOFTFORK":
            return self.cond(name, [canon(r.choice([0, 1, 100, 2**32 - 1, 2**32]))] + r.choice([[], [b"x"]]), shape, int_idx=0)
        if name in ("SEND_MESSAGE", "RECEIVE_MESSAGE"):
            mode = r.below(64)
            return self.msg_cond(name, mode, r.choice(self.msgs), s, s, shape)
        raise KeyError(name)

    def sid_args(self, mode3, s):
        """arguments identifying spend s under a 3-bit mode"""
        if mode3 == 7:
            return [s["id"]]
        out = []
        if mode3 & 4:
            out.append(s["parent"])
        if mode3 & 2:
            out.append(s["ph"])
        if mode3 & 1:
            out.append(canon(s["amount"]))
        return out

    def msg_cond(self, name, mode, msg, me, other, shape="valid"):
        """SEND: mode = (src<<3)|dst, explicit args describe dst; RECEIVE: explicit args describe src"""
        if name == "SEND_MESSAGE":
            extra = self.sid_args(mode & 7, other)
        else:
            extra = self.sid_args((mode >> 3) & 7, other)
        return self.cond(name, [canon(mode), msg] + extra, shape, int_idx=0)

    # ---- spends
    def new_spend(self, parent=None, ph=None, amount=None):
        r = self.r
        s = {"parent": parent or r.choice(self.parents), "ph": ph or r.choice(self.phs),
             "amount": self.amount() if amount is None else amount, "conds": [], "keys": [], "created": [], "tags": [],
             "cond_term": b"", "extra": None}
        s["id"] = coin_id(s["parent"], s["ph"], s["amount"])
        # how the spend's value may be distributed over CREATE_COINs
        n = r.below(4)
        left = s["amount"]
        budget = []
        for _ in range(n):
            a = r.below(left + 1) if left > 0 else 0
            if r.chance(1, 6):
                a = left
            budget.append(a)
            left -= a
        s["budget"] = budget
        return s

    def spend_tree(self, s):
        conds = to_list(s["conds"], s["cond_term"])
        items = [s["parent"], s["ph"], s.get("amount_atom", canon(s["amount"])), conds]
        if s["extra"] is not None:
            items += s["extra"]
        return to_list(items, s.get("spend_term", b""))

    def bundle_tree(self, spends, term=b"", outer_rest=b""):
        return (to_list([self.spend_tree(s) for s in spends], term), outer_rest)

    def add(self, s, name, shape="valid"):
        s["conds"].append(self.tmpl(name, s, shape))
        s["tags"].append((name, shape))

    def random_conds(self, s, n, mut_prob=(1, 6)):
        names = list(OPC.keys())
        for _ in range(n):
            name = self.r.choice(names)
            shape = "valid"
            if self.r.chance(*mut_prob):
                shape = self.r.choice(SHAPES)
            self.add(s, name, shape)

    # ---- scenarios
    def scenario(self, which=None):
        r = self.r
        scen = which or r.choice(["single", "single", "multi", "announce", "concurrent", "message", "ephemeral",
                                  "locks", "locks2", "locks2", "dup", "fees", "aggsig", "unknown", "malformed", "ff", "limits"])
        spends = getattr(self, "sc_" + scen)()
        std = True
        if isinstance(spends, tuple):
            tree, spends = spends
            std = False
        else:
            tree = self.bundle_tree(spends)
        flags = 0
        for f, bit in FLAG.items():
            p = (5, 6) if f == "DONT_VALIDATE_SIGNATURE" else (1, 2) if f == "COST_CONDITIONS" else (1, 3)
            if r.chance(*p):
                flags |= bit
        keys = []
        tags = []
        for s in spends:
            keys += s["keys"]
            tags += s["tags"]
        return {"tree": tree, "flags": flags, "visitor": r.below(2), "max_cost": 11000000000 if not r.chance(1, 12) else r.choice([0, 199, 200, 450000, 1349999, 1800000, 3000000]),
                "clvm_cost": r.choice([0, 0, 12345]), "tags": tags, "scenario": scen, "keys": keys,
                "spends": spends, "std": std}

    def sc_single(self):
        s = self.new_spend()
        self.random_conds(s, 1 + self.r.below(3), (1, 2))
        return [s]

    def sc_multi(self):
        n = 2 + self.r.below(3)
        spends = []
        for i in range(n):
            s = self.new_spend(parent=self.r.bytes(32) if self.r.chance(3, 4) else None)
            self.random_conds(s, self.r.below(5), (1, 10))
            spends.append(s)
        return spends

    def sc_announce(self):
        r = self.r
        a, b = self.new_spend(parent=r.bytes(32)), self.new_spend(parent=r.bytes(32))
        msg = r.choice(self.msgs)
        kind = r.below(2)
        if kind == 0:
            self.add_raw(a, "CREATE_COIN_ANNOUNCEMENT", [msg])
            h = sha256(a["id"] + msg)
            name = "ASSERT_COIN_ANNOUNCEMENT"
        else:
            self.add_raw(a, "CREATE_PUZZLE_ANNOUNCEMENT", [msg])
            h = sha256(a["ph"] + msg)
            name = "ASSERT_PUZZLE_ANNOUNCEMENT"
        k = r.below(6)
        if k == 0:
            hb = bytearray(h); hb[r.below(32)] ^= 1 << r.below(8); h = bytes(hb)
        elif k == 1:
            h = sha256((a["ph"] if kind == 0 else a["id"]) + msg)     # wrong kind of id
        elif k == 2:
            h = sha256((b["id"] if kind == 0 else b["ph"]) + msg)     # the asserter's own id
        self.add_raw(r.choice([a, b]), name, [h])
        self.random_conds(b, r.below(2))
        spends = [a, b]
        if r.chance(1, 2):
            spends.reverse()
        return spends

    def add_raw(self, s, name, args, shape="valid"):
        s["conds"].append(self.cond(name, args, shape))
        s["tags"].append((name, shape))

    def sc_concurrent(self):
        r = self.r
        a, b = self.new_spend(parent=r.bytes(32)), self.new_spend(parent=r.bytes(32))
        k = r.below(6)
        if k == 0:
            self.add_raw(a, "ASSERT_CONCURRENT_SPEND", [b["id"]])
        elif k == 1:
            self.add_raw(a, "ASSERT_CONCURRENT_SPEND", [a["id"]])
        elif k == 2:
            self.add_raw(a, "ASSERT_CONCURRENT_SPEND", [r.bytes(32)])
        elif k == 3:
            self.add_raw(a, "ASSERT_CONCURRENT_PUZZLE", [b["ph"]])
        elif k == 4:
            self.add_raw(a, "ASSERT_CONCURRENT_PUZZLE", [r.bytes(32)])
        else:
            self.add_raw(a, "ASSERT_CONCURRENT_PUZZLE", [b["id"]])
        self.random_conds(b, r.below(2))
        return [a, b] if r.chance(1, 2) else [b, a]

    def sc_message(self):
        r = self.r
        a, b = self.new_spend(parent=r.bytes(32)), self.new_spend(parent=r.bytes(32))
        msg = r.choice(self.msgs)
        mode = r.below(64)
        nsend, nrecv = r.choice([(1, 1), (1, 1), (2, 2), (1, 0), (0, 1), (2, 1), (1, 2)])
        for _ in range(nsend):
            a["conds"].append(self.msg_cond("SEND_MESSAGE", mode, msg, a, b)); a["tags"].append(("SEND_MESSAGE", "m%d" % mode))
        rmode = mode
        rmsg = msg
        k = r.below(8)
        if k == 0:
            rmode = mode ^ (1 << r.below(6))
        elif k == 1:
            rmsg = msg + b"x"
        for _ in range(nrecv):
            b["conds"].append(self.msg_cond("RECEIVE_MESSAGE", rmode, rmsg, b, a)); b["tags"].append(("RECEIVE_MESSAGE", "m%d" % rmode))
        return [a, b] if r.chance(1, 2) else [b, a]

    def sc_ephemeral(self):
        r = self.r
        p = self.new_spend(parent=r.bytes(32), amount=r.choice([10, 1000, 2**40]))
        cph = r.choice(self.phs)
        camt = r.below(p["amount"] + 1)
        self.add_raw(p, "CREATE_COIN", [cph, canon(camt)] + r.choice([[], [to_list([r.bytes(32)])]]))
        k = r.below(6)
        c = self.new_spend(parent=p["id"], ph=cph, amount=camt if k != 0 else camt + 1)
        if k == 1:
            c = self.new_spend(parent=r.bytes(32), ph=cph, amount=camt)
        if r.chance(3, 4):
            self.add(c, "ASSERT_EPHEMERAL", "valid" if r.chance(5, 6) else r.choice(SHAPES))
        if r.chance(1, 2):
            name = r.choice([l[0] for l in LOCKS if "RELATIVE" in l[0] or "BIRTH" in l[0]])
            self.add(c, name, r.choice(["valid", "valid", "negative", "oversize"]))
        if r.chance(1, 3):
            self.add(c, r.choice(["ASSERT_SECONDS_ABSOLUTE", "ASSERT_BEFORE_HEIGHT_ABSOLUTE"]))
        return [p, c] if r.chance(2, 3) else [c, p]

    def sc_locks(self):
        r = self.r
        n = 1 + r.below(2)
        spends = []
        for _ in range(n):
            s = self.new_spend(parent=r.bytes(32))
            for _ in range(1 + r.below(5)):
                name, size = r.choice(LOCKS)
                v = r.choice([0, 1, 5, 10, 10, 11, 100, (1 << (8 * size)) - 1])
                shape = "valid" if r.chance(7, 8) else r.choice(["negative", "oversize", "redundant-zero"])
                s["conds"].append(self.cond(name, [canon(v)], shape, int_idx=0)); s["tags"].append((name, shape))
            spends.append(s)
        return spends

    def sc_locks2(self):
        """the same lock kind several times with different values in random order (exercises the max/min folds,
        the before/after pairs of one family, and both relative and absolute scopes across spends)"""
        r = self.r
        fam = r.choice([("ASSERT_SECONDS_RELATIVE", "ASSERT_BEFORE_SECONDS_RELATIVE", 8), ("ASSERT_HEIGHT_RELATIVE", "ASSERT_BEFORE_HEIGHT_RELATIVE", 4),
                        ("ASSERT_SECONDS_ABSOLUTE", "ASSERT_BEFORE_SECONDS_ABSOLUTE", 8), ("ASSERT_HEIGHT_ABSOLUTE", "ASSERT_BEFORE_HEIGHT_ABSOLUTE", 4),
                        ("ASSERT_MY_BIRTH_SECONDS", "ASSERT_MY_BIRTH_SECONDS", 8), ("ASSERT_MY_BIRTH_HEIGHT", "ASSERT_MY_BIRTH_HEIGHT", 4)])
        spends = [self.new_spend(parent=r.bytes(32)) for _ in range(1 + r.below(2))]
        base = r.choice([0, 1, 50, 1000, (1 << (8 * fam[2])) - 10])
        afters = [base + r.below(5) for _ in range(r.below(4))]
        lo = max(afters + [base]) + (1 if r.chance(3, 4) else 0)
        befores = [lo + r.below(6) for _ in range(r.below(4))]
        items = [(fam[0], v) for v in afters] + [(fam[1], v) for v in befores]
        r.shuffle(items)
        for name, v in items:
            s = r.choice(spends)
            s["conds"].append(self.cond(name, [canon(v)])); s["tags"].append((name, "multi"))
        return spends

    def sc_dup(self):
        r = self.r
        a = self.new_spend(parent=r.bytes(32), amount=1000)
        ph = r.choice(self.phs)
        k = r.below(5)
        if k == 0:
            self.add_raw(a, "CREATE_COIN", [ph, canon(5)]); self.add_raw(a, "CREATE_COIN", [ph, canon(5)])
        elif k == 1:
            self.add_raw(a, "CREATE_COIN", [ph, canon(5)]); self.add_raw(a, "CREATE_COIN", [ph, canon(5), to_list([r.bytes(32)])])
        elif k == 2:
            self.add_raw(a, "CREATE_COIN", [ph, canon(5)]); self.add_raw(a, "CREATE_COIN", [ph, canon(6)])
        elif k == 3:
            b = dict(a); b["conds"] = []; b["tags"] = []; b["keys"] = []
            return [a, b]        # double spend
        else:
            b = self.new_spend(parent=a["parent"], ph=a["ph"], amount=a["amount"])
            b["amount_atom"] = b"\x00" + canon(a["amount"]) if a["amount"] >= 0x80 else canon(a["amount"])
            return [a, b]
        return [a]

    def sc_fees(self):
        r = self.r
        a = self.new_spend(parent=r.bytes(32), amount=r.choice([100, 2**64 - 1, 2**63]))
        b = self.new_spend(parent=r.bytes(32), amount=r.choice([0, 1, 2**64 - 1]))
        total = a["amount"] + b["amount"]
        k = r.below(7)
        ph = r.choice(self.phs)
        if k == 0:
            self.add_raw(a, "CREATE_COIN", [ph, canon(min(total, 2**64 - 1))])
        elif k == 1:
            self.add_raw(a, "CREATE_COIN", [ph, canon(min(total + 1, 2**64 - 1))])
            self.add_raw(b, "CREATE_COIN", [ph, canon(max(0, total + 1 - min(total + 1, 2**64 - 1)))])
        elif k == 2:
            self.add_raw(a, "RESERVE_FEE", [canon(min(total, 2**64 - 1))])
        elif k == 3:
            self.add_raw(a, "RESERVE_FEE", [canon(2**64 - 1)]); self.add_raw(b, "RESERVE_FEE", [canon(1)])
        elif k == 4:
            c = min(total, 2**64 - 1) // 2
            self.add_raw(a, "CREATE_COIN", [ph, canon(c)]); self.add_raw(b, "RESERVE_FEE", [canon(min(total - c, 2**64 - 1))])
        elif k == 5:
            c = min(total, 2**64 - 1) // 2
            self.add_raw(a, "CREATE_COIN", [ph, canon(c)]); self.add_raw(b, "RESERVE_FEE", [canon(min(total - c + 1, 2**64 - 1))])
        else:
            self.add_raw(a, "RESERVE_FEE", [canon(r.below(100))]); self.add_raw(a, "RESERVE_FEE", [canon(r.below(100))])
        return [a, b]

    def sc_aggsig(self):
        r = self.r
        spends = []
        for _ in range(1 + r.below(2)):
            s = self.new_spend(parent=r.bytes(32), amount=self.amount())
            for _ in range(1 + r.below(3)):
                self.add(s, r.choice(AGG), "valid" if r.chance(4, 5) else r.choice(SHAPES))
            spends.append(s)
        return spends

    def sc_unknown(self):
        r = self.r
        s = self.new_spend()
        for _ in range(1 + r.below(3)):
            k = r.below(7)
            if k == 0:
                op = bytes([r.choice([0, 2, 42, 53, 59, 68, 69, 77, 79, 88, 89, 91, 127, 128, 255])])
            elif k == 1:
                op = bytes([1 + r.below(255), r.below(256)])
            elif k == 2:
                op = bytes([0, r.choice([51, 1, 90])])
            elif k == 3:
                op = r.choice([b"", b"\x00\x00\x33", r.bytes(3), (b"\x33", b"")])
            elif k == 4:
                self.add(s, "SOFTFORK", r.choice(["valid", "negative", "oversize", "missing"]))
                continue
            elif k == 5:
                self.add(s, "REMARK")
                continue
            else:
                op = bytes([r.choice([1, 255]), r.choice([0, 1, 255])])
            args = r.choice([[], [b"x"], [canon(5), r.bytes(32)]])
            s["conds"].append((op, to_list(args, r.choice([b"", b"", b"\x01"]))))
            s["tags"].append(("UNKNOWN", "k%d" % k))
        return [s]

    def sc_ff(self):
        """singleton-looking spends: odd amount, same-puzzle-hash output, ASSERT_MY_AMOUNT / ASSERT_MY_PARENT_ID positions"""
        r = self.r
        amt = r.choice([1, 3, 1001])
        s = self.new_spend(parent=r.bytes(32), amount=amt if r.chance(4, 5) else amt + 1)
        s["budget"] = []
        seq = [("ASSERT_MY_AMOUNT", [canon(s["amount"])]), ("ASSERT_MY_PARENT_ID", [s["parent"]])]
        if r.chance(1, 3):
            seq.reverse()
        if r.chance(1, 4):
            seq.insert(r.below(3), ("REMARK", []))
        if r.chance(1, 4):
            seq.insert(r.below(3), (None, None))      # unknown condition in between (does not count)
        for name, args in seq:
            if name is None:
                s["conds"].append((b"\x02", b"")); s["tags"].append(("UNKNOWN", "ff"))
            else:
                self.add_raw(s, name, args)
        self.add_raw(s, "CREATE_COIN", [s["ph"] if r.chance(4, 5) else r.choice(self.phs), canon(s["amount"] if r.chance(4, 5) else s["amount"] - 1)])
        s["created"].append((s["ph"], s["amount"]))
        if r.chance(1, 3):
            self.add(s, r.choice(["CREATE_COIN_ANNOUNCEMENT", "ASSERT_MY_COIN_ID", "AGG_SIG_ME", "AGG_SIG_UNSAFE", "ASSERT_HEIGHT_RELATIVE", "SEND_MESSAGE", "ASSERT_MY_PARENT_ID"]))
        spends = [s]
        if r.chance(1, 3):
            # spend the singleton output in the same bundle, or reference the coin
            c = self.new_spend(parent=s["id"], ph=s["ph"], amount=s["amount"])
            c["budget"] = []
            if r.chance(1, 2):
                spends.append(c)
            else:
                o = self.new_spend(parent=r.bytes(32))
                self.add_raw(o, "ASSERT_CONCURRENT_SPEND", [s["id"]])
                spends.append(o)
        return spends

    def sc_limits(self):
        r = self.r
        s = self.new_spend(parent=r.bytes(32))
        n = r.choice([1023, 1024, 1025])
        name = r.choice(["CREATE_COIN_ANNOUNCEMENT", "ASSERT_CONCURRENT_PUZZLE", "CREATE_PUZZLE_ANNOUNCEMENT"])
        arg = s["ph"] if name == "ASSERT_CONCURRENT_PUZZLE" else b"a"
        c = self.cond(name, [arg])
        s["conds"] = [c] * n
        s["tags"].append((name, "x%d" % n))
        return [s]

    def sc_many(self, n=None):
        """many spends with amounts near 2^64 (sums exceed 64 bits)"""
        r = self.r
        n = n or r.choice([200, 300])
        spends = []
        for i in range(n):
            s = self.new_spend(parent=r.bytes(32), amount=(1 << 64) - 1 - r.below(1000))
            s["budget"] = []
            if r.chance(1, 2):
                self.add_raw(s, "CREATE_COIN", [r.choice(self.phs), canon(s["amount"] - r.below(2))])
            spends.append(s)
        return spends

    def sc_amount(self, amount=None):
        """one spend of a given amount (boundary sweep), optionally re-creating the amount and signing over it"""
        r = self.r
        amt = amount if amount is not None else self.amount()
        s = self.new_spend(parent=r.bytes(32), amount=amt)
        s["budget"] = []
        k = r.below(4)
        if k == 0:
            self.add_raw(s, "CREATE_COIN", [r.choice(self.phs), canon(amt)])
        elif k == 1:
            self.add_raw(s, "ASSERT_MY_AMOUNT", [canon(amt)])
        elif k == 2:
            self.add_raw(s, r.choice(["AGG_SIG_AMOUNT", "AGG_SIG_PUZZLE_AMOUNT", "AGG_SIG_PARENT_AMOUNT"]), [self.key(), r.choice(self.msgs)])
            s["keys"].append(s["conds"][-1][1][0])
        return [s]

    def sc_vcs(self):
        """spend-bundle shaped: 1-3 spends whose only conditions are AGG_SIG_* (no self references), puzzle hash =
        tree hash of (q . conditions); sometimes the same AGG_SIG condition twice"""
        from clvm import tree_hash
        r = self.r
        spends = []
        for _ in range(1 + r.below(3)):
            s = self.new_spend(parent=r.bytes(32), amount=self.amount())
            s["budget"] = []
            for _ in range(1 + r.below(3)):
                name = r.choice(AGG)
                pk, msg = self.key(), r.choice(self.msgs)
                s["conds"].append(self.cond(name, [pk, msg])); s["tags"].append((name, "vcs")); s["keys"].append(pk)
                if r.chance(1, 3):
                    s["conds"].append(s["conds"][-1]); s["tags"].append((name, "vcs-dup"))
            if r.chance(1, 4):
                self.add_raw(s, "CREATE_COIN", [r.choice(self.phs), canon(s["amount"] // 2)])
            s["ph"] = tree_hash((b"\x01", to_list(s["conds"])))
            s["id"] = coin_id(s["parent"], s["ph"], s["amount"])
            spends.append(s)
        return spends

    def sc_malformed(self):
        r = self.r
        spends = self.sc_multi()
        k = r.below(9)
        tag = "mal%d" % k
        spends[0]["tags"].append(("MALFORMED", tag))
        if k == 0:
            spends[0]["cond_term"] = r.choice([b"\x01", b"\x00", r.bytes(4)])
        elif k == 1:
            spends[0]["extra"] = [b"extra", (b"a", b"b")]
        elif k == 2:
            spends[0]["spend_term"] = b"\x01"
        elif k == 3:
            return (self.bundle_tree(spends, term=b"\x01"), spends)
        elif k == 4:
            return (self.bundle_tree(spends, outer_rest=r.choice([b"\x01", (b"x", b"y")])), spends)
        elif k == 5:
            t = self.bundle_tree(spends)
            return (t[0], spends)                     # not wrapped: first() of the spend list itself
        elif k == 6:
            st = self.spend_tree(spends[0])
            items = [spends[0]["parent"], spends[0]["ph"]] if r.chance(1, 2) else [spends[0]["parent"], spends[0]["ph"], canon(spends[0]["amount"])]
            return ((to_list([to_list(items)] + [self.spend_tree(s) for s in spends[1:]]), b""), spends)
        elif k == 7:
            s = spends[0]
            which = r.below(3)
            if which == 0:
                s["parent"] = s["parent"][:31]
            elif which == 1:
                s["ph"] = s["ph"] + b"\x00"
            else:
                s["amount_atom"] = r.choice([b"\x00", b"\xff", b"\x00\x01", b"\x01" + b"\x00" * 8, (b"", b"")])
        else:
            if spends[0]["conds"]:
                i = r.below(len(spends[0]["conds"]))
                spends[0]["conds"][i] = r.choice([b"", b"\x33", (spends[0]["conds"][i], b"")])
        return spends


def matrix_cases(g):
    """systematic sweep: every known opcode x every argument shape, each in a context in which the VALID shape is
    accepted (ephemeral pair for ASSERT_EPHEMERAL, matching counterpart for assertions, balanced message pair), under
    lenient and strict flags.  Deterministic apart from the key / hash material."""
    r = g.r
    out = []
    for name in OPC:
        for shape in SHAPES:
            for strict in (0, FLAG["STRICT_ARGS_COUNT"], FLAG["STRICT_ARGS_COUNT"] | FLAG["NO_UNKNOWN_CONDS"]):
                a = g.new_spend(parent=r.bytes(32), amount=1000)
                a["budget"] = []
                spends = [a]
                target = a
                msg = b"hello"
                if name == "ASSERT_EPHEMERAL":
                    cph = r.choice(g.phs)
                    g.add_raw(a, "CREATE_COIN", [cph, canon(10)])
                    target = g.new_spend(parent=a["id"], ph=cph, amount=10)
                    target["budget"] = []
                    spends.append(target)
                if name == "ASSERT_COIN_ANNOUNCEMENT":
                    g.add_raw(a, "CREATE_COIN_ANNOUNCEMENT", [msg]); args = [sha256(a["id"] + msg)]
                elif name == "ASSERT_PUZZLE_ANNOUNCEMENT":
                    g.add_raw(a, "CREATE_PUZZLE_ANNOUNCEMENT", [msg]); args = [sha256(a["ph"] + msg)]
                elif name == "ASSERT_CONCURRENT_SPEND":
                    args = [a["id"]]
                elif name == "ASSERT_CONCURRENT_PUZZLE":
                    args = [a["ph"]]
                elif name == "SEND_MESSAGE":
                    g.add_raw(a, "RECEIVE_MESSAGE", [canon(0), msg]); args = [canon(0), msg]
                elif name == "RECEIVE_MESSAGE":
                    g.add_raw(a, "SEND_MESSAGE", [canon(0), msg]); args = [canon(0), msg]
                elif name == "ASSERT_MY_COIN_ID":
                    args = [a["id"]]
                elif name == "ASSERT_MY_PARENT_ID":
                    args = [a["parent"]]
                elif name == "ASSERT_MY_PUZZLEHASH":
                    args = [a["ph"]]
                elif name == "ASSERT_MY_AMOUNT":
                    args = [canon(a["amount"])]
                elif name in AGG:
                    pk = g.key(); a["keys"].append(pk); args = [pk, msg]
                elif name == "CREATE_COIN":
                    args = [r.choice(g.phs), canon(7), to_list([r.bytes(32)])] if shape in ("valid", "extra", "non-nil-term") and r.chance(1, 2) else [r.choice(g.phs), canon(7)]
                elif name in ("CREATE_COIN_ANNOUNCEMENT", "CREATE_PUZZLE_ANNOUNCEMENT"):
                    args = [msg]
                elif name == "RESERVE_FEE":
                    args = [canon(5)]
                elif name == "SOFTFORK":
                    args = [canon(3)]
                elif name in ("REMARK", "ASSERT_EPHEMERAL"):
                    args = []
                else:
                    size = [sz for (ln, sz) in LOCKS if ln == name][0]
                    args = [canon(r.choice([1, 100, (1 << (8 * size)) - 1]))]
                int_idx = {"CREATE_COIN": 1, "SEND_MESSAGE": 0, "RECEIVE_MESSAGE": 0}.get(name, 0)
                target["conds"].append(g.cond(name, args, shape, int_idx=int_idx, hash_idx=0))
                target["tags"].append((name, shape))
                keys = [k for s in spends for k in s["keys"]]
                out.append({"tree": g.bundle_tree(spends), "flags": 0x10000 | strict | (0x800000 if r.chance(1, 2) else 0), "visitor": r.below(2),
                            "max_cost": 11000000000, "clvm_cost": 0, "tags": [(name, shape)], "scenario": "matrix", "keys": keys,
                            "spends": spends, "std": True})
    return out


INT_BOUNDS = [0, 1, 127, 128, 255, 256, (1 << 31) - 1, 1 << 31, (1 << 32) - 1, 1 << 32, (1 << 32) + 1, (1 << 63) - 1, 1 << 63,
              (1 << 64) - 1, 1 << 64, (1 << 64) + 1, (1 << 72) + 5, -1, -(1 << 31), -(1 << 63), -(1 << 64)]


def matrix2_cases(g):
    """deterministic boundary sweep: every integer-taking opcode x INT_BOUNDS (canonical encodings) x {ordinary coin,
    ephemeral coin} ; message lengths at the 1024 limit ; every CREATE_COIN hint length class ; all 64 message modes
    with a matching counterpart.  Both visitors, alternating; lenient flags (strict variants: matrix_cases)."""
    r = g.r
    out = []

    def emit(spends, tags, visitor, flags=0x10000):
        keys = [k for s in spends for k in s["keys"]]
        out.append({"tree": g.bundle_tree(spends), "flags": flags, "visitor": visitor, "max_cost": 11000000000, "clvm_cost": 0,
                    "tags": tags, "scenario": "matrix2", "keys": keys, "spends": spends, "std": True})

    def fresh(ephemeral):
        a = g.new_spend(parent=r.bytes(32), amount=1000)
        a["budget"] = []
        if not ephemeral:
            return [a], a
        cph = r.choice(g.phs)
        g.add_raw(a, "CREATE_COIN", [cph, canon(10)])
        t = g.new_spend(parent=a["id"], ph=cph, amount=10)
        t["budget"] = []
        return [a, t], t

    n = 0
    int_ops = [ln for (ln, _) in LOCKS] + ["RESERVE_FEE", "ASSERT_MY_AMOUNT", "SOFTFORK", "CREATE_COIN"]
    for name in int_ops:
        for v in INT_BOUNDS:
            for eph in (False, True):
                spends, t = fresh(eph)
                if name == "CREATE_COIN":
                    args = [r.choice(g.phs), canon(v)]
                else:
                    args = [canon(v)]
                g.add_raw(t, name, args)
                n += 1
                emit(spends, [(name, "int:%d:%s" % (v.bit_length() * (1 if v >= 0 else -1), "eph" if eph else "std"))], n & 1,
                     0x10000 | (0x800000 if n & 2 else 0))
    # keys that are not valid public keys, for every AGG_SIG opcode: off-subgroup point, infinity, not on the curve
    badkeys = list(getattr(g, "offkeys", [])[:2]) + [b"\xc0" + b"\x00" * 47, b"\x00" * 48, b"\x8f" + b"\x11" * 47]
    for name in AGG:
        for bk in badkeys:
            spends, t = fresh(False)
            t["keys"].append(bk)
            g.add_raw(t, name, [bk, b"msg"])
            n += 1
            emit(spends, [(name, "badkey:%02x" % bk[0])], n & 1, 0x10000 if n & 2 else 0)
    # message / announcement length limit
    for name in ("CREATE_COIN_ANNOUNCEMENT", "CREATE_PUZZLE_ANNOUNCEMENT", "SEND_MESSAGE", "RECEIVE_MESSAGE", "AGG_SIG_ME", "AGG_SIG_UNSAFE", "REMARK"):
        for ln in (0, 1, 32, 1023, 1024, 1025, 2048):
            spends, t = fresh(False)
            msg = bytes([0x61]) * ln
            if name == "SEND_MESSAGE":
                g.add_raw(t, "RECEIVE_MESSAGE", [canon(0), msg]); args = [canon(0), msg]
            elif name == "RECEIVE_MESSAGE":
                g.add_raw(t, "SEND_MESSAGE", [canon(0), msg]); args = [canon(0), msg]
            elif name.startswith("AGG_SIG"):
                pk = g.key(); t["keys"].append(pk); args = [pk, msg]
            else:
                args = [msg]
            g.add_raw(t, name, args)
            n += 1
            emit(spends, [(name, "len:%d" % ln)], n & 1, 0x10000 | (0x800000 if n & 2 else 0))
    # CREATE_COIN hint shapes
    hints = [b"", b"\x00", r.bytes(1), r.bytes(31), r.bytes(32), r.bytes(33), r.bytes(64)]
    for h in hints:
        for tail in ([], [b"memo"], [(b"a", b"b")]):
            for term in (b"", b"\x01"):
                spends, t = fresh(False)
                g.add_raw(t, "CREATE_COIN", [r.choice(g.phs), canon(7), to_list([h] + tail, term)])
                n += 1
                emit(spends, [("CREATE_COIN", "hint:%d:%d:%d" % (len(h), len(tail), len(term)))], n & 1)
    for memo in (b"", b"\x01", r.bytes(32), (r.bytes(32), b""), ((b"a", b"b"), b""), (b"", r.bytes(32))):
        spends, t = fresh(False)
        g.add_raw(t, "CREATE_COIN", [r.choice(g.phs), canon(7), memo])
        n += 1
        emit(spends, [("CREATE_COIN", "memo-shape:%d" % n)], n & 1)
    # duplicate outputs: the same (puzzle hash, amount) created twice in one spend, every combination of hints and both orders
    # (a duplicate is a duplicate whatever the memos say); and the same output from two different spends (allowed)
    h1, h2 = r.bytes(32), r.bytes(32)
    hint_forms = [None, to_list([h1]), to_list([h2]), to_list([h1, b"memo"]), to_list([b""]), to_list([r.bytes(31)]), b"\x01"]
    for i, ha in enumerate(hint_forms):
        for j, hb in enumerate(hint_forms):
            spends, t = fresh(False)
            dph = r.choice(g.phs)
            g.add_raw(t, "CREATE_COIN", [dph, canon(3)] + ([ha] if ha is not None else []))
            g.add_raw(t, "CREATE_COIN", [dph, canon(3)] + ([hb] if hb is not None else []))
            n += 1
            emit(spends, [("CREATE_COIN", "dup:%d:%d" % (i, j))], n & 1)
    for same_amount in (True, False):
        a1 = g.new_spend(parent=r.bytes(32), amount=1000); a1["budget"] = []
        a2 = g.new_spend(parent=r.bytes(32), amount=2000); a2["budget"] = []
        dph = r.choice(g.phs)
        g.add_raw(a1, "CREATE_COIN", [dph, canon(3), to_list([h1])])
        g.add_raw(a2, "CREATE_COIN", [dph, canon(3 if same_amount else 4), to_list([h2])])
        n += 1
        emit([a1, a2], [("CREATE_COIN", "dup-across-spends:%d" % same_amount)], n & 1)
    # all 64 message modes, sender and receiver being two different spends, matching and one-bit-off
    for mode in range(64):
        for ok in (True, False):
            a, b = g.new_spend(parent=r.bytes(32), amount=1000), g.new_spend(parent=r.bytes(32), amount=2001)
            a["budget"] = []; b["budget"] = []
            msg = b"m%d" % mode
            a["conds"].append(g.msg_cond("SEND_MESSAGE", mode, msg, a, b)); a["tags"].append(("SEND_MESSAGE", "mode"))
            b["conds"].append(g.msg_cond("RECEIVE_MESSAGE", mode if ok else mode ^ 1, msg, b, a)); b["tags"].append(("RECEIVE_MESSAGE", "mode"))
            n += 1
            emit([a, b], [("SEND_MESSAGE", "mode:%d:%d" % (mode, ok))], n & 1, 0x10000 | (0x800000 if n & 2 else 0))
    # lock windows: every ORDER of two or three lock conditions of one family in one spend (the running max/min and the
    # impossible-window test must not depend on the order), values around each other and at equality
    import itertools
    fams = [("ASSERT_HEIGHT_RELATIVE", "ASSERT_BEFORE_HEIGHT_RELATIVE"), ("ASSERT_SECONDS_RELATIVE", "ASSERT_BEFORE_SECONDS_RELATIVE"),
            ("ASSERT_HEIGHT_ABSOLUTE", "ASSERT_BEFORE_HEIGHT_ABSOLUTE"), ("ASSERT_SECONDS_ABSOLUTE", "ASSERT_BEFORE_SECONDS_ABSOLUTE")]
    for (fa, fb) in fams:
        multis = [[(fa, 100), (fb, 200), (fb, 50)], [(fa, 100), (fa, 300), (fb, 200)], [(fa, 100), (fb, 200), (fb, 150)],
                  [(fa, 100), (fb, 100)], [(fa, 100), (fb, 101)], [(fa, 0), (fb, 0)], [(fa, 0), (fb, 1)],
                  [(fa, 100), (fa, 50), (fb, 75)], [(fb, 10), (fb, 20), (fa, 15)]]
        for ms in multis:
            for perm in sorted(set(itertools.permutations(ms))):
                spends, t = fresh(False)
                for (nm, v) in perm:
                    g.add_raw(t, nm, [canon(v)])
                n += 1
                emit(spends, [(fa, "order:" + ",".join("%s%d" % ("a" if nm == fa else "b", v) for nm, v in perm))], n & 1,
                     0x10000 | (0x800000 if n & 2 else 0))
    for fam in ("ASSERT_MY_BIRTH_HEIGHT", "ASSERT_MY_BIRTH_SECONDS"):
        for vals in ([5, 5], [5, 6], [6, 5], [5, 5, 6], [5, 6, 5], [6, 5, 5], [0, 0], [0, 1]):
            spends, t = fresh(False)
            for v in vals:
                g.add_raw(t, fam, [canon(v)])
            n += 1
            emit(spends, [(fam, "order:" + ",".join(map(str, vals)))], n & 1)
    # the same across TWO spends for the absolute (bundle-wide) locks
    for (fa, fb) in fams[2:]:
        for (x, y, z) in ((100, 200, 50), (100, 200, 150), (100, 100, 300)):
            for order in (0, 1):
                a1 = g.new_spend(parent=r.bytes(32), amount=1000); a1["budget"] = []
                a2 = g.new_spend(parent=r.bytes(32), amount=2000); a2["budget"] = []
                g.add_raw(a1, fa, [canon(x)]); g.add_raw(a1, fb, [canon(y)]); g.add_raw(a2, fb, [canon(z)])
                n += 1
                emit([a1, a2] if order == 0 else [a2, a1], [(fa, "order2:%d,%d,%d:%d" % (x, y, z, order))], n & 1)
    # many identical messages for one key: the balance must be exact whatever the order (127 / 128 / 129 / 300 in a row)
    for cnt in (127, 128, 129, 300):
        for order in (0, 1):
            a, b = g.new_spend(parent=r.bytes(32), amount=1000), g.new_spend(parent=r.bytes(32), amount=2001)
            a["budget"] = []; b["budget"] = []
            mode = 0b010010
            for _ in range(cnt):
                a["conds"].append(g.msg_cond("SEND_MESSAGE", mode, b"rep", a, b)); a["tags"].append(("SEND_MESSAGE", "many"))
                b["conds"].append(g.msg_cond("RECEIVE_MESSAGE", mode, b"rep", b, a)); b["tags"].append(("RECEIVE_MESSAGE", "many"))
            n += 1
            emit([a, b] if order == 0 else [b, a], [("SEND_MESSAGE", "count:%d:%d" % (cnt, order))], n & 1, 0x10000)
        # one receive short / one too many
        a, b = g.new_spend(parent=r.bytes(32), amount=1000), g.new_spend(parent=r.bytes(32), amount=2001)
        a["budget"] = []; b["budget"] = []
        for i in range(cnt):
            a["conds"].append(g.msg_cond("SEND_MESSAGE", 0b010010, b"rep", a, b)); a["tags"].append(("SEND_MESSAGE", "many"))
            if i > 0:
                b["conds"].append(g.msg_cond("RECEIVE_MESSAGE", 0b010010, b"rep", b, a)); b["tags"].append(("RECEIVE_MESSAGE", "many"))
        n += 1
        emit([a, b], [("SEND_MESSAGE", "count-short:%d" % cnt)], n & 1, 0x10000)
    return out


def matrix3_cases(g):
    """mempool eligibility flags, systematically: a spend that looks like a singleton (odd amount, re-creates its own puzzle
    hash and amount), so that ELIGIBLE_FOR_FF and ELIGIBLE_FOR_DEDUP are set unless the condition under test clears them:
    every opcode (valid form, counterpart in ANOTHER spend) at condition index 0 / 1 / 2, message conditions under several
    modes in both directions, created-vs-spent amounts around equality, and the two bundle-level rules of post_process
    (another spend naming the coin in ASSERT_CONCURRENT_SPEND; the re-created child being spent in the same bundle).
    Both visitors (the block visitor must report no flags)."""
    r = g.r
    out = []

    def emit(spends, tags, visitor):
        keys = [k for s in spends for k in s["keys"]]
        out.append({"tree": g.bundle_tree(spends), "flags": 0x10000 | (0x800000 if len(out) & 2 else 0), "visitor": visitor,
                    "max_cost": 11000000000, "clvm_cost": 0, "tags": tags, "scenario": "matrix3", "keys": keys,
                    "spends": spends, "std": True})

    def singleton(amount=1001, create=None, parent=None):
        a = g.new_spend(parent=parent or r.bytes(32), amount=amount)
        a["budget"] = []
        return a

    def recreate(a, amount=None):
        g.add_raw(a, "CREATE_COIN", [a["ph"], canon(a["amount"] if amount is None else amount)])

    msg = b"flagmsg"
    for name in OPC:
        for pos in (0, 1, 2):
            for visitor in (1, 0) if pos == 1 else (1,):
                spends = []
                if name == "ASSERT_EPHEMERAL":
                    c = singleton(amount=2000)
                    a = g.new_spend(parent=c["id"], amount=1001)
                    a["budget"] = []
                    g.add_raw(c, "CREATE_COIN", [a["ph"], canon(1001)])
                    spends.append(c)
                else:
                    a = singleton()
                b = singleton(amount=2000)
                pre = []
                if name == "ASSERT_COIN_ANNOUNCEMENT":
                    g.add_raw(b, "CREATE_COIN_ANNOUNCEMENT", [msg]); args = [sha256(b["id"] + msg)]
                elif name == "ASSERT_PUZZLE_ANNOUNCEMENT":
                    g.add_raw(b, "CREATE_PUZZLE_ANNOUNCEMENT", [msg]); args = [sha256(b["ph"] + msg)]
                elif name == "ASSERT_CONCURRENT_SPEND":
                    args = [b["id"]]
                elif name == "ASSERT_CONCURRENT_PUZZLE":
                    args = [b["ph"]]
                elif name in ("SEND_MESSAGE", "RECEIVE_MESSAGE"):
                    args = None
                elif name == "ASSERT_MY_COIN_ID":
                    args = [a["id"]]
                elif name == "ASSERT_MY_PARENT_ID":
                    args = [a["parent"]]
                elif name == "ASSERT_MY_PUZZLEHASH":
                    args = [a["ph"]]
                elif name == "ASSERT_MY_AMOUNT":
                    args = [canon(a["amount"])]
                elif name in AGG:
                    pk = g.key(); a["keys"].append(pk); args = [pk, msg]
                elif name == "CREATE_COIN":
                    args = [r.choice(g.phs), canon(0)]
                elif name in ("CREATE_COIN_ANNOUNCEMENT", "CREATE_PUZZLE_ANNOUNCEMENT"):
                    args = [msg]
                elif name == "RESERVE_FEE":
                    args = [canon(0)]
                elif name == "SOFTFORK":
                    args = [canon(0)]
                elif name in ("REMARK", "ASSERT_EPHEMERAL"):
                    args = []
                else:
                    args = [canon(1)]
                modes = [0b010010, 0b100100, 0b111111, 0b010100, 0b100010, 0b001001] if args is None else [None]
                for mode in modes:
                    a2 = dict(a); a2["conds"] = list(a["conds"]); a2["tags"] = list(a["tags"]); a2["keys"] = list(a["keys"])
                    b2 = dict(b); b2["conds"] = list(b["conds"]); b2["tags"] = list(b["tags"]); b2["keys"] = list(b["keys"])
                    fill = [("REMARK", []), ("CREATE_COIN", None)]
                    seq = []
                    for i in range(pos):
                        seq.append(fill[i % 2] if pos == 2 else fill[1])
                    seq.append((name, args))
                    if not any(x[0] == "CREATE_COIN" and x[1] is None for x in seq):
                        seq.append(("CREATE_COIN", None))
                    for (nm, ar) in seq:
                        if nm == "CREATE_COIN" and ar is None:
                            recreate(a2)
                        elif nm in ("SEND_MESSAGE", "RECEIVE_MESSAGE") and ar is None:
                            other = "RECEIVE_MESSAGE" if nm == "SEND_MESSAGE" else "SEND_MESSAGE"
                            a2["conds"].append(g.msg_cond(nm, mode, msg, a2, b2)); a2["tags"].append((nm, "flag"))
                            b2["conds"].append(g.msg_cond(other, mode, msg, b2, a2)); b2["tags"].append((other, "flag"))
                        else:
                            g.add_raw(a2, nm, ar)
                    emit(spends + [a2, b2], [(name, "flags:pos%d:mode%s" % (pos, mode))], visitor)
    # created vs spent amount around equality (dedup), and even amounts (ff)
    for amount in (1001, 1000, 1, 0):
        for delta in (-1, 0, 1):
            if amount + delta < 0:
                continue
            a = singleton(amount=amount)
            recreate(a, amount + delta)
            b = singleton(amount=5)
            emit([a, b], [("CREATE_COIN", "flags:amount:%d:%d" % (amount, delta))], 1)
    # split outputs: same puzzle hash but the amount split over two coins (no singleton output)
    a = singleton(amount=1001)
    g.add_raw(a, "CREATE_COIN", [a["ph"], canon(1000)]); g.add_raw(a, "CREATE_COIN", [r.choice(g.phs), canon(1)])
    emit([a], [("CREATE_COIN", "flags:split")], 1)
    # post_process rule 1: another spend (before / after) asserts concurrency with this coin
    for order in (0, 1):
        a = singleton(); recreate(a)
        b = singleton(amount=2000)
        g.add_raw(b, "ASSERT_CONCURRENT_SPEND", [a["id"]])
        emit([a, b] if order == 0 else [b, a], [("ASSERT_CONCURRENT_SPEND", "flags:names-singleton:%d" % order)], 1)
    # post_process rule 2: the re-created child is spent in the same bundle (before / after its parent in the list)
    for order in (0, 1):
        a = singleton(); recreate(a)
        d = g.new_spend(parent=a["id"], ph=a["ph"], amount=a["amount"]); d["budget"] = []
        recreate(d)
        emit([a, d] if order == 0 else [d, a], [("CREATE_COIN", "flags:child-spent:%d" % order)], 1)
    # a child with another amount / puzzle hash is spent: the rule must NOT fire for the singleton output
    a = singleton(); recreate(a); other_ph = r.choice(g.phs)
    g.add_raw(a, "CREATE_COIN", [other_ph, canon(0)])
    d = g.new_spend(parent=a["id"], ph=other_ph, amount=0); d["budget"] = []
    emit([a, d], [("CREATE_COIN", "flags:other-child-spent")], 1)
    return out


def case_line(c, consts_hex, valid_keys):
    keys = b"".join(k for k in dict.fromkeys(c["keys"]) if k in valid_keys)
    return "cond.parse %d %d %d %d %s %s %s" % (c["flags"], c["visitor"], c["max_cost"], c["clvm_cost"], consts_hex,
                                                keys.hex() if keys else "-", ser(c["tree"]).hex())
