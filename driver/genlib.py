"""shared helpers of the C07 / C09 checks (unit `gen`): case generators for block generators.

A case is a dict {program: bytes, refs: [bytes], flags: int, max_cost: int, kind: str, tags: [..]}.
Every random choice comes from the SplitMix64 passed in.  Sources:
  quoted   spend lists from the `cond` grammar (driver/condgen.py) wrapped as `(q . ((spend ...)))`; puzzles are
           `(q . conditions)` (the quote oracle) or come from a small pool of procedural puzzles with fixed hashes
           (so conditions referring to the spend's own puzzle hash / coin id are consistent)
  shape    single-point mutations of the generator OUTPUT shape (spend tuples, list terminators, extras, wrappers)
  proc     procedural generators (apply / cons / block-reference deserializer)
  bytes    malformed serializations (truncation, bad back-references, non-canonical length prefixes)
  file     /repo/generator-tests/*.txt (+ .env block references)
  backref  re-serialisation of any of the above by clvmr's back-reference compressor (harness op)
"""
import os, sys, glob
sys.path.insert(0, os.path.dirname(os.path.abspath(__file__)))
import common as C
import condgen
from clvm import ser, to_list, canon, tree_hash, coin_id, hexo

UNIT = "gen"
BLOCK = 11000000000
SMALL_LIMIT = 60000000
F = {"DONT_VALIDATE_SIGNATURE": 0x10000, "NO_UNKNOWN_CONDS": 0x20000, "STRICT_ARGS_COUNT": 0x80000,
     "COST_CONDITIONS": 0x800000, "SIMPLE_GENERATOR": 0x1000000, "LIMIT_SPENDS": 0x2000000,
     "INTERNED_GENERATOR": 0x8000000}
CLVM_BITS = [0x1, 0x2, 0x4, 0x8, 0x10, 0x20, 0x100, 0x200, 0x400, 0x800, 0x1000]
CLVM_MASK = sum(CLVM_BITS)

Q = b"\x01"
# procedural puzzles with fixed hashes; `wrap(conds)` = a solution making the puzzle return `conds`
POOL = [
    (b"\x01", lambda conds, r: conds),                                              # 1: the whole solution
    (b"\x02", lambda conds, r: (conds, r.choice([b"", b"junk", (b"a", b"b")]))),    # 2: (f solution)
    (to_list([b"\x02", (Q, b"\x02"), b"\x01"]), lambda conds, r: (conds, b"")),     # (a (q . 2) 1)
    (to_list([b"\x04", (Q, to_list([b"\x01"])), b"\x01"]), None),                   # (c (q . (1)) 1): REMARK + solution
]


LINE_TIMEOUT = 900          # per chunk (<= 200 lines) in run_lines; the thorough tier raises it


def _retry(binary, lines, outs, timeout):
    """a line that timed out (overloaded machine) is re-run alone, once, with a longer limit"""
    idx = [i for i, o in enumerate(outs) if o == "TIMEOUT"]
    if idx:
        again = heavy(binary, [lines[i] for i in idx], timeout=3 * timeout)
        for i, o in zip(idx, again):
            outs[i] = o
    return outs


def _shuffled(binary, lines, shards, timeout):
    """C.run_lines over the lines in a fixed pseudo-random order, so that expensive neighbours (corpus files, cost-limit
    variants of one case) are spread over the chunks; outputs are returned in the original order"""
    import random
    order = list(range(len(lines)))
    random.Random(len(lines) * 2654435761 % (2 ** 32)).shuffle(order)
    outs = C.run_lines(binary, [lines[i] for i in order], shards=shards, timeout=timeout)
    res = [None] * len(lines)
    for i, o in zip(order, outs):
        res[i] = o
    return res


def heavy(binary, lines, timeout):
    """one process per line on a pool (for lines that may each take minutes: corpus blocks, timed-out retries)"""
    from concurrent.futures import ThreadPoolExecutor
    if not lines:
        return []
    with ThreadPoolExecutor(max_workers=max(1, min(C.NPROC, len(lines)))) as ex:
        return [r[0] for r in ex.map(C._run_shard, [(binary, [l], timeout) for l in lines])]


def vh(lines, shards=C.NPROC, timeout=None):
    timeout = timeout or LINE_TIMEOUT
    return _retry(C.VH(UNIT), lines, _shuffled(C.VH(UNIT), lines, shards, timeout), timeout)


def vrun(lines, shards=C.NPROC, timeout=None):
    timeout = timeout or LINE_TIMEOUT
    return _retry(C.VRUN(UNIT), lines, _shuffled(C.VRUN(UNIT), lines, shards, timeout), timeout)


def vh_heavy(lines, timeout):
    return heavy(C.VH(UNIT), lines, timeout)


QUICK_ANSWER_S = 20


def unchecked(rep, stream, line, i, m=None):
    """machine-overload policy.  Returns True when the case must NOT be compared: a side that did not finish (TIMEOUT,
    also when re-run alone with three times the limit) makes the case `unchecked` in the evidence, not a failure —
    unless the other side answers the same line alone within QUICK_ANSWER_S seconds, i.e. one side repeatedly does not
    finish alone while the other answers quickly: then the caller reports it (returns False)."""
    ti, tm = i == "TIMEOUT", m == "TIMEOUT"
    if not (ti or tm):
        return False
    if m is not None and ti != tm:
        import time
        t0 = time.time()
        o = C._run_shard((C.VRUN(UNIT) if ti else C.VH(UNIT), [line], 3 * QUICK_ANSWER_S))[0]
        if o != "TIMEOUT" and time.time() - t0 <= QUICK_ANSWER_S:
            return False
    st = rep.streams.setdefault(stream, {"cases": 0, "disagreements": 0, "classes": {}, "results": {}})
    st["unchecked"] = st.get("unchecked", 0) + 1
    st.setdefault("unchecked_lines", []).append(line[:120] + (" … (%d bytes)" % len(line) if len(line) > 120 else ""))
    u = rep.extra.setdefault("unchecked", {"total": 0, "policy": "a case one side did not finish within the time limit (also alone, with 3x the limit) "
                                           "is not compared and not a failure, unless the other side answers it alone within %d s" % QUICK_ANSWER_S})
    u["total"] += 1
    u[stream] = u.get(stream, 0) + 1
    return True


def refs_tok(refs):
    if not refs:
        return "-"
    return ",".join(r.hex() if r else "e" for r in refs)


class Env:
    def __init__(self, rng):
        outs = vh(["gen.keys 6", "gen.consts", "gen.mempoolmode"], shards=1)
        self.keys = [bytes.fromhex(k) for k in outs[0].split(",")]
        self.consts_hex = outs[1]
        cb = bytes.fromhex(outs[1])
        self.consts = [cb[i * 32:(i + 1) * 32] for i in range(7)]
        self.mempool_mode = int(outs[2])
        self.rng = rng
        self.g = condgen.Gen(rng.fork("condgen"), self.keys, self.consts)
        self.pool_hashes = [tree_hash(p) for p, _ in POOL]

    # ------------------------------------------------------------ flags
    def flags(self, quoted=True):
        r = self.rng
        if r.chance(1, 7):
            fl = self.mempool_mode
            if r.chance(1, 2):
                fl |= F["COST_CONDITIONS"]
        else:
            fl = 0
            for name, p in (("NO_UNKNOWN_CONDS", (1, 5)), ("STRICT_ARGS_COUNT", (1, 5)), ("COST_CONDITIONS", (1, 2)),
                            ("LIMIT_SPENDS", (1, 4))):
                if r.chance(*p):
                    fl |= F[name]
            if r.chance(1, 8):
                for b in CLVM_BITS:
                    if r.chance(1, 3):
                        fl |= b
        if r.chance(9, 10):
            fl |= F["DONT_VALIDATE_SIGNATURE"]
        if r.chance(1, 4) if quoted else r.chance(1, 8):
            fl |= F["SIMPLE_GENERATOR"]
        if r.chance(1, 5):
            fl |= F["INTERNED_GENERATOR"]
        return fl

    # ------------------------------------------------------------ spends
    def spends(self, mode=None, scen=None, memo=None):
        """condgen spends -> list of dicts with puzzle / solution trees"""
        r, g = self.rng, self.g
        mode = mode or r.choice(["quote", "quote", "pool"])
        saved = g.phs
        if mode == "pool":
            g.phs = list(self.pool_hashes)
        scen = scen or r.choice(["single", "single", "multi", "multi", "announce", "concurrent", "message", "ephemeral",
                                 "locks", "dup", "fees", "aggsig", "unknown", "malformed", "limits"])
        if scen == "limits":
            # ~1000 conditions: keep them in the solution (pool puzzles are tiny), the model hashes every puzzle twice
            mode = "pool"
            g.phs = list(self.pool_hashes)
        sp = getattr(g, "sc_" + scen)()
        g.phs = saved
        if isinstance(sp, tuple):
            sp = sp[1]
        out = []
        for s in sp:
            conds = to_list(s["conds"], s["cond_term"])
            if memo is not None:
                conds = memo(conds)
            puzzle = None
            if mode == "pool" and s["ph"] in self.pool_hashes:
                i = self.pool_hashes.index(s["ph"])
                puzzle = POOL[i][0]
                if POOL[i][1] is None:
                    # (c (q . (1)) 1): the solution is the condition list, a REMARK is prepended
                    solution = conds
                else:
                    solution = POOL[i][1](conds, r)
            if puzzle is None:
                puzzle = (Q, conds)
                solution = r.choice([b"", b"", b"\x01", to_list([b"x", b"y"]), (b"a", b"b")])
            out.append({"parent": s["parent"], "puzzle": puzzle, "amount": s.get("amount_atom", canon(s["amount"])),
                        "solution": solution, "extra": s["extra"], "term": s.get("spend_term", b""),
                        "tags": s["tags"], "keys": s["keys"]})
        return out, scen, mode

    @staticmethod
    def spend_tree(s):
        items = [s["parent"], s["puzzle"], s["amount"], s["solution"]]
        if s["extra"] is not None:
            items += s["extra"]
        return to_list(items, s["term"])

    def output_tree(self, spends, term=b"", outer_rest=b""):
        return (to_list([self.spend_tree(s) for s in spends], term), outer_rest)

    # ------------------------------------------------------------ output-shape mutations
    N_SHAPES = 18

    def mutate_shape(self, spends, k=None):
        """returns (output tree, tag)"""
        r = self.rng
        if k is None:
            k = r.below(22)
        tag = "shape%d" % k
        sp = [dict(s) for s in spends]
        i = r.below(len(sp)) if sp else 0
        last = len(sp) - 1
        if k == 0 and sp:       # spend tuple too short (1..3 elements, nil terminated)
            n = 1 + r.below(3)
            t = to_list([sp[i]["parent"], sp[i]["puzzle"], sp[i]["amount"]][:n])
            trees = [self.spend_tree(s) for s in sp]
            trees[i] = t
            return (to_list(trees), b""), tag
        if k == 1 and sp:       # improper: solution in the tail position (p pz am . sol)
            trees = [self.spend_tree(s) for s in sp]
            trees[i] = (sp[i]["parent"], (sp[i]["puzzle"], (sp[i]["amount"], sp[i]["solution"])))
            return (to_list(trees), b""), tag
        if k == 2 and sp:       # a spend that is an atom
            trees = [self.spend_tree(s) for s in sp]
            trees[i] = r.choice([b"", b"\x01", r.bytes(32)])
            return (to_list(trees), b""), tag
        if k == 3:              # non-nil atom terminating the spend list
            return self.output_tree(sp, term=r.choice([b"\x01", b"\x00", r.bytes(32), b"\x80"])), tag
        if k == 4 and sp:       # spend-level trailing extras (accepted by both paths)
            sp[i]["extra"] = r.choice([[b"extra"], [b"", (b"a", b"b")], [to_list([b"x"])]])
            return self.output_tree(sp), tag
        if k == 5 and sp:       # spend-level improper tail (p pz am sol . atom)
            sp[i]["term"] = r.choice([b"\x01", r.bytes(5)])
            return self.output_tree(sp), tag
        if k == 6:              # output is an atom
            return r.choice([b"", b"\x01", r.bytes(32)]), tag
        if k == 7:              # missing outer wrap: first() of the spend list itself
            return to_list([self.spend_tree(s) for s in sp]), tag
        if k == 8:              # block-level extras after the spend list
            return self.output_tree(sp, outer_rest=r.choice([b"\x01", (b"x", b"y"), to_list([b"ext", b""])])), tag
        if k == 9 and sp:       # LAST spend malformed: the native pre-pass sees it before any puzzle runs
            trees = [self.spend_tree(s) for s in sp]
            trees[last] = r.choice([to_list([sp[last]["parent"]]), b"\x05", (sp[last]["parent"], sp[last]["puzzle"])])
            return (to_list(trees), b""), tag
        if k == 10 and sp:      # parent id of the wrong size / a pair
            sp[i]["parent"] = r.choice([sp[i]["parent"][:31], sp[i]["parent"] + b"\x00", b"", (b"a", b"b")])
            return self.output_tree(sp), tag
        if k == 11 and sp:      # amount encodings
            sp[i]["amount"] = r.choice([b"\x00", b"\xff", b"\x00\x01", b"\x01" + b"\x00" * 8, (b"", b""), b"\x00\x80",
                                        b"\x00\xff\xff\xff\xff\xff\xff\xff\xff", b"\x7f" + b"\xff" * 7])
            return self.output_tree(sp), tag
        if k == 12 and sp:      # puzzle is nil / an atom path / raises
            sp[i]["puzzle"] = r.choice([b"", b"\x01", b"\x03", to_list([b"\x08"]), to_list([b"\x08", (Q, b"boom")]),
                                        (Q, b"\x05"), (Q, (b"", b"")), b"\x7f", to_list([b"\x05", (Q, b"")])])
            return self.output_tree(sp), tag
        if k == 13 and sp:      # duplicated spend (double spend)
            sp.append(dict(sp[i]))
            return self.output_tree(sp), tag
        if k == 14:             # empty spend list
            return self.output_tree([]), tag
        if k == 15 and sp:      # 4-element tuple whose 4th cons is missing the rest: (p pz am sol) is fine; drop nil -> handled by k==5
            trees = [self.spend_tree(s) for s in sp]
            trees[i] = to_list([sp[i]["parent"], sp[i]["puzzle"], sp[i]["amount"]], term=b"\x01")
            return (to_list(trees), b""), tag
        if k == 16 and sp:      # spend list nested one level too deep
            return ((to_list([self.spend_tree(s) for s in sp]), b""), b""), tag
        if k == 17 and sp:      # puzzle with arithmetic / hashing work (cost > quote), result = solution
            sp[i]["puzzle"] = to_list([b"\x02", (Q, b"\x01"), to_list([b"\x03", to_list([b"\x0b", (Q, b"abc")]), b"\x01", b"\x01"])])
            return self.output_tree(sp), tag
        return self.output_tree(sp), "shape-none"

    # ------------------------------------------------------------ generator programs
    def quoted(self, out):
        return ser((Q, out))

    def procedural(self, out, spends):
        """(program bytes, refs, tag)"""
        r = self.rng
        k = r.below(6)
        if k == 0:      # (a (q . (q . OUT)) 1)
            return ser(to_list([b"\x02", (Q, (Q, out)), b"\x01"])), self.rand_refs(), "proc-apply"
        if k == 1:      # (a 2 (c 9 ())) : deserialize the first block reference with the supplied deserializer
            refs = [ser(out)] + self.rand_refs()
            return ser(to_list([b"\x02", b"\x02", to_list([b"\x04", b"\x09", b""])])), refs, "proc-deser-ref"
        if k == 2 and spends and isinstance(out, tuple) and isinstance(out[0], tuple):
            # ((REF1 puzzle amount solution) . rest-of-spends): the first parent id is block reference 1
            first = out[0][0]
            if isinstance(first, tuple):
                tail_spends = out[0][1]
                prog = to_list([b"\x04", to_list([b"\x04", to_list([b"\x04", b"\x09", (Q, first[1])]), (Q, tail_spends)]), (Q, out[1])])
                return ser(prog), [r.bytes(32)] + self.rand_refs(), "proc-ref-parent"
        if k == 3:      # (c (q . SPENDS) (q . REST))
            if isinstance(out, tuple):
                return ser(to_list([b"\x04", (Q, out[0]), (Q, out[1])])), self.rand_refs(), "proc-cons"
        if k == 4:      # a generator that raises / loops / returns its environment
            return ser(r.choice([to_list([b"\x08"]), b"\x01", b"\x02", b"", to_list([b"\x02", b"\x01", b"\x01"])])), self.rand_refs(), "proc-odd"
        # (a (q . 2) (c (q . OUT) 1)) -> OUT
        return ser(to_list([b"\x02", (Q, b"\x02"), to_list([b"\x04", (Q, out), b"\x01"])])), self.rand_refs(), "proc-apply2"

    def rand_refs(self):
        r = self.rng
        k = r.below(6)
        if k < 3:
            return []
        if k == 3:
            return [r.bytes(r.below(40))]
        if k == 4:
            return [b"", r.bytes(32)]
        return [r.bytes(1 + r.below(8)) for _ in range(1 + r.below(4))]

    def bad_bytes(self, program):
        r = self.rng
        k = r.below(8)
        if k == 0:
            return program[:r.below(max(1, len(program)))], "trunc"
        if k == 1:
            return program + r.bytes(1 + r.below(4)), "trailing"
        if k == 2:
            return b"", "empty"
        if k == 3:      # back-reference with an invalid path
            return b"\xff\x01\xff\xfe" + r.choice([b"\x7f", b"\x82\xff\xff", b"\x00", b"\x80"]) + b"\x80", "bad-backref"
        if k == 4:      # non-canonical length prefix for a short atom (accepted by clvmr)
            return b"\xff\x01\xff\xff\xc0\x01\x05\x80\x80", "noncanon-prefix"
        if k == 5:
            b = bytearray(program)
            if b:
                b[r.below(len(b))] ^= 1 << r.below(8)
            return bytes(b), "bitflip"
        if k == 6:      # valid back-reference: (q . ((A . A-again)))  [fe 02 = first of the stack = last value]
            return b"\xff\x01\xff\xff\x83abc\xfe\x02\x80", "small-backref"
        return b"\xfe\x01", "backref-root"

    # ------------------------------------------------------------ non-canonical first bytes
    # what node_from_bytes_backrefs accepts in place of the canonical `ff 01` at the start of a quoted generator.
    # len1..len6: the quote atom 0x01 written with an explicit (over-long) length prefix -> the SAME tree (q . X);
    # check_generator_quote (byte level, SIMPLE_GENERATOR) rejects it although check_generator_node would accept.
    # The rest parse to a different first element (nil through a back-reference into the empty stack, a nested
    # list, the two-byte atom 0x0001, the nil atom): both checks reject under SIMPLE_GENERATOR.
    NONCANON_HEADS = [("len1", b"\xff\x81\x01"), ("len2", b"\xff\xc0\x01\x01"), ("len3", b"\xff\xe0\x00\x01\x01"),
                      ("len4", b"\xff\xf0\x00\x00\x01\x01"), ("len5", b"\xff\xf8\x00\x00\x00\x01\x01"),
                      ("len6", b"\xff\xfc\x00\x00\x00\x00\x01\x01"),
                      ("backref-nil", b"\xff\xfe\x01"), ("nested", b"\xff\xff\x01\x80"), ("two-byte-one", b"\xff\x82\x00\x01"),
                      ("nil-head", b"\xff\x80")]

    def head_cases(self, per_head=1, memo=None):
        """valid quoted spend lists whose first two bytes `ff 01` are replaced by every NONCANON_HEADS variant, each
        with SIMPLE_GENERATOR set and clear (and, with it set, once more without INTERNED_GENERATOR)"""
        out = []
        for name, head in self.NONCANON_HEADS:
            for _ in range(per_head):
                c = self.case(want_valid=True, memo=memo)
                while c["kind"] != "quoted" or c["max_cost"] != BLOCK:
                    c = self.case(want_valid=True, memo=memo)
                assert c["program"][:2] == b"\xff\x01"
                for simple in (True, False):
                    d = dict(c)
                    d["program"] = head + c["program"][2:]
                    d["refs"] = []
                    d["flags"] = (c["flags"] | F["SIMPLE_GENERATOR"] | F["DONT_VALIDATE_SIGNATURE"]) if simple else (c["flags"] & ~F["SIMPLE_GENERATOR"])
                    if simple:
                        d["flags"] &= ~F["INTERNED_GENERATOR"]
                    d["kind"] = "head"
                    d["tags"] = c["tags"] + [("bytes", "head-" + name)]
                    if not name.startswith("len"):
                        d["max_cost"] = min(d["max_cost"], SMALL_LIMIT)      # a different program: keep the interpreter work small
                        d["budget"] = SMALL_LIMIT
                    out.append(d)
        return out

    # ------------------------------------------------------------ cases
    def shape_case(self, k):
        """a valid quoted spend list with exactly the k-th output-shape mutation applied"""
        r = self.rng
        spends, scen, mode = self.spends(scen=r.choice(["single", "multi", "fees", "locks"]), mode=r.choice(["quote", "pool"]))
        if k in (9, 13) and len(spends) < 2:
            spends, scen, mode = self.spends(scen="multi", mode=mode)
        out, t = self.mutate_shape(spends, k)
        flags = self.flags(quoted=True) & ~(F["NO_UNKNOWN_CONDS"] | F["STRICT_ARGS_COUNT"])
        return {"program": self.quoted(out), "refs": [], "flags": flags, "max_cost": BLOCK, "kind": "shape",
                "tags": [("scen", scen), ("puzzles", mode), ("shape", t)]}

    def case(self, want_valid=False, memo=None):
        r = self.rng
        spends, scen, mode = self.spends(memo=memo, scen=(r.choice(["single", "multi", "fees", "locks", "aggsig", "announce"]) if want_valid else None),
                                         mode=("pool" if want_valid and r.chance(1, 2) else None))
        tags = [("scen", scen), ("puzzles", mode)]
        kind = "quoted"
        if not want_valid and r.chance(1, 3):
            out, t = self.mutate_shape(spends)
            tags.append(("shape", t))
            kind = "shape"
        else:
            out = self.output_tree(spends)
        refs = []
        if not want_valid and r.chance(1, 5):
            program, refs, t = self.procedural(out, spends)
            tags.append(("proc", t))
            kind = "proc"
        else:
            program = self.quoted(out)
            if r.chance(1, 6):
                refs = self.rand_refs()
        if not want_valid and r.chance(1, 12):
            program, t = self.bad_bytes(program)
            tags.append(("bytes", t))
            kind = "bytes"
        flags = self.flags(quoted=(kind in ("quoted", "shape")))
        if want_valid:
            flags &= ~(F["NO_UNKNOWN_CONDS"] | F["STRICT_ARGS_COUNT"])
        max_cost = BLOCK
        if r.chance(1, 14):
            max_cost = r.choice([0, 1, 19, 20, 12000 * len(program) - 1, 12000 * len(program), 12000 * len(program) + 20,
                                 12000 * len(program) + 1000, 3000000, 2 ** 64 - 1, 2 ** 63])
        for s in spends:
            for t in s["tags"]:
                tags.append(t)
        c = {"program": program, "refs": refs, "flags": flags, "max_cost": max_cost, "kind": kind, "tags": tags}
        if kind in ("proc", "bytes"):
            # arbitrary programs may loop: keep the interpreter work per case small (both real paths, the ROM and
            # the oracle recording all run them to the limit)
            c["max_cost"] = min(max_cost, SMALL_LIMIT)
            c["budget"] = SMALL_LIMIT
        return c


# corpus files that are small AND cheap to evaluate (measured: < 1 s for both real paths); the quick tier uses these
QUICK_FILES = ["just-puzzle-announce", "create-coin-hint", "create-coin-hint2", "infinity-g1", "create-coin-hint-duplicate-outputs",
               "invalid-conditions", "multiple-reserve-fee", "create-coin-different-amounts", "max-height",
               "assert-puzzle-announce-fail", "infinite-recursion1", "infinite-recursion2", "duplicate-height-absolute-div",
               "unknown-condition", "non-quote-0001-start", "new-agg-sigs", "double-spend", "duplicate-outputs"]


# programs above this size are run through the implementation-level oracles only: the Gallina SHA-256 of the model
# runner needs ~1.4 ms per 64-byte block, i.e. minutes for the tree hashes of a 100 KB block
MODEL_FILE_LIMIT = 20000


def file_cases(tier, env, limit_bytes=MODEL_FILE_LIMIT):
    """generator-tests corpus: (name, program, refs, implementation_only)"""
    out = []
    for p in sorted(glob.glob(C.REPO + "/generator-tests/*.txt")):
        name = os.path.basename(p)[:-4]
        if tier == "quick" and name not in QUICK_FILES:
            continue
        only = os.environ.get("VERIF_GEN_FILES")          # debugging aid: comma separated corpus names
        if only and name not in only.split(","):
            continue
        txt = open(p).read()
        if "\n" not in txt:
            continue
        gen_hex = txt.split("\n", 1)[0].strip()
        if not gen_hex:
            continue
        try:
            prog = bytes.fromhex(gen_hex)
        except ValueError:
            continue
        refs = []
        e = p[:-4] + ".env"
        if os.path.exists(e):
            refs = [bytes.fromhex(open(e).read().strip())]
        out.append((name, prog, refs, len(prog) > limit_bytes))
    return out


def budget_of(c):
    """the budget the run-oracle table is recorded with: at least every budget the case's runs can use"""
    if "budget" in c:
        return max(c["budget"], c["max_cost"]) if c["max_cost"] <= SMALL_LIMIT else c["max_cost"]
    return max(BLOCK, c["max_cost"])


def base_line(c):
    return "gen.case %d %d %s %s" % (c["flags"], c["max_cost"], hexo(c["program"]), refs_tok(c["refs"]))


def tables(cases, timeout=None):
    """record the run-oracle table (and the valid-key table) of every case with the implementation"""
    lines = ["gen.table %d %d %s %s" % (c["flags"], budget_of(c), hexo(c["program"]), refs_tok(c["refs"])) for c in cases]
    outs = vh(lines, timeout=timeout)
    for c, o in zip(cases, outs):
        t = o.split(" ")
        c["keys_tok"], c["table_tok"] = (t[0], t[1]) if len(t) == 2 else ("-", "-")
        c["table_status"] = o if len(t) != 2 else "ok"


def with_table(rep, stream, cases):
    """the cases whose oracle table could be recorded; a table that timed out makes the case unchecked"""
    out = []
    for c in cases:
        if c.get("table_status") == "TIMEOUT":
            unchecked(rep, stream, base_line(c), "TIMEOUT")
        else:
            out.append(c)
    return out


def both_line(c, consts_hex):
    return "gen.both %d %d %d %s %s %s %s %s" % (c["flags"], c["max_cost"], budget_of(c), consts_hex, hexo(c["program"]),
                                                 refs_tok(c["refs"]), c["keys_tok"], c["table_tok"])


def trusted_line(c):
    return "gen.trusted %d %s %s %s %s" % (c["flags"], hexo(c["program"]), refs_tok(c["refs"]), c["keys_tok"], c["table_tok"])


def split3(line):
    return line.split(" ## ")


def verdict(field):
    if field.startswith("OK "):
        return field
    if field.startswith("ERR "):
        return "ERR"
    return field


def verdict_line(line):
    return " ## ".join(verdict(f) for f in split3(line))


def parse_ok(field):
    if not field.startswith("OK "):
        return None
    d = {}
    for tok in field.split(" ")[1:]:
        k, _, v = tok.partition("=")
        d[k] = v
    return d


def parse_case_line(line):
    """gen.case FLAGS MAXCOST PROGRAM REFS -> case dict"""
    t = line.split(" ")
    refs = [] if t[4] == "-" else [bytes.fromhex(x) if x != "e" else b"" for x in t[4].split(",")]
    return {"flags": int(t[1]), "max_cost": int(t[2]), "program": bytes.fromhex(t[3]) if t[3] != "-" else b"", "refs": refs,
            "kind": "replay", "tags": []}


def big_redundant_generator(size):
    """a quoted one-spend generator of EXACTLY `size` bytes in plain serialization whose interned size is tiny:
    the solution is a list of copies of one 1000-byte atom plus one filler atom.  (q . (((parent (q . ()) 1 solution))))"""
    parent = bytes(range(32))
    big = b"\x5a" * 1000
    def build(k, fill):
        sol = to_list([big] * k + [b"\xa5" * fill])
        return ser((Q, (to_list([to_list([parent, (Q, b""), b"\x01", sol])]), b"")))
    base = len(build(0, 100))
    k = (size - base) // 1003
    while k >= 0:
        fill = 100 + (size - base - k * 1003)
        if 64 <= fill < 8192:
            g = build(k, fill)
            assert len(g) == size, (len(g), size)
            return g
        k -= 1
    raise ValueError(size)
