#!/usr/bin/env python3
"""./check <Cxx> [--tier quick|thorough] [--replay file]

One check = (1) regenerate coq/Gen from /repo, (2) build the property's theorems (full .vo)
and audit them (statement pins, Print Assumptions, forbidden-construct scan), (3) rebuild the
implementation harness from /repo's working tree and the extracted model runner, (4) run the
property's correspondence streams and implementation-level oracles, (5) report.
"""
import sys, os, json, time, importlib, argparse, traceback

HERE = os.path.dirname(os.path.abspath(__file__))
sys.path.insert(0, HERE)
import common as C  # noqa: E402


def diff_stream(rep, name, cases, impl, model, nontrivial_key=None, project=None, why="model and implementation disagree"):
    """compare outputs line by line; `project` maps an output line to the part the property speaks about"""
    st = rep.streams.setdefault(name, {})
    for k in ("cases", "disagreements", "impl_panics"):
        st.setdefault(k, 0)
    st["cases"] += len(cases)
    rep.evaluations += len(cases)
    rep.traces += len(cases)
    for c, i, m in zip(cases, impl, model):
        pi = project(i) if project else i
        pm = project(m) if project else m
        if i == "PANIC":
            st["impl_panics"] += 1
        if pi != pm:
            st["disagreements"] += 1
            rep.add_failure(name, c, i, m, why)
        if nontrivial_key:
            k = nontrivial_key(c, i)
            if k is not None:
                rep.nontrivial.add((name, k))
    if cases and len(rep.samples) < 12:
        rep.samples.append({"stream": name, "case": cases[0], "impl": impl[0], "model": model[0]})
        if len(cases) > 1:
            rep.samples.append({"stream": name, "case": cases[-1], "impl": impl[-1], "model": model[-1]})


def main():
    ap = argparse.ArgumentParser()
    ap.add_argument("pid")
    ap.add_argument("--tier", default=os.environ.get("VERIF_TIER", "quick"))
    ap.add_argument("--replay", default=None)
    a = ap.parse_args()
    pid = a.pid
    tier = a.tier if a.tier in ("quick", "thorough") else "quick"
    seed = int(os.environ.get("VERIF_SEED", "1") or "1")
    rep = C.Report(pid, tier, seed)
    rep.trusted = list(C.TRUSTED_COMMON)
    try:
        mod = importlib.import_module("props." + pid)
    except ModuleNotFoundError:
        print("no check for", pid)
        return 2
    rep.rule = getattr(mod, "RULE", "")
    rep.assumptions = list(getattr(mod, "ASSUMPTIONS", []))
    rep.trusted += list(getattr(mod, "TRUSTED", []))

    # (1) translator: the tie to the source for everything that is a table
    tr = C.step_translate()
    rep.extra["translator"] = {"written": tr["written"], "broken": tr["broken"]}
    for name, msg in tr["broken"].items():
        if name in getattr(mod, "GEN", []):
            rep.add_broken("translator-tie", "Gen/%s" % name, msg)

    # (2) theorems
    ok, log, dt = C.step_coq(["Props/%s.vo" % pid])
    rep.extra["coq_build_s"] = round(dt, 1)
    if not ok:
        errs = C.coq_errors(log)
        rep.add_broken("proof", errs[0]["file"] if errs else "Props/%s.v" % pid, json.dumps(errs[:3]) if errs else log[-1500:])
        # theorems that do exist are still listed as not discharged
        import re
        names = re.findall(r"Print Assumptions\s+([A-Za-z0-9_'.]+)\s*\.", open(C.VERIF + "/driver/pins/%s.v" % pid).read())
        rep.theorems = [{"name": n, "axioms": None, "ok": False} for n in names]
    else:
        theorems, problems, alog = C.step_audit(pid)
        rep.theorems = theorems
        for p in problems:
            rep.add_broken("audit", "driver/pins/%s.v" % pid, p)
    hits = C.scan_forbidden()
    for h in hits:
        rep.add_broken("forbidden-construct", h, h)

    # (3) implementation harness + model runner
    unit = mod.UNIT
    okh, logh, dth = C.step_harness(unit)
    rep.extra["harness_build_s"] = round(dth, 1)
    if not okh:
        rep.add_broken("harness-build", "harness", logh[-3000:])
    okr, logr = C.step_runner(unit)
    if not okr:
        errs = C.coq_errors(logr)
        rep.add_broken("model-build", errs[0]["file"] if errs else "Run/%sExtract.v" % unit.capitalize(), json.dumps(errs[:3]) if errs else logr[-1500:])

    # (4) streams and oracles
    ctx = {"tier": tier, "seed": seed, "rep": rep, "have_impl": okh, "have_model": okr, "replay": a.replay,
           "proofs_ok": ok}
    rep.is_replay = bool(a.replay)
    try:
        if okh:
            mod.run(ctx)
    except Exception as e:
        rep.add_broken("driver-error", "props/%s.py" % pid, "%r\n%s" % (e, traceback.format_exc()))

    # (5) verdict
    rc = rep.finish(getattr(mod, "classify_known", None))
    return rc


if __name__ == "__main__":
    sys.exit(main())
