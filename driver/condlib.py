"""shared helpers of the C01-C06 checks (unit `cond`)"""
import os, sys
sys.path.insert(0, os.path.dirname(os.path.abspath(__file__)))
import common as C
import condgen
from clvm import ser

UNIT = "cond"


def setup_env(rng):
    """key pool, domain constants (from the implementation) and a generator"""
    outs = C.run_lines(C.VH(UNIT), ["cond.keys 6", "cond.consts"], shards=1)
    keys = [bytes.fromhex(k) for k in outs[0].split(",")]
    consts_hex = outs[1]
    cb = bytes.fromhex(consts_hex)
    consts = [cb[i * 32:(i + 1) * 32] for i in range(7)]
    return condgen.Gen(rng, keys, consts), keys, consts_hex


def key_oracle(cases, pool):
    """which 48-byte key candidates of the cases are valid non-infinity keys: asked of the implementation"""
    cand = []
    seen = set()
    for c in cases:
        for k in c["keys"]:
            if len(k) == 48 and k not in seen:
                seen.add(k)
                cand.append(k)
    outs = C.run_lines(C.VH(UNIT), ["cond.keyvalid %s" % k.hex() for k in cand])
    return {k for k, o in zip(cand, outs) if o == "1"}


def verdict(line):
    """the part of a result line the properties speak about: accept + full summary, or reject"""
    if line.startswith("OK "):
        return line
    if line.startswith("ERR "):
        return "ERR"
    return line


def summary_no_pairs(line):
    if line.startswith("OK "):
        return line.split(" pairs=")[0]
    return verdict(line)
