"""shared helpers of the C01-C06 checks (unit `cond`)"""
import os, sys
sys.path.insert(0, os.path.dirname(os.path.abspath(__file__)))
import common as C
import condgen
from clvm import ser

UNIT = "cond"


def setup_env(rng):
    """key pool, domain constants (from the implementation) and a generator"""
    outs = C.run_lines(C.VH(UNIT), ["cond.keys 6", "cond.consts", "cond.offkeys 6"], shards=1)
    keys = [bytes.fromhex(k) for k in outs[0].split(",")]
    consts_hex = outs[1]
    cb = bytes.fromhex(consts_hex)
    consts = [cb[i * 32:(i + 1) * 32] for i in range(7)]
    g = condgen.Gen(rng, keys, consts)
    # points on the curve but outside the prime-order subgroup: decompress fine, must be rejected as keys
    g.offkeys = [bytes.fromhex(k) for k in outs[2].split(",")] if outs[2] not in ("-", "") and not outs[2].startswith(("ERR", "PANIC", "?")) else []
    return g, keys, consts_hex


def key_oracle(cases, pool):
    """which 48-byte key candidates of the cases are valid non-infinity keys: asked of the implementation"""
    cand = []
    seen = set()
    for c in cases:
        for k in c["keys"]:
            if len(k) == 48 and k not in seen:
                seen.add(k)
                cand.append(k)
    outs = C.run_lines(C.VH(UNIT), ["cond.keyvalid %s" % k.hex() for k in cand])
    return {k for k, o in zip(cand, outs) if o == "1"}


def verdict(line):
    """the part of a result line the properties speak about: accept + full summary, or reject"""
    if line.startswith("OK "):
        return line
    if line.startswith("ERR "):
        return "ERR"
    return line


def summary_no_pairs(line):
    if line.startswith("OK "):
        return line.split(" pairs=")[0]
    return verdict(line)


def make_cases(rng, n, scenarios=None, tweak=None, matrix=False):
    g, keys, consts_hex = setup_env(rng)
    cases = []
    if matrix:
        cases += condgen.matrix_cases(g)
        cases += condgen.matrix2_cases(g)
        cases += condgen.matrix3_cases(g)
    for _ in range(n):
        c = g.scenario(rng.choice(scenarios) if scenarios else None)
        if tweak:
            tweak(c, rng)
        cases.append(c)
    valid = key_oracle(cases, keys)
    for c in cases:
        c["line"] = condgen.case_line(c, consts_hex, valid)
    return g, cases, consts_hex, valid


def run_both(lines, have_model=True):
    impl = C.run_lines(C.VH(UNIT), lines)
    model = C.run_lines(C.VRUN(UNIT), lines) if have_model else [None] * len(lines)
    return impl, model


def parse_ok(line):
    """OK line -> dict of fields; spends as list of field lists"""
    if not line.startswith("OK "):
        return None
    d = {}
    for tok in line.split(" ")[1:]:
        k, _, v = tok.partition("=")
        d[k] = v
    sp = []
    if d.get("spends", "-") != "-":
        for s in d["spends"].split("|"):
            sp.append(s.split(";"))
    d["spend_list"] = sp
    return d


def replace_arg(line, idx, val):
    t = line.split(" ")
    t[idx] = str(val)
    return " ".join(t)


def stream_stats(rep, name, cases, impl):
    from collections import Counter
    st = rep.streams.setdefault(name, {})
    st["accepted"] = sum(1 for i in impl if i.startswith("OK"))
    st["rejected"] = sum(1 for i in impl if i.startswith("ERR"))
    st["error_kinds"] = dict(Counter(i for i in impl if not i.startswith("OK")).most_common(60))
    st["scenarios"] = dict(Counter(c["scenario"] for c in cases))
    st["line_bytes_max"] = max((len(c["line"]) for c in cases), default=0)
    for c, i in zip(cases, impl):
        v = i.split(" ")[0] if i.startswith("OK") else i
        for t in c["tags"] or [("none", "")]:
            rep.nontrivial.add((name, t[0], t[1], c["flags"], c["visitor"], v))
