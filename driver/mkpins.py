#!/usr/bin/env python3
"""mkpins.py Cxx — (re)generate driver/pins/Cxx.v from coq/Props/Cxx.v.  Run BY HAND when theorems are
added; the pins file is committed and is the independent copy of the statements that every check
compiles (`Check name : statement.`), so a silently weakened theorem in Props/ no longer matches."""
import re, sys
pid = sys.argv[1]
src = open("/verif/coq/Props/%s.v" % pid).read()
# strip comments
out, depth, i = [], 0, 0
while i < len(src):
    if src.startswith("(*", i): depth += 1; i += 2
    elif src.startswith("*)", i) and depth > 0: depth -= 1; i += 2
    else:
        if depth == 0: out.append(src[i])
        i += 1
s = "".join(out)
hdr = []
for m in re.finditer(r"(?m)^(From [^\n]*Require[^\n]*\.|Require [^\n]*\.|Open Scope [^\n]*\.|Import [^\n]*\.)\s*$", s):
    hdr.append(m.group(1))
res = ["(* statement pins and axiom audit for %s (compiled on every check; regenerate BY HAND with driver/mkpins.py) *)" % pid]
res += hdr
res.append("From ChiaV.Props Require Import %s." % pid)
for m in re.finditer(r"(?s)\bTheorem\s+([A-Za-z0-9_']+)\s*:(.*?)\.\s*Proof\.", s):
    name, stmt = m.group(1), m.group(2).strip()
    res.append("Check %s :\n  %s." % (name, stmt))
    res.append("Print Assumptions %s." % name)
open("/verif/driver/pins/%s.v" % pid, "w").write("\n".join(res) + "\n")
print("pinned", len(re.findall(r"\bTheorem\s", s)), "theorems")
