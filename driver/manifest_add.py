#!/usr/bin/env python3
"""manifest_add.py <pid> <technique> <text> <note> — add/replace a check entry in MANIFEST.json (maintenance helper)"""
import json, sys
pid, technique, text, note = sys.argv[1:5]
m = json.load(open('/verif/MANIFEST.json'))
m['checks'] = [c for c in m['checks'] if c['property_id'] != pid]
m['checks'].append({"property_id": pid, "quick_cmd": "./check %s --tier quick" % pid, "thorough_cmd": "./check %s --tier thorough" % pid,
                    "evidence_file": "/verif/evidence/%s.json" % pid, "replay_cmd_template": "./check %s --replay {path}" % pid,
                    "engine": "rocq-model+correspondence",
                    "level_claimed": {"category": "proof", "text": text, "design_ref": "DESIGN.md §5 " + pid},
                    "level_note": note, "technique": technique})
m['checks'].sort(key=lambda c: c['property_id'])
m['not_applicable'] = [x for x in m.get('not_applicable', []) if x['property_id'] != pid]
m['engines'][0]['serves_properties'] = sorted(c['property_id'] for c in m['checks'])
json.dump(m, open('/verif/MANIFEST.json', 'w'), indent=1)
print("manifest:", [c['property_id'] for c in m['checks']])
