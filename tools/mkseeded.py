#!/usr/bin/env python3
"""mkseeded.py — maintenance helper (run by hand): build /verif/seeded/<id>/ from a sub-agent's output directory,
my confirmation log and my detection logs.
  seeded/<id>/patch.diff   the change (apply with: git -C /repo apply <file>; undo: git -C /repo checkout -- .)
  seeded/<id>/demo.rs      the demonstration (integration test; header says where to place it)
  seeded/<id>/meta.json    property, what it breaks, what it needs to manifest, what the author ran, what I ran to
                           confirm it, and which checks of /verif caught / missed it (with dates and strengthening)
usage: mkseeded.py <id> <src_dir> <confirm_log> <detect_tsv>"""
import json, os, re, shutil, sys
sid, src, conf, det = sys.argv[1:5]
dst = "/verif/seeded/" + sid
os.makedirs(dst, exist_ok=True)
shutil.copy(src + "/patch.diff", dst + "/patch.diff")
shutil.copy(src + "/demo.rs", dst + "/demo.rs")
meta = {}
if os.path.exists(src + "/meta.json"):
    meta = json.load(open(src + "/meta.json"))
meta.setdefault("property", sid.split("_")[0])
meta["id"] = sid
meta["author_ran"] = meta.pop("ran", [])
c = None
for l in open(conf):
    if l.startswith(sid + " "):
        c = dict(kv.split("=", 1) for kv in l.split()[1:] if "=" in kv)
if c is None:
    sys.exit("no confirmation line for " + sid)
ok = c["apply"] == "0" and c["demo_clean_rc"] == "0" and c["demo_mutant_rc"] != "0" and c["suite_rc"] == "0"
meta["confirmed_by_me"] = {
    "ok": ok,
    "what_i_ran": [
        "scratch worktree of /repo (git worktree add --detach /tmp/seedverify HEAD), CARGO_NET_OFFLINE=true, own target dir",
        "unchanged code + demo placed as its header says: cargo test -p <crate> --offline --test <demo>  -> rc=%s (passes)" % c["demo_clean_rc"],
        "git apply patch.diff -> rc=%s; same demo -> rc=%s (fails: the change is observable)" % (c["apply"], c["demo_mutant_rc"]),
        "with the patch: cargo test -p <touched crates> and -p chia-consensus --offline (existing tests, unedited) -> rc=%s (all pass)" % c["suite_rc"],
        "worktree reset and removed afterwards",
    ],
    "touched": c.get("touched", ""),
}
rows = [l.rstrip("\n").split("\t") for l in open(det) if l.startswith(sid + "\t")]
meta["detection"] = [{"check": r[1], "result": r[2], "note": r[3] if len(r) > 3 else ""} for r in rows]
json.dump(meta, open(dst + "/meta.json", "w"), indent=1)
print(sid, "confirmed" if ok else "NOT CONFIRMED", [(r[1], r[2]) for r in rows])
