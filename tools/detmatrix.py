#!/usr/bin/env python3
"""detmatrix.py — print the detection matrix (markdown) from /verif/seeded/*/meta.json (maintenance helper)."""
import json, glob, os
rows = []
for d in sorted(glob.glob("/verif/seeded/*/")):
    m = json.load(open(d + "meta.json"))
    sid = m["id"]
    what = m.get("breaks", "")
    needs = m.get("needs", "")
    det = "; ".join("%s: %s%s" % (x["check"], x["result"], (" (" + x["note"] + ")") if x.get("note") else "") for x in m.get("detection", []))
    rows.append((sid, m["property"], what, needs, det, m.get("confirmed_by_me", {}).get("ok")))
print("| Change | Property | What it changes (short) | Reported by |")
print("|---|---|---|---|")
for sid, prop, what, needs, det, ok in rows:
    short = what.replace("\n", " ").replace("|", "/")
    if len(short) > 230:
        short = short[:227] + "..."
    print("| %s%s | %s | %s | %s |" % (sid, "" if ok else " (unconfirmed)", prop, short, det.replace("|", "/")))
