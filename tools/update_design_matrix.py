#!/usr/bin/env python3
"""update_design_matrix.py — regenerate the detection matrix inside DESIGN.md (between the DETMATRIX markers)."""
import subprocess, re
tab = subprocess.run(["python3", "/verif/tools/detmatrix.py"], capture_output=True, text=True).stdout
p = "/verif/DESIGN.md"
s = open(p).read()
b, e = "<!-- DETMATRIX BEGIN -->", "<!-- DETMATRIX END -->"
if b not in s:
    raise SystemExit("markers missing")
s = s[:s.index(b) + len(b)] + "\n" + tab + s[s.index(e):]
open(p, "w").write(s)
print("rows:", tab.count("\n") - 2)
