// C20: JSON ops through the real ToJsonDict / FromJsonDict in an embedded CPython (pyo3), the way the
// repository's own `pytests` modules do.  Included by vh_wire.rs when feature `py` is on.
//
// JSON text on the case lines (no spaces):  z | t | f | INT | s<hex of utf8> | [j,...] | {key:j,...}
pub mod pyjson {
    use super::{FromVal, ToVal, Val};
    use chia_traits::{FromJsonDict, Streamable, ToJsonDict};
    use pyo3::prelude::*;
    use pyo3::types::{PyBool, PyDict, PyInt, PyList, PyString, PyTuple};
    use std::panic::{catch_unwind, AssertUnwindSafe};

    fn init() {
        Python::initialize();
    }

    fn parse<'py>(py: Python<'py>, s: &[u8], i: &mut usize) -> Option<Bound<'py, PyAny>> {
        let c = *s.get(*i)?;
        match c {
            b'z' => { *i += 1; Some(py.None().into_bound(py)) }
            b't' => { *i += 1; Some(PyBool::new(py, true).to_owned().into_any()) }
            b'f' => { *i += 1; Some(PyBool::new(py, false).to_owned().into_any()) }
            b's' => {
                *i += 1;
                let st = *i;
                while *i < s.len() && s[*i].is_ascii_hexdigit() { *i += 1; }
                let b = hex::decode(&s[st..*i]).ok()?;
                Some(PyString::new(py, std::str::from_utf8(&b).ok()?).into_any())
            }
            b'-' | b'0'..=b'9' => {
                let st = *i;
                *i += 1;
                while *i < s.len() && s[*i].is_ascii_digit() { *i += 1; }
                let txt = std::str::from_utf8(&s[st..*i]).ok()?;
                let int = py.get_type::<PyInt>();
                int.call1((txt,)).ok()
            }
            b'[' => {
                *i += 1;
                let l = PyList::empty(py);
                if *s.get(*i)? == b']' { *i += 1; return Some(l.into_any()); }
                loop {
                    l.append(parse(py, s, i)?).ok()?;
                    match *s.get(*i)? { b',' => *i += 1, b']' => { *i += 1; return Some(l.into_any()); } _ => return None }
                }
            }
            b'{' => {
                *i += 1;
                let d = PyDict::new(py);
                if *s.get(*i)? == b'}' { *i += 1; return Some(d.into_any()); }
                loop {
                    let st = *i;
                    while *i < s.len() && s[*i] != b':' { *i += 1; }
                    let k = std::str::from_utf8(&s[st..*i]).ok()?.to_string();
                    *i += 1;
                    let v = parse(py, s, i)?;
                    d.set_item(k, v).ok()?;
                    match *s.get(*i)? { b',' => *i += 1, b'}' => { *i += 1; return Some(d.into_any()); } _ => return None }
                }
            }
            _ => None,
        }
    }

    fn render(o: &Bound<'_, PyAny>, out: &mut String) -> Option<()> {
        if o.is_none() { out.push('z'); return Some(()); }
        if let Ok(b) = o.cast::<PyBool>() { out.push(if b.is_true() { 't' } else { 'f' }); return Some(()); }
        if o.is_instance_of::<PyInt>() { out.push_str(&o.str().ok()?.to_string()); return Some(()); }
        if let Ok(s) = o.cast::<PyString>() { out.push('s'); out.push_str(&hex::encode(s.to_str().ok()?.as_bytes())); return Some(()); }
        if let Ok(l) = o.cast::<PyList>() {
            out.push('[');
            for (i, x) in l.iter().enumerate() { if i > 0 { out.push(','); } render(&x, out)?; }
            out.push(']');
            return Some(());
        }
        if let Ok(l) = o.cast::<PyTuple>() {
            out.push('[');
            for (i, x) in l.iter().enumerate() { if i > 0 { out.push(','); } render(&x, out)?; }
            out.push(']');
            return Some(());
        }
        if let Ok(d) = o.cast::<PyDict>() {
            out.push('{');
            for (i, (k, v)) in d.iter().enumerate() {
                if i > 0 { out.push(','); }
                out.push_str(k.cast::<PyString>().ok()?.to_str().ok()?);
                out.push(':');
                render(&v, out)?;
            }
            out.push('}');
            return Some(());
        }
        None
    }

    /// wire.tojson T VALTEXT
    pub fn op_tojson<T: ToVal + FromVal + ToJsonDict>(args: &[String]) -> String {
        init();
        let Some(val) = Val::from_text(&args[1]) else { return "ERR-VALUE-SYNTAX".into() };
        let Some(v) = T::from_val(&val) else { return "ERR-VALUE-TYPE".into() };
        Python::attach(|py| match v.to_json_dict(py) {
            Ok(j) => { let mut s = String::new(); match render(j.bind(py), &mut s) { Some(()) => s, None => "ERR-JSON-SHAPE".into() } }
            Err(_) => "E".into(),
        })
    }

    /// wire.fromjson T JSONTEXT
    pub fn op_fromjson<T: ToVal + FromJsonDict>(args: &[String]) -> String {
        init();
        Python::attach(|py| {
            let mut i = 0;
            let Some(o) = parse(py, args[1].as_bytes(), &mut i) else { return "ERR-JSON-SYNTAX".to_string() };
            if i != args[1].len() { return "ERR-JSON-SYNTAX".to_string(); }
            match catch_unwind(AssertUnwindSafe(|| <T as FromJsonDict>::from_json_dict(&o))) {
                Ok(Ok(v)) => v.to_val().text(),
                Ok(Err(_)) => "E".into(),
                Err(_) => "PANIC".into(),
            }
        })
    }

    /// wire.orcj T VALTEXT : C20 itself on the implementation: value -> JSON -> value is the identity, same bytes, same hash
    pub fn op_orcj<T: ToVal + FromVal + ToJsonDict + FromJsonDict + Streamable + PartialEq>(args: &[String]) -> String {
        init();
        let Some(val) = Val::from_text(&args[1]) else { return "ERR-VALUE-SYNTAX".into() };
        let Some(v) = T::from_val(&val) else { return "ERR-VALUE-TYPE".into() };
        Python::attach(|py| {
            let Ok(j) = v.to_json_dict(py) else { return "FAIL to_json_dict raised".to_string() };
            let v2 = match <T as FromJsonDict>::from_json_dict(j.bind(py)) { Ok(x) => x, Err(_) => return "FAIL from_json_dict(to_json_dict(v)) raised".to_string() };
            if v2 != v { return "FAIL from_json_dict(to_json_dict(v)) != v".to_string(); }
            if v2.to_val() != val { return "FAIL field values differ after the JSON round trip".to_string(); }
            match (v.to_bytes(), v2.to_bytes()) {
                (Ok(a), Ok(b)) => if a != b { return "FAIL encodings differ after the JSON round trip".to_string(); },
                (Err(_), Err(_)) => {}
                _ => return "FAIL one side encodes, the other does not".to_string(),
            }
            let h1 = catch_unwind(AssertUnwindSafe(|| v.hash())).ok();
            let h2 = catch_unwind(AssertUnwindSafe(|| v2.hash())).ok();
            if h1 != h2 { return "FAIL hashes differ after the JSON round trip".to_string(); }
            // the JSON form must survive json.dumps / json.loads
            let Ok(jm) = py.import("json") else { return "ERR-NO-JSON-MODULE".to_string() };
            let Ok(txt) = jm.call_method1("dumps", (j.bind(py),)) else { return "FAIL json.dumps rejects the representation".to_string() };
            let Ok(back) = jm.call_method1("loads", (txt,)) else { return "FAIL json.loads".to_string() };
            match <T as FromJsonDict>::from_json_dict(&back) {
                Ok(v3) => if v3 != v { return "FAIL value differs after json.dumps/loads".to_string(); },
                Err(_) => return "FAIL from_json_dict rejects json.loads(json.dumps(..))".to_string(),
            }
            "OK".to_string()
        })
    }
}
