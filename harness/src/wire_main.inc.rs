// unit `wire` (C13, C14, C20): every Streamable type of the repository, through the real
// to_bytes / from_bytes / from_bytes_unchecked / hash / parse, under catch_unwind, with a
// counting global allocator.  The type list is the generated `src/gen/wire_types_gen.rs`
// (written by translator/gen_streamtypes.py from the same parse that produces
// coq/Gen/StreamTypes.v).  With feature `py` (binary vh_wirejson) the JSON ops go through the
// real to_json_dict / from_json_dict in an embedded Python interpreter.
// This file is the body of both binaries (src/bin/vh_wire.rs, src/bin/vh_wirejson.rs).
use chia_traits::Streamable;
use std::alloc::{GlobalAlloc, Layout, System};
use std::cell::Cell;
use std::io::Cursor;
use std::panic::{catch_unwind, AssertUnwindSafe};
use std::sync::atomic::{AtomicUsize, Ordering};
use vh::util::*;

// ------------------------------------------------------------------ counting allocator
struct Counting;
static CUR: AtomicUsize = AtomicUsize::new(0);
static PEAK: AtomicUsize = AtomicUsize::new(0);
unsafe impl GlobalAlloc for Counting {
    unsafe fn alloc(&self, l: Layout) -> *mut u8 {
        let p = System.alloc(l);
        if !p.is_null() {
            let c = CUR.fetch_add(l.size(), Ordering::Relaxed) + l.size();
            PEAK.fetch_max(c, Ordering::Relaxed);
        }
        p
    }
    unsafe fn dealloc(&self, p: *mut u8, l: Layout) {
        CUR.fetch_sub(l.size(), Ordering::Relaxed);
        System.dealloc(p, l)
    }
    unsafe fn realloc(&self, p: *mut u8, l: Layout, new: usize) -> *mut u8 {
        let q = System.realloc(p, l, new);
        if !q.is_null() {
            if new >= l.size() {
                let c = CUR.fetch_add(new - l.size(), Ordering::Relaxed) + (new - l.size());
                PEAK.fetch_max(c, Ordering::Relaxed);
            } else {
                CUR.fetch_sub(l.size() - new, Ordering::Relaxed);
            }
        }
        q
    }
}
#[global_allocator]
static GLOBAL: Counting = Counting;

fn alloc_mark() -> usize {
    let c = CUR.load(Ordering::Relaxed);
    PEAK.store(c, Ordering::Relaxed);
    c
}
fn alloc_peak_since(mark: usize) -> usize {
    PEAK.load(Ordering::Relaxed).saturating_sub(mark)
}

// ------------------------------------------------------------------ universal values
#[derive(Clone, Debug, PartialEq)]
pub enum Val {
    Int(bool, u128), // negative?, magnitude
    Bool(bool),
    Bytes(Vec<u8>),
    None,
    Some(Box<Val>),
    List(Vec<Val>),
}

impl Val {
    fn list(&self) -> Option<&Vec<Val>> {
        if let Val::List(l) = self { Some(l) } else { None }
    }
    fn render(&self, out: &mut String) {
        match self {
            Val::Int(neg, m) => {
                if *neg && *m != 0 { out.push('-'); }
                out.push_str(&m.to_string());
            }
            Val::Bool(b) => out.push(if *b { 't' } else { 'f' }),
            Val::Bytes(b) => { out.push('x'); out.push_str(&hex::encode(b)); }
            Val::None => out.push('n'),
            Val::Some(v) => { out.push('j'); v.render(out); }
            Val::List(l) => {
                out.push('[');
                for (i, v) in l.iter().enumerate() {
                    if i > 0 { out.push(','); }
                    v.render(out);
                }
                out.push(']');
            }
        }
    }
    fn text(&self) -> String {
        let mut s = String::new();
        self.render(&mut s);
        s
    }
    fn parse(s: &[u8], i: &mut usize) -> Option<Val> {
        let c = *s.get(*i)?;
        match c {
            b't' => { *i += 1; Some(Val::Bool(true)) }
            b'f' => { *i += 1; Some(Val::Bool(false)) }
            b'n' => { *i += 1; Some(Val::None) }
            b'j' => { *i += 1; Some(Val::Some(Box::new(Val::parse(s, i)?))) }
            b'x' => {
                *i += 1;
                let st = *i;
                while *i < s.len() && s[*i].is_ascii_hexdigit() { *i += 1; }
                Some(Val::Bytes(hex::decode(&s[st..*i]).ok()?))
            }
            b'-' | b'0'..=b'9' => {
                let neg = c == b'-';
                if neg { *i += 1; }
                let st = *i;
                while *i < s.len() && s[*i].is_ascii_digit() { *i += 1; }
                let m: u128 = std::str::from_utf8(&s[st..*i]).ok()?.parse().ok()?;
                Some(Val::Int(neg && m != 0, m))
            }
            b'[' => {
                *i += 1;
                let mut l = Vec::new();
                if *s.get(*i)? == b']' { *i += 1; return Some(Val::List(l)); }
                loop {
                    l.push(Val::parse(s, i)?);
                    match *s.get(*i)? {
                        b',' => *i += 1,
                        b']' => { *i += 1; return Some(Val::List(l)); }
                        _ => return None,
                    }
                }
            }
            _ => None,
        }
    }
    fn from_text(s: &str) -> Option<Val> {
        let mut i = 0;
        let v = Val::parse(s.as_bytes(), &mut i)?;
        if i == s.len() { Some(v) } else { None }
    }
}

pub trait ToVal { fn to_val(&self) -> Val; }
pub trait FromVal: Sized { fn from_val(v: &Val) -> Option<Self>; }

macro_rules! val_uint { ($($t:ty),*) => { $(
    impl ToVal for $t { fn to_val(&self) -> Val { Val::Int(false, *self as u128) } }
    impl FromVal for $t { fn from_val(v: &Val) -> Option<Self> {
        if let Val::Int(false, m) = v { <$t>::try_from(*m).ok() } else { None } } }
)* } }
macro_rules! val_sint { ($($t:ty),*) => { $(
    impl ToVal for $t { fn to_val(&self) -> Val { Val::Int(*self < 0, self.unsigned_abs() as u128) } }
    impl FromVal for $t { fn from_val(v: &Val) -> Option<Self> {
        if let Val::Int(neg, m) = v {
            if *neg { if *m <= (<$t>::MAX as u128) + 1 { Some((*m as i128).wrapping_neg() as $t) } else { None } }
            else { <$t>::try_from(*m).ok() }
        } else { None } } }
)* } }
val_uint!(u8, u16, u32, u64, u128);
val_sint!(i8, i16, i32, i64);
impl ToVal for i128 { fn to_val(&self) -> Val { Val::Int(*self < 0, self.unsigned_abs()) } }
impl FromVal for i128 { fn from_val(v: &Val) -> Option<Self> {
    if let Val::Int(neg, m) = v {
        if *neg { if *m <= (i128::MAX as u128) + 1 { Some((*m as i128).wrapping_neg()) } else { None } }
        else { i128::try_from(*m).ok() }
    } else { None } } }

impl ToVal for bool { fn to_val(&self) -> Val { Val::Bool(*self) } }
impl FromVal for bool { fn from_val(v: &Val) -> Option<Self> { if let Val::Bool(b) = v { Some(*b) } else { None } } }
impl ToVal for String { fn to_val(&self) -> Val { Val::Bytes(self.as_bytes().to_vec()) } }
impl FromVal for String { fn from_val(v: &Val) -> Option<Self> {
    if let Val::Bytes(b) = v { String::from_utf8(b.clone()).ok() } else { None } } }
impl ToVal for chia_protocol::Bytes { fn to_val(&self) -> Val { Val::Bytes(self.as_slice().to_vec()) } }
impl FromVal for chia_protocol::Bytes { fn from_val(v: &Val) -> Option<Self> {
    if let Val::Bytes(b) = v { Some(chia_protocol::Bytes::new(b.clone())) } else { None } } }
impl<const N: usize> ToVal for chia_protocol::BytesImpl<N> { fn to_val(&self) -> Val { Val::Bytes(self.as_slice().to_vec()) } }
impl<const N: usize> FromVal for chia_protocol::BytesImpl<N> { fn from_val(v: &Val) -> Option<Self> {
    if let Val::Bytes(b) = v { let a: [u8; N] = b.as_slice().try_into().ok()?; Some(chia_protocol::BytesImpl::new(a)) } else { None } } }
impl ToVal for chia_protocol::Program { fn to_val(&self) -> Val { Val::Bytes(self.as_slice().to_vec()) } }
impl FromVal for chia_protocol::Program { fn from_val(v: &Val) -> Option<Self> {
    if let Val::Bytes(b) = v { Some(chia_protocol::Program::new(b.clone().into())) } else { None } } }
impl ToVal for chia_bls::PublicKey { fn to_val(&self) -> Val { Val::Bytes(self.to_bytes().to_vec()) } }
impl FromVal for chia_bls::PublicKey { fn from_val(v: &Val) -> Option<Self> {
    if let Val::Bytes(b) = v { let a: [u8; 48] = b.as_slice().try_into().ok()?; chia_bls::PublicKey::from_bytes_unchecked(&a).ok() } else { None } } }
impl ToVal for chia_bls::Signature { fn to_val(&self) -> Val { Val::Bytes(self.to_bytes().to_vec()) } }
impl FromVal for chia_bls::Signature { fn from_val(v: &Val) -> Option<Self> {
    if let Val::Bytes(b) = v { let a: [u8; 96] = b.as_slice().try_into().ok()?; chia_bls::Signature::from_bytes_unchecked(&a).ok() } else { None } } }
impl ToVal for chia_bls::SecretKey { fn to_val(&self) -> Val { Val::Bytes(self.to_bytes().to_vec()) } }
impl FromVal for chia_bls::SecretKey { fn from_val(v: &Val) -> Option<Self> {
    if let Val::Bytes(b) = v { let a: [u8; 32] = b.as_slice().try_into().ok()?; chia_bls::SecretKey::from_bytes(&a).ok() } else { None } } }
impl ToVal for chia_bls::GTElement { fn to_val(&self) -> Val { Val::Bytes(self.to_bytes().to_vec()) } }
impl FromVal for chia_bls::GTElement { fn from_val(v: &Val) -> Option<Self> {
    if let Val::Bytes(b) = v { let a: [u8; 576] = b.as_slice().try_into().ok()?; Some(chia_bls::GTElement::from_bytes(&a)) } else { None } } }

impl<T: ToVal> ToVal for Option<T> { fn to_val(&self) -> Val {
    match self { None => Val::None, Some(x) => Val::Some(Box::new(x.to_val())) } } }
impl<T: FromVal> FromVal for Option<T> { fn from_val(v: &Val) -> Option<Self> {
    match v { Val::None => Some(None), Val::Some(x) => Some(Some(T::from_val(x)?)), _ => None } } }
impl<T: ToVal> ToVal for Vec<T> { fn to_val(&self) -> Val { Val::List(self.iter().map(ToVal::to_val).collect()) } }
impl<T: FromVal> FromVal for Vec<T> { fn from_val(v: &Val) -> Option<Self> {
    v.list()?.iter().map(T::from_val).collect() } }
impl<T: ToVal, const N: usize> ToVal for [T; N] { fn to_val(&self) -> Val { Val::List(self.iter().map(ToVal::to_val).collect()) } }
impl<T: FromVal, const N: usize> FromVal for [T; N] { fn from_val(v: &Val) -> Option<Self> {
    let l: Vec<T> = v.list()?.iter().map(T::from_val).collect::<Option<Vec<T>>>()?;
    l.try_into().ok() } }
impl ToVal for () { fn to_val(&self) -> Val { Val::List(vec![]) } }
impl FromVal for () { fn from_val(v: &Val) -> Option<Self> { if v.list()?.is_empty() { Some(()) } else { None } } }
macro_rules! val_tuple { ($n:expr; $($T:ident $i:tt),*) => {
    impl<$($T: ToVal),*> ToVal for ($($T,)*) { fn to_val(&self) -> Val { Val::List(vec![$(self.$i.to_val()),*]) } }
    impl<$($T: FromVal),*> FromVal for ($($T,)*) { fn from_val(v: &Val) -> Option<Self> {
        let l = v.list()?; if l.len() != $n { return None; }
        Some(($($T::from_val(&l[$i])?,)*)) } }
} }
val_tuple!(2; A 0, B 1);
val_tuple!(3; A 0, B 1, C 2);
val_tuple!(4; A 0, B 1, C 2, D 3);

thread_local! { static V2_POS: Cell<usize> = Cell::new(0); }
fn note_struct(name: &str, v: &Val) {
    // count v2 proofs of space (struct field 4 = version) seen while rendering a value
    if name.ends_with("ProofOfSpace") {
        if let Val::List(l) = v {
            if let Some(Val::Int(false, 1)) = l.get(4) { V2_POS.with(|c| c.set(c.get() + 1)); }
        }
    }
}

macro_rules! wire_struct {
    ($p:path; new; $($f:ident : $t:ty),*) => {
        impl ToVal for $p { fn to_val(&self) -> Val {
            let v = Val::List(vec![$(self.$f.to_val()),*]); note_struct(stringify!($p), &v); v } }
        impl FromVal for $p { #[allow(unused_mut, unused_variables)] fn from_val(v: &Val) -> Option<Self> {
            let l = v.list()?; let mut it = l.iter();
            $( let $f = <$t as FromVal>::from_val(it.next()?)?; )*
            if it.next().is_some() { return None; }
            Some(<$p>::new($($f),*)) } }
        impl Fields for $p { fn fields() -> Vec<&'static str> { vec![$(stringify!($f)),*] } }
    };
    ($p:path; lit; $($f:ident : $t:ty),*) => {
        impl ToVal for $p { fn to_val(&self) -> Val {
            let v = Val::List(vec![$(self.$f.to_val()),*]); note_struct(stringify!($p), &v); v } }
        impl FromVal for $p { #[allow(unused_mut, unused_variables)] fn from_val(v: &Val) -> Option<Self> {
            let l = v.list()?; let mut it = l.iter();
            $( let $f = <$t as FromVal>::from_val(it.next()?)?; )*
            if it.next().is_some() { return None; }
            type Lit = $p;
            Some(Lit { $($f),* }) } }
        impl Fields for $p { fn fields() -> Vec<&'static str> { vec![$(stringify!($f)),*] } }
    };
}
macro_rules! wire_tuple_struct {
    ($p:path; $t0:ty) => {
        impl ToVal for $p { fn to_val(&self) -> Val { Val::List(vec![self.0.to_val()]) } }
        impl FromVal for $p { fn from_val(v: &Val) -> Option<Self> {
            let l = v.list()?; if l.len() != 1 { return None; }
            Some($p(<$t0 as FromVal>::from_val(&l[0])?)) } }
        impl Fields for $p { fn fields() -> Vec<&'static str> { vec!["field_0"] } }
    };
    ($p:path; $t0:ty, $t1:ty) => {
        impl ToVal for $p { fn to_val(&self) -> Val { Val::List(vec![self.0.to_val(), self.1.to_val()]) } }
        impl FromVal for $p { fn from_val(v: &Val) -> Option<Self> {
            let l = v.list()?; if l.len() != 2 { return None; }
            Some($p(<$t0 as FromVal>::from_val(&l[0])?, <$t1 as FromVal>::from_val(&l[1])?)) } }
        impl Fields for $p { fn fields() -> Vec<&'static str> { vec!["field_0", "field_1"] } }
    };
}
macro_rules! wire_enum {
    ($p:path; $($v:ident = $d:expr),*) => {
        impl ToVal for $p { fn to_val(&self) -> Val { Val::Int(false, (*self as u8) as u128) } }
        impl FromVal for $p { fn from_val(v: &Val) -> Option<Self> {
            if let Val::Int(false, m) = v { $( if *m == $d { return Some(<$p>::$v); } )* }
            None } }
        impl Fields for $p { fn fields() -> Vec<&'static str> { vec![] } }
    };
}
pub trait Fields { fn fields() -> Vec<&'static str>; }
macro_rules! leaf_fields { ($($t:ty),*) => { $( impl Fields for $t { fn fields() -> Vec<&'static str> { vec![] } } )* } }
leaf_fields!(chia_bls::PublicKey, chia_bls::Signature, chia_bls::SecretKey, chia_bls::GTElement,
             chia_protocol::Bytes, chia_protocol::BytesImpl<32>, chia_protocol::Program);

// ------------------------------------------------------------------ generic operations
fn guarded<R>(f: impl FnOnce() -> R) -> Option<R> {
    catch_unwind(AssertUnwindSafe(f)).ok()
}
fn val_or_e<T: ToVal>(r: &Result<T, chia_traits::chia_error::Error>) -> String {
    match r { Ok(v) => v.to_val().text(), Err(_) => "E".into() }
}

/// wire.rt T HEX : what the Coq handler h_rt prints
fn op_rt<T: Streamable + ToVal>(args: &[String]) -> String {
    let bs = hx(&args[1]);
    let u = T::from_bytes(&bs);
    let t = T::from_bytes_unchecked(&bs);
    let p = {
        let mut c = Cursor::new(bs.as_slice());
        match T::parse::<false>(&mut c) { Ok(_) => c.position().to_string(), Err(_) => "E".into() }
    };
    let (b, h) = match &t {
        Ok(v) => (
            match v.to_bytes() { Ok(e) => hexo(&e), Err(_) => "E".into() },
            match guarded(|| v.hash()) { Some(h) => hex::encode(h), None => "PANIC".into() },
        ),
        Err(_) => ("-".into(), "-".into()),
    };
    format!("U:{} T:{} P:{} B:{} H:{}", val_or_e(&u), val_or_e(&t), p, b, h)
}

/// wire.enc T VALTEXT : what h_enc prints
fn op_enc<T: Streamable + ToVal + FromVal + PartialEq>(args: &[String]) -> String {
    let Some(val) = Val::from_text(&args[1]) else { return "ERR-VALUE-SYNTAX".into() };
    let Some(v) = T::from_val(&val) else { return "ERR-VALUE-TYPE".into() };
    let e = v.to_bytes();
    let h = match guarded(|| v.hash()) { Some(h) => hex::encode(h), None => "PANIC".into() };
    let flag = |r: Result<T, chia_traits::chia_error::Error>| match r {
        Ok(v2) => if v2 == v { "1" } else { "0" },
        Err(_) => "E",
    };
    let (b, r, rt) = match &e {
        Ok(b) => (hexo(b), flag(T::from_bytes(b)), flag(T::from_bytes_unchecked(b))),
        Err(_) => ("E".to_string(), "E", "E"),
    };
    format!("B:{} H:{} R:{} RT:{}", b, h, r, rt)
}

fn sha256(b: &[u8]) -> [u8; 32] {
    let mut c = chia_sha2::Sha256::new();
    c.update(b);
    c.finalize()
}

/// wire.orc T HEX : the property C13 itself, evaluated on the implementation alone
fn op_orc<T: Streamable + ToVal + PartialEq>(args: &[String]) -> String {
    let bs = hx(&args[1]);
    let u = T::from_bytes(&bs);
    let t = T::from_bytes_unchecked(&bs);
    if let Ok(uv) = &u {
        match &t {
            Ok(tv) => if tv != uv { return "FAIL trusted and untrusted decode to different values".into(); },
            Err(_) => return "FAIL untrusted accepts, trusted rejects".into(),
        }
    }
    let Ok(tv) = t else { return "OK rejected".into() };
    let Ok(e) = tv.to_bytes() else { return "FAIL decoded value does not re-encode".into() };
    if e != bs { return format!("FAIL re-encoding differs: {}", hexo(&e)); }
    match T::from_bytes_unchecked(&e) {
        Ok(v2) => if v2 != tv { return "FAIL decode(encode(v)) != v".into(); },
        Err(_) => return "FAIL encode(v) does not decode".into(),
    }
    V2_POS.with(|c| c.set(0));
    let _ = tv.to_val();
    let v2 = V2_POS.with(|c| c.get());
    match guarded(|| tv.hash()) {
        None => format!("OK hashpanic v2={}", v2),
        Some(h) => {
            if v2 == 0 && h != sha256(&e) { return "FAIL hash != sha256(encoding)".into(); }
            if v2 != 0 && h == sha256(&e) { return "FAIL v2 proof of space hashed with the full proof".into(); }
            format!("OK accepted{} v2={}", if u.is_ok() { "" } else { "-trusted-only" }, v2)
        }
    }
}

/// wire.orcv T VALTEXT : facts about encode/decode of a constructed value (judged by the driver)
fn op_orcv<T: Streamable + ToVal + FromVal + PartialEq>(args: &[String]) -> String {
    let Some(val) = Val::from_text(&args[1]) else { return "ERR-VALUE-SYNTAX".into() };
    let Some(v) = T::from_val(&val) else { return "ERR-VALUE-TYPE".into() };
    if v.to_val() != val { return "FAIL value does not render back to its description".into(); }
    let Ok(e) = v.to_bytes() else { return "NOENC".into() };
    let e2 = v.to_bytes().unwrap();
    if e != e2 { return "FAIL encoding is not deterministic".into(); }
    match T::from_bytes_unchecked(&e) {
        Ok(v2) => if v2 == v { "RT".into() } else { "NRT-differs".into() },
        Err(_) => "NRT-rejected".into(),
    }
}

/// wire.tot T TRUSTED HEX : totality / boundedness observables (C14)
fn op_tot<T: Streamable + ToVal + PartialEq>(args: &[String]) -> String {
    let trusted = args[1] == "1";
    let bs = hx(&args[2]);
    let t0 = std::time::Instant::now();
    let mark = alloc_mark();
    let d = guarded(|| {
        let mut c = Cursor::new(bs.as_slice());
        let r = if trusted { T::parse::<true>(&mut c) } else { T::parse::<false>(&mut c) };
        (r, c.position())
    });
    let peak = alloc_peak_since(mark);
    let ds = match &d { None => "PANIC".to_string(), Some((Ok(_), n)) => format!("ok:{}", n), Some((Err(_), _)) => "err".into() };
    let f = guarded(|| if trusted { T::from_bytes_unchecked(&bs) } else { T::from_bytes(&bs) });
    let fs = match &f { None => "PANIC", Some(Ok(_)) => "ok", Some(Err(_)) => "err" };
    let mut ops = String::new();
    if let Some((Ok(v), _)) = &d {
        ops.push(match guarded(|| v.to_bytes()) { None => 'P', Some(Ok(_)) => 'o', Some(Err(_)) => 'e' });
        ops.push(match guarded(|| v.hash()) { None => 'P', Some(_) => 'o' });
        ops.push(match guarded(|| *v == *v) { None => 'P', Some(true) => 'o', Some(false) => 'n' });
        ops.push(match guarded(|| v.to_val()) { None => 'P', Some(_) => 'o' });
    } else {
        ops.push('-');
    }
    let ms = t0.elapsed().as_millis();
    format!("D:{} F:{} OPS:{} A:{} MS:{}", ds, fs, ops, peak, ms)
}

fn op_fields<T: Fields>(_: &[String]) -> String { let f = T::fields(); if f.is_empty() { "-".into() } else { f.join(",") } }
fn op_sizeof<T>(_: &[String]) -> String { std::mem::size_of::<T>().to_string() }

pub struct Entry {
    name: &'static str,
    json: bool,
    rt: fn(&[String]) -> String,
    enc: fn(&[String]) -> String,
    orc: fn(&[String]) -> String,
    orcv: fn(&[String]) -> String,
    tot: fn(&[String]) -> String,
    fields: fn(&[String]) -> String,
    sizeof: fn(&[String]) -> String,
    #[cfg(feature = "py")]
    js: Option<JsonOps>,
}

macro_rules! json_ops {
    (json, $p:path) => {{
        #[cfg(feature = "py")]
        { Some(JsonOps { tojson: pyjson::op_tojson::<$p>, fromjson: pyjson::op_fromjson::<$p>, orc: pyjson::op_orcj::<$p> }) }
    }};
    (nojson, $p:path) => {{
        #[cfg(feature = "py")]
        { None }
    }};
}
macro_rules! wire_table {
    ($($name:literal => $p:path, $j:ident;)*) => {
        fn table() -> Vec<Entry> { vec![ $( Entry {
            name: $name, json: stringify!($j) == "json",
            rt: op_rt::<$p>, enc: op_enc::<$p>, orc: op_orc::<$p>, orcv: op_orcv::<$p>, tot: op_tot::<$p>,
            fields: op_fields::<$p>, sizeof: op_sizeof::<$p>,
            #[cfg(feature = "py")]
            js: json_ops!($j, $p),
        } ),* ] }
    };
}

#[cfg(feature = "py")]
pub struct JsonOps {
    tojson: fn(&[String]) -> String,
    fromjson: fn(&[String]) -> String,
    orc: fn(&[String]) -> String,
}
#[cfg(feature = "py")]
include!("wire_pyjson.inc.rs");

include!("gen/wire_types_gen.rs");

thread_local! { static TABLE: Vec<Entry> = table(); }

/// wire.ora LIST : answer the blst / chia-pos2 questions of a case
fn op_ora(args: &[String]) -> String {
    if args[0] == "-" { return "-".into(); }
    let mut out = Vec::new();
    for q in args[0].split(',') {
        let (k, h) = q.split_once(':').unwrap();
        let b = hx(h);
        let ans = match k {
            "a" => {
                let a: Result<[u8; 48], _> = b.as_slice().try_into();
                match a { Ok(a) => match chia_bls::PublicKey::from_bytes_unchecked(&a) {
                    // g1_unc answers blst_p1_uncompress; the flag rules in front of it are mirrored in Coq
                    Ok(p) => format!("1{}", if p.is_valid() { 1 } else { 0 }), Err(_) => "00".into() }, Err(_) => "00".into() }
            }
            "b" => {
                let a: Result<[u8; 96], _> = b.as_slice().try_into();
                match a { Ok(a) => match chia_bls::Signature::from_bytes_unchecked(&a) {
                    Ok(p) => format!("1{}", if p.is_valid() { 1 } else { 0 }), Err(_) => "00".into() }, Err(_) => "00".into() }
            }
            "q" => {
                match guarded(|| chia_protocol::ProofOfSpace::from_bytes_unchecked(&b).ok().and_then(|p| p.quality_string())) {
                    Some(Some(q)) => hex::encode(q), _ => "-".into() }
            }
            _ => "?".into(),
        };
        out.push(format!("{}:{}:{}", k, h, ans));
    }
    out.join(",")
}

/// wire.keys N : pools of point encodings: valid G1 / G2, and on-curve points outside the subgroup
fn op_keys(args: &[String]) -> String {
    let n = dec(&args[0]) as usize;
    let mut g1 = Vec::new();
    let mut g2 = Vec::new();
    for i in 0..n {
        let seed = sha256(format!("verif-wire-key-{}", i).as_bytes());
        let sk = chia_bls::SecretKey::from_seed(&seed);
        g1.push(hex::encode(sk.public_key().to_bytes()));
        g2.push(hex::encode(chia_bls::sign(&sk, b"verif-wire").to_bytes()));
    }
    let mut bad1 = Vec::new();
    let mut bad2 = Vec::new();
    let mut ctr = 0u32;
    while (bad1.len() < 3 || bad2.len() < 3) && ctr < 10000 {
        ctr += 1;
        let mut b = Vec::new();
        for k in 0..3u8 { b.extend_from_slice(&sha256(format!("verif-wire-bad-{}-{}", ctr, k).as_bytes())); }
        b[0] = (b[0] & 0x1f) | 0x80;
        if bad1.len() < 3 {
            let a: [u8; 48] = b[..48].try_into().unwrap();
            if let Ok(p) = chia_bls::PublicKey::from_bytes_unchecked(&a) { if !p.is_valid() { bad1.push(hex::encode(a)); } }
        }
        if bad2.len() < 3 {
            let a: [u8; 96] = b[..96].try_into().unwrap();
            if let Ok(p) = chia_bls::Signature::from_bytes_unchecked(&a) { if !p.is_valid() { bad2.push(hex::encode(a)); } }
        }
    }
    format!("{};{};{};{}", g1.join(","), g2.join(","), bad1.join(","), bad2.join(","))
}

fn run(name: &str, args: &[String]) -> Option<String> {
    if name == "wire.ora" { return Some(op_ora(args)); }
    if name == "wire.keys" { return Some(op_keys(args)); }
    if name == "wire.zstvec" {
        // Vec<()> (zero-width elements; not a protocol type): element count / time versus input length
        let bs = hx(&args[0]);
        let t0 = std::time::Instant::now();
        let mark = alloc_mark();
        let r = Vec::<()>::from_bytes(&bs);
        let peak = alloc_peak_since(mark);
        return Some(match r { Ok(v) => format!("ok len={} A:{} MS:{}", v.len(), peak, t0.elapsed().as_millis()), Err(_) => "err".into() });
    }
    if name == "wire.types" {
        return Some(TABLE.with(|t| t.iter().map(|e| e.name).collect::<Vec<_>>().join(",")));
    }
    if name == "wire.jsontypes" {
        return Some(TABLE.with(|t| t.iter().filter(|e| e.json).map(|e| e.name).collect::<Vec<_>>().join(",")));
    }
    let op = name.strip_prefix("wire.")?;
    TABLE.with(|t| {
        let Some(e) = t.iter().find(|e| e.name == args[0]) else { return Some("ERR-UNKNOWN-TYPE".to_string()) };
        Some(match op {
            "rt" => (e.rt)(args),
            "enc" => (e.enc)(args),
            "orc" => (e.orc)(args),
            "orcv" => (e.orcv)(args),
            "tot" => (e.tot)(args),
            "fields" => (e.fields)(args),
            "sizeof" => (e.sizeof)(args),
            #[cfg(feature = "py")]
            "tojson" | "fromjson" | "orcj" => match &e.js {
                None => "ERR-NO-JSON".to_string(),
                Some(j) => match op { "tojson" => (j.tojson)(args), "fromjson" => (j.fromjson)(args), _ => (j.orc)(args) },
            },
            _ => return None,
        })
    })
}

fn main() {
    vh::serve(run)
}
