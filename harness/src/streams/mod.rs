pub mod ints;

pub fn dispatch(name: &str, args: &[String]) -> Option<String> {
    let (stream, _op) = name.split_once('.').unwrap_or((name, ""));
    match stream {
        "ints" => ints::run(name, args),
        _ => None,
    }
}
