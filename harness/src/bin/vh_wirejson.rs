//! unit `wire`, C20: the same harness as vh_wire built with feature `py` (py-bindings of the
//! repository crates + embedded CPython through pyo3), so that the JSON ops go through the real
//! to_json_dict / from_json_dict.  Build: cargo build --release --offline --features hooks,py --bin vh_wirejson
#![allow(clippy::all)]
#![allow(dead_code, unused_macros, unused_imports)]
include!("../wire_main.inc.rs");
