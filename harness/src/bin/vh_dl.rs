//! stream `dl` (C18): operation histories against the real `MerkleBlob`.
//!
//! dl.hist   OP OP ...   run the history, print after EVERY operation
//!                       RESULT|BLOB|KV|IR   (+ |ROOT|PROOFS after a hashing op `h`)
//! dl.oracle OP OP ...   evaluate the property itself on the implementation: plain HashMap replay,
//!                       check_integrity, reload through MerkleBlob::new, independent root
//!                       recomputation, proof validity.  Prints OK or FAIL op=<n> <what>.
//!
//! OP:  i:KEY:VAL:HASH:a | i:..:r | i:..:k:REFKEY:SIDE | i:..:x:INDEX:SIDE   insert (auto/root/at key/at raw index)
//!      d:KEY   u:KEY:VAL:HASH   b[:KEY:VAL:HASH]*   h (calculate_lazy_hashes)   l (reload from bytes)
//! KEY/VAL = 16 hex digits (the i64 as 8 big-endian bytes), HASH = 64 hex digits.
use chia_datalayer::{
    Hash, InsertLocation, KeyId, MerkleBlob, Node, ProofOfInclusion, Side, TreeIndex, ValueId,
};
use chia_protocol::Bytes32;
use std::collections::{HashMap, HashSet};
use std::panic::{catch_unwind, AssertUnwindSafe};
use vh::util::*;

const BLOB_HEX_MAX: usize = 55 * 200;

#[derive(Clone, Debug)]
enum Loc {
    Auto,
    Root,
    Key(i64, u8),
    Index(u32, u8),
}

#[derive(Clone, Debug)]
enum Op {
    Insert(i64, i64, [u8; 32], Loc),
    Delete(i64),
    Upsert(i64, i64, [u8; 32]),
    Batch(Vec<(i64, i64, [u8; 32])>),
    Hash,
    Reload,
}

fn i64_of(s: &str) -> i64 {
    let b: [u8; 8] = hx(s).as_slice().try_into().expect("8 bytes");
    i64::from_be_bytes(b)
}
fn k16(k: i64) -> String {
    hex::encode(k.to_be_bytes())
}
fn hash_of(b: [u8; 32]) -> Hash {
    Hash(Bytes32::new(b))
}
fn side_of(s: u8) -> Side {
    if s == 0 {
        Side::Left
    } else {
        Side::Right
    }
}

fn parse_op(tok: &str) -> Op {
    let f: Vec<&str> = tok.split(':').collect();
    match f[0] {
        "i" => {
            let loc = match f[4] {
                "a" => Loc::Auto,
                "r" => Loc::Root,
                "k" => Loc::Key(i64_of(f[5]), dec(f[6]) as u8),
                "x" => Loc::Index(dec(f[5]) as u32, dec(f[6]) as u8),
                _ => panic!("bad location"),
            };
            Op::Insert(i64_of(f[1]), i64_of(f[2]), b32(f[3]), loc)
        }
        "d" => Op::Delete(i64_of(f[1])),
        "u" => Op::Upsert(i64_of(f[1]), i64_of(f[2]), b32(f[3])),
        "b" => {
            let mut items = vec![];
            let mut i = 1;
            assert!((f.len() - 1) % 3 == 0, "batch items are triples");
            while i + 2 < f.len() {
                items.push((i64_of(f[i]), i64_of(f[i + 1]), b32(f[i + 2])));
                i += 3;
            }
            Op::Batch(items)
        }
        "h" => Op::Hash,
        "l" => Op::Reload,
        _ => panic!("bad op"),
    }
}

/// apply one operation to the real blob; Ok(Some(index)) for insert
fn apply(blob: &mut MerkleBlob, op: &Op) -> Result<Option<u32>, ()> {
    match op {
        Op::Insert(k, v, h, loc) => {
            let loc = match loc {
                Loc::Auto => InsertLocation::Auto {},
                Loc::Root => InsertLocation::AsRoot {},
                // what the python binding does: resolve the reference key through the key cache
                Loc::Key(rk, s) => InsertLocation::Leaf {
                    index: blob.get_key_index(KeyId(*rk)).map_err(|_| ())?,
                    side: side_of(*s),
                },
                Loc::Index(i, s) => InsertLocation::Leaf {
                    index: TreeIndex(*i),
                    side: side_of(*s),
                },
            };
            blob.insert(KeyId(*k), ValueId(*v), &hash_of(*h), loc)
                .map(|i| Some(i.0))
                .map_err(|_| ())
        }
        Op::Delete(k) => blob.delete(KeyId(*k)).map(|()| None).map_err(|_| ()),
        Op::Upsert(k, v, h) => blob
            .upsert(KeyId(*k), ValueId(*v), &hash_of(*h))
            .map(|()| None)
            .map_err(|_| ()),
        Op::Batch(items) => blob
            .batch_insert(
                items
                    .iter()
                    .map(|(k, v, h)| ((KeyId(*k), ValueId(*v)), hash_of(*h)))
                    .collect(),
            )
            .map(|()| None)
            .map_err(|_| ()),
        Op::Hash => blob.calculate_lazy_hashes().map(|()| None).map_err(|_| ()),
        Op::Reload => {
            let mut nb = MerkleBlob::new(blob.read_blob().clone()).map_err(|_| ())?;
            nb.check_integrity_on_drop = false;
            *blob = nb;
            Ok(None)
        }
    }
}

fn sha256(b: &[u8]) -> [u8; 32] {
    let mut h = chia_sha2::Sha256::new();
    h.update(b);
    h.finalize()
}

fn blob_text(b: &[u8]) -> String {
    if b.is_empty() {
        "-".into()
    } else if b.len() > BLOB_HEX_MAX {
        format!("#{}", hex::encode(sha256(b)))
    } else {
        hex::encode(b)
    }
}

fn sorted_kv(blob: &MerkleBlob) -> Result<Vec<(i64, i64)>, String> {
    match catch_unwind(AssertUnwindSafe(|| blob.get_keys_values())) {
        Err(_) => Err("P".into()),
        Ok(Err(_)) => Err("E".into()),
        Ok(Ok(m)) => {
            let mut v: Vec<(i64, i64)> = m.iter().map(|(k, v)| (k.0, v.0)).collect();
            v.sort_by_key(|(k, _)| (*k as u64, 0));
            Ok(v)
        }
    }
}

fn kv_text(blob: &MerkleBlob) -> String {
    match sorted_kv(blob) {
        Err(e) => e,
        Ok(v) => {
            if v.is_empty() {
                "-".into()
            } else {
                v.iter()
                    .map(|(k, v)| format!("{}={}", k16(*k), k16(*v)))
                    .collect::<Vec<_>>()
                    .join(",")
            }
        }
    }
}

fn verdict<T, E>(r: std::thread::Result<Result<T, E>>) -> char {
    match r {
        Err(_) => 'P',
        Ok(Err(_)) => '0',
        Ok(Ok(_)) => '1',
    }
}

fn integrity_text(blob: &MerkleBlob) -> String {
    let i = verdict(catch_unwind(AssertUnwindSafe(|| blob.check_integrity())));
    let l = verdict(catch_unwind(AssertUnwindSafe(|| {
        MerkleBlob::new(blob.read_blob().clone()).map(|mut b| {
            b.check_integrity_on_drop = false;
        })
    })));
    format!("{i}{l}")
}

fn proof_text(p: &ProofOfInclusion) -> String {
    let mut s = format!(
        "{}:{}:{}",
        if p.valid() { 1 } else { 0 },
        hex::encode(p.node_hash.0),
        hex::encode(p.root_hash().0)
    );
    for l in &p.layers {
        s.push_str(&format!(
            ":{}.{}.{}",
            l.other_hash_side as u8,
            hex::encode(l.other_hash.0),
            hex::encode(l.combined_hash.0)
        ));
    }
    s
}

fn hash_report(blob: &MerkleBlob) -> String {
    let root = match catch_unwind(AssertUnwindSafe(|| blob.get_hash_at_index(TreeIndex(0)))) {
        Err(_) => "P".to_string(),
        Ok(Err(_)) => "E".to_string(),
        Ok(Ok(None)) => "-".to_string(),
        Ok(Ok(Some(h))) => hex::encode(h.0),
    };
    let proofs = match sorted_kv(blob) {
        Err(e) => e,
        Ok(v) => {
            if v.is_empty() {
                "-".into()
            } else {
                v.iter()
                    .map(|(k, _)| {
                        let r = catch_unwind(AssertUnwindSafe(|| {
                            blob.get_proof_of_inclusion(KeyId(*k))
                        }));
                        match r {
                            Err(_) => format!("{}=P", k16(*k)),
                            Ok(Err(_)) => format!("{}=E", k16(*k)),
                            Ok(Ok(p)) => format!("{}={}", k16(*k), proof_text(&p)),
                        }
                    })
                    .collect::<Vec<_>>()
                    .join(",")
            }
        }
    };
    format!("{root}|{proofs}")
}

fn new_blob() -> MerkleBlob {
    let mut b = MerkleBlob::new(Vec::new()).expect("empty blob");
    b.check_integrity_on_drop = false;
    b
}

fn run_hist(args: &[String]) -> String {
    let mut blob = new_blob();
    let mut out: Vec<String> = vec![];
    for tok in args {
        if tok.is_empty() {
            continue;
        }
        let op = parse_op(tok);
        let r = catch_unwind(AssertUnwindSafe(|| apply(&mut blob, &op)));
        let res = match r {
            Err(_) => {
                out.push("PANIC".into());
                break;
            }
            Ok(Err(())) => "err".to_string(),
            Ok(Ok(None)) => "ok".to_string(),
            Ok(Ok(Some(i))) => format!("ok:{i}"),
        };
        let mut s = format!(
            "{}|{}|{}|{}",
            res,
            blob_text(blob.read_blob()),
            kv_text(&blob),
            integrity_text(&blob)
        );
        if matches!(op, Op::Hash) {
            s.push('|');
            s.push_str(&hash_report(&blob));
        }
        out.push(s);
    }
    if out.is_empty() {
        "-".into()
    } else {
        out.join(" ")
    }
}

// ---------------------------------------------------------------- oracle
type Plain = HashMap<i64, (i64, [u8; 32])>;

fn hash_used_by_other(m: &Plain, key: i64, h: &[u8; 32]) -> bool {
    m.iter().any(|(k, (_, hh))| *k != key && hh == h)
}

/// the plain-map operation: Some(new map) on success, None on failure (map unchanged)
fn plain_apply(m: &Plain, op: &Op, live_leaf_indexes: &HashSet<u32>) -> Option<Plain> {
    let mut n = m.clone();
    match op {
        Op::Insert(k, v, h, loc) => {
            if m.contains_key(k) || hash_used_by_other(m, *k, h) {
                return None;
            }
            match loc {
                Loc::Auto => {}
                Loc::Root => {
                    if !m.is_empty() {
                        return None;
                    }
                }
                Loc::Key(rk, _) => {
                    if !m.contains_key(rk) {
                        return None;
                    }
                }
                Loc::Index(i, _) => {
                    if !live_leaf_indexes.contains(i) {
                        return None;
                    }
                }
            }
            n.insert(*k, (*v, *h));
            Some(n)
        }
        Op::Delete(k) => n.remove(k).map(|_| n),
        Op::Upsert(k, v, h) => {
            if hash_used_by_other(m, *k, h) {
                return None;
            }
            n.insert(*k, (*v, *h));
            Some(n)
        }
        Op::Batch(items) => {
            for (k, v, h) in items {
                if n.contains_key(k) || hash_used_by_other(&n, *k, h) {
                    return None;
                }
                n.insert(*k, (*v, *h));
            }
            Some(n)
        }
        Op::Hash | Op::Reload => Some(n),
    }
}

fn internal_hash_ref(l: &[u8; 32], r: &[u8; 32]) -> [u8; 32] {
    let mut v = vec![2_u8];
    v.extend_from_slice(l);
    v.extend_from_slice(r);
    sha256(&v)
}

/// independent recursive recomputation of the root over the stored tree structure (leaf hashes only)
fn recompute(blob: &MerkleBlob, index: TreeIndex, depth: usize) -> Result<[u8; 32], String> {
    if depth > 4096 {
        return Err("tree too deep / cyclic".into());
    }
    match blob.get_node(index).map_err(|e| format!("get_node: {e}"))? {
        Node::Leaf(l) => Ok(l.hash.0.to_bytes()),
        Node::Internal(n) => {
            let l = recompute(blob, n.left, depth + 1)?;
            let r = recompute(blob, n.right, depth + 1)?;
            Ok(internal_hash_ref(&l, &r))
        }
    }
}

fn check_state(blob: &MerkleBlob, plain: &Plain) -> Result<(), String> {
    // content = plain map
    let kv = match catch_unwind(AssertUnwindSafe(|| blob.get_keys_values())) {
        Err(_) => return Err("get_keys_values panicked".into()),
        Ok(Err(e)) => return Err(format!("get_keys_values failed: {e}")),
        Ok(Ok(m)) => m,
    };
    if kv.len() != plain.len() {
        return Err(format!("content: {} keys, plain map has {}", kv.len(), plain.len()));
    }
    for (k, (v, h)) in plain {
        match kv.get(&KeyId(*k)) {
            Some(vv) if vv.0 == *v => {}
            other => return Err(format!("content: key {} -> {:?}, plain map has {}", k, other, v)),
        }
        match blob.get_node_by_hash(hash_of(*h)) {
            Ok((kk, vv)) if kk.0 == *k && vv.0 == *v => {}
            other => return Err(format!("content: hash of key {k} resolves to {other:?}")),
        }
    }
    // integrity
    match catch_unwind(AssertUnwindSafe(|| blob.check_integrity())) {
        Err(_) => return Err("check_integrity panicked".into()),
        Ok(Err(e)) => return Err(format!("check_integrity failed: {e}")),
        Ok(Ok(())) => {}
    }
    // reload
    match catch_unwind(AssertUnwindSafe(|| MerkleBlob::new(blob.read_blob().clone()))) {
        Err(_) => return Err("reload panicked".into()),
        Ok(Err(e)) => return Err(format!("reload failed: {e}")),
        Ok(Ok(mut r)) => {
            r.check_integrity_on_drop = false;
            let rkv = r.get_keys_values().map_err(|e| format!("reloaded get_keys_values: {e}"))?;
            if rkv != kv {
                return Err("reloaded blob has different content".into());
            }
            for k in plain.keys() {
                if r.get_key_index(KeyId(*k)).ok() != blob.get_key_index(KeyId(*k)).ok() {
                    return Err(format!("reloaded blob places key {k} at another index"));
                }
            }
            if let Err(e) = r.check_integrity() {
                return Err(format!("reloaded blob fails check_integrity: {e}"));
            }
        }
    }
    Ok(())
}

fn check_hashes(blob: &MerkleBlob, plain: &Plain) -> Result<(), String> {
    let root = blob
        .get_hash_at_index(TreeIndex(0))
        .map_err(|e| format!("root hash unavailable after hashing: {e}"))?;
    if plain.is_empty() {
        return if root.is_none() { Ok(()) } else { Err("empty tree has a root hash".into()) };
    }
    let root = root.ok_or("non-empty tree without root hash")?.0.to_bytes();
    let want = recompute(blob, TreeIndex(0), 0)?;
    if root != want {
        return Err("root hash differs from independent recomputation".into());
    }
    for (k, (_, h)) in plain {
        let p = match catch_unwind(AssertUnwindSafe(|| blob.get_proof_of_inclusion(KeyId(*k)))) {
            Err(_) => return Err(format!("get_proof_of_inclusion({k}) panicked")),
            Ok(Err(e)) => return Err(format!("get_proof_of_inclusion({k}) failed: {e}")),
            Ok(Ok(p)) => p,
        };
        if !p.valid() {
            return Err(format!("proof for key {k} is not valid"));
        }
        if p.root_hash().0.to_bytes() != root {
            return Err(format!("proof for key {k} does not end in the root"));
        }
        if p.node_hash.0.to_bytes() != *h {
            return Err(format!("proof for key {k} starts at another leaf hash"));
        }
        // independent fold
        let mut cur = *h;
        for l in &p.layers {
            let o = l.other_hash.0.to_bytes();
            cur = match l.other_hash_side {
                Side::Left => internal_hash_ref(&o, &cur),
                Side::Right => internal_hash_ref(&cur, &o),
            };
            if cur != l.combined_hash.0.to_bytes() {
                return Err(format!("proof for key {k}: layer hash mismatch (independent fold)"));
            }
        }
        if cur != root {
            return Err(format!("proof for key {k}: independent fold does not reach the root"));
        }
    }
    Ok(())
}

fn run_oracle(args: &[String]) -> String {
    let mut blob = new_blob();
    let mut plain: Plain = HashMap::new();
    let mut n = 0;
    for tok in args {
        if tok.is_empty() {
            continue;
        }
        n += 1;
        let op = parse_op(tok);
        let before = blob.read_blob().clone();
        let live: HashSet<u32> = plain
            .keys()
            .filter_map(|k| blob.get_key_index(KeyId(*k)).ok().map(|i| i.0))
            .collect();
        let want = plain_apply(&plain, &op, &live);
        let r = catch_unwind(AssertUnwindSafe(|| apply(&mut blob, &op)));
        let got = match r {
            Err(_) => return format!("FAIL op={n} panic in {tok}"),
            Ok(r) => r,
        };
        match (&want, &got) {
            (Some(_), Err(())) => {
                return format!("FAIL op={n} result: plain map operation succeeds, implementation failed")
            }
            (None, Ok(_)) => {
                return format!("FAIL op={n} result: plain map operation fails, implementation returned Ok")
            }
            _ => {}
        }
        if let Some(m) = want {
            plain = m;
        } else if *blob.read_blob() != before {
            return format!("FAIL op={n} failed operation changed the blob");
        }
        if let Err(e) = check_state(&blob, &plain) {
            return format!("FAIL op={n} {e}");
        }
        if matches!(op, Op::Hash) {
            if let Err(e) = check_hashes(&blob, &plain) {
                return format!("FAIL op={n} {e}");
            }
        }
    }
    // final: hash a copy and check root and proofs
    n += 1;
    if !plain.is_empty() {
        match catch_unwind(AssertUnwindSafe(|| blob.calculate_lazy_hashes())) {
            Err(_) => return format!("FAIL op={n} final calculate_lazy_hashes panicked"),
            Ok(Err(e)) => return format!("FAIL op={n} final calculate_lazy_hashes failed: {e}"),
            Ok(Ok(())) => {}
        }
    }
    if let Err(e) = check_hashes(&blob, &plain) {
        return format!("FAIL op={n} final {e}");
    }
    if let Err(e) = check_state(&blob, &plain) {
        return format!("FAIL op={n} final {e}");
    }
    "OK".into()
}

fn run(name: &str, args: &[String]) -> Option<String> {
    match name {
        "dl.hist" => Some(run_hist(args)),
        "dl.oracle" => Some(run_oracle(args)),
        _ => None,
    }
}

fn main() {
    vh::serve(run)
}
