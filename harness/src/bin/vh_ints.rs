//! stream `ints` (C11): every integer encoder / decoder of the repository
use vh::util::*;
use chia_consensus::make_aggsig_final_message::u64_to_bytes;
use chia_consensus::sanitize_int::{sanitize_uint, SanitizedUint};
use chia_consensus::solution_generator::calculate_generator_length;
use chia_consensus::validation_error::{ErrorCode, ValidationErr};
use chia_protocol::{Bytes32, Coin, CoinSpend, Program};
use clvm_traits::{decode_number, encode_number, FromClvm, ToClvm};
use clvmr::serde::node_to_bytes;
use clvmr::Allocator;

fn san(a: &Allocator, n: clvmr::NodePtr, max: usize) -> String {
    match sanitize_uint(a, n, max, ValidationErr::Err(ErrorCode::InvalidCoinAmount)) {
        Ok(SanitizedUint::Ok(v)) => format!("ok:{}", v),
        Ok(SanitizedUint::PositiveOverflow) => "pos".into(),
        Ok(SanitizedUint::NegativeOverflow) => "neg".into(),
        Err(_) => "err".into(),
    }
}

fn decn<const LEN: usize>(atom: &[u8], signed: bool) -> String {
    match decode_number::<LEN>(atom, signed) {
        Some(b) => format!("S:{}", hexo(&b)),
        None => "N".into(),
    }
}

fn run(name: &str, args: &[String]) -> Option<String> {
    match name {
        "ints.u64" => {
            let parent = b32(&args[0]);
            let ph = b32(&args[1]);
            let vb: [u8; 8] = hx(&args[2]).as_slice().try_into().unwrap();
            let v = u64::from_be_bytes(vb);
            let coin = Coin::new(Bytes32::new(parent), Bytes32::new(ph), v);
            let id1 = coin.coin_id();
            let mut a = Allocator::new();
            let num = a.new_number(v.into()).unwrap();
            let atom = a.atom(num).as_ref().to_vec();
            let u = u64_to_bytes(v);
            let cs = CoinSpend::new(coin, Program::from(vec![1_u8]), Program::from(vec![0x80_u8]));
            let glen = calculate_generator_length([cs]);
            let ser = node_to_bytes(&a, num).unwrap();
            Some(format!(
                "{} {} {} {} {}",
                hexo(id1.as_ref()),
                hexo(&u),
                hexo(&atom),
                glen,
                ser.len()
            ))
        }
        "ints.sweep" => {
            // exhaustive range check on the implementation against an independent minimal encoding
            let lo = dec(&args[0]);
            let hi = dec(&args[1]);
            let parent = [0xab_u8; 32];
            let ph = [0xcd_u8; 32];
            let mut a = Allocator::new();
            for v in lo..hi {
                let be = v.to_be_bytes();
                let mut i = 0;
                while i < 8 && be[i] == 0 {
                    i += 1;
                }
                let mut want: Vec<u8> = Vec::new();
                if i < 8 && (be[i] & 0x80) != 0 {
                    want.push(0);
                }
                want.extend_from_slice(&be[i..]);
                if u64_to_bytes(v) != want {
                    return Some(format!("FAIL u64_to_bytes {}", v));
                }
                if encode_number(&be, false) != want {
                    return Some(format!("FAIL encode_number {}", v));
                }
                if (v & 0xfff) == 0 || (v & v.wrapping_sub(1)) == 0 || (v & v.wrapping_add(1)) == 0 {
                    // coin id and allocator form at every 4096th value and at every 2^k, 2^k-1
                    let mut h = chia_sha2::Sha256::new();
                    h.update(parent);
                    h.update(ph);
                    h.update(&want);
                    let id: [u8; 32] = h.finalize();
                    let coin = Coin::new(Bytes32::new(parent), Bytes32::new(ph), v);
                    if coin.coin_id().as_ref() != id {
                        return Some(format!("FAIL coin_id {}", v));
                    }
                    let cp = a.checkpoint();
                    let num = a.new_number(v.into()).unwrap();
                    if a.atom(num).as_ref() != want.as_slice() {
                        return Some(format!("FAIL new_number {}", v));
                    }
                    a.restore_checkpoint(&cp);
                }
            }
            Some("OK".into())
        }
        "ints.san" => {
            let mut a = Allocator::new();
            let n = a.new_atom(&hx(&args[0])).unwrap();
            Some(format!("{} {}", san(&a, n, 8), san(&a, n, 4)))
        }
        "ints.enc" => {
            let signed = dec(&args[1]) == 1;
            let be = hx(&args[2]);
            let neg = signed && !be.is_empty() && (be[0] & 0x80) != 0;
            Some(hexo(&encode_number(&be, neg)))
        }
        "ints.prim" => {
            // LEN SIGNED BE: ToClvm of the primitive integer of that width and sign (through the real Allocator
            // encoder), then FromClvm of the produced atom back: "<atom> <value-bytes or ERR>"
            let len = dec(&args[0]);
            let signed = dec(&args[1]) == 1;
            let be = hx(&args[2]);
            macro_rules! prim {
                ($t:ty) => {{
                    let v = <$t>::from_be_bytes(be.as_slice().try_into().unwrap());
                    let mut a = Allocator::new();
                    let n = v.to_clvm(&mut a).unwrap();
                    let atom = a.atom(n).as_ref().to_vec();
                    let back = match <$t>::from_clvm(&a, n) {
                        Ok(w) => hexo(&w.to_be_bytes()),
                        Err(_) => "ERR".into(),
                    };
                    format!("{} {}", hexo(&atom), back)
                }};
            }
            Some(match (len, signed) {
                (1, false) => prim!(u8),
                (2, false) => prim!(u16),
                (4, false) => prim!(u32),
                (8, false) => prim!(u64),
                (16, false) => prim!(u128),
                (1, true) => prim!(i8),
                (2, true) => prim!(i16),
                (4, true) => prim!(i32),
                (8, true) => prim!(i64),
                (16, true) => prim!(i128),
                _ => return None,
            })
        }
        "ints.primsize" => {
            // usize / isize (pointer width): VALUE decimal (usize) or SIGNED-decimal via two's complement hex of 8 bytes
            let signed = dec(&args[0]) == 1;
            let be: [u8; 8] = hx(&args[1]).as_slice().try_into().unwrap();
            let mut a = Allocator::new();
            Some(if signed {
                let v = i64::from_be_bytes(be) as isize;
                let n = v.to_clvm(&mut a).unwrap();
                let back = match isize::from_clvm(&a, n) { Ok(w) => hexo(&(w as i64).to_be_bytes()), Err(_) => "ERR".into() };
                format!("{} {}", hexo(a.atom(n).as_ref()), back)
            } else {
                let v = u64::from_be_bytes(be) as usize;
                let n = v.to_clvm(&mut a).unwrap();
                let back = match usize::from_clvm(&a, n) { Ok(w) => hexo(&(w as u64).to_be_bytes()), Err(_) => "ERR".into() };
                format!("{} {}", hexo(a.atom(n).as_ref()), back)
            })
        }
        "ints.decn" => {
            let len = dec(&args[0]);
            let signed = dec(&args[1]) == 1;
            let atom = hx(&args[2]);
            Some(match len {
                1 => decn::<1>(&atom, signed),
                2 => decn::<2>(&atom, signed),
                4 => decn::<4>(&atom, signed),
                8 => decn::<8>(&atom, signed),
                16 => decn::<16>(&atom, signed),
                _ => return None,
            })
        }
        _ => None,
    }
}

fn main() {
    vh::serve(run);
}
