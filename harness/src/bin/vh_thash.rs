//! unit `thash` (C17): every tree-hash routine of the repository, run on trees / DAGs built in a
//! real clvmr Allocator from a textual script (same script language as coq/Run/ThashRun.v):
//!   s<dec> new_small_number   a<hex> new_atom   b<hex> byte-heap atom (new_substr of a byte atom)
//!   p<i>.<j> new_pair         H<k> tree_hash    C<k> tree_hash_cached (shared cache)
//!   V<k> visit_tree           G<k> cache.get    M<k> should_memoize   R fresh cache
//! Correspondence ops: thash.seq, thash.fb, thash.fbo, thash.curry, thash.curried, thash.ff
//! Helper ops (implementation only): thash.ser, thash.modhash
//! Oracle ops (the property itself, against an independent recursive SHA-256 tree hash):
//!   thash.oracle, thash.ocurry, thash.ohelper (every X::curry_tree_hash of chia-puzzle-types)
use chia_consensus::fast_forward::fast_forward_singleton;
use chia_protocol::{Bytes32, Coin};
use chia_bls::SecretKey;
use chia_puzzle_types::cat::{CatArgs, EverythingWithSignatureTailArgs, GenesisByCoinIdTailArgs};
use chia_puzzle_types::did::DidArgs;
use chia_puzzle_types::nft::{
    NftIntermediateLauncherArgs, NftOwnershipLayerArgs, NftRoyaltyTransferPuzzleArgs, NftStateLayerArgs,
};
use chia_puzzle_types::singleton::{SingletonArgs, SingletonSolution, SingletonStruct};
use chia_puzzle_types::standard::StandardArgs;
use chia_puzzle_types::{LineageProof, Proof};
use chia_puzzles::{
    CAT_PUZZLE, CAT_PUZZLE_HASH, DID_INNERPUZ, DID_INNERPUZ_HASH, EVERYTHING_WITH_SIGNATURE,
    EVERYTHING_WITH_SIGNATURE_HASH, GENESIS_BY_COIN_ID, GENESIS_BY_COIN_ID_HASH, NFT_INTERMEDIATE_LAUNCHER,
    NFT_INTERMEDIATE_LAUNCHER_HASH, NFT_OWNERSHIP_LAYER, NFT_OWNERSHIP_LAYER_HASH,
    NFT_OWNERSHIP_TRANSFER_PROGRAM_ONE_WAY_CLAIM_WITH_ROYALTIES,
    NFT_OWNERSHIP_TRANSFER_PROGRAM_ONE_WAY_CLAIM_WITH_ROYALTIES_HASH, NFT_STATE_LAYER, NFT_STATE_LAYER_HASH,
    P2_DELEGATED_PUZZLE_OR_HIDDEN_PUZZLE, P2_DELEGATED_PUZZLE_OR_HIDDEN_PUZZLE_HASH, SINGLETON_TOP_LAYER_V1_1,
    SINGLETON_TOP_LAYER_V1_1_HASH,
};
use chia_sha2::Sha256;
use clvm_traits::{clvm_curried_args, ClvmEncoder, ToClvm, ToClvmError};
use clvm_utils::{
    curry_tree_hash, tree_hash, tree_hash_cached, tree_hash_from_bytes, CurriedProgram, ToTreeHash,
    TreeCache, TreeHash, TreeHasher,
};
use clvmr::allocator::{Allocator, NodePtr, SExp};
use clvmr::serde::{node_from_bytes, node_from_bytes_backrefs_old, node_to_bytes, node_to_bytes_backrefs};
use vh::util::*;

// ---------------------------------------------------------------- independent reference
fn h_atom(b: &[u8]) -> [u8; 32] {
    let mut s = Sha256::new();
    s.update([1_u8]);
    s.update(b);
    s.finalize()
}
fn h_pair(l: &[u8; 32], r: &[u8; 32]) -> [u8; 32] {
    let mut s = Sha256::new();
    s.update([2_u8]);
    s.update(l);
    s.update(r);
    s.finalize()
}
/// plain recursion over the allocator's own view of the tree
fn ref_hash(a: &Allocator, n: NodePtr) -> [u8; 32] {
    match a.sexp(n) {
        SExp::Atom => h_atom(a.atom(n).as_ref()),
        SExp::Pair(l, r) => {
            let hl = ref_hash(a, l);
            let hr = ref_hash(a, r);
            h_pair(&hl, &hr)
        }
    }
}
/// minimal big-endian two's complement of a non-negative number (what a small atom denotes)
fn canon(v: u32) -> Vec<u8> {
    let be = v.to_be_bytes();
    let mut i = 0;
    while i < 4 && be[i] == 0 {
        i += 1;
    }
    let mut out = Vec::new();
    if i < 4 && (be[i] & 0x80) != 0 {
        out.push(0);
    }
    out.extend_from_slice(&be[i..]);
    out
}

// ---------------------------------------------------------------- scripts
struct World {
    a: Allocator,
    nodes: Vec<NodePtr>,
    want: Vec<[u8; 32]>, // independent hash per created node (description level, bottom-up)
    size: Vec<u64>,      // number of nodes of the expanded tree (saturating)
    cache: TreeCache,
    out: Vec<String>,
}

impl World {
    fn new() -> Self {
        World {
            a: Allocator::new(),
            nodes: vec![],
            want: vec![],
            size: vec![],
            cache: TreeCache::default(),
            out: vec![],
        }
    }
    fn add_atom(&mut self, n: NodePtr, bytes: Vec<u8>) {
        self.nodes.push(n);
        self.want.push(h_atom(&bytes));
        self.size.push(1);
    }
    fn step(&mut self, tok: &str) {
        let (c, p) = tok.split_at(1);
        match c {
            "s" => {
                let v = dec(p) as u32;
                let n = self.a.new_small_number(v).unwrap();
                self.add_atom(n, canon(v));
            }
            "a" => {
                let b = hx(p);
                let n = self.a.new_atom(&b).unwrap();
                self.add_atom(n, b);
            }
            "b" => {
                let b = hx(p);
                let mut t = vec![0xff_u8];
                t.extend_from_slice(&b);
                let big = self.a.new_atom(&t).unwrap();
                let n = self.a.new_substr(big, 1, t.len() as u32).unwrap();
                self.add_atom(n, b);
            }
            "p" => {
                let (i, j) = p.split_once('.').expect("pair");
                let (i, j) = (dec(i) as usize, dec(j) as usize);
                let n = self.a.new_pair(self.nodes[i], self.nodes[j]).unwrap();
                self.nodes.push(n);
                self.want.push(h_pair(&self.want[i], &self.want[j]));
                self.size.push(1u64.saturating_add(self.size[i]).saturating_add(self.size[j]));
            }
            "H" => {
                let k = dec(p) as usize;
                self.out.push(hexo(&tree_hash(&self.a, self.nodes[k]).to_bytes()));
            }
            "C" => {
                let k = dec(p) as usize;
                let h = tree_hash_cached(&self.a, self.nodes[k], &mut self.cache);
                self.out.push(hexo(&h.to_bytes()));
            }
            "V" => {
                let k = dec(p) as usize;
                self.cache.visit_tree(&self.a, self.nodes[k]);
            }
            "G" => {
                let k = dec(p) as usize;
                self.out.push(match self.cache.get(self.nodes[k]) {
                    Some(h) => hexo(&h.to_bytes()),
                    None => "N".into(),
                });
            }
            "M" => {
                let k = dec(p) as usize;
                self.out.push(if self.cache.should_memoize(self.nodes[k]) { "1".into() } else { "0".into() });
            }
            "R" => self.cache = TreeCache::default(),
            _ => self.out.push("ERR-SCRIPT".into()),
        }
    }
}

fn run_script(toks: &[String]) -> World {
    let mut w = World::new();
    for t in toks {
        if !t.is_empty() {
            w.step(t);
        }
    }
    w
}

// ---------------------------------------------------------------- currying helpers
/// (c (q . A1) (c (q . A2) ... 1)) built by hand for any number of arguments
fn curried_args_node(a: &mut Allocator, args: &[NodePtr]) -> NodePtr {
    let nil = a.nil();
    let mut acc = a.one();
    for &x in args.iter().rev() {
        let q = a.one();
        let quoted = a.new_pair(q, x).unwrap();
        let tail = a.new_pair(acc, nil).unwrap();
        let tail = a.new_pair(quoted, tail).unwrap();
        let c = a.new_small_number(4).unwrap();
        acc = a.new_pair(c, tail).unwrap();
    }
    acc
}

/// the same argument structure for the hash-only encoder of hash_encoder.rs
struct DynArgs(Vec<TreeHash>);
impl ToClvm<TreeHasher> for DynArgs {
    fn to_clvm(&self, e: &mut TreeHasher) -> Result<TreeHash, ToClvmError> {
        let nil = e.encode_atom(clvmr::Atom::Borrowed(&[]))?;
        let mut acc = e.encode_atom(clvmr::Atom::Borrowed(&[1]))?;
        for x in self.0.iter().rev() {
            let q = e.encode_atom(clvmr::Atom::Borrowed(&[1]))?;
            let quoted = e.encode_pair(q, *x)?;
            let tail = e.encode_pair(acc, nil)?;
            let tail = e.encode_pair(quoted, tail)?;
            let c = e.encode_atom(clvmr::Atom::Borrowed(&[4]))?;
            acc = e.encode_pair(c, tail)?;
        }
        Ok(acc)
    }
}

/// a value living in an Allocator, encoded through ANY ClvmEncoder by walking it: with TreeHasher this is
/// the hash-only path (encode_atom / encode_pair) that `ToTreeHash` uses for typed values
struct NodeVal<'a>(&'a Allocator, NodePtr);
impl ToClvm<TreeHasher> for NodeVal<'_> {
    fn to_clvm(&self, e: &mut TreeHasher) -> Result<TreeHash, ToClvmError> {
        match self.0.sexp(self.1) {
            SExp::Atom => e.encode_atom(self.0.atom(self.1)),
            SExp::Pair(l, r) => {
                let hl = NodeVal(self.0, l).to_clvm(e)?;
                let hr = NodeVal(self.0, r).to_clvm(e)?;
                e.encode_pair(hl, hr)
            }
        }
    }
}

/// curried arguments given as VALUES, through TreeHasher::encode_curried_arg
struct DynVals<'a>(Vec<NodeVal<'a>>);
impl ToClvm<TreeHasher> for DynVals<'_> {
    fn to_clvm(&self, e: &mut TreeHasher) -> Result<TreeHash, ToClvmError> {
        let mut acc = e.encode_atom(clvmr::Atom::Borrowed(&[1]))?;
        for x in self.0.iter().rev() {
            let first = x.to_clvm(e)?;
            acc = e.encode_curried_arg(first, acc)?;
        }
        Ok(acc)
    }
}

/// short printable form of a value for FAIL lines
fn show(a: &Allocator, n: NodePtr) -> String {
    match node_to_bytes(a, n) {
        Ok(b) if b.len() <= 48 => hexo(&b),
        Ok(b) => format!("{}..({}bytes)", hexo(&b[..48]), b.len()),
        Err(_) => "?".into(),
    }
}

/// independent hash of (a (q . P) (c (q . A1) ... 1)) from the hashes of P and the Ai
fn ref_curried(p: &[u8; 32], args: &[[u8; 32]]) -> [u8; 32] {
    let nil = h_atom(&[]);
    let mut acc = h_atom(&[1]);
    for x in args.iter().rev() {
        let quoted = h_pair(&h_atom(&[1]), x);
        let tail = h_pair(&quoted, &h_pair(&acc, &nil));
        acc = h_pair(&h_atom(&[4]), &tail);
    }
    let quoted_p = h_pair(&h_atom(&[1]), p);
    h_pair(&h_atom(&[2]), &h_pair(&quoted_p, &h_pair(&acc, &nil)))
}

// ---------------------------------------------------------------- hash-only currying helpers
/// `helper` is what X::curry_tree_hash returned; build the ACTUAL curried program (real module bytes,
/// args = X::new(..) encoded into the allocator) and compare with every routine and the reference hash
fn check_helper<A: ToClvm<Allocator>>(
    name: &str,
    a: &mut Allocator,
    mod_bytes: &[u8],
    mod_hash: [u8; 32],
    args: A,
    helper: TreeHash,
) -> String {
    let modp = node_from_bytes(a, mod_bytes).unwrap();
    if ref_hash(a, modp) != mod_hash {
        return format!("FAIL {name} module-hash-constant");
    }
    let curried = CurriedProgram { program: modp, args }.to_clvm(a).unwrap();
    let want = ref_hash(a, curried);
    let th = tree_hash(a, curried).to_bytes();
    let mut cache = TreeCache::default();
    let thc = tree_hash_cached(a, curried, &mut cache).to_bytes();
    let ser = node_to_bytes(a, curried).unwrap();
    let fb = tree_hash_from_bytes(&ser).map(|h| h.to_bytes()).unwrap_or([0; 32]);
    if th != want || thc != want || fb != want {
        return format!("FAIL {name} tree-hash-routines-disagree-on-the-curried-program");
    }
    if helper.to_bytes() != want {
        return format!(
            "FAIL {name}::curry_tree_hash={} tree_hash(actual-curried-program)={}",
            hexo(&helper.to_bytes()),
            hexo(&want)
        );
    }
    "OK".into()
}

fn opt32(s: &str) -> Option<Bytes32> {
    if s == "none" {
        None
    } else {
        Some(Bytes32::new(b32(s)))
    }
}

/// a tree given in plain serialization: its node and its (reference) hash
fn tree_arg(a: &mut Allocator, s: &str) -> (NodePtr, TreeHash) {
    let n = node_from_bytes(a, &hx(s)).unwrap();
    let h = TreeHash::new(ref_hash(a, n));
    (n, h)
}

fn run_helper(args: &[String]) -> Option<String> {
    let a = &mut Allocator::new();
    let name = args[0].as_str();
    let p = &args[1..];
    Some(match name {
        "StandardArgs" => {
            let pk = SecretKey::from_seed(&hx(&p[0])).public_key();
            check_helper(
                name,
                a,
                &P2_DELEGATED_PUZZLE_OR_HIDDEN_PUZZLE,
                P2_DELEGATED_PUZZLE_OR_HIDDEN_PUZZLE_HASH,
                StandardArgs::new(pk),
                StandardArgs::curry_tree_hash(pk),
            )
        }
        "EverythingWithSignatureTailArgs" => {
            let pk = SecretKey::from_seed(&hx(&p[0])).public_key();
            check_helper(
                name,
                a,
                &EVERYTHING_WITH_SIGNATURE,
                EVERYTHING_WITH_SIGNATURE_HASH,
                EverythingWithSignatureTailArgs::new(pk),
                EverythingWithSignatureTailArgs::curry_tree_hash(pk),
            )
        }
        "GenesisByCoinIdTailArgs" => {
            let id = Bytes32::new(b32(&p[0]));
            check_helper(
                name,
                a,
                &GENESIS_BY_COIN_ID,
                GENESIS_BY_COIN_ID_HASH,
                GenesisByCoinIdTailArgs::new(id),
                GenesisByCoinIdTailArgs::curry_tree_hash(id),
            )
        }
        "CatArgs" => {
            let asset = Bytes32::new(b32(&p[0]));
            let (inner, ih) = tree_arg(a, &p[1]);
            check_helper(name, a, &CAT_PUZZLE, CAT_PUZZLE_HASH, CatArgs::new(asset, inner), CatArgs::curry_tree_hash(asset, ih))
        }
        "SingletonArgs" => {
            let launcher = Bytes32::new(b32(&p[0]));
            let (inner, ih) = tree_arg(a, &p[1]);
            check_helper(
                name,
                a,
                &SINGLETON_TOP_LAYER_V1_1,
                SINGLETON_TOP_LAYER_V1_1_HASH,
                SingletonArgs::new(launcher, inner),
                SingletonArgs::curry_tree_hash(launcher, ih),
            )
        }
        "DidArgs" => {
            let (inner, ih) = tree_arg(a, &p[0]);
            let recovery = opt32(&p[1]);
            let num = dec(&p[2]);
            let st = SingletonStruct {
                mod_hash: Bytes32::new(b32(&p[3])),
                launcher_id: Bytes32::new(b32(&p[4])),
                launcher_puzzle_hash: Bytes32::new(b32(&p[5])),
            };
            let (meta, mh) = tree_arg(a, &p[6]);
            check_helper(
                name,
                a,
                &DID_INNERPUZ,
                DID_INNERPUZ_HASH,
                DidArgs::new(inner, recovery, num, st, meta),
                DidArgs::curry_tree_hash(ih, recovery, num, st, mh),
            )
        }
        "NftIntermediateLauncherArgs" => {
            let (n, t) = (dec(&p[0]) as usize, dec(&p[1]) as usize);
            check_helper(
                name,
                a,
                &NFT_INTERMEDIATE_LAUNCHER,
                NFT_INTERMEDIATE_LAUNCHER_HASH,
                NftIntermediateLauncherArgs::new(n, t),
                NftIntermediateLauncherArgs::curry_tree_hash(n, t),
            )
        }
        "NftStateLayerArgs" => {
            let (meta, mh) = tree_arg(a, &p[0]);
            let (inner, ih) = tree_arg(a, &p[1]);
            check_helper(
                name,
                a,
                &NFT_STATE_LAYER,
                NFT_STATE_LAYER_HASH,
                NftStateLayerArgs::new(meta, inner),
                NftStateLayerArgs::curry_tree_hash(mh, ih),
            )
        }
        "NftOwnershipLayerArgs" => {
            let owner = opt32(&p[0]);
            let (tp, tph) = tree_arg(a, &p[1]);
            let (inner, ih) = tree_arg(a, &p[2]);
            check_helper(
                name,
                a,
                &NFT_OWNERSHIP_LAYER,
                NFT_OWNERSHIP_LAYER_HASH,
                NftOwnershipLayerArgs::new(owner, tp, inner),
                NftOwnershipLayerArgs::curry_tree_hash(owner, tph, ih),
            )
        }
        "NftRoyaltyTransferPuzzleArgs" => {
            let launcher = Bytes32::new(b32(&p[0]));
            let rph = Bytes32::new(b32(&p[1]));
            let r = dec(&p[2]) as u16;
            check_helper(
                name,
                a,
                &NFT_OWNERSHIP_TRANSFER_PROGRAM_ONE_WAY_CLAIM_WITH_ROYALTIES,
                NFT_OWNERSHIP_TRANSFER_PROGRAM_ONE_WAY_CLAIM_WITH_ROYALTIES_HASH,
                NftRoyaltyTransferPuzzleArgs::new(launcher, rph, r),
                NftRoyaltyTransferPuzzleArgs::curry_tree_hash(launcher, rph, r),
            )
        }
        _ => format!("FAIL unknown-helper {name}"),
    })
}

const PLAIN_LIMIT: u64 = 300_000; // expanded-tree size up to which the non-memoizing routines are run

fn run(name: &str, args: &[String]) -> Option<String> {
    match name {
        "thash.seq" => {
            let w = run_script(args);
            Some(if w.out.is_empty() { "-".into() } else { w.out.join(" ") })
        }
        "thash.fb" => Some(match tree_hash_from_bytes(&hx(&args[0])) {
            Ok(h) => hexo(&h.to_bytes()),
            Err(_) => "ERR".into(),
        }),
        "thash.fbo" => {
            // the older stack-as-cons-list deserializer, followed by the memoizing hash
            let mut a = Allocator::new();
            Some(match node_from_bytes_backrefs_old(&mut a, &hx(&args[0])) {
                Ok(n) => {
                    let mut cache = TreeCache::default();
                    hexo(&tree_hash_cached(&a, n, &mut cache).to_bytes())
                }
                Err(_) => "ERR".into(),
            })
        }
        "thash.curry" => {
            let ph = TreeHash::new(b32(&args[0]));
            let ahs: Vec<TreeHash> = args[1..].iter().map(|s| TreeHash::new(b32(s))).collect();
            Some(hexo(&curry_tree_hash(ph, &ahs).to_bytes()))
        }
        "thash.curried" => {
            // the tree CurriedProgram::to_clvm builds, in plain serialization
            let mut a = Allocator::new();
            let nodes: Vec<NodePtr> = args.iter().map(|s| node_from_bytes(&mut a, &hx(s)).unwrap()).collect();
            let program = nodes[0];
            let arg_nodes = &nodes[1..];
            let curried = match arg_nodes.len() {
                0 => CurriedProgram { program, args: clvm_curried_args!() }.to_clvm(&mut a),
                1 => CurriedProgram { program, args: clvm_curried_args!(arg_nodes[0]) }.to_clvm(&mut a),
                2 => CurriedProgram { program, args: clvm_curried_args!(arg_nodes[0], arg_nodes[1]) }.to_clvm(&mut a),
                3 => CurriedProgram { program, args: clvm_curried_args!(arg_nodes[0], arg_nodes[1], arg_nodes[2]) }
                    .to_clvm(&mut a),
                _ => {
                    let args = curried_args_node(&mut a, arg_nodes);
                    CurriedProgram { program, args }.to_clvm(&mut a)
                }
            }
            .unwrap();
            Some(hexo(&node_to_bytes(&a, curried).unwrap()))
        }
        "thash.modhash" => Some(hexo(&SINGLETON_TOP_LAYER_V1_1_HASH)),
        "thash.ff" => {
            // curry_and_treehash is private: it is observed through fast_forward_singleton, which
            // accepts this (otherwise consistent) spend iff the hash it computes from hashes alone
            // is the tree hash of the real curried singleton puzzle
            let mod_hash = b32(&args[0]);
            let launcher_id = b32(&args[1]);
            let launcher_ph = b32(&args[2]);
            let inner_ser = hx(&args[3]);
            let mut a = Allocator::new();
            let modp = node_from_bytes(&mut a, &SINGLETON_TOP_LAYER_V1_1).unwrap();
            let inner = node_from_bytes(&mut a, &inner_ser).unwrap();
            let puzzle = CurriedProgram {
                program: modp,
                args: SingletonArgs {
                    singleton_struct: SingletonStruct {
                        mod_hash: Bytes32::new(mod_hash),
                        launcher_id: Bytes32::new(launcher_id),
                        launcher_puzzle_hash: Bytes32::new(launcher_ph),
                    },
                    inner_puzzle: inner,
                },
            }
            .to_clvm(&mut a)
            .unwrap();
            let ph = Bytes32::new(ref_hash(&a, puzzle));
            let inner_hash = Bytes32::new(ref_hash(&a, inner));
            let pp = Bytes32::new([7_u8; 32]);
            let parent_coin = Coin::new(pp, ph, 1);
            let coin = Coin::new(parent_coin.coin_id(), ph, 1);
            let new_parent = Coin::new(Bytes32::new([9_u8; 32]), ph, 3);
            let new_coin = Coin::new(new_parent.coin_id(), ph, 1);
            let nil = a.nil();
            let solution = SingletonSolution {
                lineage_proof: Proof::Lineage(LineageProof {
                    parent_parent_coin_info: pp,
                    parent_inner_puzzle_hash: inner_hash,
                    parent_amount: 1,
                }),
                amount: 1,
                inner_solution: nil,
            }
            .to_clvm(&mut a)
            .unwrap();
            Some(match fast_forward_singleton(&mut a, puzzle, solution, &coin, &new_coin, &new_parent) {
                Ok(_) => hexo(ph.as_ref()),
                Err(e) => format!("REJECT:{e:?}").replace(' ', "_"),
            })
        }
        "thash.ser" => {
            // both serializations of the last created node ("-" where not produced)
            let w = run_script(args);
            let k = w.nodes.len() - 1;
            // node_to_bytes refuses outputs above 2 000 000 bytes: then there is no plain form
            let plain = if w.size[k] <= PLAIN_LIMIT {
                match node_to_bytes(&w.a, w.nodes[k]) {
                    Ok(b) => hexo(&b),
                    Err(_) => "-".into(),
                }
            } else {
                "-".into()
            };
            let br = match node_to_bytes_backrefs(&w.a, w.nodes[k]) {
                Ok(b) => hexo(&b),
                Err(e) => format!("SERERR:{e:?}").replace(' ', "_"),
            };
            Some(format!("{plain} {br}"))
        }
        "thash.oracle" => {
            // run the script (its H/C/V ops perturb the shared cache), then check every routine on
            // every created node against the independent description-level hash
            let mut w = run_script(args);
            let mut checks = 0usize;
            for k in 0..w.nodes.len() {
                let n = w.nodes[k];
                let want = w.want[k];
                let small = w.size[k] <= PLAIN_LIMIT;
                if small {
                    if tree_hash(&w.a, n).to_bytes() != want {
                        return Some(format!("FAIL tree_hash node={k}"));
                    }
                    if ref_hash(&w.a, n) != want {
                        return Some(format!("FAIL harness-self-check node={k}"));
                    }
                    // the same value through the hash-only encoder (hash_encoder.rs: ToTreeHash / TreeHasher)
                    let th = NodeVal(&w.a, n).tree_hash().to_bytes();
                    if th != want {
                        return Some(format!(
                            "FAIL TreeHasher(value)!=tree_hash node={k} value={} TreeHasher={} tree_hash={}",
                            show(&w.a, n),
                            hexo(&th),
                            hexo(&want)
                        ));
                    }
                    checks += 1;
                    // (node_to_bytes refuses outputs above 2 000 000 bytes)
                    if let Ok(ser) = node_to_bytes(&w.a, n) {
                        match tree_hash_from_bytes(&ser) {
                            Ok(h) if h.to_bytes() == want => {}
                            _ => return Some(format!("FAIL tree_hash_from_bytes(plain) node={k}")),
                        }
                        checks += 1;
                    }
                    checks += 2;
                }
                if tree_hash_cached(&w.a, n, &mut w.cache).to_bytes() != want {
                    return Some(format!("FAIL tree_hash_cached(shared) node={k}"));
                }
                // a second time: the root has now been visited twice and is served from the cache
                if tree_hash_cached(&w.a, n, &mut w.cache).to_bytes() != want {
                    return Some(format!("FAIL tree_hash_cached(shared,2nd) node={k}"));
                }
                if let Some(h) = w.cache.get(n) {
                    if h.to_bytes() != want {
                        return Some(format!("FAIL cache.get node={k}"));
                    }
                }
                let mut fresh = TreeCache::default();
                if tree_hash_cached(&w.a, n, &mut fresh).to_bytes() != want {
                    return Some(format!("FAIL tree_hash_cached(fresh) node={k}"));
                }
                let mut pre = TreeCache::default();
                pre.visit_tree(&w.a, n);
                pre.visit_tree(&w.a, n);
                if tree_hash_cached(&w.a, n, &mut pre).to_bytes() != want {
                    return Some(format!("FAIL tree_hash_cached(previsited) node={k}"));
                }
                let br = node_to_bytes_backrefs(&w.a, n).unwrap();
                match tree_hash_from_bytes(&br) {
                    Ok(h) if h.to_bytes() == want => {}
                    _ => return Some(format!("FAIL tree_hash_from_bytes(backrefs) node={k}")),
                }
                checks += 6;
            }
            Some(format!("OK {checks}"))
        }
        "thash.ohelper" => run_helper(args),
        "thash.ocurry" => {
            // thash.ocurry <script tokens> | P A1 A2 ...   (node numbers after the "|" token)
            let bar = args.iter().position(|s| s == "|").expect("separator");
            let mut w = run_script(&args[..bar]);
            let idx: Vec<usize> = args[bar + 1..].iter().map(|s| dec(s) as usize).collect();
            let p = idx[0];
            let arg_idx = &idx[1..];
            let arg_nodes: Vec<NodePtr> = arg_idx.iter().map(|&i| w.nodes[i]).collect();
            let arg_want: Vec<[u8; 32]> = arg_idx.iter().map(|&i| w.want[i]).collect();
            let want = ref_curried(&w.want[p], &arg_want);
            // the real curried program, through CurriedProgram::to_clvm
            let program = w.nodes[p];
            let a = &mut w.a;
            let curried = match arg_nodes.len() {
                0 => CurriedProgram { program, args: clvm_curried_args!() }.to_clvm(a),
                1 => CurriedProgram { program, args: clvm_curried_args!(arg_nodes[0]) }.to_clvm(a),
                2 => CurriedProgram { program, args: clvm_curried_args!(arg_nodes[0], arg_nodes[1]) }.to_clvm(a),
                3 => CurriedProgram { program, args: clvm_curried_args!(arg_nodes[0], arg_nodes[1], arg_nodes[2]) }
                    .to_clvm(a),
                _ => {
                    let args = curried_args_node(a, &arg_nodes);
                    CurriedProgram { program, args }.to_clvm(a)
                }
            }
            .unwrap();
            // and once more with the hand-built argument list (must be the same tree)
            let args2 = curried_args_node(a, &arg_nodes);
            let curried2 = CurriedProgram { program, args: args2 }.to_clvm(a).unwrap();
            let total: u64 = arg_idx.iter().fold(w.size[p], |s, &i| s.saturating_add(w.size[i]));
            let ph = TreeHash::new(w.want[p]);
            let ahs: Vec<TreeHash> = arg_want.iter().map(|h| TreeHash::new(*h)).collect();
            if curry_tree_hash(ph, &ahs).to_bytes() != want {
                return Some("FAIL curry_tree_hash".into());
            }
            if (CurriedProgram { program: ph, args: DynArgs(ahs.clone()) }).tree_hash().to_bytes() != want {
                return Some("FAIL TreeHasher(CurriedProgram)".into());
            }
            let mut cache = TreeCache::default();
            if tree_hash_cached(a, curried, &mut cache).to_bytes() != want {
                return Some("FAIL tree_hash_cached(curried)".into());
            }
            if tree_hash_cached(a, curried2, &mut cache).to_bytes() != want {
                return Some("FAIL tree_hash_cached(curried, hand-built args)".into());
            }
            if total <= PLAIN_LIMIT {
                if tree_hash(a, curried).to_bytes() != want {
                    return Some("FAIL tree_hash(curried)".into());
                }
                if ref_hash(a, curried2) != want {
                    return Some("FAIL harness-self-check(curried)".into());
                }
                // program and arguments as VALUES through the hash-only encoder (encode_curried_arg)
                let vals = DynVals(arg_nodes.iter().map(|&n| NodeVal(a, n)).collect());
                let th = (CurriedProgram { program: NodeVal(a, program), args: vals }).tree_hash().to_bytes();
                if th != want {
                    let shown: Vec<String> = arg_nodes.iter().map(|&n| show(a, n)).collect();
                    return Some(format!(
                        "FAIL TreeHasher(CurriedProgram-of-values)!=tree_hash program={} args={} TreeHasher={} tree_hash={}",
                        show(a, program),
                        shown.join(","),
                        hexo(&th),
                        hexo(&want)
                    ));
                }
                if NodeVal(a, curried).tree_hash().to_bytes() != want {
                    return Some(format!("FAIL TreeHasher(curried-program-value)!=tree_hash value={}", show(a, curried)));
                }
            }
            Some("OK".into())
        }
        _ => None,
    }
}

fn main() {
    vh::serve(run);
}
