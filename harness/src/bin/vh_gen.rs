//! stream `gen` (C07, C09): both block-generator execution paths, the generator ROM, the
//! run-oracle table (every CLVM evaluation of a case, recorded from the real interpreter) and the
//! trusted-block helpers.  Output lines are what coq/Run/GenRun.v prints for the same case.
use chia_bls::{sign, PublicKey, SecretKey, Signature};
use chia_consensus::additions_and_removals::additions_and_removals;
use chia_consensus::consensus_constants::TEST_CONSTANTS;
use chia_consensus::flags::ConsensusFlags;
use chia_consensus::get_puzzle_and_solution::get_puzzle_and_solution_for_coin;
use chia_consensus::make_aggsig_final_message::make_aggsig_final_message;
use chia_consensus::opcodes::{
    AGG_SIG_AMOUNT, AGG_SIG_ME, AGG_SIG_PARENT, AGG_SIG_PARENT_AMOUNT, AGG_SIG_PARENT_PUZZLE, AGG_SIG_PUZZLE,
    AGG_SIG_PUZZLE_AMOUNT,
};
use chia_consensus::owned_conditions::{OwnedSpendBundleConditions, OwnedSpendConditions};
use chia_consensus::run_block_generator::{
    get_coinspends_for_trusted_block, get_coinspends_with_conditions_for_trusted_block, run_block_generator,
    run_block_generator2, setup_generator_args,
};
use chia_consensus::solution_generator::solution_generator;
use chia_consensus::validation_error::{ErrorCode, ValidationErr};
use chia_protocol::{Bytes, Coin, CoinSpend, Program, SpendBundle};
use chia_puzzles::ROM_BOOTSTRAP_GENERATOR;
use clvmr::allocator::{Allocator, NodePtr, SExp};
use clvmr::chia_dialect::ChiaDialect;
use clvmr::error::EvalErr;
use clvmr::reduction::Reduction;
use clvmr::run_program::run_program;
use clvmr::serde::{node_from_bytes, node_from_bytes_backrefs, node_to_bytes_backrefs, node_to_bytes_limit};
use std::collections::HashSet;
use vh::util::*;

// ---------------------------------------------------------------- rendering (format of vh_cond.rs)
fn optn<T: std::fmt::Display>(o: &Option<T>) -> String {
    match o {
        Some(v) => format!("{}", v),
        None => "-".into(),
    }
}
fn items(v: Vec<String>) -> String {
    if v.is_empty() {
        "-".into()
    } else {
        v.join(",")
    }
}
fn pm(v: &[(PublicKey, Bytes)]) -> String {
    items(v.iter().map(|(pk, m)| format!("{}:{}", hex::encode(pk.to_bytes()), hexo(m.as_ref()))).collect())
}
fn render_spend(s: &OwnedSpendConditions) -> String {
    let mut coins: Vec<Vec<u8>> = s
        .create_coin
        .iter()
        .map(|(ph, amt, hint)| {
            format!(
                "{}:{}:{}",
                hex::encode(ph),
                hex::encode(amt.to_be_bytes()),
                match hint {
                    Some(h) => hexo(h.as_ref()),
                    None => "-".into(),
                }
            )
            .into_bytes()
        })
        .collect();
    coins.sort();
    let coins: Vec<String> = coins.into_iter().map(|c| String::from_utf8(c).unwrap()).collect();
    [
        hex::encode(s.coin_id),
        hex::encode(s.parent_id),
        hex::encode(s.puzzle_hash),
        format!("{}", s.coin_amount),
        optn(&s.height_relative),
        optn(&s.seconds_relative),
        optn(&s.before_height_relative),
        optn(&s.before_seconds_relative),
        optn(&s.birth_height),
        optn(&s.birth_seconds),
        format!("{}", s.flags),
        format!("{}", s.execution_cost),
        format!("{}", s.condition_cost),
        items(coins),
        pm(&s.agg_sig_me),
        pm(&s.agg_sig_parent),
        pm(&s.agg_sig_puzzle),
        pm(&s.agg_sig_amount),
        pm(&s.agg_sig_puzzle_amount),
        pm(&s.agg_sig_parent_amount),
        pm(&s.agg_sig_parent_puzzle),
    ]
    .join(";")
}
fn render_bundle(o: &OwnedSpendBundleConditions, pairs: &str) -> String {
    let spends: Vec<String> = o.spends.iter().map(render_spend).collect();
    format!(
        "OK cost={} rf={} ha={} sa={} bha={} bsa={} rem={} add={} cc={} ec={} unsafe={} spends={} pairs={}",
        o.cost,
        o.reserve_fee,
        o.height_absolute,
        o.seconds_absolute,
        optn(&o.before_height_absolute),
        optn(&o.before_seconds_absolute),
        o.removal_amount,
        o.addition_amount,
        o.condition_cost,
        o.execution_cost,
        pm(&o.agg_sig_unsafe),
        if spends.is_empty() { "-".to_string() } else { spends.join("|") },
        pairs
    )
}
fn err_name(e: &ValidationErr) -> String {
    format!("ERR {:?}", e.error_code())
}

// ---------------------------------------------------------------- helpers
fn parse_refs(s: &str) -> Vec<Vec<u8>> {
    if s == "-" {
        return vec![];
    }
    s.split(',').map(|r| if r == "e" { vec![] } else { hx(r) }).collect()
}

fn flags_of(s: &str) -> ConsensusFlags {
    ConsensusFlags::from_bits_truncate(dec(s) as u32)
}

/// 0 = ok, 1 = cost exceeded, 2 = interpreter resource limit, 3 = any other failure
fn eval_kind(e: &EvalErr) -> u8 {
    match e {
        EvalErr::CostExceeded => 1,
        EvalErr::OutOfMemory
        | EvalErr::TooManyPairs
        | EvalErr::TooManyAtoms
        | EvalErr::ValueStackLimitReached(_)
        | EvalErr::EnvironmentStackLimitReached(_) => 2,
        _ => 3,
    }
}

fn is_resource(e: &ValidationErr) -> bool {
    match e {
        ValidationErr::Err(ErrorCode::CostExceeded) => true,
        ValidationErr::Eval(ev) => eval_kind(ev) == 1 || eval_kind(ev) == 2,
        _ => false,
    }
}

fn fnv(b: &[u8]) -> u64 {
    let mut h: u64 = 0xcbf29ce484222325;
    for x in b {
        h ^= *x as u64;
        h = h.wrapping_mul(0x100000001b3);
    }
    h
}

/// length and FNV-1a-64 of a serialized program (stands for the byte string in result lines)
fn digest(b: &[u8]) -> String {
    format!("{}.{:016x}", b.len(), fnv(b))
}

fn ser_node(a: &Allocator, n: NodePtr) -> Vec<u8> {
    node_to_bytes_limit(a, n, usize::MAX / 2).expect("serialize")
}

fn extract_n<const N: usize>(a: &Allocator, mut n: NodePtr) -> Option<[NodePtr; N]> {
    let mut ret = [NodePtr::NIL; N];
    let mut counter = 0;
    while let Some((item, rest)) = a.next(n) {
        if counter == N - 1 {
            break;
        }
        n = rest;
        ret[counter] = item;
        counter += 1;
    }
    if counter != N - 1 {
        return None;
    }
    ret[counter] = n;
    Some(ret)
}

/// legacy-path / ROM-internal generator arguments: (deserializer (refs))
fn full_args(a: &mut Allocator, refs: &[Vec<u8>]) -> NodePtr {
    setup_generator_args(a, refs, ConsensusFlags::empty()).expect("args")
}

fn rom_args(a: &mut Allocator, program: NodePtr, refs: &[Vec<u8>]) -> NodePtr {
    let mut args = a.nil();
    for g in refs.iter().rev() {
        let r = a.new_atom(g).unwrap();
        args = a.new_pair(r, args).unwrap();
    }
    let args = a.new_pair(args, NodePtr::NIL).unwrap();
    let args = a.new_pair(args, NodePtr::NIL).unwrap();
    a.new_pair(program, args).unwrap()
}

struct Table {
    entries: Vec<(NodePtr, NodePtr, u8, u64, NodePtr)>,
}

impl Table {
    fn record(&mut self, a: &mut Allocator, d: &ChiaDialect, p: NodePtr, args: NodePtr, budget: u64) -> Option<NodePtr> {
        // a failed evaluation may leave the allocator at its limits: give its allocations back
        let cp = a.checkpoint();
        match run_program(a, d, p, args, budget) {
            Ok(Reduction(c, r)) => {
                self.entries.push((p, args, 0, c, r));
                Some(r)
            }
            Err(e) => {
                let k = eval_kind(&e);
                a.restore_checkpoint(&cp);
                self.entries.push((p, args, k, 0, NodePtr::NIL));
                None
            }
        }
    }
    fn to_node(&self, a: &mut Allocator) -> NodePtr {
        let mut l = a.nil();
        for (p, args, k, c, r) in self.entries.iter().rev() {
            let kn = a.new_small_number(*k as u32).unwrap();
            let cn = a.new_number((*c).into()).unwrap();
            let t = a.new_pair(cn, *r).unwrap();
            let t = a.new_pair(kn, t).unwrap();
            let t = a.new_pair(*args, t).unwrap();
            let t = a.new_pair(*p, t).unwrap();
            l = a.new_pair(t, l).unwrap();
        }
        l
    }
}

fn collect_keys(a: &Allocator, root: NodePtr, seen: &mut HashSet<NodePtr>, out: &mut Vec<Vec<u8>>, have: &mut HashSet<Vec<u8>>) {
    let mut stack = vec![root];
    while let Some(n) = stack.pop() {
        if !seen.insert(n) {
            continue;
        }
        match a.sexp(n) {
            SExp::Pair(l, r) => {
                stack.push(l);
                stack.push(r);
            }
            SExp::Atom => {
                if a.atom_len(n) == 48 {
                    let b = a.atom(n).as_ref().to_vec();
                    if have.insert(b.clone()) {
                        let ok = match PublicKey::from_bytes(b.as_slice().try_into().unwrap()) {
                            Ok(pk) => !pk.is_inf(),
                            Err(_) => false,
                        };
                        if ok {
                            out.push(b);
                        }
                    }
                }
            }
        }
    }
}

/// every CLVM evaluation the two paths and the helpers perform on this case, from the real interpreter
fn make_table(flags: ConsensusFlags, budget: u64, program: &[u8], refs: &[Vec<u8>]) -> Option<(String, String)> {
    let mut a = Allocator::new();
    let d = ChiaDialect::new(flags.to_clvm_flags());
    let prog = node_from_bytes_backrefs(&mut a, program).ok()?;
    let mut t = Table { entries: vec![] };
    let mut keys = Vec::new();
    let mut seen = HashSet::new();
    let mut have = HashSet::new();
    let fargs = full_args(&mut a, refs);
    let nargs = if flags.contains(ConsensusFlags::SIMPLE_GENERATOR) { a.nil() } else { fargs };
    let mut outs = vec![t.record(&mut a, &d, prog, nargs, budget)];
    if nargs != fargs {
        // SIMPLE_GENERATOR: the native path passes nil, the ROM still passes (deserializer (refs))
        outs.push(t.record(&mut a, &d, prog, fargs, budget));
    }
    let mut done: HashSet<(NodePtr, NodePtr)> = HashSet::new();
    for out in outs.into_iter().flatten() {
        if let Some((mut iter, _)) = a.next(out) {
            while let Some((spend, rest)) = a.next(iter) {
                iter = rest;
                if let Some([_, puzzle, _, solution, _]) = extract_n::<5>(&a, spend) {
                    if !done.insert((puzzle, solution)) {
                        continue;
                    }
                    if let Some(conds) = t.record(&mut a, &d, puzzle, solution, budget) {
                        collect_keys(&a, conds, &mut seen, &mut keys, &mut have);
                    }
                }
            }
        }
    }
    let rom = node_from_bytes(&mut a, &ROM_BOOTSTRAP_GENERATOR).unwrap();
    let ra = rom_args(&mut a, prog, refs);
    t.record(&mut a, &d, rom, ra, budget);
    let node = t.to_node(&mut a);
    let bytes = node_to_bytes_backrefs(&a, node).ok()?;
    let k: Vec<u8> = keys.concat();
    Some((hexo(&k), hex::encode(bytes)))
}

fn sk_of(i: u64) -> SecretKey {
    let mut seed = [0_u8; 32];
    seed[0..8].copy_from_slice(&i.to_be_bytes());
    seed[31] = 0x5a;
    SecretKey::from_seed(&seed)
}

/// the (public key, final message) pairs of an accepted block in the order validation collects them does not matter
/// for aggregation; returns None when a key is not one of the harness keys (gen.keys)
fn correct_signature(o: &OwnedSpendBundleConditions) -> Option<(usize, Signature)> {
    let sks: Vec<SecretKey> = (0..16).map(sk_of).collect();
    let pks: Vec<PublicKey> = sks.iter().map(|s| s.public_key()).collect();
    let mut sig = Signature::default();
    let mut n = 0_usize;
    let mut add = |pk: &PublicKey, msg: &[u8]| -> Option<()> {
        let i = pks.iter().position(|k| k == pk)?;
        sig.aggregate(&sign(&sks[i], msg));
        n += 1;
        Some(())
    };
    for sp in &o.spends {
        for (op, list) in [
            (AGG_SIG_PARENT, &sp.agg_sig_parent),
            (AGG_SIG_PUZZLE, &sp.agg_sig_puzzle),
            (AGG_SIG_AMOUNT, &sp.agg_sig_amount),
            (AGG_SIG_PUZZLE_AMOUNT, &sp.agg_sig_puzzle_amount),
            (AGG_SIG_PARENT_AMOUNT, &sp.agg_sig_parent_amount),
            (AGG_SIG_PARENT_PUZZLE, &sp.agg_sig_parent_puzzle),
            (AGG_SIG_ME, &sp.agg_sig_me),
        ] {
            for (pk, m) in list {
                let mut msg: Vec<u8> = m.as_ref().to_vec();
                make_aggsig_final_message(op, &mut msg, sp, &TEST_CONSTANTS);
                add(pk, &msg)?;
            }
        }
    }
    for (pk, m) in &o.agg_sig_unsafe {
        add(pk, m.as_ref())?;
    }
    Some((n, sig))
}

fn run_legacy(flags: ConsensusFlags, max_cost: u64, program: &[u8], refs: &[Vec<u8>]) -> Result<OwnedSpendBundleConditions, ValidationErr> {
    let (a, c) = run_block_generator(program, refs, max_cost, flags, &Signature::default(), None, &TEST_CONSTANTS)?;
    Ok(OwnedSpendBundleConditions::from(&a, c))
}

fn run_native(flags: ConsensusFlags, max_cost: u64, program: &[u8], refs: &[Vec<u8>]) -> Result<OwnedSpendBundleConditions, ValidationErr> {
    let (a, c) = run_block_generator2(program, refs, max_cost, flags, &Signature::default(), None, &TEST_CONSTANTS)?;
    Ok(OwnedSpendBundleConditions::from(&a, c))
}

fn show(r: &Result<OwnedSpendBundleConditions, ValidationErr>) -> String {
    match r {
        Ok(o) => render_bundle(o, "-"),
        Err(e) => err_name(e),
    }
}

/// the summary with everything the two paths are allowed to differ in blanked out
fn neutral(o: &OwnedSpendBundleConditions) -> String {
    let mut o = o.clone();
    o.cost = 0;
    o.execution_cost = 0;
    for s in &mut o.spends {
        s.execution_cost = 0;
    }
    render_bundle(&o, "-")
}

fn coin_str(c: &Coin) -> String {
    format!("{}:{}:{}", hex::encode(c.parent_coin_info), hex::encode(c.puzzle_hash), c.amount)
}

fn cs_str(cs: &CoinSpend) -> String {
    format!("{}:{}:{}", coin_str(&cs.coin), digest(cs.puzzle_reveal.as_ref()), digest(cs.solution.as_ref()))
}

fn hint_str(h: &Option<Bytes>) -> String {
    match h {
        Some(b) => format!("S:{}", hexo(b.as_ref())),
        None => "N".into(),
    }
}

fn join_or_dash(v: Vec<String>, sep: &str) -> String {
    if v.is_empty() {
        "-".into()
    } else {
        v.join(sep)
    }
}

fn run_gen_output(a: &mut Allocator, flags: ConsensusFlags, program: &[u8], refs: &[Vec<u8>]) -> Result<NodePtr, ValidationErr> {
    let prog = node_from_bytes_backrefs(a, program)?;
    let args = setup_generator_args(a, refs, flags)?;
    let d = ChiaDialect::new(flags.to_clvm_flags());
    let Reduction(_, out) = run_program(a, &d, prog, args, TEST_CONSTANTS.max_block_cost_clvm)?;
    Ok(out)
}

fn trusted_line(flags: ConsensusFlags, program: &[u8], refs: &[Vec<u8>]) -> String {
    let ar = additions_and_removals(program, refs, flags, &TEST_CONSTANTS);
    let ar_s = match &ar {
        Ok((adds, rems)) => format!(
            "A={} R={}",
            join_or_dash(adds.iter().map(|(c, h)| format!("{}:{}", coin_str(c), hint_str(h))).collect(), "|"),
            join_or_dash(rems.iter().map(|(id, c)| format!("{}:{}", hex::encode(id), coin_str(c))).collect(), "|")
        ),
        Err(_) => "ERR".into(),
    };
    let prog = Program::new(program.to_vec().into());
    let cs = get_coinspends_for_trusted_block(&TEST_CONSTANTS, &prog, refs, flags);
    let cs_s = match &cs {
        Ok(v) => join_or_dash(v.iter().map(cs_str).collect(), "|"),
        Err(_) => "ERR".into(),
    };
    let csc = get_coinspends_with_conditions_for_trusted_block(&TEST_CONSTANTS, &prog, refs, flags);
    let csc_s = match &csc {
        Ok(v) => join_or_dash(
            v.iter()
                .map(|(c, conds)| {
                    format!(
                        "{}:{}",
                        cs_str(c),
                        join_or_dash(
                            conds
                                .iter()
                                .map(|(op, args)| format!("{}({})", op, args.iter().map(|x| hexo(x)).collect::<Vec<_>>().join(",")))
                                .collect(),
                            "/"
                        )
                    )
                })
                .collect(),
            "|",
        ),
        Err(_) => "ERR".into(),
    };
    // lookup of every removed coin in the generator's output
    let lk_s = match &ar {
        Ok((_, rems)) => {
            let mut a = Allocator::new();
            match run_gen_output(&mut a, flags, program, refs) {
                Ok(out) => join_or_dash(
                    rems.iter()
                        .map(|(_, c)| match get_puzzle_and_solution_for_coin(&a, out, c) {
                            Ok((p, s)) => format!("{}:{}", digest(&ser_node(&a, p)), digest(&ser_node(&a, s))),
                            Err(_) => "ERR".into(),
                        })
                        .collect(),
                    "|",
                ),
                Err(_) => "ERR".into(),
            }
        }
        Err(_) => "-".into(),
    };
    format!("{} ## CS={} ## CSC={} ## LK={}", ar_s, cs_s, csc_s, lk_s)
}

/// C09 stated on the implementation alone
fn oracle09(flags: ConsensusFlags, max_cost: u64, program: &[u8], refs: &[Vec<u8>]) -> String {
    let (a, conds) = match run_block_generator2(program, refs, max_cost, flags, &Signature::default(), None, &TEST_CONSTANTS) {
        Ok(x) => x,
        Err(_) => return "OK rejected".into(),
    };
    let o = OwnedSpendBundleConditions::from(&a, conds);
    drop(a);
    let mut fails: Vec<String> = vec![];
    let mut notes: Vec<&str> = vec![];
    // (1) additions_and_removals
    match additions_and_removals(program, refs, flags, &TEST_CONSTANTS) {
        Err(e) => fails.push(format!("additions_and_removals-rejects:{:?}", e.error_code())),
        Ok((adds, rems)) => {
            let want_rem: Vec<String> = o
                .spends
                .iter()
                .map(|s| format!("{}:{}:{}:{}", hex::encode(s.coin_id), hex::encode(s.parent_id), hex::encode(s.puzzle_hash), s.coin_amount))
                .collect();
            let got_rem: Vec<String> = rems.iter().map(|(id, c)| format!("{}:{}", hex::encode(id), coin_str(c))).collect();
            if want_rem != got_rem {
                fails.push("removals-differ".into());
            }
            // additions: per spend, in condition order in the helper; a set in the conditions
            let mut want: Vec<(String, String)> = vec![];
            for s in &o.spends {
                for (ph, amt, hint) in &s.create_coin {
                    want.push((format!("{}:{}:{}", hex::encode(s.coin_id), hex::encode(ph), amt), hint_str(hint)));
                }
            }
            let mut got: Vec<(String, String)> = adds.iter().map(|(c, h)| (coin_str(c), hint_str(h))).collect();
            want.sort();
            got.sort();
            let wc: Vec<&String> = want.iter().map(|x| &x.0).collect();
            let gc: Vec<&String> = got.iter().map(|x| &x.0).collect();
            if wc != gc {
                fails.push("additions-coins-differ".into());
            } else {
                for (w, g) in want.iter().zip(got.iter()) {
                    if w.1 != g.1 {
                        fails.push(format!("hint-differs:validated={}:helper={}", w.1, g.1));
                        break;
                    }
                }
            }
        }
    }
    // (2) recovered coin spends: same coins, rebuild a generator with the same conditions
    let prog = Program::new(program.to_vec().into());
    match get_coinspends_for_trusted_block(&TEST_CONSTANTS, &prog, refs, flags) {
        Err(e) => fails.push(format!("get_coinspends-rejects:{:?}", e.error_code())),
        Ok(cs) => {
            let want: Vec<String> = o.spends.iter().map(|s| format!("{}:{}:{}", hex::encode(s.parent_id), hex::encode(s.puzzle_hash), s.coin_amount)).collect();
            let got: Vec<String> = cs.iter().map(|c| coin_str(&c.coin)).collect();
            if want != got {
                fails.push("coinspend-coins-differ".into());
            }
            // outside the rebuild clause (premises fits_tuple / solution_generator = Some of C09_rebuild): a puzzle or
            // solution beyond Program's 2 MB limit, or coin spends whose generator would exceed solution_generator's limit
            let too_big = cs.iter().any(|c| c.puzzle_reveal.as_ref() == [0x80] || c.solution.as_ref().len() >= 2000000)
                || cs.iter().map(|c| c.puzzle_reveal.as_ref().len() + c.solution.as_ref().len() + 50).sum::<usize>() + 8 >= 2000000;
            // build_generator conses onto the front: feed the spends in reverse to keep their order
            match solution_generator(cs.iter().rev().map(|c| (c.coin, c.puzzle_reveal.as_ref().to_vec(), c.solution.as_ref().to_vec()))) {
                Err(_) => {
                    if !too_big {
                        fails.push("rebuild-fails".into())
                    }
                }
                Ok(g2) => {
                    let no_refs: Vec<Vec<u8>> = vec![];
                    // the rebuilt generator is plain and reference-free: extra budget for its larger byte cost
                    match run_native(flags, u64::MAX, &g2, &no_refs) {
                        Err(e) => {
                            if !too_big && !is_resource(&e) {
                                fails.push(format!("rebuilt-generator-rejected:{:?}", e.error_code()))
                            }
                        }
                        Ok(o2) => {
                            let mut x = o.clone();
                            let mut y = o2.clone();
                            x.cost = 0;
                            y.cost = 0;
                            x.execution_cost = 0;
                            y.execution_cost = 0;
                            // (a puzzle the helper could not serialize within Program's 2 MB limit is returned as nil:
                            //  outside the rebuild clause, premise fits_tuple of C09_rebuild)
                            if !too_big && render_bundle(&x, "-") != render_bundle(&y, "-") {
                                fails.push("rebuilt-generator-conditions-differ".into());
                            }
                        }
                    }
                    // SpendBundle::additions lists the same created coins (budget and dialect of that helper)
                    if flags.to_clvm_flags().is_empty() {
                        let sb = SpendBundle::new(cs.clone(), Signature::default());
                        match sb.additions() {
                            Err(EvalErr::CostExceeded) => {
                                // the helper has its own, more conservative budget
                            }
                            Err(_) => {
                                // observation F-C09-3: outside NO_UNKNOWN_CONDS a condition whose operator is a pair is
                                // ignored by validation but makes SpendBundle::additions fail
                                if flags.contains(ConsensusFlags::NO_UNKNOWN_CONDS) {
                                    fails.push("spendbundle-additions-fails".into());
                                } else {
                                    notes.push("sbadd-fails-outside-no-unknown-conds");
                                }
                            }
                            Ok(adds) => {
                                let mut want: Vec<String> = vec![];
                                for s in &o.spends {
                                    for (ph, amt, _) in &s.create_coin {
                                        want.push(format!("{}:{}:{}", hex::encode(s.coin_id), hex::encode(ph), amt));
                                    }
                                }
                                let mut got: Vec<String> = adds.iter().map(coin_str).collect();
                                want.sort();
                                got.sort();
                                if want != got {
                                    fails.push("spendbundle-additions-differ".into());
                                }
                            }
                        }
                    }
                }
            }
        }
    }
    // (3) lookup of every removed coin returns its puzzle and solution
    {
        let mut a = Allocator::new();
        match run_gen_output(&mut a, flags, program, refs) {
            Err(_) => fails.push("generator-rerun-fails".into()),
            Ok(out) => {
                // expected: the i-th spend tuple of the output
                let mut tuples = vec![];
                if let Some((mut iter, _)) = a.next(out) {
                    while let Some((spend, rest)) = a.next(iter) {
                        iter = rest;
                        if let Some([_, p, _, s, _]) = extract_n::<5>(&a, spend) {
                            tuples.push((p, s));
                        }
                    }
                }
                for (i, s) in o.spends.iter().enumerate() {
                    let c = Coin::new(s.parent_id, s.puzzle_hash, s.coin_amount);
                    match get_puzzle_and_solution_for_coin(&a, out, &c) {
                        Err(_) => {
                            fails.push(format!("lookup-fails:{}", i));
                            break;
                        }
                        Ok((p, sol)) => {
                            if i >= tuples.len() || ser_node(&a, p) != ser_node(&a, tuples[i].0) || ser_node(&a, sol) != ser_node(&a, tuples[i].1) {
                                fails.push(format!("lookup-differs:{}", i));
                                break;
                            }
                        }
                    }
                }
            }
        }
    }
    if fails.is_empty() {
        format!("OK accepted spends={}{}", o.spends.len(), if notes.is_empty() { "".to_string() } else { format!(" note={}", notes.join(",")) })
    } else {
        format!("FAIL {}", fails.join(" "))
    }
}

fn run(name: &str, args: &[String]) -> Option<String> {
    match name {
        "gen.table" => {
            // FLAGS BUDGET PROGRAM REFS -> KEYS TABLE
            let flags = flags_of(&args[0]);
            let budget = dec(&args[1]);
            let program = hx(&args[2]);
            let refs = parse_refs(&args[3]);
            Some(match make_table(flags, budget, &program, &refs) {
                Some((k, t)) => format!("{} {}", k, t),
                None => "- -".into(),
            })
        }
        "gen.both" => {
            // FLAGS MAXCOST BUDGET CONSTS PROGRAM REFS [KEYS TABLE]
            let flags = flags_of(&args[0]);
            let max_cost = dec(&args[1]);
            let budget = dec(&args[2]);
            let program = hx(&args[4]);
            let refs = parse_refs(&args[5]);
            let r1 = run_legacy(flags, max_cost, &program, &refs);
            let r2 = run_native(flags, max_cost, &program, &refs);
            let rom = {
                let mut a = Allocator::new();
                match node_from_bytes_backrefs(&mut a, &program) {
                    Err(_) => "na".to_string(),
                    Ok(prog) => {
                        let rom = node_from_bytes(&mut a, &ROM_BOOTSTRAP_GENERATOR).unwrap();
                        let ra = rom_args(&mut a, prog, &refs);
                        let d = ChiaDialect::new(flags.to_clvm_flags());
                        match run_program(&mut a, &d, rom, ra, budget) {
                            Ok(_) => "ok".into(),
                            Err(e) => if eval_kind(&e) == 3 { "err".into() } else { "res".to_string() },
                        }
                    }
                }
            };
            Some(format!("{} ## {} ## rom={}", show(&r1), show(&r2), rom))
        }
        "gen.oracle07" => {
            // FLAGS MAXCOST PROGRAM REFS [lenient]: the property on the implementation alone.
            // `lenient` sets aside the divergence class of finding F-C07-2 (INTERNED_GENERATOR storage cost);
            // used only while that finding is not listed in KNOWN_FINDINGS.jsonl.
            let flags = flags_of(&args[0]);
            let max_cost = dec(&args[1]);
            let program = hx(&args[2]);
            let refs = parse_refs(&args[3]);
            let lenient = args.len() > 4 && args[4] == "lenient";
            let r1 = run_legacy(flags, max_cost, &program, &refs);
            let r2 = run_native(flags, max_cost, &program, &refs);
            let interned = flags.contains(ConsensusFlags::INTERNED_GENERATOR);
            Some(match (&r1, &r2) {
                (Err(_), Err(_)) => "OK both-reject".into(),
                (Ok(o1), Ok(o2)) => {
                    if neutral(o1) != neutral(o2) {
                        "FAIL summaries-differ".into()
                    } else if o2.execution_cost + o2.condition_cost > o1.execution_cost + o1.condition_cost {
                        format!("FAIL native-executes-for-more legacy={} native={}", o1.execution_cost, o2.execution_cost)
                    } else if o2.cost > o1.cost {
                        if lenient && interned {
                            "OK both-accept pending-class=interned-storage-cost".into()
                        } else {
                            format!("FAIL native-costs-more legacy={} native={}", o1.cost, o2.cost)
                        }
                    } else {
                        "OK both-accept".into()
                    }
                }
                (Err(e), Ok(_)) => {
                    if is_resource(e) {
                        "OK legacy-resource-exhaustion".into()
                    } else {
                        format!("FAIL legacy-rejects({:?})-native-accepts", e.error_code())
                    }
                }
                (Ok(_), Err(e)) => {
                    if lenient && interned && is_resource(e) {
                        // the larger storage cost of the interned mode exhausts the limit first
                        "OK pending-class=interned-storage-cost".into()
                    } else {
                        format!("FAIL legacy-accepts-native-rejects({:?})", e.error_code())
                    }
                }
            })
        }
        "gen.oracle07sig" => {
            // FLAGS MAXCOST PROGRAM REFS: the property with signature validation ENABLED, implementation alone.
            // The block is first run natively without signature validation; if accepted, both paths are re-run with
            // validation enabled and (id) the identity signature, (x) a fixed non-identity G2 point sign(sk0, "x"),
            // (good) the correct aggregate over the collected pairs when all keys are harness keys.  Each time
            // the two paths must give the same verdict; id must be accepted iff there are no pairs, x never.
            let flags = flags_of(&args[0]);
            let max_cost = dec(&args[1]);
            let program = hx(&args[2]);
            let refs = parse_refs(&args[3]);
            let base = match run_native(flags | ConsensusFlags::DONT_VALIDATE_SIGNATURE, max_cost, &program, &refs) {
                Ok(o) => o,
                Err(_) => return Some("OK skipped-native-rejects-without-signature".into()),
            };
            let fv = flags & !ConsensusFlags::DONT_VALIDATE_SIGNATURE;
            let npairs: usize = base.agg_sig_unsafe.len()
                + base.spends.iter().map(|s| s.agg_sig_me.len() + s.agg_sig_parent.len() + s.agg_sig_puzzle.len() + s.agg_sig_amount.len()
                    + s.agg_sig_puzzle_amount.len() + s.agg_sig_parent_amount.len() + s.agg_sig_parent_puzzle.len()).sum::<usize>();
            let mut sigs: Vec<(&str, Signature)> = vec![("id", Signature::default()), ("x", sign(&sk_of(0), b"x"))];
            if npairs > 0 {
                if let Some((_, g)) = correct_signature(&base) {
                    sigs.push(("good", g));
                }
            }
            let mut out: Vec<String> = vec![format!("pairs={}", npairs)];
            let mut bad: Vec<String> = vec![];
            for (name, sig) in &sigs {
                let r1 = run_block_generator(&program, &refs, max_cost, fv, sig, None, &TEST_CONSTANTS).map(|(a, c)| OwnedSpendBundleConditions::from(&a, c));
                let r2 = run_block_generator2(&program, &refs, max_cost, fv, sig, None, &TEST_CONSTANTS).map(|(a, c)| OwnedSpendBundleConditions::from(&a, c));
                let v = match (&r1, &r2) {
                    (Ok(o1), Ok(o2)) => {
                        if neutral(o1) != neutral(o2) {
                            bad.push(format!("{}:summaries-differ", name));
                        }
                        "accept".to_string()
                    }
                    (Err(e1), Err(e2)) => {
                        if e1.error_code() != e2.error_code() && !is_resource(e1) {
                            bad.push(format!("{}:legacy-rejects({:?})-native-rejects({:?})", name, e1.error_code(), e2.error_code()));
                        }
                        format!("reject({:?})", e2.error_code())
                    }
                    (Err(e1), Ok(_)) => {
                        if !is_resource(e1) {
                            bad.push(format!("{}:legacy-rejects({:?})-native-accepts", name, e1.error_code()));
                        }
                        "legacy-only-rejects".to_string()
                    }
                    (Ok(_), Err(e2)) => {
                        if !(flags.contains(ConsensusFlags::INTERNED_GENERATOR) && is_resource(e2)) {
                            bad.push(format!("{}:legacy-accepts-native-rejects({:?})", name, e2.error_code()));
                        }
                        "native-only-rejects".to_string()
                    }
                };
                // what the native path must say
                match (*name, &r2) {
                    ("id", Err(e)) if npairs == 0 => bad.push(format!("id:native-rejects-identity-without-pairs({:?})", e.error_code())),
                    ("id", Ok(_)) if npairs > 0 => bad.push("id:native-accepts-identity-with-pairs".into()),
                    ("x", Ok(_)) => bad.push("x:native-accepts-wrong-signature".into()),
                    ("good", Err(e)) if !is_resource(e) => bad.push(format!("good:native-rejects-correct-signature({:?})", e.error_code())),
                    _ => {}
                }
                out.push(format!("{}={}", name, v));
            }
            Some(if bad.is_empty() { format!("OK {}", out.join(" ")) } else { format!("FAIL {} ## {}", bad.join(","), out.join(" ")) })
        }
        "gen.oracle04" => {
            // FLAGS MAXCOST PROGRAM REFS: property C04 on the generator entry points, implementation alone.
            // For each path that accepts under MAXCOST with cost c: c <= MAXCOST, the sub-totals add up
            // (cost = storage + execution + condition cost; per-spend sums), re-running with limit c gives the
            // identical result and with limit c-1 fails with a cost/resource error.
            let flags = flags_of(&args[0]);
            let max_cost = dec(&args[1]);
            let program = hx(&args[2]);
            let refs = parse_refs(&args[3]);
            let interned = flags.contains(ConsensusFlags::INTERNED_GENERATOR);
            let mut out: Vec<String> = vec![];
            for (name, legacy) in [("legacy", true), ("native", false)] {
                let run = |lim: u64| if legacy { run_legacy(flags, lim, &program, &refs) } else { run_native(flags, lim, &program, &refs) };
                match run(max_cost) {
                    Err(_) => out.push(format!("{}:reject", name)),
                    Ok(o) => {
                        let c = o.cost;
                        let mut bad: Vec<String> = vec![];
                        if c > max_cost {
                            bad.push(format!("cost-{}-above-limit-{}", c, max_cost));
                        }
                        let storage = if interned && !legacy { None } else { Some(program.len() as u64 * TEST_CONSTANTS.cost_per_byte) };
                        if let Some(st) = storage {
                            if c != st + o.execution_cost + o.condition_cost {
                                bad.push(format!("cost-{}-is-not-storage-{}+exec-{}+cond-{}", c, st, o.execution_cost, o.condition_cost));
                            }
                        } else if c < o.execution_cost + o.condition_cost {
                            bad.push("cost-below-exec+cond".into());
                        }
                        let cc: u64 = o.spends.iter().map(|s| s.condition_cost).sum();
                        if cc != o.condition_cost {
                            bad.push(format!("condition-cost-{}-is-not-sum-of-spends-{}", o.condition_cost, cc));
                        }
                        if !legacy {
                            let ec: u64 = o.spends.iter().map(|s| s.execution_cost).sum();
                            if ec > o.execution_cost {
                                bad.push(format!("spend-execution-costs-{}-exceed-total-{}", ec, o.execution_cost));
                            }
                        }
                        match run(c) {
                            Ok(o2) => {
                                if render_bundle(&o2, "-") != render_bundle(&o, "-") {
                                    bad.push("result-at-limit=cost-differs".into());
                                }
                            }
                            Err(e) => bad.push(format!("rejected-at-limit=cost({})", err_name(&e))),
                        }
                        if c > 0 {
                            match run(c - 1) {
                                Ok(_) => bad.push("accepted-at-limit=cost-1".into()),
                                Err(e) => {
                                    if !is_resource(&e) {
                                        bad.push(format!("limit=cost-1-fails-with({})", err_name(&e)));
                                    }
                                }
                            }
                        }
                        if bad.is_empty() {
                            out.push(format!("{}:ok:{}", name, c));
                        } else {
                            out.push(format!("{}:FAIL:{}", name, bad.join("+")));
                        }
                    }
                }
            }
            Some(out.join(" "))
        }
        "gen.backrefs" => {
            // PROGRAM -> the same tree re-serialised with back-references (clvmr compressor)
            let mut a = Allocator::new();
            let n = node_from_bytes_backrefs(&mut a, &hx(&args[0])).ok()?;
            Some(hex::encode(node_to_bytes_backrefs(&a, n).ok()?))
        }
        "gen.plain" => {
            let mut a = Allocator::new();
            let n = match node_from_bytes_backrefs(&mut a, &hx(&args[0])) {
                Ok(n) => n,
                Err(_) => return Some("ERR".into()),
            };
            Some(hex::encode(ser_node(&a, n)))
        }
        "gen.trusted" => {
            // FLAGS PROGRAM REFS [KEYS TABLE]
            let flags = flags_of(&args[0]);
            let program = hx(&args[1]);
            let refs = parse_refs(&args[2]);
            Some(trusted_line(flags, &program, &refs))
        }
        "gen.rebuild" => {
            // FLAGS PROGRAM REFS [KEYS TABLE]: solution_generator over the recovered coin spends, reversed and in order
            let flags = flags_of(&args[0]);
            let program = hx(&args[1]);
            let refs = parse_refs(&args[2]);
            let prog = Program::new(program.to_vec().into());
            Some(match get_coinspends_for_trusted_block(&TEST_CONSTANTS, &prog, &refs, flags) {
                Err(_) => "ERR-CS".into(),
                Ok(cs) => {
                    fn d<E>(r: Result<Vec<u8>, E>) -> String {
                        match r {
                            Ok(b) => digest(&b),
                            Err(_) => "ERR".to_string(),
                        }
                    }
                    let rev = solution_generator(cs.iter().rev().map(|c| (c.coin, c.puzzle_reveal.as_ref().to_vec(), c.solution.as_ref().to_vec())));
                    let fwd = solution_generator(cs.iter().map(|c| (c.coin, c.puzzle_reveal.as_ref().to_vec(), c.solution.as_ref().to_vec())));
                    format!("rev={} fwd={}", d(rev), d(fwd))
                }
            })
        }
        "gen.sbadd" => {
            // PROGRAM REFS [TABLE0]: SpendBundle::additions of the coin spends recovered from the block
            let program = hx(&args[0]);
            let refs = parse_refs(&args[1]);
            let prog = Program::new(program.to_vec().into());
            Some(match get_coinspends_for_trusted_block(&TEST_CONSTANTS, &prog, &refs, ConsensusFlags::empty()) {
                Err(_) => "ERR-CS".into(),
                Ok(cs) => {
                    let sb = SpendBundle::new(cs, Signature::default());
                    match sb.additions() {
                        Ok(v) => join_or_dash(v.iter().map(coin_str).collect(), "|"),
                        Err(_) => "ERR".into(),
                    }
                }
            })
        }
        "gen.oracle09" => {
            let flags = flags_of(&args[0]);
            let max_cost = dec(&args[1]);
            let program = hx(&args[2]);
            let refs = parse_refs(&args[3]);
            Some(oracle09(flags, max_cost, &program, &refs))
        }
        "gen.consts" => {
            let k = &TEST_CONSTANTS;
            let mut v = Vec::new();
            v.extend_from_slice(&k.agg_sig_me_additional_data);
            v.extend_from_slice(&k.agg_sig_parent_additional_data);
            v.extend_from_slice(&k.agg_sig_puzzle_additional_data);
            v.extend_from_slice(&k.agg_sig_amount_additional_data);
            v.extend_from_slice(&k.agg_sig_puzzle_amount_additional_data);
            v.extend_from_slice(&k.agg_sig_parent_amount_additional_data);
            v.extend_from_slice(&k.agg_sig_parent_puzzle_additional_data);
            Some(hex::encode(v))
        }
        "gen.keys" => {
            let n = dec(&args[0]);
            Some(
                (0..n)
                    .map(|i| {
                        let mut seed = [0_u8; 32];
                        seed[0..8].copy_from_slice(&i.to_be_bytes());
                        seed[31] = 0x5a;
                        hex::encode(chia_bls::SecretKey::from_seed(&seed).public_key().to_bytes())
                    })
                    .collect::<Vec<_>>()
                    .join(","),
            )
        }
        "gen.mempoolmode" => Some(format!("{}", chia_consensus::flags::MEMPOOL_MODE.bits())),
        "gen.vbytes" => {
            let mut a = Allocator::new();
            let n = match node_from_bytes_backrefs(&mut a, &hx(&args[0])) {
                Ok(n) => n,
                Err(_) => return Some("ERR".into()),
            };
            let t = clvmr::serde::intern_tree(&a, n).ok()?;
            Some(format!("{}", chia_consensus::generator_cost::interned_vbytes(&t)))
        }
        "gen.romconst" => {
            // the deserializer the ROM passes to generators (environment path 8 of the compiled ROM)
            // is the program the native path passes: (f (f CONSTS)), CONSTS = (r (f (r (f (r (r ROM))))))
            let mut a = Allocator::new();
            let rom = node_from_bytes(&mut a, &ROM_BOOTSTRAP_GENERATOR).unwrap();
            let d = node_from_bytes(&mut a, &chia_puzzles::CHIALISP_DESERIALISATION).unwrap();
            let f = |a: &Allocator, n: NodePtr| match a.sexp(n) { SExp::Pair(l, _) => l, _ => panic!("shape") };
            let r = |a: &Allocator, n: NodePtr| match a.sexp(n) { SExp::Pair(_, x) => x, _ => panic!("shape") };
            let c_expr = f(&a, r(&a, r(&a, rom)));      // (c (q . CONSTS) 1)
            let q_consts = f(&a, r(&a, c_expr));       // (q . CONSTS)
            let consts = r(&a, q_consts);
            let local = f(&a, f(&a, consts));
            let same = ser_node(&a, local) == ser_node(&a, d);
            Some(format!("{} {}", if same { 1 } else { 0 }, hex::encode(ser_node(&a, rom))))
        }
        _ => None,
    }
}

fn main() {
    vh::serve(run);
}
