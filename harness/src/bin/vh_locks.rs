//! stream `locks` (C03): parse_spends -> OwnedSpendBundleConditions -> check_time_locks with a
//! chain state given on the case line, plus the implementation-level oracle of the property:
//! every ORIGINAL assertion of the case evaluated arithmetically (independently of the folding in
//! conditions.rs and of check_time_locks.rs) and compared with the verdict of the real functions.
use chia_consensus::check_time_locks::check_time_locks;
use chia_consensus::conditions::{parse_spends, EmptyVisitor, MempoolVisitor};
use chia_consensus::consensus_constants::TEST_CONSTANTS;
use chia_consensus::flags::ConsensusFlags;
use chia_consensus::owned_conditions::{OwnedSpendBundleConditions, OwnedSpendConditions};
use chia_consensus::validation_error::{ErrorCode, ValidationErr};
use chia_bls::Signature;
use chia_protocol::{Bytes32, Coin, CoinRecord};
use clvmr::serde::node_from_bytes;
use clvmr::Allocator;
use std::collections::HashMap;
use vh::util::*;

const MAX_COST: u64 = 11_000_000_000;

fn optn<T: std::fmt::Display>(o: &Option<T>) -> String {
    match o {
        Some(v) => format!("{}", v),
        None => "-".into(),
    }
}

fn render_spend(s: &OwnedSpendConditions) -> String {
    [
        hex::encode(s.coin_id),
        optn(&s.height_relative),
        optn(&s.seconds_relative),
        optn(&s.before_height_relative),
        optn(&s.before_seconds_relative),
        optn(&s.birth_height),
        optn(&s.birth_seconds),
    ]
    .join(";")
}

fn render_locks(o: &OwnedSpendBundleConditions) -> String {
    let spends: Vec<String> = o.spends.iter().map(render_spend).collect();
    format!(
        "ha={} sa={} bha={} bsa={} spends={}",
        o.height_absolute,
        o.seconds_absolute,
        optn(&o.before_height_absolute),
        optn(&o.before_seconds_absolute),
        if spends.is_empty() { "-".to_string() } else { spends.join("|") }
    )
}

fn coin_record(cbi: u32, ts: u64) -> CoinRecord {
    CoinRecord {
        coin: Coin { parent_coin_info: Bytes32::default(), puzzle_hash: Bytes32::default(), amount: 1 },
        confirmed_block_index: cbi,
        spent_block_index: 0,
        coinbase: false,
        timestamp: ts,
    }
}

/// NRECS (ID CBI TS)* starting at args[at]; returns the map (first entry wins) and the next index
fn recs_of(args: &[String], at: usize) -> (HashMap<Bytes32, CoinRecord>, Vec<(Bytes32, u32, u64)>, usize) {
    let n = dec(&args[at]) as usize;
    let mut m = HashMap::new();
    let mut v = Vec::new();
    let mut i = at + 1;
    for _ in 0..n {
        let id = Bytes32::new(b32(&args[i]));
        let cbi = dec(&args[i + 1]) as u32;
        let ts = dec(&args[i + 2]);
        m.entry(id).or_insert_with(|| coin_record(cbi, ts));
        v.push((id, cbi, ts));
        i += 3;
    }
    (m, v, i)
}

fn parse(flags: u32, mempool: bool, tree: &[u8]) -> Result<Result<OwnedSpendBundleConditions, ValidationErr>, ()> {
    let flags = ConsensusFlags::from_bits_truncate(flags);
    let mut a = Allocator::new();
    let node = node_from_bytes(&mut a, tree).map_err(|_| ())?;
    let sig = Signature::default();
    let r = if mempool {
        parse_spends::<MempoolVisitor>(&a, node, MAX_COST, 0, flags, &sig, None, &TEST_CONSTANTS)
    } else {
        parse_spends::<EmptyVisitor>(&a, node, MAX_COST, 0, flags, &sig, None, &TEST_CONSTANTS)
    };
    Ok(r.map(|c| OwnedSpendBundleConditions::from(&a, c)))
}

fn perr_class(e: &ValidationErr) -> &'static str {
    match e.error_code() {
        ErrorCode::ImpossibleSecondsRelativeConstraints
        | ErrorCode::ImpossibleHeightRelativeConstraints
        | ErrorCode::ImpossibleHeightAbsoluteConstraints
        | ErrorCode::ImpossibleSecondsAbsoluteConstraints => "P-ERR:IMPOSSIBLE",
        ErrorCode::EphemeralRelativeCondition => "P-ERR:EPHREL",
        _ => "P-ERR",
    }
}

// ------------------------------------------------------------------ the oracle
// The arithmetic definition of each kind, written from the property text, on wide integers.
// Chain-state values are of the type (u32 heights, u64 seconds).  An argument z is any integer:
//   in range (0 <= z <= MAX): sums saturate at MAX;
//   out of range (negative / oversized): the sum is not capped at all when `exact` is set (reading 1,
//   the argument is not a value of the type); with `exact` unset (reading 2) every sum is capped at MAX.
#[derive(Clone, Copy, PartialEq, Debug)]
enum Kind {
    HeightRelative,
    SecondsRelative,
    BeforeHeightRelative,
    BeforeSecondsRelative,
    HeightAbsolute,
    SecondsAbsolute,
    BeforeHeightAbsolute,
    BeforeSecondsAbsolute,
    BirthHeight,
    BirthSeconds,
}
use Kind::*;

fn kind_of(s: &str) -> Kind {
    match s {
        "HR" => HeightRelative,
        "SR" => SecondsRelative,
        "BHR" => BeforeHeightRelative,
        "BSR" => BeforeSecondsRelative,
        "HA" => HeightAbsolute,
        "SA" => SecondsAbsolute,
        "BHA" => BeforeHeightAbsolute,
        "BSA" => BeforeSecondsAbsolute,
        "BH" => BirthHeight,
        "BS" => BirthSeconds,
        _ => panic!("kind"),
    }
}

impl Kind {
    fn is_height(self) -> bool {
        matches!(self, HeightRelative | BeforeHeightRelative | HeightAbsolute | BeforeHeightAbsolute | BirthHeight)
    }
    fn is_relative(self) -> bool {
        !matches!(self, HeightAbsolute | SecondsAbsolute | BeforeHeightAbsolute | BeforeSecondsAbsolute)
    }
    fn max(self) -> i128 {
        if self.is_height() {
            u32::MAX as i128
        } else {
            u64::MAX as i128
        }
    }
}

struct Assertion {
    coin: usize,
    kind: Kind,
    val: Option<i128>, // None: malformed argument (not a canonical integer), parsing must reject
}

fn sum(base: i128, z: i128, max: i128, exact: bool) -> i128 {
    let s = base + z;
    if (0..=max).contains(&z) || !exact {
        s.min(max)
    } else {
        s
    }
}

/// does the assertion hold for a coin confirmed at (cbi, ts) when the previous transaction block
/// has height h and the timestamp is t
fn holds(k: Kind, z: i128, cbi: i128, ts: i128, h: i128, t: i128, exact: bool) -> bool {
    let m = k.max();
    match k {
        HeightRelative => h >= sum(cbi, z, m, exact),
        SecondsRelative => t >= sum(ts, z, m, exact),
        BeforeHeightRelative => h < sum(cbi, z, m, exact),
        BeforeSecondsRelative => t < sum(ts, z, m, exact),
        HeightAbsolute => h >= z,
        SecondsAbsolute => t >= z,
        BeforeHeightAbsolute => h < z,
        BeforeSecondsAbsolute => t < z,
        BirthHeight => cbi == z,
        BirthSeconds => ts == z,
    }
}

/// is there a chain state (on a grid of boundary values) in which all assertions hold, every spent
/// coin has a record and no coin comes from the future (cbi <= h, ts <= t)?
/// heights and seconds are independent, and so are the coins once h (resp. t) is fixed.
fn satisfiable(ncoins: usize, asserts: &[Assertion], exact: bool) -> Option<(i128, i128)> {
    let mut found = [None, None];
    for (dim, height) in [(0, true), (1, false)] {
        let max: i128 = if height { u32::MAX as i128 } else { u64::MAX as i128 };
        let mine: Vec<&Assertion> = asserts.iter().filter(|a| a.kind.is_height() == height).collect();
        let vals: Vec<i128> = mine.iter().filter_map(|a| a.val).collect();
        let mut cand: Vec<i128> = vec![0, 1, max, max - 1];
        for &v in &vals {
            for d in -1..=1 {
                cand.push(v + d);
                cand.push(max - v + d);
            }
            for &w in &vals {
                cand.push(v + w);
                cand.push(v + w + 1);
                cand.push(v + w - 1);
            }
        }
        cand.retain(|c| (0..=max).contains(c));
        cand.sort();
        cand.dedup();
        'outer: for &x in &cand {
            // x = h (or t)
            let st = |c: i128| if height { (c, 0, x, 0) } else { (0, c, 0, x) };
            for a in mine.iter().filter(|a| !a.kind.is_relative()) {
                let (cbi, ts, h, t) = st(0);
                if !holds(a.kind, a.val.unwrap(), cbi, ts, h, t, exact) {
                    continue 'outer;
                }
            }
            for coin in 0..ncoins {
                let ca: Vec<&&Assertion> = mine.iter().filter(|a| a.kind.is_relative() && a.coin == coin).collect();
                if ca.is_empty() {
                    continue;
                }
                let mut cc: Vec<i128> = vec![0, x];
                for a in &ca {
                    let v = a.val.unwrap();
                    for d in -1..=1 {
                        cc.push(v + d);
                        cc.push(x - v + d);
                        cc.push(max - v + d);
                    }
                }
                cc.retain(|c| (0..=x).contains(c));
                let ok = cc.iter().any(|&c| {
                    let (cbi, ts, h, t) = st(c);
                    ca.iter().all(|a| holds(a.kind, a.val.unwrap(), cbi, ts, h, t, exact))
                });
                if !ok {
                    continue 'outer;
                }
            }
            found[dim] = Some(x);
            break;
        }
    }
    match (found[0], found[1]) {
        (Some(h), Some(t)) => Some((h, t)),
        _ => None,
    }
}

fn run(name: &str, args: &[String]) -> Option<String> {
    match name {
        "locks.check" | "locks.code" => {
            // FLAGS VISITOR NOWRAP H T TREE NRECS (ID CBI TS)*
            let nowrap = dec(&args[2]) == 1;
            let h = dec(&args[3]) as u32;
            let t = dec(&args[4]);
            let (recs, _, _) = recs_of(args, 6);
            let code = name == "locks.code";
            let r = match parse(dec(&args[0]) as u32, dec(&args[1]) == 1, &hx(&args[5])) {
                Err(()) => return Some("ERR-DESER".into()),
                Ok(r) => r,
            };
            Some(match r {
                Err(e) => {
                    if code {
                        format!("P {:?}", e.error_code())
                    } else {
                        perr_class(&e).to_string()
                    }
                }
                Ok(o) => match check_time_locks(&recs, &o, h, t, nowrap) {
                    Ok(()) => {
                        if code {
                            "L OK".into()
                        } else {
                            format!("L-OK {}", render_locks(&o))
                        }
                    }
                    Err(e) => {
                        if code {
                            format!("L {:?}", e.error_code())
                        } else {
                            format!("L-ERR {}", render_locks(&o))
                        }
                    }
                },
            })
        }
        "locks.oracle" => {
            // FLAGS VISITOR H T TREE NRECS (ID CBI TS)* NCOINS (ID EPH)* NASSERT (COININDEX KIND VALUE|X)*
            let h = dec(&args[2]) as u32;
            let t = dec(&args[3]);
            let (recs, _, mut i) = recs_of(args, 5);
            let ncoins = dec(&args[i]) as usize;
            i += 1;
            let mut coins: Vec<(Bytes32, bool)> = Vec::new();
            for _ in 0..ncoins {
                coins.push((Bytes32::new(b32(&args[i])), args[i + 1] == "1"));
                i += 2;
            }
            let na = dec(&args[i]) as usize;
            i += 1;
            let mut asserts = Vec::new();
            for _ in 0..na {
                asserts.push(Assertion {
                    coin: dec(&args[i]) as usize,
                    kind: kind_of(&args[i + 1]),
                    val: if args[i + 2] == "X" { None } else { Some(args[i + 2].parse::<i128>().expect("value")) },
                });
                i += 3;
            }
            let r = match parse(dec(&args[0]) as u32, dec(&args[1]) == 1, &hx(&args[4])) {
                Err(()) => return Some("ERR-DESER".into()),
                Ok(r) => r,
            };
            // rejections the property demands regardless of the chain state
            let malformed = asserts.iter().any(|a| a.val.is_none());
            let eph_rel = asserts.iter().any(|a| a.kind.is_relative() && coins[a.coin].1);
            let state_ok = coins.iter().all(|(id, _)| match recs.get(id) {
                Some(r) => r.confirmed_block_index <= h && r.timestamp <= t,
                None => true,
            });
            let neg_rel = asserts.iter().any(|a| {
                matches!(a.kind, HeightRelative | SecondsRelative | BeforeHeightRelative | BeforeSecondsRelative)
                    && a.val.map_or(false, |v| v < 0)
            });
            let oversize_rel = asserts.iter().any(|a| {
                matches!(a.kind, HeightRelative | SecondsRelative | BeforeHeightRelative | BeforeSecondsRelative)
                    && a.val.map_or(false, |v| v > a.kind.max())
            });
            Some(match r {
                Err(e) => {
                    let code = format!("{:?}", e.error_code());
                    if malformed {
                        "OK REJECT-MALFORMED".into()
                    } else if eph_rel {
                        // relative/birth assertion on a coin created in the same bundle: must be rejected
                        "OK REJECT-EPHEMERAL".into()
                    } else if let Some((sh, st)) = satisfiable(ncoins, &asserts, true) {
                        format!("FAIL rejected-at-parse({}) but all assertions hold at h={} t={} (exact reading)", code, sh, st)
                    } else if let Some((sh, st)) = satisfiable(ncoins, &asserts, false) {
                        if oversize_rel {
                            format!("EDGE sat-oversize rejected({}) satisfiable-at h={} t={} only if sums with an oversized argument are capped", code, sh, st)
                        } else {
                            format!("FAIL rejected-at-parse({}) but all assertions hold at h={} t={} (capped reading)", code, sh, st)
                        }
                    } else if perr_class(&e) == "P-ERR:IMPOSSIBLE" {
                        "OK REJECT-IMPOSSIBLE-UNSAT".into()
                    } else {
                        "OK REJECT-UNSAT".into()
                    }
                }
                Ok(o) => {
                    if malformed {
                        return Some("FAIL accepted a bundle with a malformed lock argument".into());
                    }
                    if eph_rel {
                        return Some("FAIL accepted a relative/birth assertion on an ephemeral coin".into());
                    }
                    let verdict = check_time_locks(&recs, &o, h, t, true).is_ok();
                    let all_recs = coins.iter().all(|(id, _)| recs.contains_key(id));
                    let eval = |exact: bool| {
                        all_recs
                            && asserts.iter().all(|a| {
                                let (cbi, ts) = match recs.get(&coins[a.coin].0) {
                                    Some(r) => (r.confirmed_block_index as i128, r.timestamp as i128),
                                    None => (0, 0),
                                };
                                holds(a.kind, a.val.unwrap(), cbi, ts, h as i128, t as i128, exact)
                            })
                    };
                    let want = eval(true);
                    if verdict == want {
                        if eval(false) != want && oversize_rel {
                            format!("EDGE sat-oversize verdict={} agrees with the exact reading, differs if sums with an oversized argument are capped", verdict)
                        } else if verdict {
                            "OK ACCEPT-PASS".into()
                        } else if !all_recs {
                            "OK ACCEPT-NORECORD".into()
                        } else {
                            "OK ACCEPT-LOCKED".into()
                        }
                    } else if !state_ok && neg_rel {
                        format!("EDGE neg-rel-future-coin verdict={} definition={} (a coin confirmed after h/t with a negative relative argument)", verdict, want)
                    } else {
                        format!("FAIL check_time_locks={} but conjunction of the individual assertions={}", verdict, want)
                    }
                }
            })
        }
        _ => None,
    }
}

fn main() {
    vh::serve(run);
}
