//! stream `mset` (C12): Merkle set roots and proofs of inclusion / exclusion.
//!
//! Correspondence ops (same output format as coq/Run/MsetRun.v):
//!   mset.set NQ item*NQ leaf*     compute_merkle_set_root, from_leafs+get_root, per item generate_proof + validate
//!   mset.validate PROOF ITEM ROOT validate_merkle_proof
//!   mset.fromproof PROOF ITEM     MerkleSet::from_proof, get_root, generate_proof
//! Oracle ops (the property evaluated on the implementation alone, independent of the Coq model):
//!   mset.o_root SEED leaf*        both root computations agree, equal an independent reference trie root,
//!                                 and are invariant under permutation and duplication
//!   mset.o_proofs SEED leaf*      every honest proof validates with the right inclusion bit
//!   mset.o_mut SEED leaf*         mutated honest proofs (structural + byte level, incl. root-preserving rewrites)
//!                                 never validate against the root with the wrong bit
//!   mset.o_verdict PROOF ITEM leaf*  one candidate proof: Ok(b) against the reference root implies b == membership
//!   mset.o_exh DEPTH [SHARD NSHARDS] leaf*   all proof trees up to DEPTH over the pool (leaves, truncated sub-trie hashes)
//!                                 against the roots of all subsets of the pool and all pool items
use chia_consensus::merkle_set::compute_merkle_set_root;
use chia_consensus::merkle_tree::{validate_merkle_proof, MerkleSet};
use chia_sha2::Sha256;
use std::collections::{BTreeSet, HashMap};
use vh::util::*;

type L = [u8; 32];

fn leafs(args: &[String]) -> Vec<L> {
    args.iter().map(|s| b32(s)).collect()
}

fn vres(r: Result<bool, chia_consensus::merkle_tree::SetError>) -> String {
    match r {
        Ok(true) => "1".into(),
        Ok(false) => "0".into(),
        Err(_) => "E".into(),
    }
}

// ---------------------------------------------------------------- independent reference
const BLANK: L = [0; 32];

fn sha(parts: &[&[u8]]) -> L {
    let mut h = Sha256::new();
    for p in parts {
        h.update(p);
    }
    h.finalize()
}

fn bit(v: &L, i: usize) -> bool {
    (v[i / 8] >> (7 - (i % 8))) & 1 == 1
}

/// summary type: 0 empty, 1 terminal, 2 middle, 3 double-leaf middle
fn hash2(lt: u8, rt: u8, l: &L, r: &L) -> L {
    let enc = |t: u8| if t == 3 { 2 } else { t };
    sha(&[&[0u8; 30], &[enc(lt), enc(rt)], l, r])
}

/// the reference definition: collapsed binary trie over a sorted duplicate-free slice
fn ref_trie(set: &[L], depth: usize) -> (L, u8) {
    if set.is_empty() {
        return (BLANK, 0);
    }
    if set.len() == 1 {
        return (set[0], 1);
    }
    let split = set.iter().position(|v| bit(v, depth)).unwrap_or(set.len());
    let a = ref_trie(&set[..split], depth + 1);
    let b = ref_trie(&set[split..], depth + 1);
    join(a, b)
}

fn join(a: (L, u8), b: (L, u8)) -> (L, u8) {
    match (a.1, b.1) {
        (0, 0) => (BLANK, 0),
        (0, 2) => (hash2(0, 2, &BLANK, &b.0), 2),
        (2, 0) => (hash2(2, 0, &a.0, &BLANK), 2),
        (0, _) => b,
        (_, 0) => a,
        (1, 1) => (hash2(1, 1, &a.0, &b.0), 3),
        (_, _) => (hash2(a.1, b.1, &a.0, &b.0), 2),
    }
}

fn ref_root(set: &BTreeSet<L>) -> L {
    let v: Vec<L> = set.iter().copied().collect();
    let s = ref_trie(&v, 0);
    match s.1 {
        0 => BLANK,
        1 => sha(&[&[1u8], &s.0]),
        _ => s.0,
    }
}

struct Rng(u64);
impl Rng {
    fn next(&mut self) -> u64 {
        self.0 = self.0.wrapping_add(0x9E37_79B9_7F4A_7C15);
        let mut z = self.0;
        z = (z ^ (z >> 30)).wrapping_mul(0xBF58_476D_1CE4_E5B9);
        z = (z ^ (z >> 27)).wrapping_mul(0x94D0_49BB_1331_11EB);
        z ^ (z >> 31)
    }
    fn below(&mut self, n: usize) -> usize {
        if n == 0 {
            0
        } else {
            (self.next() % n as u64) as usize
        }
    }
    fn leaf(&mut self) -> L {
        let mut l = [0u8; 32];
        for c in l.chunks_mut(8) {
            c.copy_from_slice(&self.next().to_be_bytes());
        }
        l
    }
    fn shuffle<T>(&mut self, v: &mut [T]) {
        for i in (1..v.len()).rev() {
            let j = self.below(i + 1);
            v.swap(i, j);
        }
    }
}

fn flip(v: &L, i: usize) -> L {
    let mut r = *v;
    r[i / 8] ^= 0x80 >> (i % 8);
    r
}

/// items to query: every member, members with one bit flipped at boundary positions, random values
fn query_items(set: &BTreeSet<L>, rng: &mut Rng, per_member: usize) -> Vec<L> {
    let mut out: Vec<L> = set.iter().copied().collect();
    for m in set.iter() {
        for i in [0usize, 1, 7, 8, 127, 254, 255] {
            out.push(flip(m, i));
        }
        for _ in 0..per_member {
            let i = rng.below(256);
            out.push(flip(m, i));
        }
    }
    for _ in 0..4 {
        out.push(rng.leaf());
    }
    out.push([0; 32]);
    out.push([0xff; 32]);
    out
}

// ---------------------------------------------------------------- proof trees (harness side only)
#[derive(Clone, PartialEq, Eq, Hash)]
enum PT {
    E,
    T(L),
    X(L),
    M(Box<PT>, Box<PT>),
}

fn parse(b: &[u8], pos: &mut usize, depth: usize) -> Option<PT> {
    if depth > 300 || *pos >= b.len() {
        return None;
    }
    let t = b[*pos];
    *pos += 1;
    match t {
        0 => Some(PT::E),
        1 | 3 => {
            if *pos + 32 > b.len() {
                return None;
            }
            let mut h = [0u8; 32];
            h.copy_from_slice(&b[*pos..*pos + 32]);
            *pos += 32;
            Some(if t == 1 { PT::T(h) } else { PT::X(h) })
        }
        2 => {
            let l = parse(b, pos, depth + 1)?;
            let r = parse(b, pos, depth + 1)?;
            Some(PT::M(Box::new(l), Box::new(r)))
        }
        _ => None,
    }
}

fn ser(t: &PT, out: &mut Vec<u8>) {
    match t {
        PT::E => out.push(0),
        PT::T(h) => {
            out.push(1);
            out.extend_from_slice(h);
        }
        PT::X(h) => {
            out.push(3);
            out.extend_from_slice(h);
        }
        PT::M(l, r) => {
            out.push(2);
            ser(l, out);
            ser(r, out);
        }
    }
}

/// reference evaluation of a proof tree (hash, type) with the collapsing rule for double-leaf chains
fn summary(t: &PT) -> (L, u8) {
    match t {
        PT::E => (BLANK, 0),
        PT::T(h) => (*h, 1),
        PT::X(h) => (*h, 2),
        PT::M(l, r) => {
            let a = summary(l);
            let b = summary(r);
            match (a.1, b.1) {
                (0, 3) => b,
                (3, 0) => a,
                (1, 1) => (hash2(1, 1, &a.0, &b.0), 3),
                _ => (hash2(a.1, b.1, &a.0, &b.0), 2),
            }
        }
    }
}

fn paths(t: &PT, cur: &mut Vec<bool>, out: &mut Vec<Vec<bool>>) {
    out.push(cur.clone());
    if let PT::M(l, r) = t {
        cur.push(false);
        paths(l, cur, out);
        cur.pop();
        cur.push(true);
        paths(r, cur, out);
        cur.pop();
    }
}

fn at<'a>(t: &'a PT, p: &[bool]) -> &'a PT {
    match (t, p.split_first()) {
        (PT::M(l, r), Some((b, rest))) => at(if *b { r } else { l }, rest),
        _ => t,
    }
}

fn replace(t: &PT, p: &[bool], new: &PT) -> PT {
    match (t, p.split_first()) {
        (PT::M(l, r), Some((b, rest))) => {
            if *b {
                PT::M(l.clone(), Box::new(replace(r, rest, new)))
            } else {
                PT::M(Box::new(replace(l, rest, new)), r.clone())
            }
        }
        _ => new.clone(),
    }
}

/// structural mutants of the node at path p
fn mutants_at(t: &PT, p: &[bool], set: &[L], rng: &mut Rng) -> Vec<PT> {
    let n = at(t, p);
    let mut subs: Vec<PT> = Vec::new();
    let s = summary(n);
    match n {
        PT::M(l, r) => {
            subs.push(PT::M(r.clone(), l.clone())); // swap sides (root preserving on collapsed chains)
            subs.push((**l).clone()); // drop a level
            subs.push((**r).clone());
            subs.push(PT::X(s.0)); // truncate here (root preserving when the node is a plain middle)
            subs.push(PT::T(s.0));
            subs.push(PT::M(Box::new(PT::E), Box::new(n.clone()))); // insert a one-sided level
            subs.push(PT::M(Box::new(n.clone()), Box::new(PT::E)));
            subs.push(PT::M(l.clone(), Box::new(PT::E)));
            subs.push(PT::M(Box::new(PT::E), r.clone()));
        }
        PT::T(h) => {
            subs.push(PT::E);
            subs.push(PT::X(*h));
            for _ in 0..2 {
                if !set.is_empty() {
                    subs.push(PT::T(set[rng.below(set.len())]));
                }
            }
            subs.push(PT::T(flip(h, rng.below(256))));
            subs.push(PT::T(flip(h, 255)));
            subs.push(PT::M(Box::new(PT::E), Box::new(n.clone())));
            subs.push(PT::M(Box::new(n.clone()), Box::new(PT::E)));
            subs.push(PT::M(Box::new(n.clone()), Box::new(n.clone())));
        }
        PT::X(h) => {
            subs.push(PT::E);
            subs.push(PT::T(*h));
            subs.push(PT::X(flip(h, rng.below(256))));
            subs.push(PT::M(Box::new(PT::E), Box::new(n.clone())));
        }
        PT::E => {
            subs.push(PT::T(rng.leaf()));
            if !set.is_empty() {
                subs.push(PT::T(set[rng.below(set.len())]));
            }
            subs.push(PT::X(BLANK));
            subs.push(PT::M(Box::new(PT::E), Box::new(PT::E)));
        }
    }
    subs.into_iter().map(|s| replace(t, p, &s)).collect()
}

/// the property for one candidate proof: Ok(b) against root(S) implies b == (item in S)
fn check_candidate(proof: &[u8], items: &[L], set: &BTreeSet<L>, root: &L, acc: &mut (u64, u64)) -> Result<(), String> {
    for it in items {
        acc.0 += 1;
        if let Ok(b) = validate_merkle_proof(proof, it, root) {
            acc.1 += 1;
            if b != set.contains(it) {
                return Err(format!(
                    "FAIL wrong-verdict proof={} item={} root={} said={} member={}",
                    hexo(proof),
                    hexo(it),
                    hexo(root),
                    b,
                    set.contains(it)
                ));
            }
        }
    }
    Ok(())
}

fn o_root(seed: u64, ls: &[L]) -> String {
    let mut rng = Rng(seed);
    let set: BTreeSet<L> = ls.iter().copied().collect();
    let want = ref_root(&set);
    let mut a = ls.to_vec();
    let r0 = compute_merkle_set_root(&mut a);
    if r0 != want {
        return format!("FAIL compute_merkle_set_root {} != reference {}", hexo(&r0), hexo(&want));
    }
    let mut b = ls.to_vec();
    let r1 = MerkleSet::from_leafs(&mut b).get_root();
    if r1 != want {
        return format!("FAIL from_leafs.get_root {} != reference {}", hexo(&r1), hexo(&want));
    }
    for round in 0..6 {
        let mut v: Vec<L> = set.iter().copied().collect();
        // duplicates: none, a few, many
        let dups = match round % 3 {
            0 => 0,
            1 => 1 + rng.below(3),
            _ => v.len() + rng.below(4),
        };
        if !v.is_empty() {
            for _ in 0..dups {
                let x = v[rng.below(v.len())];
                v.push(x);
            }
        }
        match round {
            0 => {}            // sorted
            1 => v.reverse(),  // reverse sorted (after appending duplicates)
            _ => rng.shuffle(&mut v),
        }
        let mut c = v.clone();
        let r2 = compute_merkle_set_root(&mut c);
        let mut d = v.clone();
        let r3 = MerkleSet::from_leafs(&mut d).get_root();
        if r2 != want || r3 != want {
            let order: Vec<String> = v.iter().map(|x| hexo(x)).collect();
            return format!("FAIL order/duplicate dependence root={} tree_root={} want={} order={}", hexo(&r2), hexo(&r3), hexo(&want), order.join(","));
        }
    }
    "OK".into()
}

fn o_proofs(seed: u64, ls: &[L]) -> String {
    let mut rng = Rng(seed);
    let set: BTreeSet<L> = ls.iter().copied().collect();
    let mut a = ls.to_vec();
    let tree = MerkleSet::from_leafs(&mut a);
    let root = tree.get_root();
    let items = query_items(&set, &mut rng, 2);
    let mut n = 0u64;
    for it in &items {
        let member = set.contains(it);
        let (incl, proof) = match tree.generate_proof(it) {
            Ok(x) => x,
            Err(_) => return format!("FAIL generate_proof failed item={}", hexo(it)),
        };
        if incl != member {
            return format!("FAIL generate_proof inclusion flag {} member={} item={}", incl, member, hexo(it));
        }
        match validate_merkle_proof(&proof, it, &root) {
            Ok(b) if b == member => {}
            other => {
                return format!("FAIL honest proof: validate={} member={} item={} proof={}", vres(other), member, hexo(it), hexo(&proof));
            }
        }
        // the same proof presented for other items must never give a wrong verdict
        // (all items for small sets; a seeded sample of 64 for large ones: the check is quadratic)
        let mut acc = (0, 0);
        let r = if items.len() <= 700 {
            check_candidate(&proof, &items, &set, &root, &mut acc)
        } else {
            let sample: Vec<L> = (0..64).map(|_| items[rng.below(items.len())]).collect();
            check_candidate(&proof, &sample, &set, &root, &mut acc)
        };
        if let Err(e) = r {
            return e;
        }
        n += 1;
    }
    format!("OK {}", n)
}

fn o_mut(seed: u64, ls: &[L]) -> String {
    let mut rng = Rng(seed);
    let set: BTreeSet<L> = ls.iter().copied().collect();
    let sv: Vec<L> = set.iter().copied().collect();
    let mut a = ls.to_vec();
    let tree = MerkleSet::from_leafs(&mut a);
    let root = tree.get_root();
    let all_items = query_items(&set, &mut rng, 0);
    let mut acc = (0u64, 0u64);
    let mut mutants = 0u64;
    // proofs for up to 6 members and 6 non-members
    let mut targets: Vec<L> = Vec::new();
    let mut k = sv.clone();
    rng.shuffle(&mut k);
    targets.extend(k.iter().take(6));
    targets.extend(all_items.iter().filter(|x| !set.contains(*x)).take(6));
    for x in &targets {
        let proof = match tree.generate_proof(x) {
            Ok((_, p)) => p,
            Err(_) => return format!("FAIL generate_proof failed item={}", hexo(x)),
        };
        let mut pos = 0;
        let pt = match parse(&proof, &mut pos, 0) {
            Some(t) if pos == proof.len() => t,
            _ => return format!("FAIL honest proof does not parse item={} proof={}", hexo(x), hexo(&proof)),
        };
        // items checked against each mutant: the target, its neighbours, all members (bounded)
        let mut items: Vec<L> = vec![*x, flip(x, 255), flip(x, 0)];
        items.extend(sv.iter().take(12));
        let mut ps = Vec::new();
        paths(&pt, &mut Vec::new(), &mut ps);
        if ps.len() > 48 {
            // deep collapsed chains: the first and last levels plus a random sample
            let mut keep: Vec<Vec<bool>> = ps.iter().take(8).cloned().collect();
            keep.extend(ps.iter().rev().take(16).cloned());
            for _ in 0..24 {
                keep.push(ps[rng.below(ps.len())].clone());
            }
            ps = keep;
        }
        let mut cands: Vec<Vec<u8>> = Vec::new();
        for p in &ps {
            for m in mutants_at(&pt, p, &sv, &mut rng) {
                let mut b = Vec::new();
                ser(&m, &mut b);
                cands.push(b);
            }
        }
        // byte level
        for _ in 0..24 {
            let mut b = proof.clone();
            if b.is_empty() {
                break;
            }
            let i = rng.below(b.len());
            b[i] ^= 1 << rng.below(8);
            cands.push(b);
        }
        for t in 0..4u8 {
            let mut b = proof.clone();
            b.push(t);
            cands.push(b);
            let mut b = proof.clone();
            if !b.is_empty() {
                b[0] = t;
                cands.push(b);
            }
        }
        for cut in [1usize, 2, 33, 34] {
            if proof.len() > cut {
                cands.push(proof[..proof.len() - cut].to_vec());
                cands.push(proof[cut..].to_vec());
            }
        }
        for c in &cands {
            mutants += 1;
            if let Err(e) = check_candidate(c, &items, &set, &root, &mut acc) {
                return e;
            }
        }
    }
    format!("OK mutants={} validations={} accepted={}", mutants, acc.0, acc.1)
}

fn trie_hashes(set: &[L], depth: usize, out: &mut BTreeSet<L>) {
    // hashes of all middle-typed sub-tries (what an honest proof may carry as TRUNCATED)
    if set.len() < 2 {
        return;
    }
    let s = ref_trie(set, depth);
    out.insert(s.0);
    let split = set.iter().position(|v| bit(v, depth)).unwrap_or(set.len());
    trie_hashes(&set[..split], depth + 1, out);
    trie_hashes(&set[split..], depth + 1, out);
}

/// all proof trees of nesting <= depth over the atoms (Empty, pool leaves, truncated sub-trie hashes, a junk
/// truncated hash).  The last level (pairs of trees of nesting < depth) is never materialised: pair number k is
/// handled by the line with k % nshards == shard, so the enumeration can be spread over many lines.
/// Answers UNCHECKED (not a failure) if the share of this line exceeds the work limit.
fn o_exh(depth: u64, shard: u64, nshards: u64, pool: &[L]) -> String {
    let pool: Vec<L> = pool.iter().copied().collect::<BTreeSet<L>>().into_iter().collect();
    let n = pool.len();
    if n > 5 || nshards == 0 || shard >= nshards {
        return "FAIL bad o_exh arguments".into();
    }
    // roots of all subsets
    let mut subsets: Vec<(BTreeSet<L>, L)> = Vec::new();
    let mut by_root: HashMap<L, Vec<usize>> = HashMap::new();
    let mut trunc: BTreeSet<L> = BTreeSet::new();
    for mask in 0..(1u32 << n) {
        let s: BTreeSet<L> = (0..n).filter(|i| mask >> i & 1 == 1).map(|i| pool[i]).collect();
        let mut v: Vec<L> = s.iter().copied().collect();
        trie_hashes(&v, 0, &mut trunc);
        let r = compute_merkle_set_root(&mut v);
        if r != ref_root(&s) {
            return format!("FAIL root of subset {} differs from the reference", mask);
        }
        by_root.entry(r).or_default().push(subsets.len());
        subsets.push((s, r));
    }
    let mut atoms: Vec<PT> = vec![PT::E];
    atoms.extend(pool.iter().map(|l| PT::T(*l)));
    atoms.extend(trunc.iter().map(|h| PT::X(*h)));
    atoms.push(PT::X(BLANK));
    // serialised trees of nesting < depth
    let mut level: Vec<Vec<u8>> = atoms
        .iter()
        .map(|t| {
            let mut b = Vec::new();
            ser(t, &mut b);
            b
        })
        .collect();
    let atom_ser = level.clone();
    for _ in 1..depth {
        if level.len() > 4000 {
            return format!("UNCHECKED enumeration too large (inner level {})", level.len());
        }
        let mut next = atom_ser.clone();
        for a in &level {
            for b in &level {
                let mut m = Vec::with_capacity(1 + a.len() + b.len());
                m.push(2);
                m.extend_from_slice(a);
                m.extend_from_slice(b);
                next.push(m);
            }
        }
        level = next;
    }
    let pairs = if depth == 0 { 0 } else { (level.len() as u64) * (level.len() as u64) };
    if pairs / nshards > 12_000_000 {
        return format!("UNCHECKED share too large ({} pairs over {} shards)", pairs, nshards);
    }
    let items: Vec<L> = pool.clone();
    let mut acc = (0u64, 0u64);
    let mut parsed = 0u64;
    let mut matched = 0u64;
    let mut trees = 0u64;
    let mut one = |b: &[u8]| -> Result<(), String> {
        trees += 1;
        let Ok(tree) = MerkleSet::from_proof(b) else { return Ok(()) };
        parsed += 1;
        let r = tree.get_root();
        if let Some(ix) = by_root.get(&r) {
            matched += 1;
            for i in ix {
                check_candidate(b, &items, &subsets[*i].0, &r, &mut acc)?;
            }
        }
        Ok(())
    };
    if shard == 0 {
        for a in &atom_ser {
            if let Err(e) = one(a) {
                return e;
            }
        }
    }
    if depth > 0 {
        let len = level.len() as u64;
        let mut buf: Vec<u8> = Vec::new();
        let mut k = shard;
        while k < pairs {
            let (ia, ib) = ((k / len) as usize, (k % len) as usize);
            buf.clear();
            buf.push(2);
            buf.extend_from_slice(&level[ia]);
            buf.extend_from_slice(&level[ib]);
            if let Err(e) = one(&buf) {
                return e;
            }
            k += nshards;
        }
    }
    format!("OK trees={} parsed={} root_matches={} validations={} accepted={}", trees, parsed, matched, acc.0, acc.1)
}

fn run(name: &str, args: &[String]) -> Option<String> {
    match name {
        "mset.set" => {
            let nq = dec(&args[0]) as usize;
            let items = leafs(&args[1..1 + nq]);
            let ls = leafs(&args[1 + nq..]);
            let mut a = ls.clone();
            let root = compute_merkle_set_root(&mut a);
            let mut b = ls.clone();
            let tree = MerkleSet::from_leafs(&mut b);
            let mut out = vec![hexo(&root), hexo(&tree.get_root())];
            for it in &items {
                match tree.generate_proof(it) {
                    Ok((incl, proof)) => {
                        out.push(format!("{}:{}", u8::from(incl), hexo(&proof)));
                        out.push(vres(validate_merkle_proof(&proof, it, &root)));
                    }
                    Err(_) => {
                        out.push("E".into());
                        out.push("-".into());
                    }
                }
            }
            Some(out.join(" "))
        }
        "mset.validate" => {
            let proof = hx(&args[0]);
            Some(vres(validate_merkle_proof(&proof, &b32(&args[1]), &b32(&args[2]))))
        }
        "mset.fromproof" => {
            let proof = hx(&args[0]);
            let item = b32(&args[1]);
            Some(match MerkleSet::from_proof(&proof) {
                Err(_) => "E".into(),
                Ok(t) => {
                    let g = match t.generate_proof(&item) {
                        Ok((incl, p)) => format!("{}:{}", u8::from(incl), hexo(&p)),
                        Err(_) => "E".into(),
                    };
                    format!("{} {}", hexo(&t.get_root()), g)
                }
            })
        }
        "mset.o_root" => Some(o_root(dec(&args[0]), &leafs(&args[1..]))),
        "mset.o_proofs" => Some(o_proofs(dec(&args[0]), &leafs(&args[1..]))),
        "mset.o_mut" => Some(o_mut(dec(&args[0]), &leafs(&args[1..]))),
        "mset.o_exh" => {
            // DEPTH leaf*   or   DEPTH SHARD NSHARDS leaf*  (leaves are 64 hex digits, shard numbers are short)
            if args.len() >= 3 && args[1].len() < 64 && args[2].len() < 64 {
                Some(o_exh(dec(&args[0]), dec(&args[1]), dec(&args[2]), &leafs(&args[3..])))
            } else {
                Some(o_exh(dec(&args[0]), 0, 1, &leafs(&args[1..])))
            }
        }
        "mset.o_verdict" => {
            // PROOF ITEM leaf* : one candidate proof against the (reference) root of the set
            let proof = hx(&args[0]);
            let item = b32(&args[1]);
            let set: BTreeSet<L> = leafs(&args[2..]).into_iter().collect();
            let root = ref_root(&set);
            let mut acc = (0, 0);
            Some(match check_candidate(&proof, &[item], &set, &root, &mut acc) {
                Ok(()) => "OK".into(),
                Err(e) => e,
            })
        }
        _ => None,
    }
}

fn main() {
    vh::serve(run);
}
