//! stream `bundle` (C08, C10): run_spendbundle / validate_clvm_and_signature, solution_generator(+backrefs),
//! calculate_generator_length, both block builders, run_block_generator2 on what they emit.
//!
//! Data formats (one token each, no spaces):
//!   SPENDS   `-` | spend{,spend}      spend  = parenthex:phhex:amountdec:puzzlehex:solutionhex
//!   SIG      `-` (identity) | kN (sign(sk_of(N), "m")) | 96-byte hex
//!   ATTEMPTS `-` | attempt{/attempt}  attempt = COST@SIZE@BUNDLES   BUNDLES = `-` | bundle{;bundle}   bundle = SIG!SPENDS
//!            (SIZE is the serializer-size oracle for the Coq model, ignored here)
use chia_bls::{aggregate_verify, sign, PublicKey, SecretKey, Signature};
use chia_consensus::allocator::make_allocator;
use chia_consensus::build_compressed_block::BlockBuilder;
use chia_consensus::build_interned_block::InternedBlockBuilder;
use chia_consensus::consensus_constants::{ConsensusConstants, TEST_CONSTANTS};
use chia_consensus::flags::ConsensusFlags;
use chia_consensus::generator_cost::interned_vbytes;
use chia_consensus::owned_conditions::{OwnedSpendBundleConditions, OwnedSpendConditions};
use chia_consensus::run_block_generator::run_block_generator2;
use chia_consensus::solution_generator::{calculate_generator_length, solution_generator, solution_generator_backrefs};
use chia_consensus::spendbundle_conditions::run_spendbundle;
use chia_consensus::spendbundle_validation::validate_clvm_and_signature;
use chia_consensus::validation_error::ValidationErr;
use chia_protocol::{Bytes, Bytes32, Coin, CoinSpend, Program, SpendBundle};
use clvm_utils::tree_hash;
use clvmr::chia_dialect::ChiaDialect;
use clvmr::reduction::Reduction;
use clvmr::run_program::run_program;
use clvmr::serde::{intern_tree, node_from_bytes, node_from_bytes_backrefs, node_to_bytes, Serializer};
use clvmr::{Allocator, NodePtr, SExp};
use std::panic::{catch_unwind, AssertUnwindSafe};
use vh::util::*;

// ---------------------------------------------------------------- rendering (format of vh_cond::render_bundle)
fn optn<T: std::fmt::Display>(o: &Option<T>) -> String {
    match o {
        Some(v) => format!("{}", v),
        None => "-".into(),
    }
}
fn items(v: Vec<String>) -> String {
    if v.is_empty() {
        "-".into()
    } else {
        v.join(",")
    }
}
fn pm(v: &[(PublicKey, Bytes)]) -> String {
    items(v.iter().map(|(pk, m)| format!("{}:{}", hex::encode(pk.to_bytes()), hexo(m.as_ref()))).collect())
}
fn render_spend(s: &OwnedSpendConditions) -> String {
    let mut coins: Vec<Vec<u8>> = s
        .create_coin
        .iter()
        .map(|(ph, amt, hint)| {
            format!(
                "{}:{}:{}",
                hex::encode(ph),
                hex::encode(amt.to_be_bytes()),
                match hint {
                    Some(h) => hexo(h.as_ref()),
                    None => "-".into(),
                }
            )
            .into_bytes()
        })
        .collect();
    coins.sort();
    let coins: Vec<String> = coins.into_iter().map(|c| String::from_utf8(c).unwrap()).collect();
    [
        hex::encode(s.coin_id),
        hex::encode(s.parent_id),
        hex::encode(s.puzzle_hash),
        format!("{}", s.coin_amount),
        optn(&s.height_relative),
        optn(&s.seconds_relative),
        optn(&s.before_height_relative),
        optn(&s.before_seconds_relative),
        optn(&s.birth_height),
        optn(&s.birth_seconds),
        format!("{}", s.flags),
        format!("{}", s.execution_cost),
        format!("{}", s.condition_cost),
        items(coins),
        pm(&s.agg_sig_me),
        pm(&s.agg_sig_parent),
        pm(&s.agg_sig_puzzle),
        pm(&s.agg_sig_amount),
        pm(&s.agg_sig_puzzle_amount),
        pm(&s.agg_sig_parent_amount),
        pm(&s.agg_sig_parent_puzzle),
    ]
    .join(";")
}
fn render_bundle(o: &OwnedSpendBundleConditions, pairs: &str) -> String {
    let spends: Vec<String> = o.spends.iter().map(render_spend).collect();
    format!(
        "OK cost={} rf={} ha={} sa={} bha={} bsa={} rem={} add={} cc={} ec={} unsafe={} spends={} pairs={}",
        o.cost,
        o.reserve_fee,
        o.height_absolute,
        o.seconds_absolute,
        optn(&o.before_height_absolute),
        optn(&o.before_seconds_absolute),
        o.removal_amount,
        o.addition_amount,
        o.condition_cost,
        o.execution_cost,
        pm(&o.agg_sig_unsafe),
        if spends.is_empty() { "-".to_string() } else { spends.join("|") },
        pairs
    )
}
fn err_name(e: &ValidationErr) -> String {
    format!("ERR {:?}", e.error_code())
}

// ---------------------------------------------------------------- parsing of case tokens
fn sk_of(i: u64) -> SecretKey {
    let mut seed = [0_u8; 32];
    seed[0..8].copy_from_slice(&i.to_be_bytes());
    seed[31] = 0x5a;
    SecretKey::from_seed(&seed)
}

fn parse_spends(tok: &str) -> Vec<CoinSpend> {
    if tok == "-" {
        return vec![];
    }
    tok.split(',')
        .map(|s| {
            let f: Vec<&str> = s.split(':').collect();
            assert!(f.len() == 5, "spend fields");
            let coin = Coin::new(Bytes32::new(b32(f[0])), Bytes32::new(b32(f[1])), dec(f[2]));
            CoinSpend::new(coin, Program::from(hx(f[3])), Program::from(hx(f[4])))
        })
        .collect()
}

fn parse_sig(tok: &str) -> Signature {
    if tok == "-" {
        Signature::default()
    } else if let Some(n) = tok.strip_prefix('k') {
        sign(&sk_of(n.parse().expect("key index")), b"m")
    } else {
        Signature::from_bytes(hx(tok).as_slice().try_into().expect("96 bytes")).expect("signature encoding")
    }
}

struct Attempt {
    cost: u64,
    bundles: Vec<SpendBundle>,
    ids: Vec<Option<u64>>, // kN ids of the bundles' signatures (None = identity / raw)
}

fn parse_attempts(tok: &str) -> Vec<Attempt> {
    if tok == "-" {
        return vec![];
    }
    tok.split('/')
        .map(|a| {
            let f: Vec<&str> = a.split('@').collect();
            assert!(f.len() == 3, "attempt fields");
            let mut bundles = vec![];
            let mut ids = vec![];
            if f[2] != "-" {
                for b in f[2].split(';') {
                    let (s, sp) = b.split_once('!').expect("bundle");
                    ids.push(s.strip_prefix('k').map(|n| n.parse().unwrap()));
                    bundles.push(SpendBundle::new(parse_spends(sp), parse_sig(s)));
                }
            }
            Attempt { cost: dec(f[0]), bundles, ids }
        })
        .collect()
}

fn consts_of(b: &[u8], cpb: u64, max_block: u64) -> ConsensusConstants {
    let mut k = TEST_CONSTANTS.clone();
    if b.len() == 7 * 32 {
        let c = |i: usize| Bytes32::new(b[i * 32..(i + 1) * 32].try_into().unwrap());
        k.agg_sig_me_additional_data = c(0);
        k.agg_sig_parent_additional_data = c(1);
        k.agg_sig_puzzle_additional_data = c(2);
        k.agg_sig_amount_additional_data = c(3);
        k.agg_sig_puzzle_amount_additional_data = c(4);
        k.agg_sig_parent_amount_additional_data = c(5);
        k.agg_sig_parent_puzzle_additional_data = c(6);
    }
    k.cost_per_byte = cpb;
    k.max_block_cost_clvm = max_block;
    k
}

fn triples(spends: &[CoinSpend]) -> impl Iterator<Item = (Coin, &[u8], &[u8])> {
    spends.iter().map(|s| (s.coin, s.puzzle_reveal.as_slice(), s.solution.as_slice()))
}

/// is this binary compiled with overflow checks?
fn overflow_checked() -> bool {
    catch_unwind(|| {
        let x: u8 = std::hint::black_box(255);
        let y: u8 = std::hint::black_box(1);
        std::hint::black_box(x + y)
    })
    .is_err()
}

// ---------------------------------------------------------------- generators by mode
const HUGE: u64 = 1 << 62;

/// p = solution_generator, b = solution_generator_backrefs, c = BlockBuilder (one add), i = InternedBlockBuilder
fn build_gen(mode: &str, bundle: &SpendBundle, cpb: u64) -> Result<Vec<u8>, String> {
    let k = consts_of(&[], cpb, HUGE);
    match mode {
        "p" => solution_generator(triples(&bundle.coin_spends)).map_err(|_| "ERR-BUILD".to_string()),
        "b" => solution_generator_backrefs(triples(&bundle.coin_spends)).map_err(|_| "ERR-BUILD".to_string()),
        "c" => {
            let mut b = BlockBuilder::new().map_err(|_| "ERR-BUILD".to_string())?;
            let (added, _) = b.add_spend_bundles([bundle], 0, &k).map_err(|_| "ERR-BUILD".to_string())?;
            if !added {
                return Err("ERR-NOT-ADDED".into());
            }
            let (g, _, _) = b.finalize(&k).map_err(|_| "ERR-BUILD".to_string())?;
            Ok(g)
        }
        "i" => {
            let mut b = InternedBlockBuilder::new(&k);
            let (added, _) = b.add_spend_bundles([bundle], 0).map_err(|_| "ERR-BUILD".to_string())?;
            if !added {
                return Err("ERR-NOT-ADDED".into());
            }
            let (g, _, _) = b.finalize().map_err(|_| "ERR-BUILD".to_string())?;
            Ok(g)
        }
        _ => Err("ERR-MODE".into()),
    }
}

fn plain_of(gen: &[u8]) -> Option<Vec<u8>> {
    let mut a = Allocator::new();
    let n = node_from_bytes_backrefs(&mut a, gen).ok()?;
    node_to_bytes(&a, n).ok()
}

fn collect_keys(a: &Allocator, n: NodePtr, out: &mut Vec<Vec<u8>>) {
    let mut stack = vec![n];
    let mut budget = 2_000_000;
    while let Some(x) = stack.pop() {
        budget -= 1;
        if budget == 0 {
            return;
        }
        match a.sexp(x) {
            SExp::Pair(l, r) => {
                stack.push(r);
                stack.push(l);
            }
            SExp::Atom => {
                if a.atom_len(x) == 48 {
                    let v = a.atom(x).as_ref().to_vec();
                    if !out.contains(&v) {
                        out.push(v);
                    }
                }
            }
        }
    }
}

fn key_valid(b: &[u8]) -> bool {
    match <[u8; 48]>::try_from(b) {
        Ok(arr) => match PublicKey::from_bytes(&arr) {
            Ok(pk) => !pk.is_inf(),
            Err(_) => false,
        },
        Err(_) => false,
    }
}

// ---------------------------------------------------------------- conditions normalised for the relational oracle
const HAS_RELATIVE_CONDITION: u32 = 2;

fn normalised(o: &OwnedSpendBundleConditions) -> Vec<String> {
    // everything the property calls "the same conditions": per-spend summaries (visitor-only flag bits and
    // per-path execution cost cleared, create_coin as a set), sorted by coin id, plus the bundle-level fields
    let mut o = o.clone();
    for s in &mut o.spends {
        s.flags &= HAS_RELATIVE_CONDITION;
        s.fingerprint = Bytes::default();
        s.create_coin.sort();
    }
    o.spends.sort_by_key(|s| s.coin_id);
    let mut v: Vec<String> = o.spends.iter().map(render_spend).collect();
    let mut u: Vec<String> = o.agg_sig_unsafe.iter().map(|(pk, m)| format!("{}:{}", hex::encode(pk.to_bytes()), hexo(m.as_ref()))).collect();
    u.sort();
    v.push(format!(
        "rf={} ha={} sa={} bha={} bsa={} rem={} add={} cc={} unsafe={}",
        o.reserve_fee,
        o.height_absolute,
        o.seconds_absolute,
        optn(&o.before_height_absolute),
        optn(&o.before_seconds_absolute),
        o.removal_amount,
        o.addition_amount,
        o.condition_cost,
        items(u)
    ));
    v
}

fn canonical_plain(b: &[u8]) -> bool {
    let mut a = Allocator::new();
    match node_from_bytes(&mut a, b) {
        Ok(n) => match node_to_bytes(&a, n) {
            Ok(v) => v == b,
            Err(_) => false,
        },
        Err(_) => false,
    }
}

fn hashes_match(spends: &[CoinSpend]) -> bool {
    spends.iter().all(|s| {
        let mut a = Allocator::new();
        match node_from_bytes(&mut a, s.puzzle_reveal.as_slice()) {
            Ok(n) => {
                let h: [u8; 32] = tree_hash(&a, n).into();
                s.coin.puzzle_hash.as_ref() == h
            }
            Err(_) => false,
        }
    })
}

/// the C08 property on the implementation alone
fn oracle_c08(flags: ConsensusFlags, max_cost: u64, k: &ConsensusConstants, bundle: &SpendBundle) -> String {
    let spends = &bundle.coin_spends;
    if !spends.iter().all(|s| canonical_plain(s.puzzle_reveal.as_slice()) && canonical_plain(s.solution.as_slice())) {
        return "OK skip-noncanonical".into();
    }
    if !hashes_match(spends) {
        return "OK skip-hash".into();
    }
    let cpb = k.cost_per_byte;
    let plain = match solution_generator(triples(spends)) {
        Ok(g) => g,
        Err(_) => return "FAIL solution_generator failed on canonical reveals".into(),
    };
    let predicted = calculate_generator_length(spends);
    if predicted != plain.len() {
        return format!("FAIL length predicted={} actual={}", predicted, plain.len());
    }
    let interned = flags.contains(ConsensusFlags::INTERNED_GENERATOR);
    let base_m: u128 = if interned {
        let mut a = Allocator::new();
        let n = node_from_bytes(&mut a, &plain).unwrap();
        interned_vbytes(&intern_tree(&a, n).unwrap()) as u128 * cpb as u128
    } else {
        (plain.len() as u128 - 2) * cpb as u128
    };
    // mempool path
    let mut a = make_allocator(ConsensusFlags::LIMIT_HEAP);
    let m = run_spendbundle(&mut a, bundle, max_cost, flags, k);
    let m_owned = match m {
        Ok((c, pairs)) => {
            let sig_ok = aggregate_verify(&bundle.aggregated_signature, pairs.iter().map(|(pk, msg)| (pk, msg.as_ref())));
            Some((OwnedSpendBundleConditions::from(&a, c), sig_ok))
        }
        Err(_) => None,
    };
    let v = validate_clvm_and_signature(bundle, max_cost, k, flags);
    // with DONT_VALIDATE_SIGNATURE the mempool entry point is get_conditions_from_spendbundle (no signature check)
    let dont_validate = flags.contains(ConsensusFlags::DONT_VALIDATE_SIGNATURE);
    let m_accept = if dont_validate { m_owned.is_some() } else { match (&m_owned, &v) {
        (Some((_, ok)), Ok(_)) if *ok => true,
        (Some((_, ok)), Err(_)) if !*ok => false,
        (None, Err(_)) => false,
        _ => return "FAIL validate_clvm_and_signature disagrees with run_spendbundle + aggregate_verify".into(),
    } };
    if (max_cost as u128) < base_m {
        return if m_owned.is_none() { "OK below-base".into() } else { "FAIL accepted below the base cost".into() };
    }
    let mut notes = vec![];
    for mode in ["p", "b", "c", "i"] {
        let gen = match build_gen(mode, bundle, cpb) {
            Ok(g) => g,
            Err(e) => return format!("FAIL mode {} could not build the generator: {}", mode, e),
        };
        if mode != "p" && plain_of(&gen).as_deref() != Some(&plain[..]) {
            return format!("FAIL mode {} generator does not decode to the plain generator's tree", mode);
        }
        let base_b: u128 = if interned { base_m } else { gen.len() as u128 * cpb as u128 };
        let overhead: i128 = base_b as i128 + 20 - base_m as i128;
        if mode == "p" {
            let want: i128 = if interned { 20 } else { 20 + 2 * cpb as i128 };
            if overhead != want {
                return format!("FAIL wrapper overhead {} != {}", overhead, want);
            }
        }
        let max_b = max_cost as i128 + overhead;
        if max_b < 0 || max_b > u64::MAX as i128 {
            notes.push(format!("{}:skip-limit", mode));
            continue;
        }
        let r = run_block_generator2::<&[u8], _>(&gen, [], max_b as u64, flags, &bundle.aggregated_signature, None, k);
        match (r, &m_owned) {
            (Ok((ba, c)), Some((mo, _))) => {
                if !m_accept {
                    return format!("FAIL mode {} block path accepts, mempool path rejects (signature)", mode);
                }
                let bo = OwnedSpendBundleConditions::from(&ba, c);
                if normalised(&bo) != normalised(mo) {
                    return format!("FAIL mode {} conditions differ between mempool path and block path", mode);
                }
                if bo.cost as i128 - mo.cost as i128 != overhead {
                    return format!("FAIL mode {} cost_block {} - cost_bundle {} != overhead {}", mode, bo.cost, mo.cost, overhead);
                }
                if bo.execution_cost != mo.execution_cost + 20 {
                    return format!("FAIL mode {} execution cost {} != {} + 20", mode, bo.execution_cost, mo.execution_cost);
                }
            }
            (Err(_), None) => {}
            (Err(e), Some(_)) => {
                if m_accept {
                    return format!("FAIL mode {} block path rejects ({:?}), mempool path accepts", mode, e.error_code());
                }
            }
            (Ok(_), None) => return format!("FAIL mode {} block path accepts, mempool path rejects", mode),
        }
    }
    format!("OK {}{}", if m_accept { "accept" } else { "reject" }, if notes.is_empty() { String::new() } else { format!(" {}", notes.join(",")) })
}

// ---------------------------------------------------------------- builders
enum Bld {
    C(BlockBuilder),
    I(InternedBlockBuilder),
}

impl Bld {
    fn new(kind: &str, k: &ConsensusConstants) -> Bld {
        if kind == "c" {
            Bld::C(BlockBuilder::new().expect("BlockBuilder::new"))
        } else {
            Bld::I(InternedBlockBuilder::new(k))
        }
    }
    fn add(&mut self, a: &Attempt, k: &ConsensusConstants) -> Result<(bool, bool), ()> {
        match self {
            Bld::C(b) => b
                .add_spend_bundles(a.bundles.iter(), a.cost, k)
                .map(|(added, r)| (added, r == chia_consensus::build_compressed_block::BuildBlockResult::Done))
                .map_err(|_| ()),
            Bld::I(b) => b
                .add_spend_bundles(a.bundles.iter(), a.cost)
                .map(|(added, r)| (added, r == chia_consensus::build_interned_block::BuildBlockResult::Done))
                .map_err(|_| ()),
        }
    }
    fn cost(&self) -> u64 {
        match self {
            Bld::C(b) => b.cost(),
            Bld::I(b) => b.cost(),
        }
    }
    fn finalize(self, k: &ConsensusConstants) -> Result<(Vec<u8>, Signature, u64), ()> {
        match self {
            Bld::C(b) => b.finalize(k).map_err(|_| ()),
            Bld::I(mut b) => b.finalize().map_err(|_| ()),
        }
    }
}

#[derive(Clone, PartialEq, Debug)]
enum Step {
    Ok(bool, bool, Option<u64>), // added, done, cost() afterwards (None: cost() panicked)
    Err(Option<u64>),
    Panic,
}

struct HistResult {
    steps: Vec<Step>,
    fin: Option<Result<(Vec<u8>, Signature, u64), bool>>, // Err(true) = panic, Err(false) = Err; None = not reached
}

fn run_history(kind: &str, k: &ConsensusConstants, attempts: &[Attempt], skip: &[usize]) -> HistResult {
    let mut b = Bld::new(kind, k);
    let mut steps = vec![];
    for (i, a) in attempts.iter().enumerate() {
        if skip.contains(&i) {
            continue;
        }
        let r = catch_unwind(AssertUnwindSafe(|| b.add(a, k)));
        let cost = catch_unwind(AssertUnwindSafe(|| b.cost())).ok();
        match r {
            Ok(Ok((added, done))) => steps.push(Step::Ok(added, done, cost)),
            Ok(Err(())) => steps.push(Step::Err(cost)),
            Err(_) => {
                steps.push(Step::Panic);
                return HistResult { steps, fin: None };
            }
        }
    }
    let fin = match catch_unwind(AssertUnwindSafe(move || b.finalize(k))) {
        Ok(Ok(x)) => Ok(x),
        Ok(Err(())) => Err(false),
        Err(_) => Err(true),
    };
    HistResult { steps, fin: Some(fin) }
}

fn agg_of(attempts: &[Attempt], accepted: &[usize]) -> Signature {
    let mut s = Signature::default();
    for &i in accepted {
        for b in &attempts[i].bundles {
            s.aggregate(&b.aggregated_signature);
        }
    }
    s
}

/// spends in the order the builders emit them
fn expected_spends(kind: &str, attempts: &[Attempt], accepted: &[usize]) -> Vec<CoinSpend> {
    // within one attempt the spends are prepended one by one (reversed); the compressed builder appends
    // later attempts after earlier ones (sentinel at the tail), the interned builder prepends them
    let mut out: Vec<CoinSpend> = vec![];
    for &i in accepted {
        let mut batch: Vec<CoinSpend> = attempts[i].bundles.iter().flat_map(|b| b.coin_spends.iter().cloned()).collect();
        batch.reverse();
        if kind == "c" {
            out.extend(batch);
        } else {
            batch.extend(out);
            out = batch;
        }
    }
    out
}

/// plain serialization of (q . ((spend ...))) for the spends in the given order (independent reference)
fn reference_generator(spends: &[CoinSpend]) -> Option<Vec<u8>> {
    let mut a = Allocator::new();
    let mut list = a.nil();
    for s in spends.iter().rev() {
        let sol = node_from_bytes_backrefs(&mut a, s.solution.as_slice()).ok()?;
        let item = a.new_pair(sol, NodePtr::NIL).ok()?;
        let amount = a.new_number(s.coin.amount.into()).ok()?;
        let item = a.new_pair(amount, item).ok()?;
        let puz = node_from_bytes_backrefs(&mut a, s.puzzle_reveal.as_slice()).ok()?;
        let item = a.new_pair(puz, item).ok()?;
        let parent = a.new_atom(&s.coin.parent_coin_info).ok()?;
        let item = a.new_pair(parent, item).ok()?;
        list = a.new_pair(item, list).ok()?;
    }
    let inner = a.new_pair(list, NodePtr::NIL).ok()?;
    let root = a.new_pair(a.one(), inner).ok()?;
    node_to_bytes(&a, root).ok()
}

/// declared cost that is "truthful" for a batch: execution + condition cost of its spends, without byte cost
fn truthful_cost(bundles: &[SpendBundle], flags: ConsensusFlags) -> Option<u64> {
    let k = consts_of(&[], 0, HUGE);
    let mut total = 0u64;
    for b in bundles {
        let mut a = make_allocator(ConsensusFlags::LIMIT_HEAP);
        let (c, _) = run_spendbundle(&mut a, b, HUGE, flags | ConsensusFlags::DONT_VALIDATE_SIGNATURE, &k).ok()?;
        total += c.cost; // cost_per_byte = 0: no byte cost included
    }
    Some(total)
}

/// the C10 property on the implementation alone.  `truth`: 1 = declared costs are truthful (checked here), so the
/// returned cost must equal the consensus cost of the generator
fn oracle_c10(kind: &str, k: &ConsensusConstants, attempts: &[Attempt], truth: bool, check_sig: bool) -> String {
    let cpb = k.cost_per_byte as u128;
    let maxc = k.max_block_cost_clvm;
    let full = run_history(kind, k, attempts, &[]);
    if full.steps.iter().any(|s| *s == Step::Panic) {
        return "FAIL add_spend_bundles panicked".into();
    }
    let fin = match full.fin {
        Some(Ok(x)) => x,
        Some(Err(true)) => return "FAIL finalize panicked".into(),
        Some(Err(false)) => return "FAIL finalize returned Err".into(),
        None => return "FAIL no finalize".into(),
    };
    let accepted: Vec<usize> = full.steps.iter().enumerate().filter(|(_, s)| matches!(s, Step::Ok(true, _, _))).map(|(i, _)| i).collect();
    let rejected: Vec<usize> = (0..attempts.len()).filter(|i| !accepted.contains(i)).collect();
    let (gen, sig, cost) = fin;
    // (1) the generator decodes to exactly the accepted spends
    let want = match reference_generator(&expected_spends(kind, attempts, &accepted)) {
        Some(w) => w,
        None => return "FAIL accepted spends do not parse".into(),
    };
    match plain_of(&gen) {
        Some(p) if p == want => {}
        Some(_) => return "FAIL generator does not decode to exactly the accepted spends".into(),
        None => return "FAIL generator does not decode".into(),
    }
    // (2) the signature is the aggregate of exactly the accepted bundles' signatures
    if sig.to_bytes() != agg_of(attempts, &accepted).to_bytes() {
        return "FAIL signature is not the aggregate of the accepted bundles".into();
    }
    // (3) the cost: never above the limit; = size cost + 20 + declared; = consensus cost when truthful
    if cost > maxc {
        return format!("FAIL returned cost {} exceeds the limit {}", cost, maxc);
    }
    let declared: u128 = accepted.iter().map(|&i| attempts[i].cost as u128).sum();
    let size_cost: u128 = if kind == "c" {
        gen.len() as u128 * cpb
    } else {
        let mut a = Allocator::new();
        let n = node_from_bytes_backrefs(&mut a, &gen).unwrap();
        interned_vbytes(&intern_tree(&a, n).unwrap()) as u128 * cpb
    };
    if cost as u128 != size_cost + 20 + declared {
        return format!("FAIL returned cost {} != size cost {} + 20 + declared {}", cost, size_cost, declared);
    }
    let flags = if kind == "c" { ConsensusFlags::empty() } else { ConsensusFlags::INTERNED_GENERATOR };
    if truth {
        for &i in &accepted {
            if truthful_cost(&attempts[i].bundles, flags) != Some(attempts[i].cost) {
                return "FAIL harness: declared cost marked truthful is not".into();
            }
        }
        let vflags = if check_sig { flags } else { flags | ConsensusFlags::DONT_VALIDATE_SIGNATURE };
        match run_block_generator2::<&[u8], _>(&gen, [], u64::MAX, vflags, &sig, None, k) {
            Ok((_, c)) => {
                if c.cost != cost {
                    return format!("FAIL returned cost {} != consensus cost {}", cost, c.cost);
                }
                if c.spends.len() != accepted.iter().map(|&i| attempts[i].bundles.iter().map(|b| b.coin_spends.len()).sum::<usize>()).sum::<usize>() {
                    return "FAIL consensus sees a different number of spends".into();
                }
            }
            Err(e) => {
                // individually valid bundles may conflict with each other (double spends...): not the builder's business
                let _ = e;
            }
        }
        // at the very limit: the block is valid under max_cost = returned cost and invalid one below
        if let Ok(_) = run_block_generator2::<&[u8], _>(&gen, [], cost, vflags, &sig, None, k) {
            if cost > 0 {
                if run_block_generator2::<&[u8], _>(&gen, [], cost - 1, vflags, &sig, None, k).is_ok() {
                    return "FAIL generator still valid below the returned cost".into();
                }
            }
        }
    }
    // (4) cost() never underestimates: after every prefix, finalizing there costs at most cost()
    let mut init_short: Option<String> = None;
    for n in 0..=attempts.len() {
        let skip: Vec<usize> = (n..attempts.len()).collect();
        let h = run_history(kind, k, attempts, &skip);
        let est = match h.steps.last() {
            Some(Step::Ok(_, _, c)) | Some(Step::Err(c)) => match c {
                Some(c) => Some(*c),
                None => return "FAIL cost() panicked".into(),
            },
            Some(Step::Panic) => return "FAIL prefix panicked".into(),
            None => None,
        };
        match h.fin {
            Some(Ok((_, _, c))) => {
                if let Some(e) = est {
                    if e < c {
                        // witness class of candidate finding F-C10-2: the compressed builder starts with byte_cost = 0
                        // although the serializer already holds the 3 wrapper bytes (+ 2 closing bytes); until an add
                        // reaches the serializer cost() is short by exactly 5 * cost_per_byte
                        let none_accepted = !h.steps.iter().any(|s| matches!(s, Step::Ok(true, _, _)));
                        if kind == "c" && none_accepted && (c - e) as u128 == 5 * cpb {
                            init_short = Some(format!("cost() = {} underestimates the final cost {} after {} attempts (none serialized)", e, c, n));
                        } else {
                            return format!("FAIL cost() = {} underestimates the final cost {} after {} attempts", e, c, n);
                        }
                    }
                }
                if c > maxc {
                    return format!("FAIL prefix {} final cost above the limit", n);
                }
            }
            _ => return format!("FAIL finalize after {} attempts failed", n),
        }
    }
    // (5) rejected / failed attempts leave the later output unchanged
    let mut recompress: Option<String> = None;
    if !rejected.is_empty() {
        let h = run_history(kind, k, attempts, &rejected);
        if h.steps.iter().any(|s| !matches!(s, Step::Ok(true, _, _))) {
            return "FAIL an accepted attempt is no longer accepted when the rejected ones are left out".into();
        }
        match h.fin {
            Some(Ok((g2, s2, c2))) => {
                if plain_of(&g2) != plain_of(&gen) {
                    return "FAIL generator differs when the rejected attempts are left out".into();
                }
                if s2.to_bytes() != sig.to_bytes() {
                    return "FAIL signature differs when the rejected attempts are left out".into();
                }
                if g2 != gen || c2 != cost {
                    // same spends, same signature, but different BYTES / cost.  For the compressed builder this is the
                    // witness class of candidate finding F-C10-3: Serializer::restore does not undo the tree cache's
                    // node entries, so a serialized-then-restored attempt changes how later attempts are compressed
                    if kind == "c" && c2 as i128 - cost as i128 == (g2.len() as i128 - gen.len() as i128) * cpb as i128 {
                        recompress = Some(format!(
                            "generator is {} bytes with the rejected attempts and {} without them (cost {} vs {}), same decoded spends",
                            gen.len(), g2.len(), cost, c2));
                    } else {
                        return "FAIL generator bytes or cost differ when the rejected attempts are left out".into();
                    }
                }
            }
            _ => return "FAIL finalize failed when the rejected attempts are left out".into(),
        }
    }
    match (init_short, recompress) {
        (Some(m), None) => return format!("FAIL-INIT {}", m),
        (None, Some(m)) => return format!("FAIL-COMPRESS {}", m),
        (Some(m), Some(m2)) => return format!("FAIL-INIT+COMPRESS {} ; {}", m, m2),
        (None, None) => {}
    }
    format!("OK accepted={} rejected={}", accepted.len(), rejected.len())
}

fn render_history(kind: &str, attempts: &[Attempt], h: &HistResult) -> String {
    let mut out: Vec<String> = vec![];
    let mut accepted = vec![];
    for (i, s) in h.steps.iter().enumerate() {
        match s {
            Step::Ok(added, done, c) => {
                if *added {
                    accepted.push(i);
                }
                out.push(format!("{}:{}:{}", *added as u8, *done as u8, c.map(|c| c.to_string()).unwrap_or("P".into())));
            }
            Step::Err(c) => out.push(format!("E:{}", c.map(|c| c.to_string()).unwrap_or("P".into()))),
            Step::Panic => out.push("P".into()),
        }
    }
    match &h.fin {
        None => {}
        Some(Err(true)) => out.push("FP".into()),
        Some(Err(false)) => out.push("FE".into()),
        Some(Ok((gen, sig, cost))) => {
            let sigs = if sig.to_bytes() == agg_of(attempts, &accepted).to_bytes() {
                let mut ids: Vec<u64> = accepted.iter().flat_map(|&i| attempts[i].ids.iter().flatten().cloned()).collect();
                ids.sort();
                if ids.is_empty() {
                    "-".to_string()
                } else {
                    ids.iter().map(|i| i.to_string()).collect::<Vec<_>>().join(".")
                }
            } else {
                format!("MISMATCH:{}", hex::encode(sig.to_bytes()))
            };
            let plain = plain_of(gen).map(|p| hex::encode(p)).unwrap_or("UNDECODABLE".into());
            let _ = kind;
            out.push(format!("F:{}:{}:{}", cost, sigs, plain));
        }
    }
    out.join(" ")
}

/// serializer sizes after each attempt's add, from a shadow clvmr Serializer that follows the real builder's
/// accept decisions (the oracle values handed to the Coq model)
fn shadow_sizes(k: &ConsensusConstants, attempts: &[Attempt]) -> String {
    let mut real = Bld::new("c", k);
    let mut a = Allocator::new();
    let sentinel = a.new_pair(NodePtr::NIL, NodePtr::NIL).unwrap();
    let spend_list = a.new_pair(sentinel, a.nil()).unwrap();
    let quoted = a.new_pair(a.one(), spend_list).unwrap();
    let mut ser = Serializer::new(Some(sentinel));
    ser.add(&a, quoted).unwrap();
    let mut out: Vec<String> = vec![format!("{}", ser.size())];
    for at in attempts {
        let r = catch_unwind(AssertUnwindSafe(|| real.add(at, k)));
        let added = match r {
            Ok(Ok((added, _))) => added,
            Ok(Err(())) => {
                out.push("-".into());
                continue;
            }
            Err(_) => {
                out.push("P".into());
                break;
            }
        };
        let mut list = sentinel;
        let mut ok = true;
        'outer: for b in &at.bundles {
            for s in &b.coin_spends {
                let Ok(sol) = node_from_bytes_backrefs(&mut a, s.solution.as_slice()) else { ok = false; break 'outer };
                let item = a.new_pair(sol, NodePtr::NIL).unwrap();
                let amount = a.new_number(s.coin.amount.into()).unwrap();
                let item = a.new_pair(amount, item).unwrap();
                let Ok(puz) = node_from_bytes_backrefs(&mut a, s.puzzle_reveal.as_slice()) else { ok = false; break 'outer };
                let item = a.new_pair(puz, item).unwrap();
                let parent = a.new_atom(&s.coin.parent_coin_info).unwrap();
                let item = a.new_pair(parent, item).unwrap();
                list = a.new_pair(item, list).unwrap();
            }
        }
        if !ok {
            out.push("-".into());
            continue;
        }
        let (_, undo) = ser.add(&a, list).unwrap();
        out.push(format!("{}", ser.size()));
        if !added {
            ser.restore(undo);
        }
    }
    out.join(",")
}

// ---------------------------------------------------------------- dispatch
fn run(name: &str, args: &[String]) -> Option<String> {
    match name {
        "bundle.build" => Some(if overflow_checked() { "d".into() } else { "r".into() }),
        "bundle.consts" => {
            let k = &TEST_CONSTANTS;
            let mut v = Vec::new();
            v.extend_from_slice(&k.agg_sig_me_additional_data);
            v.extend_from_slice(&k.agg_sig_parent_additional_data);
            v.extend_from_slice(&k.agg_sig_puzzle_additional_data);
            v.extend_from_slice(&k.agg_sig_amount_additional_data);
            v.extend_from_slice(&k.agg_sig_puzzle_amount_additional_data);
            v.extend_from_slice(&k.agg_sig_parent_amount_additional_data);
            v.extend_from_slice(&k.agg_sig_parent_puzzle_additional_data);
            Some(format!("{} {} {} {}", hex::encode(v), k.cost_per_byte, k.max_block_cost_clvm, chia_consensus::flags::MEMPOOL_MODE.bits()))
        }
        "bundle.keys" => {
            let n = dec(&args[0]);
            Some((0..n).map(|i| hex::encode(sk_of(i).public_key().to_bytes())).collect::<Vec<_>>().join(","))
        }
        "bundle.file" => {
            // PATH -> SIGHEX SPENDS of a serialized SpendBundle
            use chia_traits::Streamable;
            let buf = std::fs::read(&args[0]).ok()?;
            let b = SpendBundle::from_bytes(&buf).ok()?;
            let sp: Vec<String> = b
                .coin_spends
                .iter()
                .map(|s| {
                    format!(
                        "{}:{}:{}:{}:{}",
                        hex::encode(s.coin.parent_coin_info),
                        hex::encode(s.coin.puzzle_hash),
                        s.coin.amount,
                        hexo(s.puzzle_reveal.as_slice()),
                        hexo(s.solution.as_slice())
                    )
                })
                .collect();
            Some(format!("{} {}", hex::encode(b.aggregated_signature.to_bytes()), if sp.is_empty() { "-".into() } else { sp.join(",") }))
        }
        "bundle.pre" => {
            // FLAGS CPB CONSTS SPENDS SIG -> ORACLE KEYS SIGV SIGVB COST LEN_p LEN_b LEN_c LEN_i
            //   ORACLE: per spend `cost:result` of running the puzzle on the solution (unlimited budget) or E
            //   KEYS:   the valid non-infinity keys among the 48-byte atoms of the results
            //   SIGV:   aggregate_verify(SIG, pairs emitted by run_spendbundle)        (0 if it fails whatever the budget)
            //   SIGVB:  the same for the bundle with the declared puzzle hashes replaced by the real ones (= block path)
            //   COST:   run_spendbundle's cost with an unlimited budget, or E
            let flags = ConsensusFlags::from_bits_truncate(dec(&args[0]) as u32);
            let cpb = dec(&args[1]);
            let k = consts_of(&hx(&args[2]), cpb, TEST_CONSTANTS.max_block_cost_clvm);
            let spends = parse_spends(&args[3]);
            let sig = parse_sig(&args[4]);
            let dialect = ChiaDialect::new(flags.to_clvm_flags());
            let mut oracle = vec![];
            let mut keys: Vec<Vec<u8>> = vec![];
            let mut fixed: Vec<CoinSpend> = vec![];
            for s in &spends {
                let mut a = Allocator::new();
                let mut real_ph = s.coin.puzzle_hash;
                let e = (|| {
                    let puz = node_from_bytes(&mut a, s.puzzle_reveal.as_slice()).ok()?;
                    let h: [u8; 32] = tree_hash(&a, puz).into();
                    real_ph = Bytes32::new(h);
                    let sol = node_from_bytes(&mut a, s.solution.as_slice()).ok()?;
                    let Reduction(cost, res) = run_program(&mut a, &dialect, puz, sol, 1 << 50).ok()?;
                    collect_keys(&a, res, &mut keys);
                    let b = node_to_bytes(&a, res).ok()?;
                    Some(format!("{}:{}", cost, hex::encode(b)))
                })();
                oracle.push(e.unwrap_or("E".into()));
                fixed.push(CoinSpend::new(Coin::new(s.coin.parent_coin_info, real_ph, s.coin.amount), s.puzzle_reveal.clone(), s.solution.clone()));
            }
            let valid: Vec<u8> = keys.iter().filter(|k| key_valid(k)).flat_map(|k| k.iter().cloned()).collect();
            let bundle = SpendBundle::new(spends, sig.clone());
            let verdict = |b: &SpendBundle| -> (bool, Option<u64>) {
                let mut a = make_allocator(ConsensusFlags::LIMIT_HEAP);
                match run_spendbundle(&mut a, b, HUGE, flags, &k) {
                    Ok((c, pairs)) => (aggregate_verify(&b.aggregated_signature, pairs.iter().map(|(pk, m)| (pk, m.as_ref()))), Some(c.cost)),
                    Err(_) => (false, None),
                }
            };
            let (sigv, cost) = verdict(&bundle);
            let (sigvb, _) = verdict(&SpendBundle::new(fixed, sig));
            let mut lens = vec![];
            for mode in ["p", "b", "c", "i"] {
                lens.push(match build_gen(mode, &bundle, cpb) {
                    Ok(g) => format!("{}", g.len()),
                    Err(_) => "E".into(),
                });
            }
            Some(format!(
                "{} {} {} {} {} {}",
                if oracle.is_empty() { "-".into() } else { oracle.join(",") },
                hexo(&valid),
                sigv as u8,
                sigvb as u8,
                cost.map(|c| c.to_string()).unwrap_or("E".into()),
                lens.join(" ")
            ))
        }
        "bundle.sign" => {
            // FLAGS CPB CONSTS SPENDS NKEYS -> aggregate signature (hex) over the pairs run_spendbundle emits, signed with
            // the pool keys sk_of(0..NKEYS); `-` when the bundle does not run or a key is not in the pool
            let flags = ConsensusFlags::from_bits_truncate(dec(&args[0]) as u32) - ConsensusFlags::DONT_VALIDATE_SIGNATURE;
            let k = consts_of(&hx(&args[2]), dec(&args[1]), TEST_CONSTANTS.max_block_cost_clvm);
            let bundle = SpendBundle::new(parse_spends(&args[3]), Signature::default());
            let pool: Vec<SecretKey> = (0..dec(&args[4])).map(sk_of).collect();
            let mut a = make_allocator(ConsensusFlags::LIMIT_HEAP);
            Some(match run_spendbundle(&mut a, &bundle, HUGE, flags, &k) {
                Ok((_, pairs)) => {
                    let mut sig = Signature::default();
                    let mut ok = true;
                    for (pk, m) in &pairs {
                        match pool.iter().find(|sk| sk.public_key() == *pk) {
                            Some(sk) => sig.aggregate(&sign(sk, m.as_ref())),
                            None => ok = false,
                        }
                    }
                    if ok { hex::encode(sig.to_bytes()) } else { "-".into() }
                }
                Err(_) => "-".into(),
            })
        }
        "bundle.sb" => {
            // FLAGS MAXCOST CPB CONSTS KEYS SIGV ORACLE SPENDS SIG
            let flags = ConsensusFlags::from_bits_truncate(dec(&args[0]) as u32);
            let max_cost = dec(&args[1]);
            let k = consts_of(&hx(&args[3]), dec(&args[2]), TEST_CONSTANTS.max_block_cost_clvm);
            let bundle = SpendBundle::new(parse_spends(&args[7]), parse_sig(&args[8]));
            let mut a = Allocator::new();
            let r = match run_spendbundle(&mut a, &bundle, max_cost, flags, &k) {
                Ok((c, pairs)) => {
                    let ps = pm(&pairs);
                    render_bundle(&OwnedSpendBundleConditions::from(&a, c), &ps)
                }
                Err(e) => err_name(&e),
            };
            let v = validate_clvm_and_signature(&bundle, max_cost, &k, flags);
            Some(format!("{} # V={}", r, if v.is_ok() { "OK" } else { "ERR" }))
        }
        "bundle.blk" => {
            // FLAGS MAXCOST CPB CONSTS KEYS SIGV ORACLE SPENDS SIG MODE GENLEN
            let flags = ConsensusFlags::from_bits_truncate(dec(&args[0]) as u32);
            let max_cost = dec(&args[1]);
            let cpb = dec(&args[2]);
            let k = consts_of(&hx(&args[3]), cpb, TEST_CONSTANTS.max_block_cost_clvm);
            let bundle = SpendBundle::new(parse_spends(&args[7]), parse_sig(&args[8]));
            let gen = match build_gen(&args[9], &bundle, cpb) {
                Ok(g) => g,
                Err(e) => return Some(e),
            };
            Some(match run_block_generator2::<&[u8], _>(&gen, [], max_cost, flags, &bundle.aggregated_signature, None, &k) {
                Ok((a, c)) => render_bundle(&OwnedSpendBundleConditions::from(&a, c), "-"),
                Err(e) => err_name(&e),
            })
        }
        "bundle.gen" => {
            // SPENDS -> len=<calculate_generator_length> ivb=<interned vbytes of the generator> gen=<plain generator>
            let spends = parse_spends(&args[0]);
            let len = calculate_generator_length(&spends);
            Some(match solution_generator(triples(&spends)) {
                Ok(g) => {
                    let mut a = Allocator::new();
                    let n = node_from_bytes(&mut a, &g).unwrap();
                    let ivb = interned_vbytes(&intern_tree(&a, n).unwrap());
                    format!("len={} ivb={} gen={}", len, ivb, hex::encode(g))
                }
                Err(_) => format!("len={} ERR-BUILD", len),
            })
        }
        "bundle.o8" => {
            // FLAGS MAXCOST CPB CONSTS SPENDS SIG
            let flags = ConsensusFlags::from_bits_truncate(dec(&args[0]) as u32);
            let k = consts_of(&hx(&args[3]), dec(&args[2]), TEST_CONSTANTS.max_block_cost_clvm);
            let bundle = SpendBundle::new(parse_spends(&args[4]), parse_sig(&args[5]));
            Some(oracle_c08(flags, dec(&args[1]), &k, &bundle))
        }
        "bundle.sizes" => {
            // BUILD CPB MAXCOST ATTEMPTS
            let k = consts_of(&[], dec(&args[1]), dec(&args[2]));
            Some(shadow_sizes(&k, &parse_attempts(&args[3])))
        }
        "bundle.hist" => {
            // BUILD KIND CPB MAXCOST INITSIZE ATTEMPTS
            let me = if overflow_checked() { "d" } else { "r" };
            if args[0] != me {
                return Some("BUILD-MISMATCH".into());
            }
            let k = consts_of(&[], dec(&args[2]), dec(&args[3]));
            let attempts = parse_attempts(&args[5]);
            let h = run_history(&args[1], &k, &attempts, &[]);
            Some(render_history(&args[1], &attempts, &h))
        }
        "bundle.o10" => {
            // KIND CPB MAXCOST TRUTH CHECKSIG ATTEMPTS
            let k = consts_of(&[], dec(&args[1]), dec(&args[2]));
            let attempts = parse_attempts(&args[5]);
            Some(oracle_c10(&args[0], &k, &attempts, dec(&args[3]) == 1, dec(&args[4]) == 1))
        }
        "bundle.truth" => {
            // KIND BUNDLES -> truthful declared cost of the batch (execution + conditions, no byte cost) or E
            let flags = if args[0] == "c" { ConsensusFlags::empty() } else { ConsensusFlags::INTERNED_GENERATOR };
            let at = parse_attempts(&format!("0@-@{}", args[1]));
            Some(match truthful_cost(&at[0].bundles, flags) {
                Some(c) => format!("{}", c),
                None => "E".into(),
            })
        }
        _ => None,
    }
}

fn main() {
    vh::serve(run);
}
