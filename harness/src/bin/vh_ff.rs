//! unit `ff` (C19): fast_forward_singleton, compute_puzzle_fingerprint, the dedup flag of
//! MempoolVisitor through run_spendbundle — correspondence ops (print what the Coq model prints)
//! and oracle ops (evaluate the property itself on the implementation, independently of the model:
//! the REAL singleton_top_layer_v1_1 puzzle is executed before and after the rewrite).
use chia_bls::{SecretKey, Signature};
use chia_consensus::conditions::{
    process_single_spend, MempoolVisitor, ParseState, SpendBundleConditions, ELIGIBLE_FOR_DEDUP,
};
use chia_consensus::consensus_constants::{ConsensusConstants, TEST_CONSTANTS};
use chia_consensus::fast_forward::fast_forward_singleton;
use chia_consensus::flags::{ConsensusFlags, MEMPOOL_MODE};
use chia_consensus::owned_conditions::{OwnedSpendBundleConditions, OwnedSpendConditions};
use chia_consensus::puzzle_fingerprint::compute_puzzle_fingerprint;
use chia_consensus::spendbundle_conditions::run_spendbundle;
use chia_protocol::{Bytes, Bytes32, Coin, CoinSpend, Program, SpendBundle};
use chia_puzzles::{SINGLETON_LAUNCHER_HASH, SINGLETON_TOP_LAYER_V1_1, SINGLETON_TOP_LAYER_V1_1_HASH};
use chia_traits::Streamable;
use clvm_utils::tree_hash;
use clvmr::allocator::SExp;
use clvmr::chia_dialect::ChiaDialect;
use clvmr::reduction::Reduction;
use clvmr::run_program::run_program;
use clvmr::serde::{node_from_bytes, node_to_bytes};
use clvmr::{Allocator, NodePtr};
use vh::util::*;

fn consts_of(b: &[u8]) -> ConsensusConstants {
    let mut k = TEST_CONSTANTS.clone();
    let c = |i: usize| Bytes32::new(b[i * 32..(i + 1) * 32].try_into().unwrap());
    k.agg_sig_me_additional_data = c(0);
    k.agg_sig_parent_additional_data = c(1);
    k.agg_sig_puzzle_additional_data = c(2);
    k.agg_sig_amount_additional_data = c(3);
    k.agg_sig_puzzle_amount_additional_data = c(4);
    k.agg_sig_parent_amount_additional_data = c(5);
    k.agg_sig_parent_puzzle_additional_data = c(6);
    k
}

fn sk_of(i: u64) -> SecretKey {
    let mut seed = [0_u8; 32];
    seed[0..8].copy_from_slice(&i.to_be_bytes());
    seed[31] = 0x5a;
    SecretKey::from_seed(&seed)
}

fn optn<T: std::fmt::Display>(o: &Option<T>) -> String {
    match o {
        Some(v) => format!("{}", v),
        None => "-".into(),
    }
}

fn items(v: Vec<String>) -> String {
    if v.is_empty() {
        "-".into()
    } else {
        v.join(",")
    }
}

fn pm(v: &[(chia_bls::PublicKey, Bytes)]) -> String {
    items(v.iter().map(|(pk, m)| format!("{}:{}", hex::encode(pk.to_bytes()), hexo(m.as_ref()))).collect())
}

fn coins_of(s: &OwnedSpendConditions) -> String {
    let mut coins: Vec<Vec<u8>> = s
        .create_coin
        .iter()
        .map(|(ph, amt, hint)| {
            format!(
                "{}:{}:{}",
                hex::encode(ph),
                hex::encode(amt.to_be_bytes()),
                match hint {
                    Some(h) => hexo(h.as_ref()),
                    None => "-".into(),
                }
            )
            .into_bytes()
        })
        .collect();
    coins.sort();
    items(coins.into_iter().map(|c| String::from_utf8(c).unwrap()).collect())
}

/// the parsed conditions of a bundle, without costs (same format as FfRun.render_bundle_parsed / render_spend_parsed)
fn render_bundle(o: &OwnedSpendBundleConditions) -> String {
    format!(
        "rf={} ha={} sa={} bha={} bsa={} rem={} add={} unsafe={}",
        o.reserve_fee,
        o.height_absolute,
        o.seconds_absolute,
        optn(&o.before_height_absolute),
        optn(&o.before_seconds_absolute),
        o.removal_amount,
        o.addition_amount,
        pm(&o.agg_sig_unsafe),
    )
}

fn render_spend(s: &OwnedSpendConditions, with_fp: bool) -> String {
    let fp = if (s.flags & ELIGIBLE_FOR_DEDUP) != 0 && with_fp { hex::encode(s.fingerprint.as_ref()) } else { "-".into() };
    format!(
        "fp={} flags={} hr={} sr={} bhr={} bsr={} bh={} bs={} coins={} sigs={}",
        fp,
        s.flags,
        optn(&s.height_relative),
        optn(&s.seconds_relative),
        optn(&s.before_height_relative),
        optn(&s.before_seconds_relative),
        optn(&s.birth_height),
        optn(&s.birth_seconds),
        coins_of(s),
        [
            pm(&s.agg_sig_me),
            pm(&s.agg_sig_parent),
            pm(&s.agg_sig_puzzle),
            pm(&s.agg_sig_amount),
            pm(&s.agg_sig_puzzle_amount),
            pm(&s.agg_sig_parent_amount),
            pm(&s.agg_sig_parent_puzzle)
        ]
        .join(";")
    )
}

fn render_all(o: &OwnedSpendBundleConditions, with_fp: bool) -> String {
    let mut v = vec![render_bundle(o)];
    for s in &o.spends {
        v.push(render_spend(s, with_fp));
    }
    v.join(" | ")
}

fn coin_at(args: &[String], i: usize) -> Coin {
    Coin::new(Bytes32::new(b32(&args[i])), Bytes32::new(b32(&args[i + 1])), dec(&args[i + 2]))
}

/// minimal big-endian encoding of a u64, written independently of every encoder of the repository
fn canon_u64(v: u64) -> Vec<u8> {
    let be = v.to_be_bytes();
    let mut i = 0;
    while i < 8 && be[i] == 0 {
        i += 1;
    }
    let mut out = Vec::new();
    if i < 8 && (be[i] & 0x80) != 0 {
        out.push(0);
    }
    out.extend_from_slice(&be[i..]);
    out
}

struct SpendRun {
    coins: String,
    my_amounts: Vec<Vec<u8>>,
    my_parents: Vec<Vec<u8>>,
}

fn pair(a: &Allocator, n: NodePtr) -> Option<(NodePtr, NodePtr)> {
    match a.sexp(n) {
        SExp::Pair(l, r) => Some((l, r)),
        SExp::Atom => None,
    }
}

fn atom_bytes(a: &Allocator, n: NodePtr) -> Option<Vec<u8>> {
    match a.sexp(n) {
        SExp::Atom => Some(a.atom(n).as_ref().to_vec()),
        SExp::Pair(..) => None,
    }
}

/// run a puzzle in mempool mode against a coin the way run_spendbundle does for one spend
/// (puzzle-hash check, run_program, process_single_spend::<MempoolVisitor>), and report the created
/// coins and the raw ASSERT_MY_AMOUNT / ASSERT_MY_PARENT_ID arguments the puzzle emitted
fn run_spend(a: &mut Allocator, puzzle: NodePtr, solution: NodePtr, coin: &Coin) -> Result<SpendRun, String> {
    let flags = MEMPOOL_MODE | ConsensusFlags::DONT_VALIDATE_SIGNATURE;
    let dialect = ChiaDialect::new(flags.to_clvm_flags());
    let max_cost: u64 = 11_000_000_000;
    let Reduction(clvm_cost, conditions) =
        run_program(a, &dialect, puzzle, solution, max_cost).map_err(|_| "clvm".to_string())?;
    let ph = tree_hash(a, puzzle);
    if coin.puzzle_hash != ph.into() {
        return Err("WrongPuzzleHash".into());
    }
    let parent = a.new_atom(coin.parent_coin_info.as_slice()).unwrap();
    let amount = a.new_number(coin.amount.into()).unwrap();
    let phn = a.new_atom(&ph).unwrap();
    let mut ret = SpendBundleConditions::default();
    let mut state = ParseState::default();
    let mut cost_left = max_cost - clvm_cost;
    process_single_spend::<MempoolVisitor>(
        a, &mut ret, &mut state, parent, phn, amount, conditions, flags, &mut cost_left, clvm_cost, &TEST_CONSTANTS,
    )
    .map_err(|e| format!("{:?}", e.error_code()))?;
    // raw self-assertions of the puzzle output
    let mut my_amounts = Vec::new();
    let mut my_parents = Vec::new();
    let mut it = conditions;
    while let Some((c, nxt)) = pair(a, it) {
        it = nxt;
        if let Some((op, args)) = pair(a, c) {
            if let (Some(opb), Some((arg, _))) = (atom_bytes(a, op), pair(a, args)) {
                if opb == [73] {
                    my_amounts.push(atom_bytes(a, arg).unwrap_or_default());
                } else if opb == [71] {
                    my_parents.push(atom_bytes(a, arg).unwrap_or_default());
                }
            }
        }
    }
    let o = OwnedSpendBundleConditions::from(a, ret);
    Ok(SpendRun { coins: coins_of(&o.spends[0]), my_amounts, my_parents })
}

fn nth_rest(a: &Allocator, mut n: NodePtr, k: usize) -> Option<NodePtr> {
    for _ in 0..k {
        n = pair(a, n)?.1;
    }
    Some(n)
}

/// how does the rewritten solution differ from the original?
///   3FIELDS    = the original with exactly the three atoms replaced (everything else, including any
///                trailing material, byte-identical)
///   NORMALISED = the original's three list prefixes with the three atoms replaced, trailing material dropped
///   OTHER      = anything else
fn diff_class(a: &mut Allocator, sol: NodePtr, new_sol: NodePtr, new_parent: &Coin, new_coin: &Coin) -> String {
    let go = |a: &mut Allocator| -> Option<(Vec<u8>, Vec<u8>)> {
        let (lp, sol_r1) = pair(a, sol)?;
        let (_pp, lp_r1) = pair(a, lp)?;
        let (piph, lp_r2) = pair(a, lp_r1)?;
        let (_pa, lp_r3) = pair(a, lp_r2)?;
        let (_amt, sol_r2) = pair(a, sol_r1)?;
        let (inner, _sol_r3) = pair(a, sol_r2)?;
        let npp = a.new_atom(new_parent.parent_coin_info.as_slice()).ok()?;
        let npa = a.new_atom(&canon_u64(new_parent.amount)).ok()?;
        let namt = a.new_atom(&canon_u64(new_coin.amount)).ok()?;
        // exact patch: keep every tail
        let t = a.new_pair(npa, lp_r3).ok()?;
        let t = a.new_pair(piph, t).ok()?;
        let lp1 = a.new_pair(npp, t).ok()?;
        let t = a.new_pair(namt, sol_r2).ok()?;
        let exact = a.new_pair(lp1, t).ok()?;
        // normalised patch: nil tails
        let nil = a.nil();
        let t = a.new_pair(npa, nil).ok()?;
        let t = a.new_pair(piph, t).ok()?;
        let lp2 = a.new_pair(npp, t).ok()?;
        let t = a.new_pair(inner, nil).ok()?;
        let t = a.new_pair(namt, t).ok()?;
        let norm = a.new_pair(lp2, t).ok()?;
        Some((node_to_bytes(a, exact).ok()?, node_to_bytes(a, norm).ok()?))
    };
    let new_bytes = node_to_bytes(a, new_sol).unwrap();
    match go(a) {
        Some((exact, norm)) => {
            if exact == new_bytes {
                "3FIELDS".into()
            } else if norm == new_bytes {
                "NORMALISED".into()
            } else {
                "OTHER".into()
            }
        }
        None => "OTHER".into(),
    }
}

fn err_name(e: &chia_consensus::error::Error) -> String {
    use chia_consensus::error::Error as E;
    match e {
        E::FromClvm(_) => "Clvm".into(),
        E::ToClvm(_) => "ToClvm".into(),
        other => format!("{:?}", other).split('(').next().unwrap().to_string(),
    }
}

/// reference evaluation of the dedup-flag rule on the RAW condition list (independent of conditions.rs):
/// no AGG_SIG_* (43..=50) / SEND_MESSAGE (66) / RECEIVE_MESSAGE (67) condition, and the CREATE_COIN
/// amounts sum to at least the coin amount
fn flag_rule(a: &Allocator, conds: NodePtr, coin_amount: u64) -> Result<(), String> {
    let mut sum: u128 = 0;
    let mut it = conds;
    while let Some((c, nxt)) = pair(a, it) {
        it = nxt;
        let Some((op, args)) = pair(a, c) else { continue };
        let Some(opb) = atom_bytes(a, op) else { continue };
        if opb.len() != 1 {
            continue;
        }
        let o = opb[0];
        if (43..=50).contains(&o) {
            return Err(format!("agg-sig-condition-{}", o));
        }
        if o == 66 || o == 67 {
            return Err(format!("message-condition-{}", o));
        }
        if o == 51 {
            let amt = nth_rest(a, args, 1).and_then(|n| pair(a, n)).and_then(|(x, _)| atom_bytes(a, x)).unwrap_or_default();
            let mut v: u128 = 0;
            for b in amt.iter() {
                v = (v << 8) | (*b as u128);
            }
            sum += v;
        }
    }
    if sum < coin_amount as u128 {
        return Err(format!("created-{}-less-than-coin-{}", sum, coin_amount));
    }
    Ok(())
}

/// spends of coins (parent, tree_hash(`1`), amount) with puzzle `1` and the condition list as solution
fn spend_bundle(spends: &[([u8; 32], u64, Vec<u8>)]) -> SpendBundle {
    let a = Allocator::new();
    let one = a.one();
    let ph: Bytes32 = tree_hash(&a, one).into();
    let css = spends
        .iter()
        .map(|(parent, amount, conds)| {
            CoinSpend::new(Coin::new(Bytes32::new(*parent), ph, *amount), Program::from(vec![1_u8]), Program::from(conds.clone()))
        })
        .collect();
    SpendBundle::new(css, Signature::default())
}

fn run(name: &str, args: &[String]) -> Option<String> {
    match name {
        "ff.mod" => Some(format!(
            "{} {} {}",
            hex::encode(SINGLETON_TOP_LAYER_V1_1),
            hex::encode(SINGLETON_TOP_LAYER_V1_1_HASH),
            hex::encode(SINGLETON_LAUNCHER_HASH)
        )),
        "ff.file" => {
            let b = std::fs::read(format!("/repo/ff-tests/{}.spend", args[0])).ok()?;
            let cs = CoinSpend::from_bytes(&b).ok()?;
            Some(format!(
                "{} {} {} {} {}",
                hex::encode(cs.coin.parent_coin_info),
                hex::encode(cs.coin.puzzle_hash),
                cs.coin.amount,
                hex::encode(cs.puzzle_reveal.as_slice()),
                hex::encode(cs.solution.as_slice())
            ))
        }
        "ff.ff" | "ff.plain" => {
            // MODHASH PUZZLE SOLUTION COIN(3) NEWCOIN(3) NEWPARENT(3)
            if hx(&args[0]) != SINGLETON_TOP_LAYER_V1_1_HASH {
                return Some("ERR-MODHASH-ARG".into());
            }
            let mut a = Allocator::new();
            let (Ok(puzzle), Ok(solution)) = (node_from_bytes(&mut a, &hx(&args[1])), node_from_bytes(&mut a, &hx(&args[2])))
            else {
                return Some("ERR-DESER".into());
            };
            let (coin, new_coin, new_parent) = (coin_at(args, 3), coin_at(args, 6), coin_at(args, 9));
            Some(match fast_forward_singleton(&mut a, puzzle, solution, &coin, &new_coin, &new_parent) {
                Ok(n) => format!("OK {}", hexo(&node_to_bytes(&a, n).unwrap())),
                Err(e) => format!("ERR {}", err_name(&e)),
            })
        }
        "ff.oracle" => {
            // PUZZLE SOLUTION COIN(3) NEWCOIN(3) NEWPARENT(3)
            let mut a = Allocator::new();
            let (Ok(puzzle), Ok(solution)) = (node_from_bytes(&mut a, &hx(&args[0])), node_from_bytes(&mut a, &hx(&args[1])))
            else {
                return Some("ERR-DESER".into());
            };
            let (coin, new_coin, new_parent) = (coin_at(args, 2), coin_at(args, 5), coin_at(args, 8));
            let orig = run_spend(&mut a, puzzle, solution, &coin);
            let origs = match &orig {
                Ok(_) => "OK".to_string(),
                Err(e) => format!("FAIL:{}", e),
            };
            match fast_forward_singleton(&mut a, puzzle, solution, &coin, &new_coin, &new_parent) {
                Err(e) => Some(format!("FF=ERR:{} ORIG={} NEW=- SELF=- COINS=- DIFF=-", err_name(&e), origs)),
                Ok(new_sol) => {
                    let new = run_spend(&mut a, puzzle, new_sol, &new_coin);
                    let (news, selfs, coins) = match (&new, &orig) {
                        (Ok(n), o) => {
                            let amt_ok = !n.my_amounts.is_empty() && n.my_amounts.iter().all(|x| *x == canon_u64(new_coin.amount));
                            let par_ok = !n.my_parents.is_empty()
                                && n.my_parents.iter().all(|x| x.as_slice() == new_coin.parent_coin_info.as_slice());
                            (
                                "OK".to_string(),
                                if amt_ok && par_ok { "OK" } else { "FAIL" }.to_string(),
                                match o {
                                    Ok(o) => if o.coins == n.coins { "SAME" } else { "DIFF" }.to_string(),
                                    Err(_) => "-".to_string(),
                                },
                            )
                        }
                        (Err(e), _) => (format!("FAIL:{}", e), "-".to_string(), "-".to_string()),
                    };
                    let d = diff_class(&mut a, solution, new_sol, &new_parent, &new_coin);
                    Some(format!("FF=OK ORIG={} NEW={} SELF={} COINS={} DIFF={}", origs, news, selfs, coins, d))
                }
            }
        }
        "fp.flags" => Some(format!(
            "{} {}",
            (MEMPOOL_MODE | ConsensusFlags::DONT_VALIDATE_SIGNATURE).bits(),
            ConsensusFlags::COST_CONDITIONS.bits()
        )),
        "fp.consts" => {
            let k = &TEST_CONSTANTS;
            let mut v = Vec::new();
            v.extend_from_slice(&k.agg_sig_me_additional_data);
            v.extend_from_slice(&k.agg_sig_parent_additional_data);
            v.extend_from_slice(&k.agg_sig_puzzle_additional_data);
            v.extend_from_slice(&k.agg_sig_amount_additional_data);
            v.extend_from_slice(&k.agg_sig_puzzle_amount_additional_data);
            v.extend_from_slice(&k.agg_sig_parent_amount_additional_data);
            v.extend_from_slice(&k.agg_sig_parent_puzzle_additional_data);
            Some(hex::encode(v))
        }
        "fp.keys" => {
            let n = dec(&args[0]);
            Some((0..n).map(|i| hex::encode(sk_of(i).public_key().to_bytes())).collect::<Vec<_>>().join(","))
        }
        "fp.fp" => {
            let mut a = Allocator::new();
            let Ok(n) = node_from_bytes(&mut a, &hx(&args[0])) else { return Some("ERR-DESER".into()) };
            Some(match compute_puzzle_fingerprint(&a, n) {
                Ok(f) => format!("OK {}", hex::encode(f)),
                Err(_) => "ERR".into(),
            })
        }
        "fp.bundle" => {
            // FLAGS COMPUTE CONSTS VALIDKEYS N (PARENT AMOUNT CONDS)*N
            let mut flags = ConsensusFlags::from_bits_truncate(dec(&args[0]) as u32);
            if dec(&args[1]) == 1 {
                flags |= ConsensusFlags::COMPUTE_FINGERPRINT;
            }
            let k = consts_of(&hx(&args[2]));
            let n = dec(&args[4]) as usize;
            let mut spends = Vec::new();
            for i in 0..n {
                let cb = hx(&args[5 + 3 * i + 2]);
                let mut a = Allocator::new();
                if node_from_bytes(&mut a, &cb).is_err() {
                    return Some("ERR-DESER".into());
                }
                spends.push((b32(&args[5 + 3 * i]), dec(&args[5 + 3 * i + 1]), cb));
            }
            let sb = spend_bundle(&spends);
            let mut a = Allocator::new();
            Some(match run_spendbundle(&mut a, &sb, 11_000_000_000, flags, &k) {
                Ok((conds, _)) => {
                    let o = OwnedSpendBundleConditions::from(&a, conds);
                    format!("OK {}", render_all(&o, flags.contains(ConsensusFlags::COMPUTE_FINGERPRINT)))
                }
                Err(_) => "ERR".into(),
            })
        }
        "fp.pair" => {
            // FLAGS PARENT AMOUNT CONDS1 CONDS2 [PARENT' AMOUNT' CONDS']* : the property itself on two spends of
            // the same coin (each bundled with the same companion spends, if any)
            let flags = ConsensusFlags::from_bits_truncate(dec(&args[0]) as u32) | ConsensusFlags::COMPUTE_FINGERPRINT;
            let amount = dec(&args[2]);
            let mut companions = Vec::new();
            let mut i = 5;
            while i + 2 < args.len() {
                companions.push((b32(&args[i]), dec(&args[i + 1]), hx(&args[i + 2])));
                i += 3;
            }
            let mut res: Vec<Option<(bool, Vec<u8>, String)>> = Vec::new();
            let mut rule = "OK".to_string();
            for i in 0..2 {
                let cb = hx(&args[3 + i]);
                let mut spends = vec![(b32(&args[1]), amount, cb)];
                spends.extend(companions.iter().cloned());
                let sb = spend_bundle(&spends);
                // the dedup-flag rule, for every spend of the bundle, on its raw condition list; evaluated on a run
                // WITHOUT fingerprint computation (a wrongly flagged spend could otherwise hide behind a fingerprint error)
                let mut a0 = Allocator::new();
                if let Ok((conds0, _)) =
                    run_spendbundle(&mut a0, &sb, 11_000_000_000, flags & !ConsensusFlags::COMPUTE_FINGERPRINT, &TEST_CONSTANTS)
                {
                    let o0 = OwnedSpendBundleConditions::from(&a0, conds0);
                    for (s, (_, amt, raw)) in o0.spends.iter().zip(spends.iter()) {
                        if (s.flags & ELIGIBLE_FOR_DEDUP) != 0 {
                            let mut a2 = Allocator::new();
                            let n = node_from_bytes(&mut a2, raw).unwrap();
                            if let Err(w) = flag_rule(&a2, n, *amt) {
                                rule = format!("FAIL:list{}:{}", i + 1, w);
                            }
                        }
                    }
                }
                let mut a = Allocator::new();
                match run_spendbundle(&mut a, &sb, 11_000_000_000, flags, &TEST_CONSTANTS) {
                    Ok((conds, _)) => {
                        let o = OwnedSpendBundleConditions::from(&a, conds);
                        let s = &o.spends[0];
                        let dd = (s.flags & ELIGIBLE_FOR_DEDUP) != 0;
                        res.push(Some((dd, s.fingerprint.as_ref().to_vec(), render_all(&o, false))));
                    }
                    Err(_) => res.push(None),
                }
            }
            let st = |r: &Option<(bool, Vec<u8>, String)>| match r {
                Some((dd, _, _)) => format!("OK:{}", if *dd { 1 } else { 0 }),
                None => "ERR".to_string(),
            };
            let (eqfp, eqcond) = match (&res[0], &res[1]) {
                (Some((d1, f1, c1)), Some((d2, f2, c2))) => (
                    if *d1 && *d2 { if f1 == f2 { "1" } else { "0" } } else { "-" },
                    if c1 == c2 { "1" } else { "0" },
                ),
                _ => ("-", "-"),
            };
            Some(format!("R1={} R2={} EQFP={} EQCOND={} FLAGRULE={}", st(&res[0]), st(&res[1]), eqfp, eqcond, rule))
        }
        _ => None,
    }
}

fn main() {
    vh::serve(run);
}
