//! stream `bls` (C15, C16): symbolic histories interpreted with the real chia-bls, forced
//! schedules through the `verif-hooks` yield point, and implementation-level oracles.
//! Line formats: see coq/Run/BlsRun.v (the model interprets the same lines with the Toy instance).
use chia_bls::{
    aggregate_pairing, aggregate_verify, aggregate_verify_gt, hash_to_g2, master_to_wallet_unhardened,
    master_to_wallet_unhardened_intermediate, sign, sign_raw, verify, BlsCache, DerivableKey, GTElement,
    PublicKey, SecretKey, Signature,
};
use chia_puzzle_types::{mod_by_group_order, DeriveSynthetic};
use chia_sha2::Sha256;
use std::cell::Cell;
use std::collections::HashMap;
use std::num::NonZeroUsize;
use std::sync::{Arc, Condvar, Mutex, OnceLock};
use vh::util::*;

// ---------------------------------------------------------------- forced scheduling
struct SchedState {
    grant: Option<usize>,
    parked: Vec<bool>,
    done: Vec<bool>,
}
static SCHED: Mutex<SchedState> = Mutex::new(SchedState { grant: None, parked: Vec::new(), done: Vec::new() });
static CV: Condvar = Condvar::new();
thread_local! { static TID: Cell<Option<usize>> = const { Cell::new(None) }; }

/// installed as chia-bls' yield hook: called immediately before every cache lock acquisition.
/// Worker threads park here until the scheduler grants them their next critical section.
fn yield_hook() {
    let Some(tid) = TID.with(|t| t.get()) else { return };
    let mut st = SCHED.lock().unwrap();
    st.parked[tid] = true;
    CV.notify_all();
    while st.grant != Some(tid) {
        st = CV.wait(st).unwrap();
    }
    st.grant = None;
    st.parked[tid] = false;
    CV.notify_all();
}

fn install_hook() {
    static ONCE: OnceLock<()> = OnceLock::new();
    ONCE.get_or_init(|| {
        #[cfg(feature = "hooks")]
        chia_bls::set_verif_yield_hook(yield_hook);
    });
}

fn wait_quiescent(n: usize) {
    let mut st = SCHED.lock().unwrap();
    while !(st.grant.is_none() && (0..n).all(|i| st.parked[i] || st.done[i])) {
        st = CV.wait(st).unwrap();
    }
}

/// let thread `t` run one critical section (up to its next lock acquisition); false if finished
fn grant(t: usize, n: usize) -> bool {
    wait_quiescent(n);
    {
        let mut st = SCHED.lock().unwrap();
        if t >= n || st.done[t] {
            return false;
        }
        st.grant = Some(t);
        CV.notify_all();
    }
    wait_quiescent(n);
    true
}

// ---------------------------------------------------------------- symbolic world
type Pair = (PublicKey, Vec<u8>);

#[derive(Clone)]
enum Call {
    Verify(Vec<Pair>, Signature),
    Update(Pair),
    UpdateWrong(Pair, Pair),
    Evict(Vec<Pair>),
    Len,
}
enum Out {
    Verdict(Vec<Pair>, Signature, bool),
    Len(usize),
}

fn sym_sk(i: u64) -> SecretKey {
    SecretKey::from_seed(&[(i as u8).wrapping_add(1); 32])
}
fn sym_msg(j: u64) -> Vec<u8> {
    vec![j as u8; j as usize]
}
fn sym_key(tok: &str) -> PublicKey {
    if let Some(rest) = tok.strip_prefix('k') {
        sym_sk(dec(rest)).public_key()
    } else {
        PublicKey::default()
    }
}
fn sym_pair(tok: &str) -> Pair {
    let v: Vec<&str> = tok.split('.').collect();
    (sym_key(v[0]), sym_msg(dec(v[1])))
}
fn split_list(tok: &str) -> Vec<&str> {
    if tok == "-" { vec![] } else { tok.split(',').collect() }
}
fn sym_pairs(tok: &str) -> Vec<Pair> {
    split_list(tok).into_iter().map(sym_pair).collect()
}
fn aug(p: &Pair) -> Vec<u8> {
    let mut a = p.0.to_bytes().to_vec();
    a.extend_from_slice(&p.1);
    a
}
fn sha(b: &[u8]) -> [u8; 32] {
    let mut h = Sha256::new();
    h.update(b);
    h.finalize()
}

/// a point of E2 outside the prime-order subgroup (found by search, through the unchecked parser)
fn off_subgroup_g2() -> Signature {
    static P: OnceLock<Signature> = OnceLock::new();
    P.get_or_init(|| {
        for c in 0u32..10000 {
            let h1 = sha(&[b"g2-off-a".as_ref(), &c.to_be_bytes()].concat());
            let h2 = sha(&[b"g2-off-b".as_ref(), &c.to_be_bytes()].concat());
            let mut b = [0u8; 96];
            b[16..48].copy_from_slice(&h1);
            b[64..96].copy_from_slice(&h2);
            b[0] = 0x80 | (h1[0] & 0x0f);
            b[48] = h2[0] & 0x0f;
            if let Ok(s) = Signature::from_bytes_unchecked(&b) {
                if !s.is_valid() {
                    return s;
                }
            }
        }
        panic!("no off-subgroup point found");
    })
    .clone()
}

fn sym_sig(tok: &str) -> Signature {
    let mut st: Vec<Signature> = Vec::new();
    for t in split_list(tok) {
        let (c, rest) = t.split_at(1);
        match c {
            "s" => {
                let v: Vec<&str> = rest.split('.').collect();
                st.push(sign(&sym_sk(dec(v[0])), sym_msg(dec(v[1]))));
            }
            "r" => {
                let v: Vec<&str> = rest.split('.').collect();
                let a = aug(&(sym_sk(dec(v[1])).public_key(), sym_msg(dec(v[2]))));
                st.push(sign_raw(&sym_sk(dec(v[0])), a));
            }
            "0" => st.push(Signature::default()),
            "t" => st.push(hash_to_g2(b"tamper")),
            "x" => st.push(off_subgroup_g2()),
            "+" => {
                let b = st.pop().unwrap();
                let a = st.pop().unwrap();
                st.push(&a + &b);
            }
            "~" => {
                let a = st.pop().unwrap();
                st.push(-&a);
            }
            _ => {}
        }
    }
    st.pop().unwrap_or_default()
}

fn sym_call(tok: &str) -> Call {
    let (c, rest) = tok.split_at(1);
    match c {
        "V" => {
            let v: Vec<&str> = rest.split('/').collect();
            Call::Verify(sym_pairs(v[0]), sym_sig(v[1]))
        }
        "U" => Call::Update(sym_pair(rest)),
        "B" => {
            let v: Vec<&str> = rest.split('/').collect();
            Call::UpdateWrong(sym_pair(v[0]), sym_pair(v[1]))
        }
        "E" => Call::Evict(sym_pairs(rest)),
        _ => Call::Len,
    }
}

fn run_calls(cache: &BlsCache, calls: &[Call]) -> Vec<Out> {
    let mut outs = Vec::new();
    for c in calls {
        match c {
            Call::Verify(pairs, sig) => {
                let b = cache.aggregate_verify(pairs.iter().map(|(pk, m)| (pk, m.as_slice())), sig);
                outs.push(Out::Verdict(pairs.clone(), sig.clone(), b));
            }
            Call::Update(p) => {
                let a = aug(p);
                cache.update(&a, hash_to_g2(&a).pair(&p.0));
            }
            Call::UpdateWrong(p, q) => cache.update(&aug(p), hash_to_g2(&aug(q)).pair(&q.0)),
            Call::Evict(pairs) => cache.evict(pairs.iter().map(|(pk, m)| (pk, m.as_slice()))),
            Call::Len => outs.push(Out::Len(cache.len())),
        }
    }
    outs
}

/// the four verifiers that do not use the cache: verify (single pair only), aggregate_verify,
/// aggregate_verify_gt on honest pairings, aggregate_pairing on (pk_i, H_i) and (-G, sig)
fn plain_verdicts(pairs: &[Pair], sig: &Signature) -> (Option<bool>, bool, bool, bool) {
    let single = if pairs.len() == 1 { Some(verify(sig, &pairs[0].0, &pairs[0].1)) } else { None };
    let agg = aggregate_verify(sig, pairs.iter().map(|(pk, m)| (pk, m.as_slice())));
    let gts: Vec<GTElement> = pairs.iter().map(|p| hash_to_g2(&aug(p)).pair(&p.0)).collect();
    let gt = aggregate_verify_gt(sig, gts.iter());
    let mut data: Vec<(PublicKey, Signature)> = pairs.iter().map(|p| (p.0, hash_to_g2(&aug(p)))).collect();
    data.push((-PublicKey::generator(), sig.clone()));
    let pr = aggregate_pairing(data.iter().map(|(a, b)| (a, b)));
    (single, agg, gt, pr)
}

fn b01(b: bool) -> char {
    if b { '1' } else { '0' }
}

/// (key, value-hex) of every cache entry in LinkedHashMap order, read from the Debug rendering
/// (BlsCache has no public accessor outside the Python bindings).  Fails closed.
fn cache_entries(cache: &BlsCache) -> Vec<([u8; 32], String)> {
    let s = format!("{:?}", cache);
    let start = s.find("items: {").expect("debug shape") + "items: {".len();
    let end = s.rfind("}, capacity:").expect("debug shape");
    let body = &s[start..end];
    let mut out = Vec::new();
    if body.trim().is_empty() {
        return out;
    }
    for ent in body.split(">, ") {
        let ent = ent.trim_end_matches('>');
        let (k, v) = ent.split_once("]: <GTElement ").expect("entry shape");
        let k = k.trim_start_matches('[');
        let key: Vec<u8> = k.split(", ").map(|x| x.parse::<u8>().expect("key byte")).collect();
        out.push((key.as_slice().try_into().expect("32-byte key"), v.to_string()));
    }
    out
}

struct Universe {
    names: HashMap<[u8; 32], (String, Pair)>,
}
fn universe(nk: u64, nm: u64) -> Universe {
    let mut names = HashMap::new();
    let mut keys: Vec<String> = (0..nk).map(|i| format!("k{}", i)).collect();
    keys.push("i".into());
    for k in &keys {
        for j in 0..nm {
            let name = format!("{}.{}", k, j);
            let p = sym_pair(&name);
            names.insert(sha(&aug(&p)), (name, p));
        }
    }
    Universe { names }
}

/// run one phase (forced schedule over threads); returns the outputs per thread
fn run_phase(cache: &Arc<BlsCache>, tok: &str) -> Vec<Vec<Out>> {
    let parts: Vec<&str> = tok.split('|').collect();
    let sched: Vec<usize> = split_list(parts[0]).into_iter().map(|x| dec(x) as usize).collect();
    let progs: Vec<Vec<Call>> = parts[1..].iter().map(|t| t.split(';').map(sym_call).collect()).collect();
    let n = progs.len();
    if n == 1 {
        // a sequential phase runs on the calling thread (the hook is a no-op for it)
        return vec![run_calls(cache, &progs[0])];
    }
    {
        let mut st = SCHED.lock().unwrap();
        st.grant = None;
        st.parked = vec![false; n];
        st.done = vec![false; n];
    }
    let mut handles = Vec::new();
    for (tid, prog) in progs.into_iter().enumerate() {
        let cache = Arc::clone(cache);
        handles.push(std::thread::spawn(move || {
            TID.with(|t| t.set(Some(tid)));
            let r = std::panic::catch_unwind(std::panic::AssertUnwindSafe(|| run_calls(&cache, &prog)));
            let mut st = SCHED.lock().unwrap();
            st.done[tid] = true;
            CV.notify_all();
            r
        }));
    }
    for t in sched {
        grant(t, n);
    }
    for t in 0..n {
        while grant(t, n) {}
    }
    handles.into_iter().map(|h| h.join().unwrap().expect("worker panicked")).collect()
}

fn run_hist(args: &[String], oracle: bool) -> String {
    install_hook();
    let cap = dec(&args[0]) as usize;
    let univ = universe(dec(&args[1]), dec(&args[2]));
    let cache = Arc::new(BlsCache::new(NonZeroUsize::new(cap).expect("capacity")));
    let mut outs: Vec<String> = Vec::new();
    for (pi, ph) in args[3..].iter().enumerate() {
        let res = run_phase(&cache, ph);
        let mut tstr = Vec::new();
        for (ti, t) in res.iter().enumerate() {
            let mut os = Vec::new();
            for o in t {
                match o {
                    Out::Verdict(pairs, sig, b) => {
                        let (single, agg, gt, pr) = plain_verdicts(pairs, sig);
                        if oracle && *b != agg {
                            return format!("FAIL phase {} thread {}: BlsCache verdict {} but aggregate_verify {}", pi, ti, b, agg);
                        }
                        // the pairings-based paths are compared only when no key is infinity
                        let masked = pairs.iter().any(|p| p.0.is_inf());
                        let (g, p) = if masked { ('*', '*') } else { (b01(gt), b01(pr)) };
                        os.push(format!("v{}{}{}{}{}", single.map_or('-', b01), b01(agg), g, p, b01(*b)));
                    }
                    Out::Len(n) => {
                        if oracle && *n > cap {
                            return format!("FAIL phase {} thread {}: len {} exceeds capacity {}", pi, ti, n, cap);
                        }
                        os.push(format!("l{}", n));
                    }
                }
            }
            tstr.push(os.join(";"));
        }
        let ents = cache_entries(&cache);
        if ents.len() != cache.len() {
            return format!("FAIL phase {}: Debug rendering has {} entries, len() = {}", pi, ents.len(), cache.len());
        }
        if oracle {
            if ents.len() > cap {
                return format!("FAIL phase {}: {} entries exceed capacity {}", pi, ents.len(), cap);
            }
            // the cache invariant on the real data: every entry is H(pk||m) -> e(pk, H2(pk||m))
            for (k, v) in &ents {
                match univ.names.get(k) {
                    None => return format!("FAIL phase {}: cache key {} is not the hash of any pair of the history", pi, hex::encode(k)),
                    Some((name, p)) => {
                        let want = hash_to_g2(&aug(p)).pair(&p.0);
                        if hex::encode(want.to_bytes()) != *v {
                            return format!("FAIL phase {}: entry {} does not hold its pairing", pi, name);
                        }
                    }
                }
            }
        }
        let order: Vec<String> = ents.iter().map(|(k, _)| univ.names.get(k).map_or("?".to_string(), |x| x.0.clone())).collect();
        outs.push(format!("{}#{}[{}]", tstr.join("|"), ents.len(), order.join(",")));
    }
    if oracle { "OK".into() } else { outs.join(" ") }
}

// ---------------------------------------------------------------- oracles: verifier agreement
/// bls.o_agree PAIRS/SIG WANT : the property itself on the real library.  WANT (0/1/-) is the
/// verdict the symbolic expression must get by construction (known to the driver); the harness
/// additionally recomputes "sig == sum of sign(sk_i, m_i)" with real signing when every key is
/// one of the indexed keys.
fn o_agree(args: &[String]) -> String {
    let v: Vec<&str> = args[0].split('/').collect();
    let toks = split_list(v[0]);
    let pairs = sym_pairs(v[0]);
    let sig = sym_sig(v[1]);
    let has_inf = pairs.iter().any(|p| p.0.is_inf());
    // independent expectation: no infinity key and sig equals the aggregate of honest signatures
    let mut expect_sig = Signature::default();
    for t in &toks {
        let w: Vec<&str> = t.split('.').collect();
        if let Some(rest) = w[0].strip_prefix('k') {
            expect_sig += &sign(&sym_sk(dec(rest)), sym_msg(dec(w[1])));
        }
    }
    let expected = !has_inf && sig.is_valid() && sig == expect_sig;
    if args.len() > 1 && args[1] != "-" && (args[1] == "1") != expected {
        return format!("FAIL driver expectation {} but signature equation says {}", args[1], expected);
    }
    let (single, agg, gt, pr) = plain_verdicts(&pairs, &sig);
    if agg != expected {
        return format!("FAIL aggregate_verify={} expected={}", agg, expected);
    }
    if let Some(s) = single {
        if s != expected {
            return format!("FAIL verify={} expected={}", s, expected);
        }
    }
    if !has_inf && (gt != expected || pr != expected) {
        return format!("FAIL aggregate_verify_gt={} aggregate_pairing={} expected={}", gt, pr, expected);
    }
    // cache: cold, warm, tiny capacity, after eviction
    for cap in [1usize, 2, 50] {
        let cache = BlsCache::new(NonZeroUsize::new(cap).unwrap());
        for round in 0..3 {
            let c = cache.aggregate_verify(pairs.iter().map(|(pk, m)| (pk, m.as_slice())), &sig);
            if c != expected {
                return format!("FAIL BlsCache(cap {}) round {} verdict={} expected={} (aggregate_verify={})", cap, round, c, expected, agg);
            }
            if cache.len() > cap {
                return format!("FAIL BlsCache(cap {}) len {}", cap, cache.len());
            }
            if round == 1 {
                cache.evict(pairs.iter().take(1).map(|(pk, m)| (pk, m.as_slice())));
            }
        }
    }
    "OK".into()
}

// ---------------------------------------------------------------- C16: scalar layer and laws
fn sk_from_hex(s: &str) -> Option<SecretKey> {
    let b: [u8; 32] = hx(s).as_slice().try_into().ok()?;
    SecretKey::from_bytes(&b).ok()
}

fn o_laws(args: &[String]) -> String {
    // bls.o_laws SK1 SK2 HIDDEN32 PATH(comma separated u32) MSG
    let (Some(sk1), Some(sk2)) = (sk_from_hex(&args[0]), sk_from_hex(&args[1])) else { return "BADSK".into() };
    let hidden: [u8; 32] = b32(&args[2]);
    let path: Vec<u32> = split_list(&args[3]).into_iter().map(|x| dec(x) as u32).collect();
    let msg = hx(&args[4]);
    let pk1 = sk1.public_key();
    let pk2 = sk2.public_key();
    // derivation commutes with taking the public key, along the whole path
    let mut s = sk1.clone();
    let mut p = pk1;
    for i in &path {
        s = s.derive_unhardened(*i);
        p = p.derive_unhardened(*i);
        if s.public_key() != p {
            return format!("FAIL derive_unhardened does not commute at index {}", i);
        }
        if SecretKey::from_bytes(&s.to_bytes()).ok() != Some(s.clone()) {
            return "FAIL derived secret key does not round-trip".into();
        }
        if PublicKey::from_bytes(&p.to_bytes()).ok() != Some(p) {
            return "FAIL derived public key does not round-trip".into();
        }
    }
    if let Some(last) = path.last() {
        if master_to_wallet_unhardened(&sk1, *last).public_key() != master_to_wallet_unhardened(&pk1, *last) {
            return "FAIL master_to_wallet_unhardened does not commute".into();
        }
        if master_to_wallet_unhardened_intermediate(&sk1).derive_unhardened(*last) != master_to_wallet_unhardened(&sk1, *last) {
            return "FAIL wallet path is not a fold".into();
        }
    }
    // addition
    if (&sk1 + &sk2).public_key() != &pk1 + &pk2 {
        return "FAIL pk(sk1+sk2) != pk1+pk2".into();
    }
    // every operator form (by reference, by value, in place), on distinct, EQUAL, opposite and infinity operands
    {
        let inf = PublicKey::default();
        let mut neg1 = PublicKey::default();
        neg1 -= &pk1;
        let ops: [(&str, &SecretKey, &PublicKey, &SecretKey, &PublicKey); 3] =
            [("distinct", &sk1, &pk1, &sk2, &pk2), ("equal", &sk1, &pk1, &sk1, &pk1), ("equal2", &sk2, &pk2, &sk2, &pk2)];
        for (what, sa, pa, sb, pb) in ops {
            let want = (sa + sb).public_key();
            let by_ref = pa + pb;
            let by_val = pa.clone() + pb;
            let mut in_place = pa.clone();
            in_place += pb;
            let sk_val = (sa.clone() + sb).public_key();
            let mut sk_in_place = sa.clone();
            sk_in_place += sb;
            if by_ref != want || by_val != want || in_place != want || sk_val != want || sk_in_place.public_key() != want {
                return format!("FAIL public/secret key addition forms disagree on {} operands", what);
            }
            // chain: (a + b) + (a + b) through the by-value operator
            let sum = pa + pb;
            if sum.clone() + &sum != (&(sa + sb) + &(sa + sb)).public_key() {
                return format!("FAIL by-value doubling of a sum on {} operands", what);
            }
        }
        if pk1.clone() + &neg1 != inf || &pk1 + &neg1 != inf || pk1.clone() + &inf != pk1 || inf.clone() + &pk1 != pk1 || &inf + &inf != inf
            || inf.clone() + &inf != inf {
            return "FAIL public key addition with the opposite / infinity operand".into();
        }
        let a1 = {
            let mut a = pk1.to_bytes().to_vec();
            a.extend_from_slice(&msg);
            a
        };
        let s1 = sign_raw(&sk1, &a1);
        let s12 = sign_raw(&(&sk1 + &sk1), &a1);
        let mut s_in_place = s1.clone();
        s_in_place += &s1;
        if &s1 + &s1 != s12 || s1.clone() + &s1 != s12 || s_in_place != s12 {
            return "FAIL signature addition forms disagree on equal operands".into();
        }
        let sinf = Signature::default();
        if s1.clone() + &sinf != s1 || sinf.clone() + &s1 != s1 || &sinf + &sinf != sinf {
            return "FAIL signature addition with the identity".into();
        }
    }
    // synthetic keys
    if sk1.derive_synthetic_hidden(&hidden).public_key() != pk1.derive_synthetic_hidden(&hidden) {
        return "FAIL derive_synthetic_hidden does not commute".into();
    }
    if sk1.derive_synthetic().public_key() != pk1.derive_synthetic() {
        return "FAIL derive_synthetic does not commute".into();
    }
    // signing is a function, and is the raw signature of the augmented message
    let sg = sign(&s, &msg);
    if sg != sign(&s, &msg) || sg.to_bytes() != sign(&s.clone(), msg.clone()).to_bytes() {
        return "FAIL signing is not deterministic".into();
    }
    let mut a = p.to_bytes().to_vec();
    a.extend_from_slice(&msg);
    if sg != sign_raw(&s, &a) {
        return "FAIL sign != sign_raw of the augmented message".into();
    }
    if !verify(&sg, &p, &msg) {
        return "FAIL signature by the derived key does not verify under the derived public key".into();
    }
    if Signature::from_bytes(&sg.to_bytes()).ok() != Some(sg.clone()) {
        return "FAIL signature does not round-trip".into();
    }
    // homomorphism of signing in the key: sign_raw(sk1+sk2, a) = sign_raw(sk1,a) + sign_raw(sk2,a)
    if sign_raw(&(&sk1 + &sk2), &a) != &sign_raw(&sk1, &a) + &sign_raw(&sk2, &a) {
        return "FAIL sign_raw is not additive in the key".into();
    }
    "OK".into()
}

fn ar(b: bool) -> &'static str {
    if b { "A" } else { "R" }
}

/// every parsing entry point of the wire layer must agree with the inherent checked / unchecked parsers:
/// Streamable::from_bytes and parse::<false> (checked), from_bytes_unchecked and parse::<true> (unchecked)
fn wire_agrees<T: chia_traits::Streamable + PartialEq>(b: &[u8], checked: &Option<T>, unchecked: &Option<T>) -> Option<String> {
    use chia_traits::Streamable;
    let w_checked = <T as Streamable>::from_bytes(b).ok();
    let w_unchecked = <T as Streamable>::from_bytes_unchecked(b).ok();
    let p_checked = <T as Streamable>::parse::<false>(&mut std::io::Cursor::new(b)).ok();
    let p_unchecked = <T as Streamable>::parse::<true>(&mut std::io::Cursor::new(b)).ok();
    if &w_checked != checked || &p_checked != checked {
        return Some("FAIL the wire parser (Streamable, untrusted) disagrees with the checked parser".into());
    }
    if &w_unchecked != unchecked || &p_unchecked != unchecked {
        return Some("FAIL the wire parser (Streamable, trusted) disagrees with the unchecked parser".into());
    }
    None
}

fn o_pkenc(b: &[u8; 48]) -> String {
    let u = PublicKey::from_bytes_unchecked(b);
    let c = PublicKey::from_bytes(b);
    if let Some(f) = wire_agrees::<PublicKey>(b, &c.clone().ok(), &u.clone().ok()) {
        return f;
    }
    if let Ok(p) = &c {
        match &u {
            Ok(q) if q == p => {}
            _ => return "FAIL checked accepts, unchecked differs".into(),
        }
        if !p.is_valid() {
            return "FAIL checked accepted an invalid point".into();
        }
        if &p.to_bytes() != b {
            return "FAIL accepted encoding is not the canonical one".into();
        }
        // subgroup membership cross-check: (r-1)*P + P must be infinity
        let mut q = *p;
        q.scalar_multiply(&hx("73eda753299d7d483339d80809a1d80553bda402fffe5bfeffffffff00000000"));
        if !(&q + p).is_inf() {
            return "FAIL accepted point is not annihilated by r".into();
        }
    }
    if let Ok(q) = &u {
        if &q.to_bytes() != b {
            return "FAIL unchecked-accepted encoding is not canonical".into();
        }
        if c.is_err() && q.is_valid() {
            return "FAIL unchecked valid but checked rejects".into();
        }
    }
    "OK".into()
}

fn o_sigenc(b: &[u8; 96]) -> String {
    let u = Signature::from_bytes_unchecked(b);
    let c = Signature::from_bytes(b);
    if let Some(f) = wire_agrees::<Signature>(b, &c.clone().ok(), &u.clone().ok()) {
        return f;
    }
    if let Ok(p) = &c {
        match &u {
            Ok(q) if q == p => {}
            _ => return "FAIL checked accepts, unchecked differs".into(),
        }
        if !p.is_valid() {
            return "FAIL checked accepted an invalid point".into();
        }
        if &p.to_bytes() != b {
            return "FAIL accepted encoding is not the canonical one".into();
        }
        let mut q = p.clone();
        q.scalar_multiply(&hx("73eda753299d7d483339d80809a1d80553bda402fffe5bfeffffffff00000000"));
        if &q + p != Signature::default() {
            return "FAIL accepted point is not annihilated by r".into();
        }
    }
    if let Ok(q) = &u {
        if &q.to_bytes() != b {
            return "FAIL unchecked-accepted encoding is not canonical".into();
        }
        if c.is_err() && q.is_valid() {
            return "FAIL unchecked valid but checked rejects".into();
        }
    }
    "OK".into()
}

fn run(name: &str, args: &[String]) -> Option<String> {
    match name {
        "bls.hist" => Some(run_hist(args, false)),
        "bls.o_hist" => Some(run_hist(args, true)),
        "bls.o_agree" => Some(o_agree(args)),
        // what the symbolic keys / objects are (for the driver's independent reference)
        "bls.keyinfo" => {
            let sk = sym_sk(dec(&args[0]));
            Some(format!("{} {}", hexo(&sk.to_bytes()), hexo(&sk.public_key().to_bytes())))
        }
        "bls.pkof" => Some(match sk_from_hex(&args[0]) {
            Some(sk) => hexo(&sk.public_key().to_bytes()),
            None => "BADSK".into(),
        }),
        "bls.sigof" => Some(match sk_from_hex(&args[0]) {
            Some(sk) => hexo(&sign(&sk, hx(&args[1])).to_bytes()),
            None => "BADSK".into(),
        }),
        "bls.dersk" => Some(match sk_from_hex(&args[0]) {
            Some(sk) => {
                if hexo(&sk.public_key().to_bytes()) != args[1] {
                    "BADPK".into()
                } else {
                    format!("S:{}", hexo(&sk.derive_unhardened(dec(&args[2]) as u32).to_bytes()))
                }
            }
            None => "BADSK".into(),
        }),
        // bls.o_derpk PK48 IDX SCALAR32 : pk.derive_unhardened(idx) == G*scalar + pk, scalar from the model
        "bls.o_derpk" => {
            let b: [u8; 48] = hx(&args[0]).as_slice().try_into().unwrap();
            let pk = PublicKey::from_bytes(&b).ok()?;
            let d = pk.derive_unhardened(dec(&args[1]) as u32);
            let want = &PublicKey::from_integer(&hx(&args[2])) + &pk;
            Some(if d == want { "OK".into() } else { "FAIL PublicKey::derive_unhardened differs from G*scalar + pk".to_string() })
        }
        "bls.modgo" => Some(hexo(&mod_by_group_order(b32(&args[0])))),
        "bls.synsk" => Some(match sk_from_hex(&args[0]) {
            Some(sk) => {
                if hexo(&sk.public_key().to_bytes()) != args[1] {
                    "BADPK".into()
                } else {
                    let hidden = b32(&args[2]);
                    let syn = sk.derive_synthetic_hidden(&hidden);
                    // the offset is private; recover it as a public key difference check instead
                    let mut h = Sha256::new();
                    h.update(sk.public_key().to_bytes());
                    h.update(hidden);
                    let off = mod_by_group_order(h.finalize());
                    format!("S:{} {}", hexo(&syn.to_bytes()), hexo(&off))
                }
            }
            None => "BADSK".into(),
        }),
        "bls.skparse" => Some(match sk_from_hex(&args[0]) {
            Some(sk) => format!("A:{}", hexo(&sk.to_bytes())),
            None => "R".into(),
        }),
        "bls.skadd" => Some(match (sk_from_hex(&args[0]), sk_from_hex(&args[1])) {
            (Some(a), Some(b)) => hexo(&(&a + &b).to_bytes()),
            _ => "BADSK".into(),
        }),
        "bls.pkparse" => {
            let b: [u8; 48] = hx(&args[0]).as_slice().try_into().unwrap();
            Some(format!("{} {}", ar(PublicKey::from_bytes_unchecked(&b).is_ok()), ar(PublicKey::from_bytes(&b).is_ok())))
        }
        "bls.sigparse" => {
            let b: [u8; 96] = hx(&args[0]).as_slice().try_into().unwrap();
            Some(format!("{} {}", ar(Signature::from_bytes_unchecked(&b).is_ok()), ar(Signature::from_bytes(&b).is_ok())))
        }
        "bls.o_pkenc" => {
            let b: [u8; 48] = hx(&args[0]).as_slice().try_into().unwrap();
            Some(o_pkenc(&b))
        }
        "bls.o_sigenc" => {
            let b: [u8; 96] = hx(&args[0]).as_slice().try_into().unwrap();
            Some(o_sigenc(&b))
        }
        // bls.o_gt SEED : GTElement round trip on a real pairing value and on its perturbation
        "bls.o_gt" => {
            let p = sym_pair(&args[0]);
            let g = hash_to_g2(&aug(&p)).pair(&p.0);
            let b = g.to_bytes();
            let g2 = GTElement::from_bytes(&b);
            if g2 != g || g2.to_bytes() != b {
                return Some("FAIL GTElement does not round-trip".into());
            }
            let mut b2 = b;
            let pos = dec(&args[1]) as usize % b2.len();
            b2[pos] ^= 1 << (dec(&args[2]) % 8);
            let g3 = GTElement::from_bytes(&b2);
            if g3.to_bytes() != b2 {
                return Some("FAIL perturbed GTElement does not round-trip".into());
            }
            if g3 == g {
                return Some("FAIL two encodings of one GTElement".into());
            }
            Some("OK".into())
        }
        "bls.o_laws" => Some(o_laws(args)),
        // bls.lawsym SK SK' PATH HIDDEN : the three law bits on the real library (see BlsRun.v h_lawsym)
        "bls.lawsym" => {
            let (Some(a), Some(b)) = (sk_from_hex(&args[0]), sk_from_hex(&args[1])) else { return Some("BADSK".into()) };
            let path: Vec<u32> = split_list(&args[2]).into_iter().map(|x| dec(x) as u32).collect();
            let hidden = b32(&args[3]);
            let bit = |x: bool| if x { "1" } else { "0" };
            let d = if path.is_empty() {
                "P".to_string()
            } else {
                let mut s = a.clone();
                let mut p = a.public_key();
                for i in &path {
                    s = s.derive_unhardened(*i);
                    p = p.derive_unhardened(*i);
                }
                bit(s.public_key() == p).to_string()
            };
            let add = bit((&a + &b).public_key() == &a.public_key() + &b.public_key());
            let syn = bit(a.derive_synthetic_hidden(&hidden).public_key() == a.public_key().derive_synthetic_hidden(&hidden));
            Some(format!("{} {} {}", d, add, syn))
        }
        _ => None,
    }
}

fn main() {
    vh::serve(run)
}
