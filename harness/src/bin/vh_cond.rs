//! stream `cond` (C01-C06): parse_spends and friends on CLVM trees given in serialized form
use chia_bls::{aggregate_verify, sign, BlsCache, PublicKey, SecretKey, Signature};
use chia_consensus::conditions::{
    parse_spends, process_single_spend, validate_conditions, EmptyVisitor, MempoolVisitor, ParseState,
    SpendBundleConditions,
};
use chia_consensus::consensus_constants::{ConsensusConstants, TEST_CONSTANTS};
use chia_consensus::flags::ConsensusFlags;
use chia_consensus::opcodes::{compute_unknown_condition_cost, parse_opcode};
use chia_consensus::owned_conditions::{OwnedSpendBundleConditions, OwnedSpendConditions};
use chia_consensus::spend_visitor::SpendVisitor;
use chia_consensus::validation_error::{first, next, ErrorCode, ValidationErr};
use chia_protocol::{Bytes, Bytes32};
use clvmr::serde::node_from_bytes;
use clvmr::{Allocator, NodePtr};
use vh::util::*;

fn consts_of(b: &[u8]) -> ConsensusConstants {
    let mut k = TEST_CONSTANTS.clone();
    let c = |i: usize| Bytes32::new(b[i * 32..(i + 1) * 32].try_into().unwrap());
    k.agg_sig_me_additional_data = c(0);
    k.agg_sig_parent_additional_data = c(1);
    k.agg_sig_puzzle_additional_data = c(2);
    k.agg_sig_amount_additional_data = c(3);
    k.agg_sig_puzzle_amount_additional_data = c(4);
    k.agg_sig_parent_amount_additional_data = c(5);
    k.agg_sig_parent_puzzle_additional_data = c(6);
    k
}

fn optn<T: std::fmt::Display>(o: &Option<T>) -> String {
    match o {
        Some(v) => format!("{}", v),
        None => "-".into(),
    }
}

fn items(v: Vec<String>) -> String {
    if v.is_empty() {
        "-".into()
    } else {
        v.join(",")
    }
}

fn pm(v: &[(PublicKey, Bytes)]) -> String {
    items(v.iter().map(|(pk, m)| format!("{}:{}", hex::encode(pk.to_bytes()), hexo(m.as_ref()))).collect())
}

fn render_spend(s: &OwnedSpendConditions) -> String {
    let mut coins: Vec<Vec<u8>> = s
        .create_coin
        .iter()
        .map(|(ph, amt, hint)| {
            format!(
                "{}:{}:{}",
                hex::encode(ph),
                hex::encode(amt.to_be_bytes()),
                match hint {
                    Some(h) => hexo(h.as_ref()),
                    None => "-".into(),
                }
            )
            .into_bytes()
        })
        .collect();
    coins.sort();
    let coins: Vec<String> = coins.into_iter().map(|c| String::from_utf8(c).unwrap()).collect();
    [
        hex::encode(s.coin_id),
        hex::encode(s.parent_id),
        hex::encode(s.puzzle_hash),
        format!("{}", s.coin_amount),
        optn(&s.height_relative),
        optn(&s.seconds_relative),
        optn(&s.before_height_relative),
        optn(&s.before_seconds_relative),
        optn(&s.birth_height),
        optn(&s.birth_seconds),
        format!("{}", s.flags),
        format!("{}", s.execution_cost),
        format!("{}", s.condition_cost),
        items(coins),
        pm(&s.agg_sig_me),
        pm(&s.agg_sig_parent),
        pm(&s.agg_sig_puzzle),
        pm(&s.agg_sig_amount),
        pm(&s.agg_sig_puzzle_amount),
        pm(&s.agg_sig_parent_amount),
        pm(&s.agg_sig_parent_puzzle),
    ]
    .join(";")
}

pub fn render_bundle(o: &OwnedSpendBundleConditions, pairs: &str) -> String {
    let spends: Vec<String> = o.spends.iter().map(render_spend).collect();
    format!(
        "OK cost={} rf={} ha={} sa={} bha={} bsa={} rem={} add={} cc={} ec={} unsafe={} spends={} pairs={}",
        o.cost,
        o.reserve_fee,
        o.height_absolute,
        o.seconds_absolute,
        optn(&o.before_height_absolute),
        optn(&o.before_seconds_absolute),
        o.removal_amount,
        o.addition_amount,
        o.condition_cost,
        o.execution_cost,
        pm(&o.agg_sig_unsafe),
        if spends.is_empty() { "-".to_string() } else { spends.join("|") },
        pairs
    )
}

pub fn err_name(e: &ValidationErr) -> String {
    format!("ERR {:?}", e.error_code())
}

/// the (key, message) pairs of a bundle, through the public process_single_spend (the loop of
/// parse_spends re-stated; only used for the `pairs=` field)
fn pairs_of<V: SpendVisitor>(
    a: &Allocator,
    spends: NodePtr,
    max_cost: u64,
    clvm_cost: u64,
    flags: ConsensusFlags,
    k: &ConsensusConstants,
) -> Result<Vec<(PublicKey, Bytes)>, ValidationErr> {
    let mut ret = SpendBundleConditions::default();
    let mut state = ParseState::default();
    let mut cost_left = max_cost;
    let mut iter = first(a, spends)?;
    while let Some((spend, nxt)) = next(a, iter)? {
        iter = nxt;
        let parent = first(a, spend)?;
        let r1 = chia_consensus::validation_error::rest(a, spend)?;
        let ph = first(a, r1)?;
        let r2 = chia_consensus::validation_error::rest(a, r1)?;
        let amount = first(a, r2)?;
        let r3 = chia_consensus::validation_error::rest(a, r2)?;
        let conds = first(a, r3)?;
        process_single_spend::<V>(a, &mut ret, &mut state, parent, ph, amount, conds, flags, &mut cost_left, clvm_cost, k)?;
    }
    V::post_process(a, &state, &mut ret)?;
    validate_conditions(a, &ret, &state, flags)?;
    Ok(state.pkm_pairs.clone())
}

fn sk_of(i: u64) -> SecretKey {
    let mut seed = [0_u8; 32];
    seed[0..8].copy_from_slice(&i.to_be_bytes());
    seed[31] = 0x5a;
    SecretKey::from_seed(&seed)
}

fn run(name: &str, args: &[String]) -> Option<String> {
    match name {
        "cond.parse" => {
            // FLAGS VISITOR MAXCOST CLVMCOST CONSTS VALIDKEYS TREE [SIG [CACHE]]
            let flags = ConsensusFlags::from_bits_truncate(dec(&args[0]) as u32);
            let mempool = dec(&args[1]) == 1;
            let max_cost = dec(&args[2]);
            let clvm_cost = dec(&args[3]);
            let k = consts_of(&hx(&args[4]));
            let tree = hx(&args[6]);
            let sig = if args.len() > 7 && args[7] != "-" {
                match Signature::from_bytes(hx(&args[7]).as_slice().try_into().unwrap()) {
                    Ok(s) => s,
                    Err(_) => return Some("ERR-BADSIG-ENCODING".into()),
                }
            } else {
                Signature::default()
            };
            let cache_mode = if args.len() > 8 { dec(&args[8]) } else { 0 };
            let mut a = Allocator::new();
            let node = match node_from_bytes(&mut a, &tree) {
                Ok(n) => n,
                Err(_) => return Some("ERR-DESER".into()),
            };
            let cache = BlsCache::default();
            if cache_mode == 2 {
                // warm the cache with the pairs of this very bundle
                let warm = if mempool {
                    pairs_of::<MempoolVisitor>(&a, node, max_cost, clvm_cost, flags, &k)
                } else {
                    pairs_of::<EmptyVisitor>(&a, node, max_cost, clvm_cost, flags, &k)
                };
                if let Ok(p) = warm {
                    let _ = cache.aggregate_verify(p.iter().map(|(pk, m)| (pk, m.as_ref())), &Signature::default());
                }
            }
            let c = if cache_mode > 0 { Some(&cache) } else { None };
            let r = if mempool {
                parse_spends::<MempoolVisitor>(&a, node, max_cost, clvm_cost, flags, &sig, c, &k)
            } else {
                parse_spends::<EmptyVisitor>(&a, node, max_cost, clvm_cost, flags, &sig, c, &k)
            };
            Some(match r {
                Ok(conds) => {
                    let pairs = if mempool {
                        pairs_of::<MempoolVisitor>(&a, node, max_cost, clvm_cost, flags, &k)
                    } else {
                        pairs_of::<EmptyVisitor>(&a, node, max_cost, clvm_cost, flags, &k)
                    };
                    let ps = match pairs {
                        Ok(p) => pm(&p),
                        Err(_) => "MISMATCH".into(),
                    };
                    let o = OwnedSpendBundleConditions::from(&a, conds);
                    render_bundle(&o, &ps)
                }
                Err(e) => err_name(&e),
            })
        }
        "cond.finalmsg" => {
            // OP MSG PARENT PH AMOUNT CONSTS -> make_aggsig_final_message
            use chia_consensus::make_aggsig_final_message::make_aggsig_final_message;
            use chia_consensus::owned_conditions::OwnedSpendConditions as OSC;
            let op = dec(&args[0]) as u16;
            let msg = hx(&args[1]);
            let k = consts_of(&hx(&args[5]));
            let parent = Bytes32::new(b32(&args[2]));
            let ph = Bytes32::new(b32(&args[3]));
            let amount = dec(&args[4]);
            let coin = chia_protocol::Coin::new(parent, ph, amount);
            let mut spend = OSC::default();
            spend.coin_id = coin.coin_id();
            spend.parent_id = parent;
            spend.puzzle_hash = ph;
            spend.coin_amount = amount;
            let mut m: Vec<u8> = msg;
            make_aggsig_final_message(op, &mut m, &spend, &k);
            Some(hexo(&m))
        }
        "cond.vcs" => {
            // FLAGS MAXCOST CONSTS SIG TREE : the mempool pre-validation path.  Every spend (parent ph amount conds) of the
            // tree becomes a CoinSpend whose puzzle is (q . conds) and whose solution is nil; ph must be the tree hash of
            // that puzzle (the driver computes it), so the bundle yields exactly the conditions of the tree.
            use chia_consensus::spendbundle_validation::validate_clvm_and_signature;
            use chia_protocol::{Coin, CoinSpend, Program, SpendBundle};
            use clvmr::serde::node_to_bytes;
            let flags = ConsensusFlags::from_bits_truncate(dec(&args[0]) as u32);
            let max_cost = dec(&args[1]);
            let k = consts_of(&hx(&args[2]));
            let sig = match Signature::from_bytes(hx(&args[3]).as_slice().try_into().unwrap()) {
                Ok(s) => s,
                Err(_) => return Some("ERR-BADSIG-ENCODING".into()),
            };
            let mut a = Allocator::new();
            let node = node_from_bytes(&mut a, &hx(&args[4])).ok()?;
            let mut spends = Vec::new();
            let mut iter = first(&a, node).ok()?;
            while let Some((sp, nxt)) = next(&a, iter).ok()? {
                iter = nxt;
                let parent = first(&a, sp).ok()?;
                let r1 = chia_consensus::validation_error::rest(&a, sp).ok()?;
                let ph = first(&a, r1).ok()?;
                let r2 = chia_consensus::validation_error::rest(&a, r1).ok()?;
                let amount = first(&a, r2).ok()?;
                let r3 = chia_consensus::validation_error::rest(&a, r2).ok()?;
                let conds = first(&a, r3).ok()?;
                let one = a.new_atom(&[1]).unwrap();
                let puzzle = a.new_pair(one, conds).unwrap();
                let pbytes = node_to_bytes(&a, puzzle).unwrap();
                let mut amt = [0_u8; 8];
                let ab = a.atom(amount).as_ref().to_vec();
                let ab = if ab.len() > 8 { ab[ab.len() - 8..].to_vec() } else { ab };
                amt[8 - ab.len()..].copy_from_slice(&ab);
                let coin = Coin::new(
                    Bytes32::new(a.atom(parent).as_ref().try_into().ok()?),
                    Bytes32::new(a.atom(ph).as_ref().try_into().ok()?),
                    u64::from_be_bytes(amt),
                );
                spends.push(CoinSpend::new(coin, Program::from(pbytes), Program::from(vec![0x80_u8])));
            }
            let sb = SpendBundle::new(spends, sig);
            Some(match validate_clvm_and_signature(&sb, max_cost, &k, flags) {
                Ok((conds, pairs)) => format!("OK npairs={} spends={}", pairs.len(), conds.spends.len()),
                Err(e) => err_name(&e),
            })
        }
        "cond.coinid" => {
            // PARENT PH AMOUNT -> Coin::coin_id (the coin-id function of chia-protocol)
            let coin = chia_protocol::Coin::new(Bytes32::new(b32(&args[0])), Bytes32::new(b32(&args[1])), dec(&args[2]));
            Some(hex::encode(coin.coin_id()))
        }
        "cond.ucost" => Some(format!("{}", compute_unknown_condition_cost(dec(&args[0]) as u16))),
        "cond.opcode" => {
            let mut a = Allocator::new();
            let n = a.new_atom(&hx(&args[0])).unwrap();
            Some(match parse_opcode(&a, n, ConsensusFlags::empty()) {
                Some(op) => format!("{}", op),
                None => "none".into(),
            })
        }
        "cond.consts" => {
            let k = &TEST_CONSTANTS;
            let mut v = Vec::new();
            v.extend_from_slice(&k.agg_sig_me_additional_data);
            v.extend_from_slice(&k.agg_sig_parent_additional_data);
            v.extend_from_slice(&k.agg_sig_puzzle_additional_data);
            v.extend_from_slice(&k.agg_sig_amount_additional_data);
            v.extend_from_slice(&k.agg_sig_puzzle_amount_additional_data);
            v.extend_from_slice(&k.agg_sig_parent_amount_additional_data);
            v.extend_from_slice(&k.agg_sig_parent_puzzle_additional_data);
            Some(hex::encode(v))
        }
        "cond.keys" => {
            let n = dec(&args[0]);
            Some((0..n).map(|i| hex::encode(sk_of(i).public_key().to_bytes())).collect::<Vec<_>>().join(","))
        }
        "cond.offkeys" => {
            // N encodings of points ON the curve but OUTSIDE the prime-order subgroup (found by search through the
            // unchecked parser): to_key must reject them although they decompress fine
            let n = dec(&args[0]) as usize;
            let mut out: Vec<String> = vec![];
            let mut c: u32 = 0;
            while out.len() < n && c < 100000 {
                let mut b = [0u8; 48];
                let mut seed = (c as u64).wrapping_mul(0x9e3779b97f4a7c15) ^ 0x5851f42d4c957f2d;
                for x in b.iter_mut() {
                    seed ^= seed << 13;
                    seed ^= seed >> 7;
                    seed ^= seed << 17;
                    *x = (seed >> 24) as u8;
                }
                b[0] = 0x80 | (b[0] & 0x2f);
                if let Ok(p) = PublicKey::from_bytes_unchecked(&b) {
                    if !p.is_valid() && !p.is_inf() {
                        out.push(hex::encode(p.to_bytes()));
                    }
                }
                c += 1;
            }
            Some(if out.is_empty() { "-".into() } else { out.join(",") })
        }
        "cond.keyvalid" => {
            // is this 48-byte string a valid, non-infinity public key (what to_key accepts)?
            let b = hx(&args[0]);
            let ok = match <[u8; 48]>::try_from(b.as_slice()) {
                Ok(arr) => match PublicKey::from_bytes(&arr) {
                    Ok(pk) => !pk.is_inf(),
                    Err(_) => false,
                },
                Err(_) => false,
            };
            Some(if ok { "1".into() } else { "0".into() })
        }
        "cond.aggsign" => {
            // PAIRS = idx:msghex,idx:msghex,...  -> aggregate signature
            let mut sig = Signature::default();
            if args[0] != "-" {
                for p in args[0].split(',') {
                    let (i, m) = p.split_once(':').unwrap();
                    sig.aggregate(&sign(&sk_of(i.parse().unwrap()), hx(m)));
                }
            }
            Some(hex::encode(sig.to_bytes()))
        }
        "cond.verify" => {
            // SIG PAIRS(pkhex:msghex,...) -> plain aggregate_verify verdict
            let sig = Signature::from_bytes(hx(&args[0]).as_slice().try_into().unwrap()).ok()?;
            let mut pairs: Vec<(PublicKey, Vec<u8>)> = Vec::new();
            if args[1] != "-" {
                for p in args[1].split(',') {
                    let (k, m) = p.split_once(':').unwrap();
                    let pk = PublicKey::from_bytes(hx(k).as_slice().try_into().unwrap()).ok()?;
                    pairs.push((pk, hx(m)));
                }
            }
            Some(if aggregate_verify(&sig, pairs.iter().map(|(k, m)| (k, m.as_slice()))) { "1".into() } else { "0".into() })
        }
        _ => None,
    }
}

fn main() {
    vh::serve(run);
}
