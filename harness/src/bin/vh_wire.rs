//! unit `wire` (C13, C14, C20) — implementation side; the code is src/wire_main.inc.rs
#![allow(clippy::all)]
#![allow(dead_code, unused_macros, unused_imports)]
include!("../wire_main.inc.rs");
