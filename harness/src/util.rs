//! small helpers shared by all streams
pub fn hx(s: &str) -> Vec<u8> {
    if s == "-" {
        return vec![];
    }
    hex::decode(s).expect("hex argument")
}
pub fn hexo(b: &[u8]) -> String {
    if b.is_empty() {
        "-".to_string()
    } else {
        hex::encode(b)
    }
}
pub fn dec(s: &str) -> u64 {
    s.parse().expect("decimal argument")
}
pub fn b32(s: &str) -> [u8; 32] {
    let v = hx(s);
    v.as_slice().try_into().expect("32 bytes")
}
