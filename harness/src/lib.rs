//! vh — implementation side of the correspondence check (shared library part).
//! Each unit has its own binary src/bin/vh_<unit>.rs which calls `vh::serve(run)`:
//! read case lines "stream.op arg arg ..." on stdin, run the real chia_rs code on each
//! (under catch_unwind), print one result line per case in the format the Coq model prints.
use std::io::{self, BufRead, Write};
use std::panic;

pub mod util;

pub fn serve(run: fn(&str, &[String]) -> Option<String>) {
    // silence panic messages: a panic is an outcome, reported on the result line
    // (VH_PANIC_MSG=1 prints them on stderr, for diagnosing a replay)
    if std::env::var("VH_PANIC_MSG").is_err() {
        panic::set_hook(Box::new(|_| {}));
    }
    let stdin = io::stdin();
    let stdout = io::stdout();
    let mut out = io::BufWriter::new(stdout.lock());
    for line in stdin.lock().lines() {
        let line = line.expect("read");
        let toks: Vec<&str> = line.split(' ').collect();
        let name = toks[0].to_string();
        let args: Vec<String> = toks[1..].iter().map(|s| s.to_string()).collect();
        let r = panic::catch_unwind(move || run(&name, &args));
        match r {
            Ok(Some(s)) => writeln!(out, "{}", s).unwrap(),
            Ok(None) => writeln!(out, "ERR-UNKNOWN-STREAM").unwrap(),
            Err(_) => writeln!(out, "PANIC").unwrap(),
        }
        out.flush().unwrap();
    }
}
