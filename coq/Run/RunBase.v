(* Run/RunBase.v — helpers for the line-oriented model runner.
   A case is one ASCII line "stream op arg arg ..."; arguments are hex (data) or decimal
   (small numbers).  A handler maps the argument tokens to one ASCII output line. *)
From Coq Require Import String.
From ChiaV.Base Require Import Bytes.
Open Scope N_scope.

Definition handler := list bytes -> bytes.

Definition hx (tok : bytes) : bytes :=            (* "-" denotes the empty string *)
  match tok with
  | [c] => if byte_eqb c x2d then [] else []
  | _ => match of_hex tok with Some b => b | None => [] end
  end.
Definition dec (tok : bytes) : N := match of_dec tok with Some n => n | None => 0 end.
Definition hexo (b : bytes) : bytes := match b with [] => [x2d] | _ => to_hex b end.
Definition arg (n : nat) (args : list bytes) : bytes := nth n args [].
Definition words (l : list bytes) : bytes := join [sp] l.
Definition opt_hexo (o : option bytes) : bytes :=
  match o with Some b => str "S:" ++ hexo b | None => str "N" end.
Definition boolo (b : bool) : bytes := if b then str "1" else str "0".

Fixpoint assoc_bytes {A} (k : bytes) (l : list (bytes * A)) : option A :=
  match l with
  | [] => None
  | (k', v) :: r => if bytes_eqb k k' then Some v else assoc_bytes k r
  end.

Definition dispatch_table (tbl : list (bytes * handler)) (line : bytes) : bytes :=
  match tokens line with
  | name :: args =>
      match assoc_bytes name tbl with
      | Some h => h args
      | None => str "ERR-UNKNOWN-STREAM"
      end
  | [] => str "ERR-EMPTY"
  end.
