(* Run/GenRun.v — executable rendering of the block-generator mirrors (stream `gen`, C07/C09).
   The CLVM oracle `run` is instantiated by the table of real evaluations the harness recorded
   for the case: (program, environment) -> (cost, result) | failure kind. *)
From Coq Require Import String.
From ChiaV.Base Require Import Bytes Sha256.
From ChiaV.Clvm Require Import Sexp Ints TreeHash.
From ChiaV.Gen Require Import Opcodes Ladders ChainConsts.
From ChiaV.Cond Require Import Model Render.
From ChiaV.Chain Require Import Backref Intern Rom Generator Trusted.
From ChiaV.Run Require Import RunBase.
Open Scope N_scope.

Fixpoint chunks (fuel : nat) (n : nat) (b : bytes) : list bytes :=
  match fuel with
  | O => []
  | S f => match b with [] => [] | _ => firstn n b :: chunks f n (skipn n b) end
  end.

Definition consts_of (b : bytes) : consts :=
  let c := chunks 8 32 b in
  {| c_me := nth 0 c []; c_parent := nth 1 c []; c_puzzle := nth 2 c []; c_amount := nth 3 c [];
     c_puzzle_amount := nth 4 c []; c_parent_amount := nth 5 c []; c_parent_puzzle := nth 6 c [] |}.

(* REFS: "-" = none; otherwise comma separated hex, "e" = an empty reference *)
Definition refs_of (tok : bytes) : list bytes :=
  match tok with
  | [c] => if byte_eqb c x2d then [] else [hx tok]
  | _ => map (fun t => match t with [c] => if byte_eqb c x65 then [] else hx t | _ => hx t end) (split_on x2c tok [])
  end.

(* cheap structural fingerprint, only to find table entries quickly *)
Definition M64 : N := 2 ^ 64.
Definition fnv_step (h : N) (b : byte) : N := (N.lxor h (b2n b) * 0x100000001b3) mod M64.
Definition fnv (bs : bytes) : N := fold_left fnv_step bs 0xcbf29ce484222325.
Fixpoint fp (t : sexp) : N :=
  match t with
  | Atom b => fnv b
  | Pair l r => ((fp l * 31 + fp r) * 0x100000001b3 + 7) mod M64
  end.

Record entry := { e_fp : N; e_fa : N; e_p : sexp; e_a : sexp; e_kind : N; e_cost : N; e_res : sexp }.

Fixpoint table_of (t : sexp) : list entry :=
  match t with
  | Pair (Pair p (Pair a (Pair (Atom k) (Pair (Atom c) r)))) rest =>
      {| e_fp := fp p; e_fa := fp a; e_p := p; e_a := a; e_kind := be2n k; e_cost := be2n c; e_res := r |} :: table_of rest
  | _ => []
  end.

Fixpoint find_entry (tbl : list entry) (fpp fpa : N) (p a : sexp) : option entry :=
  match tbl with
  | [] => None
  | e :: r =>
      if (e_fp e =? fpp) && (e_fa e =? fpa) && sexp_eqb p (e_p e) && sexp_eqb a (e_a e) then Some e
      else find_entry r fpp fpa p a
  end.

(* the oracle: exact above the budget; interpreter resource limits are reported like cost exhaustion;
   InternalPanic marks an evaluation the harness never saw (a model/implementation mismatch) *)
Definition run_of_table (tbl : list entry) (p a : sexp) (budget : N) : res (N * sexp) :=
  match find_entry tbl (fp p) (fp a) p a with
  | None => Err InternalPanic
  | Some e =>
      if e_kind e =? 0 then (if e_cost e <=? budget then Ok (e_cost e, e_res e) else Err CostExceeded)
      else if e_kind e =? 3 then Err GeneratorRuntimeError
      else Err CostExceeded
  end.

Definition table_arg (tok : bytes) : list entry :=
  match node_from_bytes_backrefs (hx tok) with Some t => table_of t | None => [] end.

Definition keys_arg (tok : bytes) : list bytes := let kb := hx tok in chunks (S (length kb)) 48 kb.

(* the default (identity) signature verifies exactly the empty pair list *)
Definition sig_default (pairs : list (bytes * bytes)) : bool := match pairs with [] => true | _ => false end.

Definition show (r : res gresult) : bytes :=
  match r with
  | Ok (b, spends, _) => render_bundle b spends []
  | Err InternalPanic => str "NOLOOKUP"
  | Err e => str "ERR " ++ ecode_name e
  end.

Definition sep3 : bytes := str " ## ".

(* gen.both FLAGS MAXCOST BUDGET CONSTS PROGRAM REFS KEYS TABLE *)
Definition h_both (args : list bytes) : bytes :=
  let gf := gflags_of_bits (dec (arg 0 args)) in
  let max_cost := dec (arg 1 args) in
  let budget := dec (arg 2 args) in
  let K := consts_of (hx (arg 3 args)) in
  let program := hx (arg 4 args) in
  let refs := refs_of (arg 5 args) in
  let keys := keys_arg (arg 6 args) in
  let tbl := table_arg (arg 7 args) in
  let run := run_of_table tbl in
  let vk := fun pk => mem_bytes pk keys in
  let r1 := run_block_generator run vk sig_default sha256 K program refs max_cost gf in
  let r2 := run_block_generator2 run vk sig_default sha256 K program refs max_cost gf in
  let rom :=
    match node_from_bytes_backrefs program with
    | None => str "na"
    | Some prog =>
        match run ROM (rom_args prog refs) budget, rom_eval run sha256 prog refs with
        | Err InternalPanic, _ => str "NOLOOKUP"
        | Err CostExceeded, _ => str "res"
        | Err _, Err InternalPanic => str "NOLOOKUP"
        | Err _, Err _ => str "err"
        | Err _, Ok _ => str "ok-BUT-ROM-FAILED"
        | Ok _, Err InternalPanic => str "NOLOOKUP"
        | Ok _, Err _ => str "err-BUT-ROM-RAN"
        | Ok (c, out), Ok (c', out') =>
            if negb (sexp_eqb out out') then str "DIFF"
            else if c <? c' then str "COSTLOW"
            else str "ok"
        end
    end in
  show r1 ++ sep3 ++ show r2 ++ sep3 ++ str "rom=" ++ rom.

(* ---------- C09 ---------- *)
Definition bar : bytes := [x7c].
Definition list_or_dash (l : list bytes) (sep : bytes) : bytes := match l with [] => [x2d] | _ => join sep l end.

Definition coin_str (c : coin) : bytes :=
  to_hex (co_parent c) ++ colon ++ to_hex (co_ph c) ++ colon ++ to_dec (co_amount c).

Definition hex16 (n : N) : bytes := to_hex (n2be 8 n).
Definition digest (b : bytes) : bytes := to_dec (nlen b) ++ [x2e] ++ hex16 (fnv b).
Definition digest_node (t : sexp) : bytes := digest (ser' t).

Definition cs_str (cs : coin_spend) : bytes :=
  coin_str (cs_coin cs) ++ colon ++ digest (cs_puzzle cs) ++ colon ++ digest (cs_solution cs).

Definition hint_str (h : option bytes) : bytes := opt_hexo h.

(* gen.trusted FLAGS PROGRAM REFS KEYS TABLE *)
Definition h_trusted (args : list bytes) : bytes :=
  let gf := gflags_of_bits (dec (arg 0 args)) in
  let program := hx (arg 1 args) in
  let refs := refs_of (arg 2 args) in
  let tbl := table_arg (arg 4 args) in
  let run := run_of_table tbl in
  let ar := additions_and_removals run sha256 program refs gf in
  let ar_s :=
    match ar with
    | Ok (adds, rems) =>
        str "A=" ++ list_or_dash (map (fun ch => coin_str (fst ch) ++ colon ++ hint_str (snd ch)) adds) bar
        ++ str " R=" ++ list_or_dash (map (fun ic => to_hex (fst ic) ++ colon ++ coin_str (snd ic)) rems) bar
    | Err InternalPanic => str "NOLOOKUP"
    | Err _ => str "ERR"
    end in
  let cs_s :=
    match get_coinspends_for_trusted_block run sha256 program refs gf with
    | Ok l => list_or_dash (map cs_str l) bar
    | Err InternalPanic => str "NOLOOKUP"
    | Err _ => str "ERR"
    end in
  let csc_s :=
    match get_coinspends_with_conditions_for_trusted_block run sha256 program refs gf with
    | Ok l =>
        list_or_dash
          (map (fun cc =>
                  cs_str (fst cc) ++ colon ++
                  list_or_dash (map (fun oa => to_dec (fst oa) ++ [x28] ++ join comma (map hexo (snd oa)) ++ [x29]) (snd cc)) [x2f])
               l) bar
    | Err InternalPanic => str "NOLOOKUP"
    | Err _ => str "ERR"
    end in
  let lk_s :=
    match ar with
    | Ok (_, rems) =>
        match (prog <- deser_program program ;;
               a <- setup_generator_args refs gf ;;
               run_program run prog a MAX_BLOCK_COST_CLVM) with
        | Ok (_, out) =>
            list_or_dash
              (map (fun ic =>
                      match get_puzzle_and_solution_for_coin sha256 out (snd ic) with
                      | Ok (p, s) => digest_node p ++ colon ++ digest_node s
                      | Err _ => str "ERR"
                      end) rems) bar
        | Err InternalPanic => str "NOLOOKUP"
        | Err _ => str "ERR"
        end
    | Err _ => [x2d]
    end in
  ar_s ++ sep3 ++ str "CS=" ++ cs_s ++ sep3 ++ str "CSC=" ++ csc_s ++ sep3 ++ str "LK=" ++ lk_s.

(* gen.sbadd PROGRAM REFS TABLE0 : SpendBundle::additions on the recovered coin spends (flags 0) *)
Definition h_sbadd (args : list bytes) : bytes :=
  let gf := gflags_of_bits 0 in
  let program := hx (arg 0 args) in
  let refs := refs_of (arg 1 args) in
  let run := run_of_table (table_arg (arg 2 args)) in
  match get_coinspends_for_trusted_block run sha256 program refs gf with
  | Err InternalPanic => str "NOLOOKUP"
  | Err _ => str "ERR-CS"
  | Ok cs =>
      match spend_bundle_additions run sha256 cs with
      | Ok l => list_or_dash (map coin_str l) bar
      | Err InternalPanic => str "NOLOOKUP"
      | Err _ => str "ERR"
      end
  end.

(* gen.rebuild FLAGS PROGRAM REFS KEYS TABLE : solution_generator over the recovered coin spends *)
Definition h_rebuild (args : list bytes) : bytes :=
  let gf := gflags_of_bits (dec (arg 0 args)) in
  let program := hx (arg 1 args) in
  let refs := refs_of (arg 2 args) in
  let run := run_of_table (table_arg (arg 4 args)) in
  match get_coinspends_for_trusted_block run sha256 program refs gf with
  | Err InternalPanic => str "NOLOOKUP"
  | Err _ => str "ERR-CS"
  | Ok cs =>
      let d := fun r : option bytes => match r with Some b => digest b | None => str "ERR" end in
      str "rev=" ++ d (solution_generator (fast_rev cs)) ++ str " fwd=" ++ d (solution_generator cs)
  end.

(* gen.plain PROGRAM : back-reference deserialization, then plain serialization *)
Definition h_plain (args : list bytes) : bytes :=
  match node_from_bytes_backrefs (hx (arg 0 args)) with
  | Some t => to_hex (ser' t)
  | None => str "ERR"
  end.

(* gen.vbytes PROGRAM : interned_vbytes of the deserialized program *)
Definition h_vbytes (args : list bytes) : bytes :=
  match node_from_bytes_backrefs (hx (arg 0 args)) with
  | Some t => to_dec (interned_vbytes t)
  | None => str "ERR"
  end.

(* gen.romconst : the deserializer constant inside the ROM equals CHIALISP_DESERIALISATION *)
Definition h_romconst (args : list bytes) : bytes :=
  boolo (sexp_eqb rom_local_deserialize_mod DESERIALIZER) ++ [sp] ++ to_hex (ser' ROM).

Definition gen_handlers : list (bytes * handler) :=
  [ (str "gen.both", h_both); (str "gen.trusted", h_trusted); (str "gen.sbadd", h_sbadd); (str "gen.rebuild", h_rebuild);
    (str "gen.plain", h_plain); (str "gen.vbytes", h_vbytes); (str "gen.romconst", h_romconst) ].

Definition dispatch_n (line : list N) : list N :=
  map b2n (dispatch_table gen_handlers (map n2b line)).
