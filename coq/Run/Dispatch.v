(* Run/Dispatch.v — the single entry point of the model runner. *)
From Coq Require Import String.
From ChiaV.Base Require Import Bytes.
From ChiaV.Run Require Import RunBase IntsRun.

Definition all_handlers : list (bytes * handler) := ints_handlers.

Definition dispatch (line : bytes) : bytes := dispatch_table all_handlers line.

(* entry used by the extracted runner: bytes as numbers 0..255 *)
Definition dispatch_n (line : list N) : list N := map b2n (dispatch (map n2b line)).
