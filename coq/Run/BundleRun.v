(* Run/BundleRun.v — executable rendering of the `bundle` unit's mirrors (C08, C10).
   Line formats: see harness/src/bin/vh_bundle.rs.  The oracle values (CLVM run results, key validity, signature
   verdict, compressed generator lengths, serializer sizes) are recorded from the implementation per case and
   arrive on the case line. *)
From Coq Require Import String.
From ChiaV.Base Require Import Bytes Sha256.
From ChiaV.Clvm Require Import Sexp Ints TreeHash.
From ChiaV.Gen Require Import Opcodes Ladders Builder.
From ChiaV.Cond Require Import Model Render.
From ChiaV.Bundle Require Import SolutionGen Interned SpendBundle BlockPath Builder BuilderExec.
From ChiaV.Run Require Import RunBase CondRun.
Open Scope N_scope.

Definition split (sep : byte) (b : bytes) : list bytes := split_on sep b [].
Definition is_dash (t : bytes) : bool := match t with [c] => byte_eqb c x2d | _ => false end.
Definition list_of (sep : byte) (t : bytes) : list bytes := if is_dash t then [] else split sep t.

Definition c_comma := x2c.
Definition c_colon := x3a.
Definition c_semi := x3b.
Definition c_slash := x2f.
Definition c_at := x40.
Definition c_bang := x21.

(* parent:ph:amount:puzzle:solution *)
Definition parse_cspend (t : bytes) : cspend :=
  let f := split c_colon t in
  {| cs_parent := hx (arg 0 f); cs_ph := hx (arg 1 f); cs_amount := dec (arg 2 f);
     cs_puzzle := hx (arg 3 f); cs_solution := hx (arg 4 f) |}.
Definition parse_cspends (t : bytes) : list cspend := map parse_cspend (list_of c_comma t).

(* ---------- the CLVM oracle: recorded (puzzle, solution) -> (cost, result) pairs + the quote rule ---------- *)
Definition oentry := (sexp * sexp * option (N * sexp))%type.

Definition parse_oracle_entry (s : cspend) (t : bytes) : list oentry :=
  match node_from_bytes (cs_puzzle s), node_from_bytes (cs_solution s) with
  | Some p, Some sol =>
      match split c_colon t with
      | [c; r] => match node_from_bytes (hx r) with
                  | Some res => [(p, sol, Some (dec c, res))]
                  | None => [(p, sol, None)]
                  end
      | _ => [(p, sol, None)]
      end
  | _, _ => []
  end.

Fixpoint zip_oracle (spends : list cspend) (entries : list bytes) : list oentry :=
  match spends, entries with
  | s :: r, e :: er => parse_oracle_entry s e ++ zip_oracle r er
  | _, _ => []
  end.

Definition QUOTE_COST : N := 20.

Definition mk_run (tbl : list oentry) (p s : sexp) (budget : N) : res (N * sexp) :=
  match find (fun e : oentry => sexp_eqb p (fst (fst e)) && sexp_eqb s (snd (fst e))) tbl with
  | Some (_, Some (c, r)) => if budget <? c then Err CostExceeded else Ok (c, r)
  | Some (_, None) => Err GeneratorRuntimeError
  | None =>
      match p with
      | Pair (Atom [b]) x =>
          if byte_eqb b x01 then (if budget <? QUOTE_COST then Err CostExceeded else Ok (QUOTE_COST, x))
          else Err GeneratorRuntimeError
      | _ => Err GeneratorRuntimeError
      end
  end.

Definition keys_of (kb : bytes) : list bytes := chunks (S (length kb)) 48 kb.

(* common arguments: FLAGS MAXCOST CPB CONSTS KEYS SIGV ORACLE SPENDS SIG *)
Definition blank_pairs (r : res (bundle * list spend * list (bytes * bytes)))
  : res (bundle * list spend * list (bytes * bytes)) :=
  match r with Ok (b, sp, _) => Ok (b, sp, []) | Err e => Err e end.

Definition h_sb (args : list bytes) : bytes :=
  let fl := bflags_of_bits (dec (arg 0 args)) in
  let max_cost := dec (arg 1 args) in
  let cpb := dec (arg 2 args) in
  let K := consts_of (hx (arg 3 args)) in
  let keys := keys_of (hx (arg 4 args)) in
  let sigv := dec (arg 5 args) =? 1 in
  let spends := parse_cspends (arg 7 args) in
  let run := mk_run (zip_oracle spends (list_of c_comma (arg 6 args))) in
  let r := run_spendbundle (fun pk => mem_bytes pk keys) sha256 K run cpb fl spends max_cost in
  (* = validate_clvm_and_signature ... spends max_cost, without running the bundle twice *)
  let v := check_signature (fun _ => sigv) r in
  render_result r ++ str " # V=" ++ (match v with Ok _ => str "OK" | Err _ => str "ERR" end).

(* ... MODE GENLEN *)
Definition h_blk (args : list bytes) : bytes :=
  let fl := bflags_of_bits (dec (arg 0 args)) in
  let max_cost := dec (arg 1 args) in
  let cpb := dec (arg 2 args) in
  let K := consts_of (hx (arg 3 args)) in
  let keys := keys_of (hx (arg 4 args)) in
  let sigv := dec (arg 5 args) =? 1 in
  let spends := parse_cspends (arg 7 args) in
  let run := mk_run (zip_oracle spends (list_of c_comma (arg 6 args))) in
  match build_generator spends with
  | None => str "ERR-BUILD"
  | Some g =>
      let program := ser' g in
      let plain_mode := match arg 9 args with [c] => byte_eqb c x70 | _ => false end in
      let gen_len := if plain_mode then nlen program else dec (arg 10 args) in
      render_result (blank_pairs
        (run_block_generator2 (fun pk => mem_bytes pk keys) sha256 K run (fun _ => sigv) cpb fl nil program gen_len max_cost))
  end.

(* bundle.gen SPENDS *)
Definition h_gen (args : list bytes) : bytes :=
  let spends := parse_cspends (arg 0 args) in
  let len := calculate_generator_length spends in
  match build_generator spends with
  | None => str "len=" ++ to_dec len ++ str " ERR-BUILD"
  | Some g =>
      str "len=" ++ to_dec len ++ str " ivb=" ++ to_dec (interned_vbytes g) ++ str " gen=" ++ to_hex (ser' g)
  end.

(* ---------- builder histories ---------- *)
(* the signature monoid and the serializer are instantiated by Bundle/BuilderExec.v *)
Definition parse_sig (t : bytes) : xsig :=
  if is_dash t then []
  else match t with
       | c :: r => if byte_eqb c x6b then [dec r] else [be2n (hx t)]
       | [] => []
       end.

Definition parse_bundle (t : bytes) : sbundle xsig :=
  match split c_bang t with
  | [s; sp] => {| sb_spends := parse_cspends sp; sb_sig := parse_sig s |}
  | _ => {| sb_spends := []; sb_sig := [] |}
  end.

Fixpoint insert_n (x : N) (l : list N) : list N :=
  match l with [] => [x] | y :: r => if x <=? y then x :: l else y :: insert_n x r end.
Definition sort_n (l : list N) : list N := fold_left (fun acc x => insert_n x acc) l [].
Definition render_sig (s : xsig) : bytes :=
  match s with [] => [x2d] | _ => join [x2e] (map to_dec (sort_n s)) end.

Definition parse_cattempt (t : bytes) : cattempt xsig N :=
  let f := split c_at t in
  {| ca_bundles := map parse_bundle (list_of c_semi (arg 2 f)); ca_cost := dec (arg 0 f); ca_hint := dec (arg 1 f) |}.
Definition parse_iattempt (t : bytes) : iattempt xsig :=
  let f := split c_at t in
  {| ia_bundles := map parse_bundle (list_of c_semi (arg 2 f)); ia_cost := dec (arg 0 f) |}.

Definition bit (b : bool) : bytes := if b then str "1" else str "0".
Definition render_cost (o : option N) : bytes := match o with Some c => to_dec c | None => str "P" end.

Definition render_step (r : result) (cost : option N) : bytes :=
  match r with
  | RAdded d => str "1:" ++ bit d ++ [c_colon] ++ render_cost cost
  | RRejected d => str "0:" ++ bit d ++ [c_colon] ++ render_cost cost
  | RErr => str "E:" ++ render_cost cost
  | RPanic => str "P"
  end.

(* step by step so that cost() can be printed after every call; stops at the first panic *)
Fixpoint hist_loop {S A} (step : S -> A -> S * result) (cost : S -> option N) (st : S) (l : list A)
  : S * list bytes * bool :=
  match l with
  | [] => (st, [], false)
  | a :: r =>
      let '(st', res) := step st a in
      match res with
      | RPanic => (st', [render_step res None], true)
      | _ => let '(st'', outs, p) := hist_loop step cost st' r in (st'', render_step res (cost st') :: outs, p)
      end
  end.

(* bundle.hist BUILD KIND CPB MAXCOST INITSIZE ATTEMPTS *)
Definition h_hist (args : list bytes) : bytes :=
  let mode := match arg 0 args with [c] => if byte_eqb c x64 then Checked else Wrap | _ => Wrap end in
  let compressed := match arg 1 args with [c] => byte_eqb c x63 | _ => false end in
  let cfg := {| c_mode := mode; c_cpb := dec (arg 2 args); c_max := dec (arg 3 args) |} in
  let toks := list_of c_slash (arg 5 args) in
  if compressed then
    let step := c_step xsig xsig_one xsig_mul xser N x_add x_restore x_size cfg in
    let '(st, outs, panicked) :=
      hist_loop step (c_cost xsig xser cfg) (c_init xsig xsig_one xser ([], dec (arg 4 args))) (map parse_cattempt toks) in
    if panicked then join [sp] outs
    else
      join [sp] (outs ++ [match c_finalize xsig xser x_size x_finish x_output cfg st with
                          | CFOk _ g s c => str "F:" ++ to_dec c ++ [c_colon] ++ render_sig s ++ [c_colon] ++ to_hex g
                          | CFPanic _ => str "FP"
                          end])
  else
    let step := i_step xsig xsig_one xsig_mul cfg in
    let '(st, outs, panicked) := hist_loop step (i_cost xsig cfg) (i_init xsig xsig_one) (map parse_iattempt toks) in
    if panicked then join [sp] outs
    else
      join [sp] (outs ++ [match i_finalize xsig cfg st with
                          | IFOk _ g s c => str "F:" ++ to_dec c ++ [c_colon] ++ render_sig s ++ [c_colon] ++ to_hex (ser' g)
                          | IFPanic _ => str "FP"
                          end]).

Definition bundle_handlers : list (bytes * handler) :=
  [ (str "bundle.sb", h_sb); (str "bundle.blk", h_blk); (str "bundle.gen", h_gen); (str "bundle.hist", h_hist) ].

Definition dispatch_n (line : list N) : list N :=
  map b2n (dispatch_table bundle_handlers (map n2b line)).
