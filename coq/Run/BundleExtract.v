(* Extraction of the `bundle` model runner.  Only ExtrOcamlBasic is used: bool, option, unit,
   list, prod, sumbool map to OCaml's; N/Z/positive/byte stay Coq inductives.
   No Extract Constant, no other Extract Inductive. *)
From Coq Require Import ExtrOcamlBasic.
From ChiaV.Run Require Import BundleRun.
Extraction Language OCaml.
Extraction "../.cache/extract/bundle/vrun_core.ml" dispatch_n.
