(* Run/IntsRun.v — executable rendering of the integer models (stream `ints`). *)
From Coq Require Import String.
From ChiaV.Base Require Import Bytes Sha256.
From ChiaV.Clvm Require Import Sexp Ints.
From ChiaV.Gen Require Import Ladders.
From ChiaV.Run Require Import RunBase.
Open Scope N_scope.

(* u64 PARENT32 PH32 V8 : everything the repo derives from a u64 amount *)
Definition h_u64 (args : list bytes) : bytes :=
  let parent := hx (arg 0 args) in
  let ph := hx (arg 1 args) in
  let v := be2n (hx (arg 2 args)) in
  words [ hexo (sha256 (parent ++ ph ++ coin_amount_bytes v));      (* Coin::coin_id *)
          hexo (u64_to_bytes v);
          hexo (canon_n v);                                          (* Allocator::new_number / ToClvm *)
          to_dec (genlen_base + genlen_per_spend + 1 + clvm_bytes_len v + 1);  (* 1-byte puzzle, 1-byte solution *)
          to_dec (nlen (ser' (Atom (canon_n v)))) ].

Definition sanitized_o (s : sanitized) : bytes :=
  match s with
  | SOk n => str "ok:" ++ to_dec n
  | SPosOverflow => str "pos"
  | SNegOverflow => str "neg"
  | SErr => str "err"
  end.

(* san ATOM : sanitize_uint with max_size 8 and 4 *)
Definition h_san (args : list bytes) : bytes :=
  let a := hx (arg 0 args) in
  words [ sanitized_o (sanitize_uint a 8); sanitized_o (sanitize_uint a 4) ].

(* enc LEN SIGNED BE : encode_number (to_be_bytes, negative) *)
Definition h_enc (args : list bytes) : bytes :=
  let signed := N.eqb (dec (arg 1 args)) 1 in
  let be := hx (arg 2 args) in
  let neg := signed && match be with b :: _ => 128 <=? b2n b | [] => false end in
  hexo (encode_number be neg).

(* decn LEN SIGNED ATOM : decode_number::<LEN>(atom, signed) *)
Definition h_decn (args : list bytes) : bytes :=
  let LEN := N.to_nat (dec (arg 0 args)) in
  let signed := N.eqb (dec (arg 1 args)) 1 in
  opt_hexo (decode_number LEN signed (hx (arg 2 args))).

Definition ints_handlers : list (bytes * handler) :=
  [ (str "ints.u64", h_u64); (str "ints.san", h_san); (str "ints.enc", h_enc); (str "ints.decn", h_decn) ].

(* entry used by the extracted runner: bytes as numbers 0..255 *)
Definition dispatch_n (line : list N) : list N :=
  map b2n (dispatch_table ints_handlers (map n2b line)).
