(* Run/BlsRun.v — executable rendering of the BLS models (streams `bls.*`, properties C15/C16).
   The group layer runs on the Toy instance of the pairing interface; the scalar layer runs on the
   real group order.  The harness (harness/src/bin/vh_bls.rs) interprets the SAME lines with the
   real library.

   bls.hist CAP NK NM PHASE...      a symbolic history on one BlsCache of capacity CAP
     PHASE  = SCHED|THREAD|THREAD...     SCHED = t,t,t (thread indices) or -
     THREAD = CALL;CALL...               CALL  = V<pairs>/<sig> | U<pair> | E<pairs> | L | B<pair>/<pair> (dishonest update)
     pairs  = pair,pair,... or -         pair  = k<i>.<j> | i.<j>   (key index / infinity, message index)
     sig    = RPN, comma separated: s<i>.<j> sign(k_i, M_j) | r<i>.<a>.<j> sign_raw(k_i, pk_a||M_j)
              | 0 infinity | t a fixed unrelated G2 point | x a curve point outside the subgroup
              | + aggregate | ~ negate
     output per phase: thread outputs joined by '|' (v + five verdicts: verify, aggregate_verify,
     aggregate_verify_gt, aggregate_pairing, BlsCache; l<len>), then #len[key order]. *)
From Coq Require Import String.
From ChiaV.Base Require Import Bytes Sha256.
From ChiaV.Bls Require Import Algebra Cache Verify Sched Keys Toy.
From ChiaV.Run Require Import RunBase.
Open Scope N_scope.

Definition c_comma : byte := x2c.
Definition c_dot : byte := x2e.
Definition c_slash : byte := x2f.
Definition c_semi : byte := x3b.
Definition c_bar : byte := x7c.

Definition split (sep : byte) (b : bytes) : list bytes := split_on sep b [].
Definition is_dash (b : bytes) : bool := match b with [c] => byte_eqb c x2d | _ => false end.
Definition split_list (b : bytes) : list bytes := if is_dash b then [] else split c_comma b.

Section Sym.
Context {G1 G2 GT : Type}.
Variable P : pairing_ops G1 G2 GT.
Variable H : bytes -> bytes.

(* key i of the symbolic world: a fixed non-zero scalar *)
Definition sym_sk (i : N) : N := (1000003 * (i + 1) + 7) mod order P.
Definition sym_msg (j : N) : bytes := repeat_byte (N.to_nat j) (n2b j).
Definition sym_tamper : G2 := hash_to_g2 P (str "tamper").

(* "k3" -> pk of key 3, "i" -> infinity *)
Definition sym_key (tok : bytes) : G1 :=
  match tok with
  | c :: rest => if byte_eqb c x6b then pk_of P (sym_sk (dec rest)) else gzero (o1 P)
  | [] => gzero (o1 P)
  end.
Definition sym_pair (tok : bytes) : pkm (G1:=G1) :=
  match split c_dot tok with
  | [k; m] => (sym_key k, sym_msg (dec m))
  | _ => (gzero (o1 P), [])
  end.
Definition sym_pairs (tok : bytes) : list (pkm (G1:=G1)) := map sym_pair (split_list tok).

Definition sadd (a b : sigpt G2) : sigpt G2 :=
  match a, b with SIn x, SIn y => SIn (gadd (o2 P) x y) | _, _ => SOff end.
Definition sneg (a : sigpt G2) : sigpt G2 :=
  match a with SIn x => SIn (gneg (o2 P) x) | SOff => SOff end.

Definition sig_term (st : list (sigpt G2)) (tok : bytes) : list (sigpt G2) :=
  match tok with
  | c :: rest =>
      if byte_eqb c x73 (* s *) then
        match split c_dot rest with
        | [k; m] => SIn (sign P (sym_sk (dec k)) (sym_msg (dec m))) :: st
        | _ => st end
      else if byte_eqb c x72 (* r *) then
        match split c_dot rest with
        | [k; a; m] => SIn (sign_raw P (sym_sk (dec k)) (aug P (pk_of P (sym_sk (dec a))) (sym_msg (dec m)))) :: st
        | _ => st end
      else if byte_eqb c x30 (* 0 *) then SIn (gzero (o2 P)) :: st
      else if byte_eqb c x74 (* t *) then SIn sym_tamper :: st
      else if byte_eqb c x78 (* x *) then SOff :: st
      else if byte_eqb c x2b (* + *) then
        match st with b :: a :: r => sadd a b :: r | _ => st end
      else if byte_eqb c x7e (* ~ *) then
        match st with a :: r => sneg a :: r | _ => st end
      else st
  | [] => st
  end.
Definition sym_sig (tok : bytes) : sigpt G2 :=
  match fold_left sig_term (split_list tok) [] with
  | s :: _ => s
  | [] => SIn (gzero (o2 P))
  end.

Definition sym_call (tok : bytes) : call (G1:=G1) (G2:=G2) (GT:=GT) :=
  match tok with
  | c :: rest =>
      if byte_eqb c x56 (* V *) then
        match split c_slash rest with
        | [ps; sg] => CVerify (sym_pairs ps) (sym_sig sg)
        | _ => CLen end
      else if byte_eqb c x55 (* U *) then
        let '(pk, m) := sym_pair rest in CUpdate (aug P pk m) (pairing_of P pk m)
      else if byte_eqb c x42 (* B: a DISHONEST update: the pairing of another pair *) then
        match split c_slash rest with
        | [p1; p2] => let '(pk, m) := sym_pair p1 in let '(pk2, m2) := sym_pair p2 in
                      CUpdate (aug P pk m) (pairing_of P pk2 m2)
        | _ => CLen end
      else if byte_eqb c x45 (* E *) then CEvict (sym_pairs rest)
      else CLen
  | [] => CLen
  end.
Definition sym_thread (tok : bytes) : list (call (G1:=G1) (G2:=G2) (GT:=GT)) := map sym_call (split c_semi tok).

(* the universe of pairs a history may mention, with their cache keys *)
Definition universe (nk nm : N) : list (bytes * bytes) :=
  let keys := map (fun i => str "k" ++ to_dec (N.of_nat i)) (seq 0 (N.to_nat nk)) ++ [str "i"] in
  let msgs := map (fun j => to_dec (N.of_nat j)) (seq 0 (N.to_nat nm)) in
  flat_map (fun k => map (fun m => let name := k ++ [c_dot] ++ m in
                                   let '(pk, mm) := sym_pair name in (ckey P H pk mm, name)) msgs) keys.

Definition b01 (b : bool) : bytes := if b then str "1" else str "0".

Definition render_out (reject_inf : bool) (o : out (G1:=G1) (G2:=G2)) : bytes :=
  match o with
  | OVerdict pairs sig b =>
      str "v"
      ++ match pairs with [(pk, m)] => b01 (verify P sig pk m) | _ => str "-" end
      ++ b01 (aggregate_verify P sig pairs)
      (* the property speaks about the two pairings-based paths only when no key is infinity
         (blst's Miller loop is not defined on the point at infinity): masked otherwise *)
      ++ (if existsb (fun x => is_inf P (fst x)) pairs then str "**" else
          b01 (aggregate_verify_gt P sig (gts_of P pairs)) ++ b01 (pairing_verify P sig pairs))
      ++ b01 b
  | OLen n => str "l" ++ to_dec n
  end.

Definition render_cache (univ : list (bytes * bytes)) (c : cache GT) : bytes :=
  str "#" ++ to_dec (clen c) ++ str "[" ++
  join [c_comma] (map (fun k => match assoc_bytes k univ with Some n => n | None => str "?" end) (ckeys c))
  ++ str "]".

Definition sym_phase (tok : bytes) : phase (G1:=G1) (G2:=G2) (GT:=GT) :=
  match split c_bar tok with
  | sched :: threads => (map sym_thread threads, map (fun t => N.to_nat (dec t)) (split_list sched))
  | [] => ([], [])
  end.

Definition render_phase (reject_inf : bool) (univ : list (bytes * bytes))
  (x : cache GT * list (thread (G1:=G1) (G2:=G2) (GT:=GT))) : bytes :=
  join [c_bar] (map (fun t => join [c_semi] (map (render_out reject_inf) (rev (t_outs t)))) (snd x))
  ++ render_cache univ (fst x).

Definition run_hist (reject_inf : bool) (args : list bytes) : bytes :=
  match args with
  | cap :: nk :: nm :: phases =>
      let univ := universe (dec nk) (dec nm) in
      let r := run_history P H reject_inf (empty_cache (dec cap)) (map sym_phase phases) in
      words (map (render_phase reject_inf univ) (snd r))
  | _ => str "ERR-ARGS"
  end.

(* every augmented message a history over NK keys and NM messages can hash *)
Definition universe_augs (nk nm : N) : list bytes :=
  let keys := map (fun i => str "k" ++ to_dec (N.of_nat i)) (seq 0 (N.to_nat nk)) ++ [str "i"] in
  let msgs := map (fun j => to_dec (N.of_nat j)) (seq 0 (N.to_nat nm)) in
  str "tamper" :: flat_map (fun k => map (fun m => let '(pk, mm) := sym_pair (k ++ [c_dot] ++ m) in aug P pk mm) msgs) keys.
End Sym.

(* Execution speed only: the Gallina SHA-256 dominates the run time, and one history hashes the same
   few augmented messages over and over.  [memo tbl f] is [f] with a table of precomputed values of f
   itself in front (extensionally the same function), so the model that runs is still
   Sched.run_history on the Toy instance. *)
Definition memo {A} (tbl : list (bytes * A)) (f : bytes -> A) (b : bytes) : A :=
  match assoc_bytes b tbl with Some v => v | None => f b end.
Definition with_hash_to_g2 {G1 G2 GT} (P : pairing_ops G1 G2 GT) (f : bytes -> G2) : pairing_ops G1 G2 GT :=
  {| o1 := o1 P; o2 := o2 P; oT := oT P; order := order P; gen1 := gen1 P; pair := pair P;
     hash_to_g2 := f; enc1 := enc1 P |}.

Definition run_hist_memo (reject_inf : bool) (args : list bytes) : bytes :=
  match args with
  | _ :: nk :: nm :: _ =>
      let augs := universe_augs toy (dec nk) (dec nm) in
      let tblG := map (fun a => (a, hash_to_g2 toy a)) augs in
      let tblH := map (fun a => (a, sha256 a)) augs in
      run_hist (with_hash_to_g2 toy (memo tblG (hash_to_g2 toy))) (memo tblH sha256) reject_inf args
  | _ => str "ERR-ARGS"
  end.

Definition h_hist : handler := run_hist_memo true.
Definition h_hist_pinned : handler := run_hist_memo false.

(* ---------------- scalar layer (C16), real group order ---------------- *)
Definition res_hexo (r : res N) : bytes :=
  match r with Ok s => str "S:" ++ hexo (sk_to_bytes s) | Err => str "E" | Panic => str "PANIC" end.

(* bls.dersk SK32 PK48 IDX : SecretKey::derive_unhardened, PK48 = sk.public_key().to_bytes() (from the implementation) *)
Definition h_dersk (args : list bytes) : bytes :=
  match sk_from_bytes r_bls (hx (arg 0 args)) with
  | Some sk => res_hexo (sk_derive_unhardened_digest r_bls sk (sha256 (hx (arg 1 args) ++ be32 (dec (arg 2 args)))))
  | None => str "BADSK"
  end.

(* bls.pkscalar PK48 IDX : the 256-bit scalar PublicKey::derive_unhardened multiplies the generator by *)
Definition h_pkscalar (args : list bytes) : bytes :=
  hexo (n2be 32 (pk_derive_scalar (sha256 (hx (arg 0 args) ++ be32 (dec (arg 1 args)))))).

(* bls.modgo B32 : mod_by_group_order *)
Definition h_modgo (args : list bytes) : bytes := hexo (mod_by_group_order (hx (arg 0 args))).

(* bls.synsk SK32 PK48 HIDDEN32 : SecretKey::derive_synthetic_hidden *)
Definition h_synsk (args : list bytes) : bytes :=
  match sk_from_bytes r_bls (hx (arg 0 args)) with
  | Some sk =>
      match sk_from_bytes r_bls (mod_by_group_order (sha256 (hx (arg 1 args) ++ hx (arg 2 args)))) with
      | Some off => str "S:" ++ hexo (sk_to_bytes (sk_add r_bls sk off)) ++ str " " ++ hexo (sk_to_bytes off)
      | None => str "PANIC"
      end
  | None => str "BADSK"
  end.

(* bls.skparse B32 : SecretKey::from_bytes then to_bytes *)
Definition h_skparse (args : list bytes) : bytes :=
  match sk_from_bytes r_bls (hx (arg 0 args)) with
  | Some sk => str "A:" ++ hexo (sk_to_bytes sk)
  | None => str "R"
  end.

(* bls.skadd A32 B32 : &SecretKey + &SecretKey *)
Definition h_skadd (args : list bytes) : bytes :=
  match sk_from_bytes r_bls (hx (arg 0 args)), sk_from_bytes r_bls (hx (arg 1 args)) with
  | Some a, Some b => hexo (sk_to_bytes (sk_add r_bls a b))
  | _, _ => str "BADSK"
  end.

(* bls.pkparse B48 ONCURVE INSUB : PublicKey::from_bytes_unchecked / from_bytes around the blst
   oracle; the two oracle answers (does blst_p1_uncompress succeed; is the point in G1) come from
   the independent reference in the driver.  Points are represented by their encoding. *)
Definition ar (b : bool) : bytes := if b then str "A" else str "R".
Definition isinf_enc (b : bytes) : bool := match b with b0 :: _ => 0x40 <=? N.land (b2n b0) 0x40 | [] => false end.
Definition inf48 : bytes := n2b 0xc0 :: repeat_byte 47 x00.
Definition h_pkparse (args : list bytes) : bytes :=
  let b := hx (arg 0 args) in
  let oncurve := dec (arg 1 args) =? 1 in
  let insub := dec (arg 2 args) =? 1 in
  let unc := fun x : bytes => if oncurve then Some x else None in
  let u := pk_from_bytes_unchecked unc inf48 b in
  let c := pk_from_bytes unc isinf_enc (fun _ => insub) inf48 b in
  words [ar (match u with Some _ => true | None => false end);
         ar (match c with Some _ => true | None => false end)].

(* bls.sigparse B96 ONCURVE INSUB *)
Definition h_sigparse (args : list bytes) : bytes :=
  let b := hx (arg 0 args) in
  let oncurve := dec (arg 1 args) =? 1 in
  let insub := dec (arg 2 args) =? 1 in
  let unc := fun x : bytes => if oncurve then Some x else None in
  let u := sig_from_bytes_unchecked unc b in
  let c := sig_from_bytes unc isinf_enc (fun _ => insub) b in
  words [ar (match u with Some _ => true | None => false end);
         ar (match c with Some _ => true | None => false end)].

(* bls.lawsym SK32 SK32' PATH HIDDEN32 : the C16 laws evaluated on the Toy instance at the real group order
   (both routes), printed as bits: derive-path commutes, addition commutes, synthetic commutes.
   The implementation prints the same bits computed with the real library. *)
Definition h_lawsym (args : list bytes) : bytes :=
  let P := toy_bls in
  match sk_from_bytes r_bls (hx (arg 0 args)), sk_from_bytes r_bls (hx (arg 1 args)) with
  | Some a, Some b =>
      let path := map dec (split_list (arg 2 args)) in
      let hidden := hx (arg 3 args) in
      words [ match sk_derive_path P sha256 a path, pk_derive_path P sha256 (pk_of P a) path with
              | Ok s, Ok q => b01 (geqb (o1 P) (pk_of P s) q)
              | _, _ => str "P" end;
              b01 (geqb (o1 P) (pk_of P (sk_add (order P) a b)) (gadd (o1 P) (pk_of P a) (pk_of P b)));
              match sk_derive_synthetic P sha256 a hidden, pk_derive_synthetic P sha256 (pk_of P a) hidden with
              | Ok s, Ok q => b01 (geqb (o1 P) (pk_of P s) q)
              | _, _ => str "P" end ]
  | _, _ => str "BADSK"
  end.

Definition bls_handlers : list (bytes * handler) :=
  [ (str "bls.hist", h_hist); (str "bls.histpinned", h_hist_pinned);
    (str "bls.dersk", h_dersk); (str "bls.pkscalar", h_pkscalar); (str "bls.modgo", h_modgo);
    (str "bls.synsk", h_synsk); (str "bls.skparse", h_skparse); (str "bls.skadd", h_skadd);
    (str "bls.pkparse", h_pkparse); (str "bls.sigparse", h_sigparse); (str "bls.lawsym", h_lawsym) ].

Definition dispatch_n (line : list N) : list N :=
  map b2n (dispatch_table bls_handlers (map n2b line)).
