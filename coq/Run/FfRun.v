(* Run/FfRun.v — executable rendering of the fast-forward / fingerprint / dedup mirrors (unit `ff`). *)
From Coq Require Import String.
From ChiaV.Base Require Import Bytes Sha256.
From ChiaV.Clvm Require Import Sexp Ints TreeHash.
From ChiaV.Gen Require Import Opcodes Ladders.
From ChiaV.Cond Require Import Model Render.
From ChiaV.Mempool Require Import FastForward Fingerprint Dedup.
From ChiaV.Run Require Import RunBase.
Open Scope N_scope.

Definition fferr_name (e : fferr) : bytes :=
  match e with
  | CoinAmountEven => str "CoinAmountEven" | PuzzleHashMismatch => str "PuzzleHashMismatch"
  | ClvmError => str "Clvm" | ExpectedLineageProof => str "ExpectedLineageProof"
  | NotSingletonModHash => str "NotSingletonModHash" | CoinAmountMismatch => str "CoinAmountMismatch"
  | ParentCoinMismatch => str "ParentCoinMismatch" | InnerPuzzleHashMismatch => str "InnerPuzzleHashMismatch"
  | CoinMismatch => str "CoinMismatch"
  end.

Definition render_ff (r : ffres) : bytes :=
  match r with
  | FfOk s => str "OK " ++ RunBase.hexo (ser' s)
  | FfErr e => str "ERR " ++ fferr_name e
  end.

Definition coin_at (i : nat) (args : list bytes) : coin :=
  mkcoin (hx (arg i args)) (hx (arg (S i) args)) (dec (arg (S (S i)) args)).

(* ff.ff MODHASH PUZZLE SOLUTION  C.parent C.ph C.amount  NEW.parent NEW.ph NEW.amount  NEWPARENT.parent .ph .amount *)
Definition h_ff_with (f : (bytes -> bytes) -> bytes -> sexp -> sexp -> coin -> coin -> coin -> ffres)
           (args : list bytes) : bytes :=
  match node_from_bytes (hx (arg 1 args)), node_from_bytes (hx (arg 2 args)) with
  | Some puzzle, Some solution =>
      render_ff (f sha256 (hx (arg 0 args)) puzzle solution (coin_at 3 args) (coin_at 6 args) (coin_at 9 args))
  | _, _ => str "ERR-DESER"
  end.

Definition h_ff := h_ff_with fast_forward_singleton_shared.
Definition h_ff_plain := h_ff_with fast_forward_singleton.

(* fp.fp CONDS : compute_puzzle_fingerprint on an arbitrary tree *)
Definition h_fp (args : list bytes) : bytes :=
  match node_from_bytes (hx (arg 0 args)) with
  | None => str "ERR-DESER"
  | Some t =>
      match compute_puzzle_fingerprint sha256 t with
      | Ok f => str "OK " ++ RunBase.hexo f
      | Err _ => str "ERR"
      end
  end.

Fixpoint chunks (fuel : nat) (n : nat) (b : bytes) : list bytes :=
  match fuel with
  | O => []
  | S f => match b with [] => [] | _ => firstn n b :: chunks f n (skipn n b) end
  end.

Definition consts_of (b : bytes) : consts :=
  let c := chunks 8 32 b in
  {| c_me := nth 0 c []; c_parent := nth 1 c []; c_puzzle := nth 2 c []; c_amount := nth 3 c [];
     c_puzzle_amount := nth 4 c []; c_parent_amount := nth 5 c []; c_parent_puzzle := nth 6 c [] |}.

Definition all_sigs (s : spend) : bytes :=
  join semi [ sigs_of AGG_SIG_ME s; sigs_of AGG_SIG_PARENT s; sigs_of AGG_SIG_PUZZLE s; sigs_of AGG_SIG_AMOUNT s;
              sigs_of AGG_SIG_PUZZLE_AMOUNT s; sigs_of AGG_SIG_PARENT_AMOUNT s; sigs_of AGG_SIG_PARENT_PUZZLE s ].

(* the parsed conditions of one spend, without costs *)
Definition render_spend_parsed (sf : spend * option bytes) : bytes :=
  let '(s, fp) := sf in
  join [sp]
    [ kv "fp" (match fp with Some f => RunBase.hexo f | None => [x2d] end);
      kv "flags" (to_dec (spend_flags s));
      kv "hr" (opt_dec (sp_height_relative s)); kv "sr" (opt_dec (sp_seconds_relative s));
      kv "bhr" (opt_dec (sp_before_height_relative s)); kv "bsr" (opt_dec (sp_before_seconds_relative s));
      kv "bh" (opt_dec (sp_birth_height s)); kv "bs" (opt_dec (sp_birth_seconds s));
      kv "coins" (items (sort_bytes (map render_coin (sp_create_coin s))));
      kv "sigs" (all_sigs s) ].

Definition render_bundle_parsed (b : bundle) : bytes :=
  join [sp]
    [ kv "rf" (to_dec (b_reserve_fee b)); kv "ha" (to_dec (b_height_absolute b)); kv "sa" (to_dec (b_seconds_absolute b));
      kv "bha" (opt_dec (b_before_height_absolute b)); kv "bsa" (opt_dec (b_before_seconds_absolute b));
      kv "rem" (to_dec (b_removal b)); kv "add" (to_dec (b_addition b));
      kv "unsafe" (items (map render_pm (b_agg_sig_unsafe b))) ].

Fixpoint spend_args (n : nat) (i : nat) (args : list bytes) (ph : bytes) : option (list (bytes * bytes * N * sexp)) :=
  match n with
  | O => Some []
  | S k =>
      match node_from_bytes (hx (arg (i + 2) args)), spend_args k (i + 3) args ph with
      | Some conds, Some r => Some ((hx (arg i args), ph, dec (arg (i + 1) args), conds) :: r)
      | _, _ => None
      end
  end.

(* fp.bundle FLAGS COMPUTE CONSTS VALIDKEYS N (PARENT AMOUNT CONDS)*N :
   run_spendbundle on N spends of coins (PARENT, tree_hash(`1`), AMOUNT) with puzzle `1`, solution CONDS *)
Definition h_bundle (args : list bytes) : bytes :=
  let fl := flags_of_bits (dec (arg 0 args)) in
  let compute := dec (arg 1 args) =? 1 in
  let K := consts_of (hx (arg 2 args)) in
  let keys := let kb := hx (arg 3 args) in chunks (S (length kb)) 48 kb in
  let ph := th sha256 (Atom [x01]) in
  match spend_args (N.to_nat (dec (arg 4 args))) 5 args ph with
  | None => str "ERR-DESER"
  | Some l =>
      match run_spend_bundle (fun pk => mem_bytes pk keys) sha256 K fl compute l 11000000000 0 with
      | Ok (b, spends, fps) =>
          str "OK " ++ render_bundle_parsed b ++ str " | " ++ join (str " | ") (map render_spend_parsed (combine spends fps))
      | Err _ => str "ERR"
      end
  end.

Definition ff_handlers : list (bytes * handler) :=
  [ (str "ff.ff", h_ff); (str "ff.plain", h_ff_plain); (str "fp.fp", h_fp); (str "fp.bundle", h_bundle) ].

Definition dispatch_n (line : list N) : list N :=
  map b2n (dispatch_table ff_handlers (map n2b line)).
