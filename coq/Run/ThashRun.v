(* Run/ThashRun.v — executable rendering of the tree-hash models (unit `thash`, property C17).

   thash.seq TOK TOK ...     a script run against one allocator and one shared TreeCache:
       s<dec>      new_small_number             a<hex>   new_atom (small atom when canonical < 2^26)
       b<hex>      byte-heap atom whatever its content (new_substr of a byte atom)
       p<i>.<j>    new_pair of the i-th and j-th created node (creation order, 0-based)
       H<k>  tree_hash                          C<k>  tree_hash_cached with the shared cache
       V<k>  cache.visit_tree                   G<k>  cache.get         M<k>  cache.should_memoize
       R     fresh cache
     output: the results of H C G M in order (hash hex; G: hash or N; M: 0/1), or "-" if none
   thash.fb HEX              tree_hash_from_bytes: hash hex | ERR
   thash.fbo HEX             node_from_bytes_backrefs_old + tree_hash_cached (fresh cache)
   thash.curry PH AH ...     curry_tree_hash
   thash.curried P A ...     plain serialization of the curried program tree (P, A.. in plain serialization)
   thash.ff MODHASH LAUNCHER_ID LAUNCHER_PH INNER_SER
                             fast_forward.rs curry_and_treehash for the inner puzzle given in plain
                             serialization (its hash is computed with th) *)
From Coq Require Import String.
From ChiaV.Base Require Import Bytes Sha256.
From ChiaV.Clvm Require Import Sexp Ints TreeHash.
From ChiaV.Gen Require Import Precomputed CurryFF.
From ChiaV.Thash Require Import Heap Mirror Curry DeBr.
From ChiaV.Run Require Import RunBase.
Open Scope N_scope.

(* fuel of the stack machines: more than any case of the streams needs (generators bound the
   expanded tree size well below); out-of-fuel is printed as FUEL and would show up as a disagreement *)
Definition run_fuel : nat := N.to_nat 1000000.

Record sstate := mkS { s_heap : heap; s_nodes : list nodeptr; s_cache : cache; s_out : list bytes }.

Definition outcome_o (o : outcome bytes) : bytes :=
  match o with Ok x => hexo x | Panic => str "PANIC" | OutOfFuel => str "FUEL" end.

Definition nd (s : sstate) (tok : bytes) : nodeptr := nth (N.to_nat (dec tok)) (s_nodes s) (NSmall 0).

Definition add_node (s : sstate) (r : heap * nodeptr) : sstate :=
  mkS (fst r) (s_nodes s ++ [snd r]) (s_cache s) (s_out s).

Definition emit (s : sstate) (o : bytes) : sstate := mkS (s_heap s) (s_nodes s) (s_cache s) (o :: s_out s).

Definition step (s : sstate) (tok : bytes) : sstate :=
  match tok with
  | [] => s
  | c :: payload =>
      let k := b2n c in
      if k =? 115 (* s *) then add_node s (new_small_number (s_heap s) (dec payload))
      else if k =? 97 (* a *) then add_node s (new_atom (s_heap s) (hx payload))
      else if k =? 98 (* b *) then add_node s (new_bytes_atom (s_heap s) (hx payload))
      else if k =? 112 (* p *) then
        match split_on x2e payload [] with
        | [i; j] => add_node s (new_pair (s_heap s) (nd s i) (nd s j))
        | _ => emit s (str "ERR-SCRIPT")
        end
      else if k =? 72 (* H *) then emit s (outcome_o (tree_hash_stack sha256 run_fuel (s_heap s) (nd s payload)))
      else if k =? 67 (* C *) then
        match tree_hash_cached sha256 run_fuel (s_heap s) (nd s payload) (s_cache s) with
        | Ok (x, c') => mkS (s_heap s) (s_nodes s) c' (hexo x :: s_out s)
        | Panic => emit s (str "PANIC")
        | OutOfFuel => emit s (str "FUEL")
        end
      else if k =? 86 (* V *) then
        match visit_tree run_fuel (s_heap s) (nd s payload) (s_cache s) with
        | Ok c' => mkS (s_heap s) (s_nodes s) c' (s_out s)
        | Panic => emit s (str "PANIC")
        | OutOfFuel => emit s (str "FUEL")
        end
      else if k =? 71 (* G *) then
        emit s (match cache_get (s_cache s) (nd s payload) with
                | GNone => str "N" | GSome x => hexo x | GPanic => str "PANIC" end)
      else if k =? 77 (* M *) then emit s (boolo (should_memoize (s_cache s) (nd s payload)))
      else if k =? 82 (* R *) then mkS (s_heap s) (s_nodes s) empty_cache (s_out s)
      else emit s (str "ERR-SCRIPT")
  end.

Definition h_seq (args : list bytes) : bytes :=
  let s := fold_left step args (mkS empty_heap [] empty_cache []) in
  match s_out s with [] => str "-" | o => words (fast_rev o) end.

Definition h_fb (args : list bytes) : bytes :=
  match tree_hash_from_bytes sha256 run_fuel (hx (arg 0 args)) with
  | FOk x => hexo x
  | FErr => str "ERR"
  | FPanic => str "PANIC"
  | FFuel => str "FUEL"
  end.

Definition h_fbo (args : list bytes) : bytes :=
  match tree_hash_from_bytes_old sha256 run_fuel (hx (arg 0 args)) with
  | FOk x => hexo x
  | FErr => str "ERR"
  | FPanic => str "PANIC"
  | FFuel => str "FUEL"
  end.

Definition h_curry (args : list bytes) : bytes :=
  match args with
  | ph :: ahs => hexo (curry_tree_hash sha256 (hx ph) (map hx ahs))
  | [] => str "ERR-ARGS"
  end.

Definition h_curried (args : list bytes) : bytes :=
  let trees := map (fun a => match node_from_bytes (hx a) with Some t => t | None => nil end) args in
  match trees with
  | p :: al => hexo (ser' (curried_program p al))
  | [] => str "ERR-ARGS"
  end.

Definition h_ff (args : list bytes) : bytes :=
  match node_from_bytes (hx (arg 3 args)) with
  | Some inner =>
      hexo (ff_curry_and_treehash sha256 (th sha256 inner) (hx (arg 0 args)) (hx (arg 1 args)) (hx (arg 2 args)))
  | None => str "ERR-INNER"
  end.

Definition thash_handlers : list (bytes * handler) :=
  [ (str "thash.seq", h_seq); (str "thash.fb", h_fb); (str "thash.fbo", h_fbo); (str "thash.curry", h_curry); (str "thash.curried", h_curried); (str "thash.ff", h_ff) ].

Definition dispatch_n (line : list N) : list N :=
  map b2n (dispatch_table thash_handlers (map n2b line)).
