(* Run/WireRun.v — executable rendering of the Stream models (unit `wire`: C13, C14, C20).
   Case lines (see driver/props/C13.py):
     wire.need T b|v DATA              oracle queries needed to treat DATA (hex bytes / value text)
     wire.rt   T HEX ORA               from_bytes, from_bytes_unchecked, parse prefix, re-encode, hash
     wire.enc  T VALTEXT ORA           to_bytes, hash, decode(encode v) = v (untrusted, trusted)
   ORA is `-` or a ','-separated table  a:HEX48:uv  b:HEX96:uv  q:HEXENC:HEX32|-  answering the
   blst / chia-pos2 questions for the byte strings that occur in the case. *)
From Coq Require Import String.
From ChiaV.Base Require Import Bytes Sha256.
From ChiaV.Stream Require Import Universe ClvmLen Versioned Codec ValText Total Json JsonText.
From ChiaV.Gen Require Import StreamTypes.
From ChiaV.Run Require Import RunBase.
Open Scope N_scope.

Definition colon : byte := x3a.

(* ---------- oracle table ---------- *)
Record ora_entry := { oe_kind : byte; oe_key : bytes; oe_ans : bytes }.

Definition parse_entry (tok : bytes) : option ora_entry :=
  match split_on colon tok [] with
  | [[k]; key; ans] => kb <- of_hex key ;; Some {| oe_kind := k; oe_key := kb; oe_ans := ans |}
  | _ => None
  end.

Fixpoint parse_entries (l : list bytes) : list ora_entry :=
  match l with
  | [] => []
  | t :: r => match parse_entry t with Some e => e :: parse_entries r | None => parse_entries r end
  end.

Definition parse_ora (tok : bytes) : list ora_entry :=
  match tok with
  | [c] => if byte_eqb c x2d then [] else []
  | _ => parse_entries (split_on comma tok [])
  end.

Fixpoint ora_find (k : byte) (key : bytes) (tbl : list ora_entry) : option bytes :=
  match tbl with
  | [] => None
  | e :: r => if byte_eqb (oe_kind e) k && bytes_eqb (oe_key e) key then Some (oe_ans e) else ora_find k key r
  end.

Definition flag (i : nat) (ans : option bytes) : bool :=
  match ans with Some a => match nth_error a i with Some c => byte_eqb c x31 | None => false end | None => false end.

Definition ora_of (tbl : list ora_entry) : oracles :=
  {| g1_unc := fun b => flag 0 (ora_find x61 b tbl);
     g1_grp := fun b => flag 1 (ora_find x61 b tbl);
     g2_unc := fun b => flag 0 (ora_find x62 b tbl);
     g2_grp := fun b => flag 1 (ora_find x62 b tbl);
     prog_len := clvm_prog_len;
     quality := fun e => match ora_find x71 e tbl with
                         | Some a => match a with [c] => None | _ => of_hex a end
                         | None => None
                         end |}.

(* accept-everything oracle, used to enumerate the questions a case depends on *)
Definition ora_all : oracles :=
  {| g1_unc := fun _ => true; g1_grp := fun _ => true; g2_unc := fun _ => true; g2_grp := fun _ => true;
     prog_len := clvm_prog_len; quality := fun _ => None |}.

(* ---------- which leaves does a value contain ---------- *)
Section Collect.
  Variable col : ty -> value -> list bytes.
  Fixpoint col_seq (ts : list ty) (l : list value) : list bytes :=
    match ts, l with
    | t :: ts', x :: l' => col t x ++ col_seq ts' l'
    | _, _ => []
    end.
  Fixpoint col_fields (fs : list (string * ty)) (l : list value) : list bytes :=
    match fs with
    | [] => []
    | f :: fs' => match pack (snd f) l with
                  | Some (v, l') => col (snd f) v ++ col_fields fs' l'
                  | None => []
                  end
    end.
End Collect.

Definition q_entry (k : byte) (b : bytes) : bytes := k :: colon :: to_hex b.

Definition collect_pos (v : value) : list bytes :=
  match v with
  | VList [_; pool_pk; _; VBytes plot_pk; VInt version; _; _; _; _; _] =>
      (match pool_pk with VSome (VBytes b) => [q_entry x61 b] | _ => [] end)
      ++ [q_entry x61 plot_pk]
      ++ (if (version =? 1)%Z then match enc_pos v with Some e => [q_entry x71 e] | None => [] end else [])
  | _ => []
  end.

Fixpoint collect (t : ty) (v : value) {struct t} : list bytes :=
  match t with
  | G1 => match v with VBytes b => [q_entry x61 b] | _ => [] end
  | G2 => match v with VBytes b => [q_entry x62 b] | _ => [] end
  | Opt a => match v with VSome x => collect a x | _ => [] end
  | Vec a | Arr _ a => match v with VList l => flat_map (collect a) l | _ => [] end
  | Tup ts => match v with VList l => col_seq collect ts l | _ => [] end
  | Struct _ _ fs => match v with VList l => col_fields collect fs l | _ => [] end
  | Opt2 a b => match v with
                | VList [oa; ob] =>
                    (match oa with VSome x => collect a x | _ => [] end)
                    ++ (match ob with VSome y => collect b y | _ => [] end)
                | _ => []
                end
  | PoS => collect_pos v
  | _ => []
  end.

(* ---------- which BLS windows does a parse look at, even when it fails later ---------- *)
(* `skip t bs log` walks bs as a t under the accept-everything oracle and logs every 48/96-byte
   window handed to blst; it returns the unread rest (None when the walk fails).  Only control
   flow matters, so sub-types without BLS leaves are skipped with `decode ora_all`. *)
Section HasBls.
  Variable p : ty -> bool.
  Fixpoint any_ty (ts : list ty) : bool := match ts with [] => false | t :: r => p t || any_ty r end.
  Fixpoint any_field (fs : list (string * ty)) : bool := match fs with [] => false | f :: r => p (snd f) || any_field r end.
End HasBls.
Fixpoint has_bls (t : ty) : bool :=
  match t with
  | G1 | G2 | PoS => true
  | Opt a | Vec a | Arr _ a => has_bls a
  | Tup ts => any_ty has_bls ts
  | Struct _ _ fs => any_field has_bls fs
  | Opt2 a b => has_bls a || has_bls b
  | _ => false
  end.

Definition sres := (list bytes * option bytes)%type.
Definition sbind (x : sres) (k : list bytes -> bytes -> sres) : sres :=
  match x with (log, Some r) => k log r | (log, None) => (log, None) end.

Definition skip_window (k : byte) (n : nat) (bs : bytes) (log : list bytes) : sres :=
  match read_bytes n bs with Some (b, r) => (q_entry k b :: log, Some r) | None => (log, None) end.

Section SkipLoops.
  Variable sk1 : bytes -> list bytes -> sres.
  Fixpoint skip_rep (n : nat) (bs : bytes) (log : list bytes) : sres :=
    match n with O => (log, Some bs) | S k => sbind (sk1 bs log) (fun log' r => skip_rep k r log') end.
End SkipLoops.
Section SkipSeqs.
  Variable sk : ty -> bytes -> list bytes -> sres.
  Fixpoint skip_seq (ts : list ty) (bs : bytes) (log : list bytes) : sres :=
    match ts with [] => (log, Some bs) | t :: r => sbind (sk t bs log) (fun log' rest => skip_seq r rest log') end.
  Fixpoint skip_fields (fs : list (string * ty)) (bs : bytes) (log : list bytes) : sres :=
    match fs with [] => (log, Some bs) | f :: r => sbind (sk (snd f) bs log) (fun log' rest => skip_fields r rest log') end.
End SkipSeqs.

Definition skip_pos (bs : bytes) (log : list bytes) : sres :=
  match read_bytes 33 bs with
  | None => (log, None)
  | Some (h, r) =>
      sbind (match nth 32 h x00 with
             | x00 => (log, Some r)
             | x01 => skip_window x61 48 r log
             | _ => (log, None)
             end) (fun log r =>
      match r with
      | [] => (log, None)
      | p :: r1 =>
          match (if N.land (b2n p) 1 =? 1 then option_map snd (read_bytes 32 r1) else Some r1) with
          | None => (log, None)
          | Some r2 =>
              sbind (skip_window x61 48 r2 log) (fun log r3 =>
                (* the tail (size/plot params, proof) holds no BLS data: finish with the real decoder *)
                (log, match decode ora_all true PoS bs with Some (_, rest) => Some rest | None => None end))
          end
      end)
  end.

Fixpoint skip (t : ty) (bs : bytes) (log : list bytes) {struct t} : sres :=
  if negb (has_bls t) then (log, option_map snd (decode ora_all true t bs))
  else match t with
  | G1 => skip_window x61 48 bs log
  | G2 => skip_window x62 96 bs log
  | PoS => skip_pos bs log
  | Opt a =>
      match bs with
      | x00 :: r => (log, Some r)
      | x01 :: r => skip a r log
      | _ => (log, None)
      end
  | Vec a =>
      match dec_u_n 4 bs with
      | None => (log, None)
      | Some (n, r) => skip_rep (skip a) (N.to_nat (N.min n (nlen r + 1))) r log
      end
  | Arr n a => skip_rep (skip a) n bs log
  | Tup ts => skip_seq skip ts bs log
  | Struct _ _ fs => skip_fields skip fs bs log
  | Opt2 a b =>
      match bs with
      | x00 :: r => (log, Some r)
      | x01 :: r => skip a r log
      | x02 :: r => skip b r log
      | x03 :: r => sbind (skip a r log) (fun log' r' => skip b r' log')
      | _ => (log, None)
      end
  | _ => (log, option_map snd (decode ora_all true t bs))
  end.

(* ---------- type table ---------- *)
Fixpoint find_type (name : bytes) (l : list (string * ty)) : option ty :=
  match l with
  | [] => None
  | (n, t) :: r => if bytes_eqb (str n) name then Some t else find_type name r
  end.

Definition with_type (name : bytes) (k : ty -> bytes) : bytes :=
  match find_type name stream_types with Some t => k t | None => str "ERR-UNKNOWN-TYPE" end.

Definition joinc (l : list bytes) : bytes := match l with [] => [x2d] | _ => join [comma] l end.

Definition err : bytes := str "E".
Definition opt_val (o : option value) : bytes := match o with Some v => render v | None => err end.

(* need T b HEX | need T v VALTEXT *)
Definition h_need (args : list bytes) : bytes :=
  with_type (arg 0 args) (fun t =>
    match arg 1 args with
    | [m] =>
        if byte_eqb m x62 then
          match decode ora_all true t (hx (arg 2 args)) with
          | Some (v, _) => joinc (collect t v)
          | None => joinc (fst (skip t (hx (arg 2 args)) []))
          end
        else if byte_eqb m x6a then                               (* j: a JSON text *)
          match jparse_all (arg 2 args) with
          | Some j => match from_json ora_all t j with Some v => joinc (collect t v) | None => [x2d] end
          | None => str "ERR-JSON-SYNTAX"
          end
        else match parse_value (arg 2 args) with
             | Some v => joinc (collect t v)
             | None => str "ERR-VALUE-SYNTAX"
             end
    | _ => str "ERR-MODE"
    end).

Definition hash_o (O : oracles) (t : ty) (v : value) : bytes :=
  match hash_of sha256 O t v with Some h => to_hex h | None => str "PANIC" end.

(* rt T HEX ORA *)
Definition h_rt (args : list bytes) : bytes :=
  with_type (arg 0 args) (fun t =>
    let bs := hx (arg 1 args) in
    let O := ora_of (parse_ora (arg 2 args)) in
    let u := from_bytes O t bs in
    let tv := from_bytes_unchecked O t bs in
    let p := match decode O false t bs with
             | Some (_, r) => to_dec (nlen bs - nlen r)
             | None => err
             end in
    words [ str "U:" ++ opt_val u; str "T:" ++ opt_val tv; str "P:" ++ p;
            str "B:" ++ match tv with
                        | Some v => match encode t v with Some e => hexo e | None => err end
                        | None => [x2d]
                        end;
            str "H:" ++ match tv with Some v => hash_o O t v | None => [x2d] end ]).

(* enc T VALTEXT ORA *)
Definition rt_flag (O : oracles) (tr : bool) (t : ty) (v : value) (e : option bytes) : bytes :=
  match e with
  | None => err
  | Some b => match from_bytes_gen O tr t b with
              | Some v' => boolo (value_eqb v v')
              | None => err
              end
  end.

Definition h_enc (args : list bytes) : bytes :=
  with_type (arg 0 args) (fun t =>
    match parse_value (arg 1 args) with
    | None => str "ERR-VALUE-SYNTAX"
    | Some v =>
        let O := ora_of (parse_ora (arg 2 args)) in
        let e := encode t v in
        words [ str "B:" ++ match e with Some b => hexo b | None => err end;
                str "H:" ++ hash_o O t v;
                str "R:" ++ rt_flag O false t v e;
                str "RT:" ++ rt_flag O true t v e ]
    end).

(* tot T TRUSTED HEX ORA : C14 observables of the instrumented decoder *)
Definition h_tot (args : list bytes) : bytes :=
  with_type (arg 0 args) (fun t =>
    let tr := N.eqb (dec (arg 1 args)) 1 in
    let bs := hx (arg 2 args) in
    let O := ora_of (parse_ora (arg 3 args)) in
    let d := tdecode O tr t bs 0 in
    let ds := match d with
              | TOk _ r _ => str "ok:" ++ to_dec (nlen bs - nlen r)
              | TErr _ => str "err"
              | TPanic => str "PANIC"
              end in
    let fs := match t_from_bytes O tr t bs with FOk _ _ => str "ok" | FErr _ => str "err" | FPanic => str "PANIC" end in
    let ops := match d with
               | TOk v _ _ =>
                   (match encode t v with Some _ => str "o" | None => str "e" end)
                   ++ (match digest O t v with DOk _ => str "o" | DPanic => str "P" end) ++ str "oo"
               | _ => [x2d]
               end in
    let al := match d with TOk _ _ a => a | TErr a => a | TPanic => 0 end + scratch_reserve tr t in
    words [ str "D:" ++ ds; str "F:" ++ fs; str "OPS:" ++ ops; str "A:" ++ to_dec al;
            str "BOUND:" ++ to_dec (alloc_bound t (nlen bs));
            str "K:" ++ match d with TOk v _ _ => boolo (has_bad_pos O t v) | _ => [x2d] end ]).

(* sizes : mem_size of every type of the table *)
Definition h_sizes (_ : list bytes) : bytes :=
  join [comma] (map (fun p => str (fst p) ++ colon :: to_dec (mem_size (snd p))) stream_types).

(* tojson T VALTEXT *)
Definition h_tojson (args : list bytes) : bytes :=
  with_type (arg 0 args) (fun t =>
    match parse_value (arg 1 args) with
    | None => str "ERR-VALUE-SYNTAX"
    | Some v => match to_json t v with Some j => jrender j | None => err end
    end).

(* fromjson T JSONTEXT ORA *)
Definition h_fromjson (args : list bytes) : bytes :=
  with_type (arg 0 args) (fun t =>
    match jparse_all (arg 1 args) with
    | None => str "ERR-JSON-SYNTAX"
    | Some j => opt_val (from_json (ora_of (parse_ora (arg 2 args))) t j)
    end).

(* jsonok : the side condition of the JSON round trip theorem, per type *)
Definition h_jsonok (_ : list bytes) : bytes :=
  join [comma] (map (fun p => str (fst p) ++ colon :: boolo (json_ok (snd p))) stream_types).

(* types: the list of type names, so that the driver enumerates exactly the model's table *)
Definition h_types (_ : list bytes) : bytes := join [comma] (map (fun p => str (fst p)) stream_types).

Definition wire_handlers : list (bytes * handler) :=
  [ (str "wire.need", h_need); (str "wire.rt", h_rt); (str "wire.enc", h_enc); (str "wire.types", h_types);
    (str "wire.tot", h_tot); (str "wire.sizes", h_sizes);
    (str "wire.tojson", h_tojson); (str "wire.fromjson", h_fromjson); (str "wire.jsonok", h_jsonok) ].

Definition dispatch_n (line : list N) : list N :=
  map b2n (dispatch_table wire_handlers (map n2b line)).
