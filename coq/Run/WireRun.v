(* Run/WireRun.v — executable rendering of the Stream models (unit `wire`: C13, C14, C20).
   Case lines (see driver/props/C13.py):
     wire.need T b|v DATA              oracle queries needed to treat DATA (hex bytes / value text)
     wire.rt   T HEX ORA               from_bytes, from_bytes_unchecked, parse prefix, re-encode, hash
     wire.enc  T VALTEXT ORA           to_bytes, hash, decode(encode v) = v (untrusted, trusted)
   ORA is `-` or a ','-separated table  a:HEX48:uv  b:HEX96:uv  q:HEXENC:HEX32|-  answering the
   blst / chia-pos2 questions for the byte strings that occur in the case. *)
From Coq Require Import String.
From ChiaV.Base Require Import Bytes Sha256.
From ChiaV.Stream Require Import Universe ClvmLen Versioned Codec ValText.
From ChiaV.Gen Require Import StreamTypes.
From ChiaV.Run Require Import RunBase.
Open Scope N_scope.

Definition colon : byte := x3a.

(* ---------- oracle table ---------- *)
Record ora_entry := { oe_kind : byte; oe_key : bytes; oe_ans : bytes }.

Definition parse_entry (tok : bytes) : option ora_entry :=
  match split_on colon tok [] with
  | [[k]; key; ans] => kb <- of_hex key ;; Some {| oe_kind := k; oe_key := kb; oe_ans := ans |}
  | _ => None
  end.

Fixpoint parse_entries (l : list bytes) : list ora_entry :=
  match l with
  | [] => []
  | t :: r => match parse_entry t with Some e => e :: parse_entries r | None => parse_entries r end
  end.

Definition parse_ora (tok : bytes) : list ora_entry :=
  match tok with
  | [c] => if byte_eqb c x2d then [] else []
  | _ => parse_entries (split_on comma tok [])
  end.

Fixpoint ora_find (k : byte) (key : bytes) (tbl : list ora_entry) : option bytes :=
  match tbl with
  | [] => None
  | e :: r => if byte_eqb (oe_kind e) k && bytes_eqb (oe_key e) key then Some (oe_ans e) else ora_find k key r
  end.

Definition flag (i : nat) (ans : option bytes) : bool :=
  match ans with Some a => match nth_error a i with Some c => byte_eqb c x31 | None => false end | None => false end.

Definition ora_of (tbl : list ora_entry) : oracles :=
  {| g1_unc := fun b => flag 0 (ora_find x61 b tbl);
     g1_grp := fun b => flag 1 (ora_find x61 b tbl);
     g2_unc := fun b => flag 0 (ora_find x62 b tbl);
     g2_grp := fun b => flag 1 (ora_find x62 b tbl);
     prog_len := clvm_prog_len;
     quality := fun e => match ora_find x71 e tbl with
                         | Some a => match a with [c] => None | _ => of_hex a end
                         | None => None
                         end |}.

(* accept-everything oracle, used to enumerate the questions a case depends on *)
Definition ora_all : oracles :=
  {| g1_unc := fun _ => true; g1_grp := fun _ => true; g2_unc := fun _ => true; g2_grp := fun _ => true;
     prog_len := clvm_prog_len; quality := fun _ => None |}.

(* ---------- which leaves does a value contain ---------- *)
Section Collect.
  Variable col : ty -> value -> list bytes.
  Fixpoint col_seq (ts : list ty) (l : list value) : list bytes :=
    match ts, l with
    | t :: ts', x :: l' => col t x ++ col_seq ts' l'
    | _, _ => []
    end.
  Fixpoint col_fields (fs : list (string * ty)) (l : list value) : list bytes :=
    match fs with
    | [] => []
    | f :: fs' => match pack (snd f) l with
                  | Some (v, l') => col (snd f) v ++ col_fields fs' l'
                  | None => []
                  end
    end.
End Collect.

Definition q_entry (k : byte) (b : bytes) : bytes := k :: colon :: to_hex b.

Definition collect_pos (v : value) : list bytes :=
  match v with
  | VList [_; pool_pk; _; VBytes plot_pk; VInt version; _; _; _; _; _] =>
      (match pool_pk with VSome (VBytes b) => [q_entry x61 b] | _ => [] end)
      ++ [q_entry x61 plot_pk]
      ++ (if (version =? 1)%Z then match enc_pos v with Some e => [q_entry x71 e] | None => [] end else [])
  | _ => []
  end.

Fixpoint collect (t : ty) (v : value) {struct t} : list bytes :=
  match t with
  | G1 => match v with VBytes b => [q_entry x61 b] | _ => [] end
  | G2 => match v with VBytes b => [q_entry x62 b] | _ => [] end
  | Opt a => match v with VSome x => collect a x | _ => [] end
  | Vec a | Arr _ a => match v with VList l => flat_map (collect a) l | _ => [] end
  | Tup ts => match v with VList l => col_seq collect ts l | _ => [] end
  | Struct _ _ fs => match v with VList l => col_fields collect fs l | _ => [] end
  | Opt2 a b => match v with
                | VList [oa; ob] =>
                    (match oa with VSome x => collect a x | _ => [] end)
                    ++ (match ob with VSome y => collect b y | _ => [] end)
                | _ => []
                end
  | PoS => collect_pos v
  | _ => []
  end.

(* ---------- type table ---------- *)
Fixpoint find_type (name : bytes) (l : list (string * ty)) : option ty :=
  match l with
  | [] => None
  | (n, t) :: r => if bytes_eqb (str n) name then Some t else find_type name r
  end.

Definition with_type (name : bytes) (k : ty -> bytes) : bytes :=
  match find_type name stream_types with Some t => k t | None => str "ERR-UNKNOWN-TYPE" end.

Definition joinc (l : list bytes) : bytes := match l with [] => [x2d] | _ => join [comma] l end.

Definition err : bytes := str "E".
Definition opt_val (o : option value) : bytes := match o with Some v => render v | None => err end.

(* need T b HEX | need T v VALTEXT *)
Definition h_need (args : list bytes) : bytes :=
  with_type (arg 0 args) (fun t =>
    match arg 1 args with
    | [m] =>
        if byte_eqb m x62 then
          match decode ora_all true t (hx (arg 2 args)) with
          | Some (v, _) => joinc (collect t v)
          | None => [x2d]
          end
        else match parse_value (arg 2 args) with
             | Some v => joinc (collect t v)
             | None => str "ERR-VALUE-SYNTAX"
             end
    | _ => str "ERR-MODE"
    end).

Definition hash_o (O : oracles) (t : ty) (v : value) : bytes :=
  match hash_of sha256 O t v with Some h => to_hex h | None => str "PANIC" end.

(* rt T HEX ORA *)
Definition h_rt (args : list bytes) : bytes :=
  with_type (arg 0 args) (fun t =>
    let bs := hx (arg 1 args) in
    let O := ora_of (parse_ora (arg 2 args)) in
    let u := from_bytes O t bs in
    let tv := from_bytes_unchecked O t bs in
    let p := match decode O false t bs with
             | Some (_, r) => to_dec (nlen bs - nlen r)
             | None => err
             end in
    words [ str "U:" ++ opt_val u; str "T:" ++ opt_val tv; str "P:" ++ p;
            str "B:" ++ match tv with
                        | Some v => match encode t v with Some e => hexo e | None => err end
                        | None => [x2d]
                        end;
            str "H:" ++ match tv with Some v => hash_o O t v | None => [x2d] end ]).

(* enc T VALTEXT ORA *)
Definition rt_flag (O : oracles) (tr : bool) (t : ty) (v : value) (e : option bytes) : bytes :=
  match e with
  | None => err
  | Some b => match from_bytes_gen O tr t b with
              | Some v' => boolo (value_eqb v v')
              | None => err
              end
  end.

Definition h_enc (args : list bytes) : bytes :=
  with_type (arg 0 args) (fun t =>
    match parse_value (arg 1 args) with
    | None => str "ERR-VALUE-SYNTAX"
    | Some v =>
        let O := ora_of (parse_ora (arg 2 args)) in
        let e := encode t v in
        words [ str "B:" ++ match e with Some b => hexo b | None => err end;
                str "H:" ++ hash_o O t v;
                str "R:" ++ rt_flag O false t v e;
                str "RT:" ++ rt_flag O true t v e ]
    end).

(* types: the list of type names, so that the driver enumerates exactly the model's table *)
Definition h_types (_ : list bytes) : bytes := join [comma] (map (fun p => str (fst p)) stream_types).

Definition wire_handlers : list (bytes * handler) :=
  [ (str "wire.need", h_need); (str "wire.rt", h_rt); (str "wire.enc", h_enc); (str "wire.types", h_types) ].

Definition dispatch_n (line : list N) : list N :=
  map b2n (dispatch_table wire_handlers (map n2b line)).
