(* Extraction of the `wire` model runner.  Only ExtrOcamlBasic is used: bool, option, unit,
   list, prod, sumbool map to OCaml's; N/Z/positive/byte/string stay Coq inductives.
   No Extract Constant, no other Extract Inductive. *)
From Coq Require Import ExtrOcamlBasic.
From ChiaV.Run Require Import WireRun.
Extraction Language OCaml.
Extraction "../.cache/extract/wire/vrun_core.ml" dispatch_n.
