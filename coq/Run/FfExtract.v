(* Extraction of the `ff` model runner.  Only ExtrOcamlBasic is used: bool, option, unit,
   list, prod, sumbool map to OCaml's; N/Z/positive/byte stay Coq inductives.
   No Extract Constant, no other Extract Inductive. *)
From Coq Require Import ExtrOcamlBasic.
From ChiaV.Run Require Import FfRun.
Extraction Language OCaml.
Extraction "../.cache/extract/ff/vrun_core.ml" dispatch_n.
