(* Extraction of the `thash` model runner.  Only ExtrOcamlBasic is used: bool, option, unit,
   list, prod, sumbool map to OCaml's; N/Z/positive/nat/byte stay Coq inductives.
   No Extract Constant, no other Extract Inductive. *)
From Coq Require Import ExtrOcamlBasic.
From ChiaV.Run Require Import ThashRun.
Extraction Language OCaml.
Extraction "../.cache/extract/thash/vrun_core.ml" dispatch_n.
